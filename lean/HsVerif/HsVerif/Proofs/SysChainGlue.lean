import HsVerif.Proofs.SysChain
import HsVerif.Props.C05Cover
/-!
The link between the recovery round (`recovery_from_reachable`, Proofs/SysRecovery.lean, Props/C05Cover.lean) and phase A
of the chain (Proofs/SysChain.lean): task S12b.  Helpers; the property theorems are in Props/C05Chain.lean.

* Replica level: `syncL_absorb` (a late timeout message only refreshes the high certificates of a synchronised leader),
  `ld_timeout_quorum` — the EXACT step of the fixed leader on the timeout message that completes its quorum
  (`onRemoteTimeout_quorum_run` with `collector_quorum`, `createAndPropose_run`, `aggregateVote_self`,
  `collectVote_add_run`, `tcL_core`, the trailing collector filter, `runLoop_quiet`): `SyncL` at `(v + 1, b')`, `WalkZ b'`,
  empty collector, the proposals are exactly the messages; `rcoll_quorum_outs` (a replica that is not the leader sends
  no proposal in the timeout round), `route_noprop`.
* `SyncPre`: what is assumed of the start state beyond `RecPre` (docstring: which clauses are synchrony facts).
* System: `RecX` sharpens `RecInv` (before the leader's quorum no proposal is in flight; after it the leader's exact
  state and the exact proposals in flight); `recx_step` re-runs the case analysis of `rec_step` with the exact step
  lemmas (`rcoll_add`, `rmoved_add`, `rcoll_quorum_outs`, `ld_timeout_quorum`, `step_timeout_stale`), `recx_deliver` carries
  both invariants; `recovery_round_done` (the state after the round: `RecDone`, with `NLReady` for the others from `RMoved`,
  `KnowsAll`, `RecSetup.cover`, the lock bound of `top_block_covers_lock`); the proposal round `PAInv` / `pa_step`
  (`nl_step_cur`) / `pa_deliver` / `recDone_phaseA`; `propsIn_of_pool`; `recovery_reaches_phaseA`.
Technique: see Proofs/SysChain.lean; in addition, a goal that mentions a kernel-evaluated definition such as `nvA` must be
`unfold`ed before `exact` with a hypothesis about the unfolded term (the elaborator's defeq check otherwise evaluates the run).
-/
open Std.Do
set_option mvcgen.warning false
set_option linter.unusedSimpArgs false
set_option linter.unusedVariables false
namespace HsVerif.Model
open HsVerif.Proofs HsVerif.Props.C08 HsVerif.Props.C01Sys HsVerif.Props.C01SysWF HsVerif.Props.C03 HsVerif.SysSafety
open HsVerif.Props.C05Cover

/-! ## the leader in the recovery round, exactly -/

/-- `SyncL` survives the refresh of the high certificates by a late timeout message -/
theorem syncL_absorb {c : RCfg} {w N : Nat} {B P : Block} {vs : List (Nat × Sig)} {s : RState}
    (h : SyncL c w N B P vs s) (q : QC) (nb : Block) (tc0 : TC) (hqv : q.view < w) (hqn : q.view = nb.view) :
    SyncL c w N B P vs { absorbS s q nb tc0 with out := [] } := by
  have hc := h.core
  have hhq : (absorbS s q nb tc0).highQC.view < w ∧ P.view ≤ (absorbS s q nb tc0).highQC.view := by
    show (if nb.view ≤ s.highQC.view then s.highQC else q).view < w ∧ P.view ≤ (if nb.view ≤ s.highQC.view then s.highQC else q).view
    have := h.hqge
    have := hc.hq
    split <;> constructor <;> omega
  exact ⟨⟨hc.view, hc.lastVoted, hc.queue, hc.wvc, hc.wprop, hc.fetch, hc.bhash, hc.bview, hc.hasB, hc.hasP, hc.pview,
    hhq.1, hc.lock, hc.names, hc.small⟩, h.lastProposed, h.votes, h.valid, h.nodup, hhq.2⟩

/-- **the timeout message that completes the quorum at the (fixed) leader**, exactly: it assembles the timeout
certificate, enters view `w + 1`, proposes `b'` on its high QC (certifying the stored block `hb`), runs the committer
and keeps its own vote — it is synchronised at `(w + 1, b')` as leader, with an empty collector, and the committer can
walk from `b'` down if it could from `hb`; the proposals are exactly the messages of the step -/
theorem ld_timeout_quorum (k : Keys) (c : RCfg) (w N : Nat) (s : RState) (t : TimeoutMsg) (q : QC) (nb hb P : Block) (tc0 : TC)
    (hs : c.scheme ≠ .bls12) (ha : c.agg = false) (hr : c.rules = .chained ∨ c.rules = .simple)
    (hid : c.cfg.has c.id = true) (hlead : ∀ v, c.leader v = c.id) (hq2 : 2 ≤ c.cfg.quorum)
    (hf : FreshS s) (hq0 : s.queue = []) (hwvc : s.waitingVC = []) (hwprop : s.waitingProp = [])
    (hfe : s.chain.fetchable = [])
    (hacc : Accepted (fun b => s.truth.lookup b) c.cfg t)
    (hsi : t.si = { qc := some q, tc := some tc0 })
    (htc0 : verifyTC (env k c s) tc0 = true) (hq : verifyQC (env k c s) q = true)
    (hnb : s.chain.blocks.lookup q.hash = some nb) (hv1 : tc0.view < s.view) (hv2 : q.view < s.view)
    (htv : t.view = s.view) (hv0 : s.view ≠ 0) (hview : s.view = w)
    (hall : ∀ x ∈ s.timeouts, x.view = t.view) (hids : ((s.timeouts ++ [t]).map (·.id)).Nodup)
    (hge : c.cfg.quorum ≤ s.timeouts.length + 1) (h2 : 2 ≤ s.timeouts.length + 1)
    (haccs : ∀ x ∈ s.timeouts, Accepted (fun b => s.truth.lookup b) c.cfg x)
    (hhq : verifyQC (env k c s) (absorbS s q nb tc0).highQC = true)
    (hhb : s.chain.blocks.lookup (absorbS s q nb tc0).highQC.hash = some hb)
    (hhv : (absorbS s q nb tc0).highQC.view < s.view) (hhbv : hb.view ≤ (absorbS s q nb tc0).highQC.view)
    (hlv : s.lastVoted ≤ w) (hready : RuleReady c s (w + 1) hb)
    (hmark : markWalk (s.chain.fuel + 1) s.chain.blocks s.lastProposed hb = true)
    (hP : s.chain.blocks.lookup hb.qc.hash = some P) (hPv : P.view ≤ w) (hlock : s.lock.view ≤ w)
    (hcm : s.committed.view ≤ w)
    (hnames : ∀ u, w < u → s.chain.blocks.lookup (pname u) = none ∧ s.votes.lookup (pname u) = none)
    (hsmall : 2 * s.chain.blocks.length + (w + 1) ≤ N) (hN : N + 12 ≤ 99999)
    (hwalk : cmWalk (s.chain.blocks.length + 2) s.chain.blocks s.committed.view hb = true) :
    ∃ (bytes' : Nat) (b' : Block),
      b'.hash = pname (w + 1) ∧ b'.parent = b'.qc.hash ∧ b'.view = w + 1 ∧ b'.qc = (absorbS s q nb tc0).highQC ∧
      b'.proposer = c.id ∧
      SyncL c (w + 1) (N + 2) b' hb [(c.id, .multi c.scheme [⟨c.id, bytes'⟩])] (step k c s (.timeout t)).1 ∧
      WalkZ b' (step k c s (.timeout t)).1 ∧ (step k c s (.timeout t)).1.timeouts = [] ∧
      FreshS (step k c s (.timeout t)).1 ∧ Ext s (step k c s (.timeout t)).1 ∧
      (∀ C : SysCfg, route C c.id (step k c s (.timeout t)).2 =
        (C.honest.filter (· != c.id)).map (fun x => (x, Ev.propose c.id b' none))) := by
  subst hview
  let s0 : RState := { s with out := [], queue := s.queue ++ [.timeout t] }
  let sA : RState := { s0 with queue := [] }
  have hnew : ∀ x ∈ s.timeouts, x.id ≠ t.id := by
    intro x hx e
    simp only [List.map_append, List.map_cons, List.map_nil] at hids
    rw [List.nodup_append] at hids
    exact hids.2.2 _ (List.mem_map_of_mem hx) _ (by simp) e
  obtain ⟨sigs, sg, hmap, hcomb, htc⟩ := tc_data k c sA s.timeouts t hall hids hge h2
    (by intro x hx
        simp only [List.mem_append, List.mem_singleton] at hx
        rcases hx with hx | rfl
        · exact haccs x hx
        · exact hacc)
  have hrun := onRemoteTimeout_quorum_run k c sA t q nb hb tc0 [] (s.timeouts ++ [t]) sigs sg ha hacc hsi htc0 hq hnb hv1 hv2
    htv (by rw [htv]; exact hv0) (collector_quorum _ _ _ hall hnew hge) hmap hcomb htc hhq hhb hhv
  let hq' : QC := (absorbS sA q nb tc0).highQC
  let tc : TC := ⟨some sg, t.view⟩
  let m : RState := movedTS { absorbS sA q nb tc0 with timeouts := [] } tc
  have hmview : m.view = s.view + 1 := rfl
  let b' : Block := newBlock c m hq'
  have hb'hash : b'.hash = pname (s.view + 1) := by
    show (mkBlock c m.view m.nextCmd hq').hash = _; rw [mkBlock_hash, hmview]
  have hb'view : b'.view = s.view + 1 := rfl
  have hcp0 := createAndPropose_run k c m hq' hb (some tc) hs (by rcases hr with h | h <;> rw [h] <;> decide) hhb
    (markProposed_walk _ hb m hmark)
    (by show s.lastVoted < s.view + 1; omega)
    (fun s' hc hl => voteRule_ready c s' _ hb _ (ruleReady_congr c s s' _ hb hc hl hready) (by rw [hc]; exact hhb) (Nat.le_refl _) rfl)
    hhq (by show (absorbS s q nb tc0).highQC.view < s.view + 1; omega) (hlead _).symm
  let v3 := voteS c b' c.id (propS m)
  have hfm : FreshS (propS m) := hf
  obtain ⟨ho3, hl3, hf3, hc3⟩ := voteS_facts c b' c.id (propS m) hfm
  obtain ⟨w1, w2, w3, w4, w5, w6, w7, w8, w9, w10, w11⟩ := voteS_fields c b' c.id (propS m)
  have hv3chain : v3.chain = s.chain := hc3
  have hfe3 : v3.chain.fetchable = [] := by rw [hv3chain]; exact hfe
  have htcl : tcS c b' v3 = tcL c b' v3 := tcS_eq_tcL c (by rcases hr with h | h <;> rw [h] <;> decide) b' v3 hfe3
  have hnewB : v3.chain.blocks.lookup b'.hash = none := by rw [hv3chain, hb'hash]; exact (hnames (s.view + 1) (by omega)).1
  have hhbl : s.chain.blocks.lookup b'.qc.hash = some hb := hhb
  obtain ⟨t1, t2, t3, evs, t4, t5, t6, t7⟩ := tcL_core c hr b' hb P (s.view + 1) N v3 hfe3 hnewB
    (by rw [hv3chain]; exact hhbl) (by omega) (by rw [hv3chain]; exact hP) (by omega)
    (by rw [show v3.lock = (propS m).lock from w5]; show s.lock.view < _; omega) (by rw [hv3chain]; exact hsmall)
  rw [← htcl] at t1 t2 t3 t4
  rw [hv3chain] at t1
  let s6 : RState := { tcS c b' v3 with out := (tcS c b' v3).out ++ [.sendPropose b' none] }
  have hft := tcS_fresh c b' v3 hf3
  have htcp := tcS_tcp c b' v3
  simp only [TCP, Prod.mk.injEq] at htcp
  obtain ⟨p1, p2, p3, p4, p5, p6, p7, p8, p9, p10, p11, p12, p13, p14, p15⟩ := htcp
  have hs6truth : s6.truth = v3.truth := p12
  have hs6hq : s6.highQC = hq' := by
    show (tcS c b' v3).highQC = _; rw [p2]; exact w2
  have hs6votes : s6.votes = s.votes := by
    show (tcS c b' v3).votes = _; rw [p8]; exact w7
  have hs6lk : s6.chain.blocks.lookup b'.hash = some b' := by
    show (tcS c b' v3).chain.blocks.lookup _ = _; rw [t1]; simp
  have hs6vl : (s6.votes.lookup b'.hash).getD [] = [] := by
    rw [hs6votes, hb'hash, (hnames (s.view + 1) (by omega)).2]; rfl
  have hhqlt : s6.highQC.view < b'.view := by
    rw [hs6hq, hb'view]; show (absorbS s q nb tc0).highQC.view < _; omega
  have hcv2 := collectVote_add_run k c s6 c.id c.id (signBytes c (blkMsg b'.hash) (propS m)) b'.hash b' false
    hs6lk rfl hhqlt
    (verify_single _ c.cfg c.id _ _ hs hid (by rw [hs6truth]; exact hl3))
    (by rw [hs6vl]; simp) (by rw [hs6vl]; simp; omega)
  let F : RState := addVoteS s6 b'.hash c.id (voteSig c b' (propS m))
  have hcp : (createAndPropose k c { qc := some hq', tc := some tc }).run m = pure ((), F) := by
    rw [hcp0, aggregateVote_self k c b' _ _ (by rw [hlead])]
    exact hcv2
  have hFto : F.timeouts = [] := by
    show (tcS c b' v3).timeouts = _; rw [p6]
    show (voteS c b' c.id (propS m)).timeouts = _
    unfold voteS signState; split <;> rfl
  let s7 : RState := { F with timeouts := F.timeouts.filter (fun x => !(x.view < s.view)) }
  have hrun' : (onRemoteTimeout k c t).run sA = pure ((), s7) := by
    rw [hrun, if_pos (hlead _), run_then_modify]
    exact congrArg (fun r : Id (Unit × RState) =>
      (pure ((), { r.2 with timeouts := r.2.timeouts.filter (fun x => !(x.view < s.view)) }) : Id (Unit × RState))) hcp
  have hs7 : s7 = F := by
    show ({ F with timeouts := F.timeouts.filter _ } : RState) = F
    rw [hFto]; simp only [List.filter_nil]
    rw [← hFto]
  rw [hs7] at hrun'
  have ht1 : (tick k c).run s0 = pure (true, F) := tick_timeout k c s0 F t [] (by show s.queue ++ _ = _; rw [hq0]; rfl) hrun'
  let qq : List Ev := [Ev.viewChange (s.view + 1) true] ++ evs
  have hFq : F.queue = qq := by
    show (tcS c b' v3).queue = _
    rw [t4, show v3.queue = (propS m).queue from w8]
    rfl
  have hquiet : ∀ e ∈ qq, e.quiet = true := by
    intro e he
    simp only [qq, List.mem_append, List.mem_singleton] at he
    rcases he with rfl | he
    · rfl
    · exact quiet_of_passive e (t5 e he)
  have hFwvc : F.waitingVC = [] := by
    show (tcS c b' v3).waitingVC = _; rw [p9, show v3.waitingVC = (propS m).waitingVC from w10]; exact hwvc
  have hrest := runLoop_quiet k c qq 99999 F hquiet hFwvc
    (by simp only [qq, List.length_append, List.length_singleton]; omega)
  have hFF : F = { F with queue := qq } := by rw [← hFq]
  have hstep : step k c s (.timeout t) = ({ F with queue := [], out := [] }, F.out ++ qq.map Ev.toOut) := by
    rw [step_run_eq k c s _ (99999 + 1) rfl, runLoop_succ k c _ s0 F ht1, hFF, hrest]
    rfl
  have hFout : F.out = [.sign (blkMsg b'.hash), .sendPropose b' none] := by
    show (tcS c b' v3).out ++ _ = _
    rw [tcS_out, show v3.out = _ from ho3]; rfl
  have hFblocks : F.chain.blocks = (b'.hash, b') :: s.chain.blocks := t1
  have hnewB' : s.chain.blocks.lookup b'.hash = none := by rw [← hv3chain]; exact hnewB
  have hle : StoreLe s.chain.blocks F.chain.blocks := by
    rw [hFblocks]; exact storeLe_cons _ _ hnewB'
  have hextF : Ext s { F with queue := [], out := [] } := by
    have e1 : Ext s (propS m) := ext_of_eq s _ hf.2 rfl rfl rfl
    have e2 := voteS_ext c b' c.id (propS m) hs hfm.2
    have e3 := tcS_ext c b' v3 hf3.2
    have e4 : Ext (tcS c b' v3) { F with queue := [], out := [] } := ext_of_eq _ _ hft.2 rfl rfl rfl
    exact ((e1.trans e2).trans e3).trans e4
  obtain ⟨a1, a2⟩ := addVotes_lookup s6 b'.hash b' ([] ++ [(c.id, voteSig c b' (propS m))]) hs6lk hhqlt
  -- the committed block afterwards
  have hcmv : s.committed.view ≤ (tcS c b' v3).committed.view ∧ (tcS c b' v3).committed.view < s.view + 1 := by
    rw [htcl]
    have hst := (store_new v3.chain b' hnewB).1
    have hl1 : (v3.chain.store b').blocks.lookup b'.qc.hash = some hb := by
      rw [hst]; exact storeLe_cons _ _ hnewB _ _ (by rw [hv3chain]; exact hhbl)
    obtain ⟨_, hcr⟩ := commitRuleL_res c.rules (v3.chain.store b').blocks v3.lock b'
    have hv3cm : v3.committed = s.committed := w6
    unfold tcL
    simp only
    cases hr2 : (commitRuleL c.rules (v3.chain.store b').blocks v3.lock b').2 with
    | none => rw [hv3cm]; exact ⟨Nat.le_refl _, by omega⟩
    | some tt =>
      simp only
      obtain ⟨x1, hx1, htv'⟩ := hcr tt hr2
      rw [hl1] at hx1; cases hx1
      obtain ⟨i1, i2, _, _⟩ := commitInnerL_res ((v3.chain.store b').fuel + 1) (v3.chain.store b').blocks v3.committed tt
      cases hci : (commitInnerL ((v3.chain.store b').fuel + 1) (v3.chain.store b').blocks v3.committed tt).1 with
      | false =>
        simp only [Bool.not_false, if_true]
        rw [i1 hci, hv3cm]; exact ⟨Nat.le_refl _, by omega⟩
      | true =>
        simp only [Bool.not_true, Bool.false_eq_true, if_false]
        rcases i2 hci with ⟨h, _⟩ | ⟨h, hv⟩
        · rw [h, hv3cm]; exact ⟨Nat.le_refl _, by omega⟩
        · rw [h]; rw [hv3cm] at hv; exact ⟨Nat.le_of_lt hv, by omega⟩
  refine ⟨signBytes c (blkMsg b'.hash) (propS m), b', hb'hash, rfl, hb'view, rfl, rfl, ?_, ?_, ?_, ?_, ?_, ?_⟩
  · rw [hstep]
    refine ⟨⟨?_, ?_, rfl, hFwvc, ?_, t2, hb'hash, hb'view, ?_, ?_, ?_, ?_, ?_, ?_, ?_⟩, ?_, ?_, ?_, by simp, ?_⟩
    · show (tcS c b' v3).view = _; rw [p1, show v3.view = (propS m).view from w1]; exact hmview
    · show (tcS c b' v3).lastVoted = _; rw [p4, show v3.lastVoted = b'.view from w11]; exact hb'view
    · show (tcS c b' v3).waitingProp = _; rw [p10, show v3.waitingProp = (propS m).waitingProp from w9]; exact hwprop
    · show F.chain.blocks.lookup b'.hash = _; rw [hFblocks]; simp
    · show F.chain.blocks.lookup b'.qc.hash = _; exact hle _ _ hhbl
    · have : (absorbS s q nb tc0).highQC.view < s.view := hhv
      omega
    · show s6.highQC.view < _; rw [hs6hq]; show (absorbS s q nb tc0).highQC.view < _; omega
    · show (tcS c b' v3).lock.view < _; exact t3
    · intro u hu
      refine ⟨?_, ?_⟩
      · show F.chain.blocks.lookup (pname u) = none
        rw [hFblocks, List.lookup_cons]
        have : (pname u == b'.hash) = false := by
          rw [beq_eq_false_iff_ne, hb'hash]; intro e; have := pname_inj e; omega
        rw [this]; exact (hnames u (by omega)).1
      · show (cleanVotes s6 _).lookup (pname u) = none
        rw [hs6vl]
        exact a2 (pname u) (by rw [hb'hash]; intro e; have := pname_inj e; omega)
          (by rw [hs6votes]; exact (hnames u (by omega)).2)
    · show 2 * F.chain.blocks.length + (s.view + 1) ≤ N + 2
      rw [hFblocks]; simp only [List.length_cons]; omega
    · show (tcS c b' v3).lastProposed = _; rw [p5, show v3.lastProposed = (propS m).lastProposed from w3]; exact hmview
    · show (cleanVotes s6 _).lookup b'.hash = _
      rw [hs6vl]; exact a1
    · intro x hx
      simp only [List.mem_singleton] at hx
      subst hx
      refine ⟨hid, Or.inl ⟨hs, _, rfl, ?_⟩⟩
      show s6.truth.lookup _ = _
      rw [hs6truth]; exact hl3
    · show hb.view ≤ s6.highQC.view; rw [hs6hq]; exact hhbv
  · rw [hstep]
    refine ⟨?_, ?_⟩
    · show cmWalk (F.chain.blocks.length + 2) F.chain.blocks (tcS c b' v3).committed.view b' = true
      rw [hFblocks]
      simp only [List.length_cons]
      unfold cmWalk
      rw [if_neg (by rw [hb'view]; omega)]
      have : ((b'.hash, b') :: s.chain.blocks).lookup b'.parent = some hb := storeLe_cons _ _ hnewB' _ _ hhbl
      rw [this]
      exact cmWalk_mono _ _ _ _ _ _ hb (by omega) (storeLe_cons _ _ hnewB') hcmv.1 hwalk
    · show (tcS c b' v3).committed.view < b'.view; rw [hb'view]; exact hcmv.2
  · rw [hstep]; exact hFto
  · rw [hstep]; exact hft
  · rw [hstep]; exact hextF
  · intro C
    rw [hstep]
    show route C c.id (F.out ++ qq.map Ev.toOut) = _
    rw [route_append, hFout, route_silent C c.id (qq.map Ev.toOut) (by
      intro o ho
      obtain ⟨e, he, rfl⟩ := List.mem_map.mp ho
      exact toOut_silent e (hquiet e he))]
    simp [route]



/-! ## the recovery round, with the leader's exact state and the exact proposals in flight -/

/-- a proposal in flight -/
def isProp (m : Nat × Ev) : Bool := match m.2 with | .propose _ _ _ => true | _ => false

/-- effects without a proposal -/
def NoProp (outs : List Out) : Prop := ∀ b agg, Out.sendPropose b agg ∉ outs

theorem route_noprop (C : SysCfg) (i : Nat) (outs : List Out) (h : NoProp outs) : ∀ m ∈ route C i outs, isProp m = false := by
  induction outs with
  | nil => intro m hm; simp [route] at hm
  | cons o rest ih =>
    have hr : NoProp rest := fun b agg hm => h b agg (List.mem_cons_of_mem _ hm)
    intro m hm
    cases o with
    | sendPropose b agg => exact absurd (List.mem_cons_self) (h b agg)
    | sendVote to sig hh =>
      simp only [route, List.mem_cons] at hm
      rcases hm with rfl | hm
      · rfl
      · exact ih hr m hm
    | sendNewView to si =>
      simp only [route, List.mem_cons] at hm
      rcases hm with rfl | hm
      · rfl
      · exact ih hr m hm
    | sendTimeout t =>
      simp only [route, List.mem_append, List.mem_map] at hm
      rcases hm with ⟨j, _, rfl⟩ | hm
      · rfl
      · exact ih hr m hm
    | sign _ => exact ih hr m (by simpa [route] using hm)
    | viewChange _ _ => exact ih hr m (by simpa [route] using hm)
    | commit _ => exact ih hr m (by simpa [route] using hm)
    | exec _ => exact ih hr m (by simpa [route] using hm)
    | abort _ => exact ih hr m (by simpa [route] using hm)
    | panic => exact ih hr m (by simpa [route] using hm)

/-- `rcoll_quorum` with the effects exposed: a replica that is not the next leader sends no proposal -/
theorem rcoll_quorum_outs (k : Keys) (C : SysCfg) (D : RecData) (s0 s : RState) (j i : Nat) (frm : List Nat)
    (T : List (Nat × Atom)) (nb : Nat)
    (ha : C.agg = false) (hv0 : D.v ≠ 0) (hq2 : 2 ≤ (C.rcfg j).cfg.quorum)
    (hj : j ∈ C.honest) (hfrm : ∀ x ∈ frm, x ∈ C.honest) (hi : i ∈ C.honest)
    (hnd : (j :: frm).Nodup) (hnew : i ∉ j :: frm) (hw0 : s0.waitingVC = [])
    (hc : RColl C D s0 j frm s) (hk : KnowsAll k C D j { s with truth := T, nextBytes := nb })
    (hge : (C.rcfg j).cfg.quorum ≤ frm.length + 2)
    (hl : (C.rcfg j).leader (D.v + 1) ≠ j) :
    NoProp (step k (C.rcfg j) { s with truth := T, nextBytes := nb } (.timeout (D.tmsg C i))).2 := by
  obtain ⟨q1, q2, q3, q4⟩ := hk.qc i hi
  obtain ⟨t1, t2⟩ := hk.tc i hi
  have hmem' : absI D.bv j (frm ++ [i]) ∈ C.honest := by
    have := absI_mem D.bv (frm ++ [i]) j
    simp only [List.mem_cons, List.mem_append, List.mem_singleton, List.not_mem_nil, or_false] at this
    rcases this with h | h | h
    · rw [h]; exact hj
    · exact hfrm _ h
    · rw [h]; exact hi
  have hmem : absI D.bv j frm ∈ C.honest := by
    have := absI_mem D.bv frm j
    simp only [List.mem_cons] at this
    rcases this with h | h
    · rw [h]; exact hj
    · exact hfrm _ h
  have habs := absorb_hq C D { s with truth := T, nextBytes := nb } j i frm (D.htc i) hc.hqc (hk.qc _ hmem).2.2.1
  obtain ⟨a1, a2, a3, a4⟩ := hk.qc _ hmem'
  have htouts : ({ s with truth := T, nextBytes := nb } : RState).timeouts = D.tmsg C j :: frm.map (D.tmsg C) := hc.touts
  obtain ⟨sg, _, hstep⟩ := step_timeout_quorum_exact k (C.rcfg j) { s with truth := T, nextBytes := nb } (D.tmsg C i) (D.hq i) (D.hb i)
    (D.hb (absI D.bv j (frm ++ [i]))) (D.htc i) ha hc.queue (by show s.waitingVC = []; rw [hc.frame.wvc]; exact hw0)
    (hk.acc i hi) rfl t1 q1 q2 (by show _ < s.view; rw [hc.view]; exact t2) (by show _ < s.view; rw [hc.view]; exact q4)
    (by show D.v = s.view; rw [hc.view]) (by show s.view ≠ 0; rw [hc.view]; exact hv0)
    (by rw [htouts]
        intro x hx
        simp only [List.mem_cons, List.mem_map] at hx
        rcases hx with rfl | ⟨y, _, rfl⟩ <;> rfl)
    (by rw [htouts]
        have : (D.tmsg C j :: frm.map (D.tmsg C) ++ [D.tmsg C i]).map (·.id) = (j :: frm) ++ [i] := by
          have := tmsg_ids C D ((j :: frm) ++ [i])
          simpa using this
        rw [this, List.nodup_append]
        refine ⟨hnd, by simp, ?_⟩
        intro a ha' b hb'
        simp at hb'; subst hb'
        exact fun e => hnew (e ▸ ha'))
    (by rw [htouts]; simp; omega) (by rw [htouts]; simp)
    (by rw [htouts]
        intro x hx
        simp only [List.mem_cons, List.mem_map] at hx
        rcases hx with rfl | ⟨y, hy, rfl⟩
        · exact hk.acc j hj
        · exact hk.acc y (hfrm y hy))
    (by rw [habs]; exact a1) (by rw [habs]; exact a2) (by rw [habs]; show _ < s.view; rw [hc.view]; exact a4)
    (by show (C.rcfg j).leader (s.view + 1) ≠ j; rw [hc.view]; exact hl)
  rw [hstep]
  intro b agg hm
  simp at hm

/-- **what is assumed of the start state for the chain of views after the recovery** (beyond `RecPre`).
Synchrony-after-GST facts (statements about what the replicas have received and stored): `par` — the block certified by
the certificate of a `Top` block is stored everywhere and is not newer than `v` (sharpens `RecPre.parents`: genesis as
`Top` block is excluded) —, `walk` — the committer of every replica can walk from every `Top` block down to its committed
block over stored parents —, `fetch` — no block fetch is answered —, `wprop` — no vote waits for a proposal.
Bookkeeping (derivable in principle from reachability, or artefacts of the model): `committed` (a committed block is
older than the view), `names` (the names `P<u>` of future proposals are unused in the store and in the voting machine:
hashes are names in the model), `small` and `bound` (store size and view are small against the fuel 100000 of the
model's event loop). -/
structure SyncPre (C : SysCfg) (D : RecData) (s0 : Nat → RState) (N : Nat) : Prop where
  fetch : ∀ j ∈ C.honest, (s0 j).chain.fetchable = []
  wprop : ∀ j ∈ C.honest, (s0 j).waitingProp = []
  names : ∀ j ∈ C.honest, ∀ u, D.v < u →
    (s0 j).chain.blocks.lookup (pname u) = none ∧ (s0 j).votes.lookup (pname u) = none
  par : ∀ j ∈ C.honest, ∀ i ∈ C.honest, Top C D i →
    ∃ P, (s0 j).chain.blocks.lookup (D.hb i).qc.hash = some P ∧ P.view ≤ D.v
  committed : ∀ j ∈ C.honest, (s0 j).committed.view ≤ D.v
  small : ∀ j ∈ C.honest, 2 * (s0 j).chain.blocks.length + (D.v + 1) ≤ N
  walk : ∀ j ∈ C.honest, ∀ i ∈ C.honest, Top C D i →
    cmWalk ((s0 j).chain.blocks.length + 2) (s0 j).chain.blocks (s0 j).committed.view (D.hb i) = true
  bound : N + 20 ≤ 99999

/-- the recovery round, sharpened: before the leader's quorum no proposal is in flight; after it the leader is
synchronised at `(v + 1, b')` on its proposal `b'` (on the highest high QC `D.hq i` of a quorum), with an empty collector,
and the proposals in flight are exactly those of `b'` -/
structure RecX (C : SysCfg) (L : Nat) (D : RecData) (s0 : Nat → RState) (N : Nat) (rec : Nat → List Nat)
    (x : SysState × Msgs) : Prop where
  before : (rec L).length + 1 < (C.rcfg 0).cfg.quorum → ∀ m ∈ x.2, isProp m = false
  after : (C.rcfg 0).cfg.quorum ≤ (rec L).length + 1 → ∃ (i : Nat) (b' : Block) (sL : RState) (sgL : Sig),
    i ∈ C.honest ∧ Top C D i ∧ b'.hash = pname (D.v + 1) ∧ b'.parent = b'.qc.hash ∧ b'.view = D.v + 1 ∧
    b'.qc = D.hq i ∧ b'.proposer = L ∧ x.1.reps.lookup L = some sL ∧
    SyncL (C.rcfg L) (D.v + 1) (N + 2) b' (D.hb i) [(L, sgL)] { sL with truth := x.1.truth, nextBytes := x.1.nextBytes } ∧
    WalkZ b' sL ∧ sL.timeouts = [] ∧ StoreLe (s0 L).chain.blocks sL.chain.blocks ∧
    (∀ m ∈ x.2, isProp m = true → ∃ j, m = propMsg L b' j) ∧ (∀ j ∈ C.honest, j ≠ L → propMsg L b' j ∈ x.2)



theorem isProp_propMsg (L : Nat) (b' : Block) (j : Nat) : isProp (propMsg L b' j) = true := rfl

/-- **one timeout message is delivered** (the sharpened invariant) -/
theorem recx_step (k : Keys) (C : SysCfg) (L N : Nat) (D : RecData) (s0 : Nat → RState) (T0 : List (Nat × Atom))
    (hC : HappyCfg C L) (hS : RecSetup k C D s0 L T0) (hY : SyncPre C D s0 N)
    (hlockv : ∀ j ∈ C.honest, ∀ i ∈ C.honest, Top C D i → (s0 j).lock.view ≤ (D.hb i).view)
    (rec : Nat → List Nat) (σ : SysState) (acc : Msgs) (j i : Nat)
    (hinv : RecInv k C D s0 L T0 rec (σ, acc)) (hx : RecX C L D s0 N rec (σ, acc))
    (hj : j ∈ C.honest) (hi : i ∈ C.honest) (hij : i ≠ j) (hnew : i ∉ rec j) :
    RecX C L D s0 N (recUpd rec j i) (deliverAll k C (σ, acc) [(j, Ev.timeout (D.tmsg C i))]) := by
  have hq : 2 ≤ (C.rcfg 0).cfg.quorum ∧ (C.rcfg 0).cfg.quorum ≤ C.n := quorum_bounds C.n hS.two
  have hqj : ∀ x, (C.rcfg x).cfg.quorum = (C.rcfg 0).cfg.quorum := fun _ => rfl
  obtain ⟨hrnd, hrmem⟩ := hinv.recs j hj
  have hnew' : i ∉ j :: rec j := by
    simp only [List.mem_cons, not_or]; exact ⟨hij, hnew⟩
  have hknow : ∀ (s : RState), Frame (s0 j) s → KnowsAll k C D j { s with truth := σ.truth, nextBytes := σ.nextBytes } := by
    intro s hf
    exact (hS.init j hj).2.2.2.mono (by show s.chain = (s0 j).chain; exact hf.chain) (fun b a hb => hinv.table b a hb)
  have hLmem := hC.leader
  by_cases hjl : j = L
  · subst hjl
    by_cases hlt : (rec j).length + 1 < (C.rcfg 0).cfg.quorum
    · obtain ⟨s, hl, hc⟩ := hinv.leaderC hlt
      obtain ⟨σ', hd, r1, r2, r3⟩ := deliver_effect k C σ acc j (Ev.timeout (D.tmsg C i)) s hl
      rw [hd]
      by_cases hlt2 : (rec j).length + 2 < (C.rcfg 0).cfg.quorum
      · -- still collecting
        obtain ⟨s', hstep, hc', ht, hn⟩ := rcoll_add k C D (s0 j) s j i (rec j) σ.truth σ.nextBytes hS.agg hj hrmem hi hnew' hc
          (hknow s hc.frame) (by rw [hqj]; exact hlt2)
        rw [hstep]
        refine ⟨?_, ?_⟩
        · intro _ m hm
          simp only [route, List.append_nil] at hm
          exact hx.before hlt m hm
        · intro hge
          rw [recUpd_same] at hge
          simp only [List.length_append, List.length_singleton] at hge
          omega
      · -- the quorum
        let sT : RState := { s with truth := σ.truth, nextBytes := σ.nextBytes }
        have hk := hknow s hc.frame
        obtain ⟨q1, q2, q3, q4⟩ := hk.qc i hi
        obtain ⟨t1, t2⟩ := hk.tc i hi
        have hmi : absI D.bv j (rec j ++ [i]) ∈ C.honest := by
          have := absI_mem D.bv (rec j ++ [i]) j
          simp only [List.mem_cons, List.mem_append, List.mem_singleton, List.not_mem_nil, or_false] at this
          rcases this with h | h | h
          · rw [h]; exact hj
          · exact hrmem _ h
          · rw [h]; exact hi
        have hmem : absI D.bv j (rec j) ∈ C.honest := by
          have := absI_mem D.bv (rec j) j
          simp only [List.mem_cons] at this
          rcases this with h | h
          · rw [h]; exact hj
          · exact hrmem _ h
        have hnd' : (j :: (rec j ++ [i])).Nodup := by
          rw [List.nodup_cons] at hrnd ⊢
          refine ⟨?_, ?_⟩
          · simp only [List.mem_append, List.mem_singleton, not_or]
            exact ⟨hrnd.1, fun e => hij e.symm⟩
          · rw [List.nodup_append]
            exact ⟨hrnd.2, by simp, by intro a ha b hb; simp at hb; subst hb; exact fun e => hnew (e ▸ ha)⟩
        have htop : Top C D (absI D.bv j (rec j ++ [i])) := by
          refine ⟨j :: (rec j ++ [i]), hnd', ?_, ?_, absI_mem D.bv _ j, ?_⟩
          · intro x hx'
            simp only [List.mem_cons, List.mem_append, List.mem_singleton, List.not_mem_nil, or_false] at hx'
            rcases hx' with rfl | hx' | rfl
            · exact hj
            · exact hrmem x hx'
            · exact hi
          · simp only [List.length_cons, List.length_append, List.length_singleton]; omega
          · intro x hx'
            obtain ⟨h1, h2⟩ := absI_max D.bv (rec j ++ [i]) j
            simp only [List.mem_cons] at hx'
            rcases hx' with rfl | hx'
            · exact h1
            · exact h2 x hx'
        have habs := absorb_hq C D sT j i (rec j) (D.htc i) hc.hqc (hk.qc _ hmem).2.2.1
        obtain ⟨a1, a2, a3, a4⟩ := hk.qc _ hmi
        have htouts : sT.timeouts = D.tmsg C j :: (rec j).map (D.tmsg C) := hc.touts
        obtain ⟨P, hP1, hP2⟩ := hY.par j hj _ hmi htop
        have hch : sT.chain = (s0 j).chain := hc.frame.chain
        obtain ⟨bytes', b', e1, e2, e3, e4, e5, e6, e7, e8, e9, e10, e11⟩ := ld_timeout_quorum k (C.rcfg j) D.v N sT (D.tmsg C i)
          (D.hq i) (D.hb i) (D.hb (absI D.bv j (rec j ++ [i]))) P (D.htc i) hS.scheme hS.agg hC.rules (hC.has j j hj)
          (fun v => hC.lead j v) (by rw [hqj]; exact hq.1) hinv.fresh hc.queue
          (by show s.waitingVC = []; rw [hc.frame.wvc]; exact (hS.init j hj).2.1)
          (by show s.waitingProp = []; rw [hc.frame.wprop]; exact hY.wprop j hj)
          (by rw [hch]; exact hY.fetch j hj)
          (hk.acc i hi) rfl t1 q1 q2 (by show _ < s.view; rw [hc.view]; exact t2) (by show _ < s.view; rw [hc.view]; exact q4)
          (by show D.v = s.view; rw [hc.view]) (by show s.view ≠ 0; rw [hc.view]; exact hS.v0) hc.view
          (by rw [htouts]
              intro x hx'
              simp only [List.mem_cons, List.mem_map] at hx'
              rcases hx' with rfl | ⟨y, _, rfl⟩ <;> rfl)
          (by rw [htouts]
              have : (D.tmsg C j :: (rec j).map (D.tmsg C) ++ [D.tmsg C i]).map (·.id) = (j :: rec j) ++ [i] := by
                have := tmsg_ids C D ((j :: rec j) ++ [i])
                simpa using this
              rw [this, List.nodup_append]
              refine ⟨hrnd, by simp, ?_⟩
              intro a ha' b hb'
              simp at hb'; subst hb'
              exact fun e => hnew' (e ▸ ha'))
          (by rw [htouts]; simp; rw [hqj]; omega) (by rw [htouts]; simp)
          (by rw [htouts]
              intro x hx'
              simp only [List.mem_cons, List.mem_map] at hx'
              rcases hx' with rfl | ⟨y, hy, rfl⟩
              · exact hk.acc j hj
              · exact hk.acc y (hrmem y hy))
          (by rw [habs]; exact a1) (by rw [habs]; exact a2) (by rw [habs]; show _ < s.view; rw [hc.view]; exact a4)
          (by rw [habs, a3]; exact Nat.le_refl _)
          (by show s.lastVoted ≤ _; rw [hc.frame.lastVoted]; exact (hS.init j hj).2.2.1)
          (ruleReady_congr (C.rcfg j) (s0 j) sT _ _ hc.frame.chain hc.frame.lock (hS.cover j hj _ hmi htop))
          (by show markWalk (s.chain.fuel + 1) s.chain.blocks s.lastProposed _ = true
              rw [hc.frame.chain, hc.frame.lastProposed]; exact hS.mark _ hmi)
          (by rw [hch]; exact hP1) hP2
          (by show s.lock.view ≤ _; rw [hc.frame.lock]
              have := hlockv j hj _ hmi htop
              have h3 : (D.hb (absI D.bv j (rec j ++ [i]))).view < D.v := by rw [← a3]; exact a4
              omega)
          (by show s.committed.view ≤ _; rw [hc.frame.committed]; exact hY.committed j hj)
          (by intro u hu
              show s.chain.blocks.lookup _ = none ∧ s.votes.lookup _ = none
              rw [hc.frame.chain, hc.frame.votes]; exact hY.names j hj u hu)
          (by show 2 * s.chain.blocks.length + _ ≤ N; rw [hc.frame.chain]; exact hY.small j hj)
          (by have := hY.bound; omega)
          (by show cmWalk (s.chain.blocks.length + 2) s.chain.blocks s.committed.view _ = true
              rw [hc.frame.chain, hc.frame.committed]; exact hY.walk j hj _ hmi htop)
        refine ⟨?_, ?_⟩
        · intro hlt'
          rw [recUpd_same] at hlt'
          simp only [List.length_append, List.length_singleton] at hlt'
          omega
        · intro _
          have hroute := e11 C
          rw [rcfg_id] at hroute
          refine ⟨absI D.bv j (rec j ++ [i]), b', _, Sig.multi C.scheme [⟨j, bytes'⟩], hmi, htop, e1, e2, e3,
            by rw [e4, habs], e5, by rw [r1]; exact lookup_setKV_same _ _ _, ?_, e7, e8, ?_, ?_, ?_⟩
          · rw [r2, r3]; refine syncL_proj ?_ e6; rfl
          · intro h b hb
            exact e10.store h b (by show s.chain.blocks.lookup h = some b; rw [hc.frame.chain]; exact hb)
          · intro m hm hp
            simp only [List.mem_append] at hm
            rcases hm with hm | hm
            · rw [hx.before hlt m hm] at hp; cases hp
            · rw [hroute] at hm
              obtain ⟨x, _, rfl⟩ := List.mem_map.mp hm
              exact ⟨x, rfl⟩
          · intro x hx' hxl
            apply List.mem_append_right
            rw [hroute]
            exact List.mem_map.mpr ⟨x, by simp [hx', hxl], rfl⟩
    · -- the leader has moved on: the message only refreshes the high certificates
      obtain ⟨i0, b', sL, sgL, f1, f2, f3, f4, f5, f6, f7, f8, f9, f10, f11, f12, f13, f14⟩ := hx.after (by omega)
      obtain ⟨σ', hd, r1, r2, r3⟩ := deliver_effect k C σ acc j (Ev.timeout (D.tmsg C i)) sL f8
      let sT : RState := { sL with truth := σ.truth, nextBytes := σ.nextBytes }
      have hk0 := (hS.init j hj).2.2.2
      obtain ⟨q1, q2, q3, q4⟩ := hk0.qc i hi
      obtain ⟨t1, t2⟩ := hk0.tc i hi
      have hTle : ∀ b a, ({ s0 j with truth := T0 } : RState).truth.lookup b = some a → sT.truth.lookup b = some a :=
        fun b a hb => hinv.table b a hb
      have hstep := step_timeout_stale k (C.rcfg j) sT (D.tmsg C i) (D.hq i) (D.hb i) (D.htc i) hS.agg (by rw [hqj]; exact hq.1)
        f9.core.queue (accepted_mono _ _ _ _ (fun b a hb => hinv.table b a hb) (hk0.acc i hi)) rfl
        (verifyTC_mono k _ _ sT _ hTle t1)
        (verifyQC_mono (fun b => List.lookup b T0) (fun b => σ.truth.lookup b) (C.rcfg j).cfg (s0 j).chain.blocks sL.chain.blocks _ _
          (fun b a hb => hinv.table b a hb) f12 q1)
        (f12 _ _ q2) (by show _ < sL.view; rw [show sL.view = D.v + 1 from f9.core.view]; omega)
        (by show _ < sL.view; rw [show sL.view = D.v + 1 from f9.core.view]; omega)
        (by show D.v < sL.view; rw [show sL.view = D.v + 1 from f9.core.view]; omega) f11
      rw [hd, hstep]
      rw [hstep] at r1 r2 r3
      dsimp only at r1 r2 r3
      refine ⟨?_, ?_⟩
      · intro hlt'
        rw [recUpd_same] at hlt'
        simp only [List.length_append, List.length_singleton] at hlt'
        omega
      · intro _
        have hSL' := syncL_absorb f9 (D.hq i) (D.hb i) (D.htc i) (by omega) q3
        refine ⟨i0, b', ({ absorbS sT (D.hq i) (D.hb i) (D.htc i) with out := [] } : RState), sgL, f1, f2, f3, f4, f5, f6, f7,
          by rw [r1]; exact lookup_setKV_same _ _ _, ?_, ⟨f10.walk, f10.below⟩, f11, f12, ?_, ?_⟩
        · rw [r2, r3]; refine syncL_proj ?_ hSL'; rfl
        · intro m hm hp
          simp only [route, List.append_nil] at hm
          exact f13 m hm hp
        · intro x hx' hxl
          simp only [route, List.append_nil]
          exact f14 x hx' hxl
  · -- a replica that is not the leader: it sends no proposal
    obtain ⟨s, hl, hCo, hMo⟩ := hinv.others j hj hjl
    obtain ⟨σ', hd, r1, r2, r3⟩ := deliver_effect k C σ acc j (Ev.timeout (D.tmsg C i)) s hl
    rw [hd]
    have hnp : NoProp (step k (C.rcfg j) { s with truth := σ.truth, nextBytes := σ.nextBytes } (.timeout (D.tmsg C i))).2 := by
      by_cases hlt : (rec j).length + 1 < (C.rcfg 0).cfg.quorum
      · have hc := hCo hlt
        by_cases hlt2 : (rec j).length + 2 < (C.rcfg 0).cfg.quorum
        · obtain ⟨s', hstep, _⟩ := rcoll_add k C D (s0 j) s j i (rec j) σ.truth σ.nextBytes hS.agg hj hrmem hi hnew' hc
            (hknow s hc.frame) (by rw [hqj]; exact hlt2)
          rw [hstep]; intro b agg hm; simp at hm
        · exact rcoll_quorum_outs k C D (s0 j) s j i (rec j) σ.truth σ.nextBytes hS.agg hS.v0
            (by rw [hqj]; exact hq.1) hj hrmem hi hrnd hnew' (hS.init j hj).2.1 hc (hknow s hc.frame) (by rw [hqj]; omega)
            (by rw [hS.leader j hj]; exact fun e => hjl e.symm)
      · have hc := hMo (by omega)
        obtain ⟨s', hstep, _⟩ := rmoved_add k C D (s0 j) s j i (rec j) σ.truth σ.nextBytes hS.agg (by rw [hqj]; exact hq.1)
          hj hrmem hi hc (hknow s hc.frame)
        rw [hstep]; intro b agg hm; simp at hm
    have hrp := route_noprop C j _ hnp
    have hext := step_ext k (C.rcfg j) { s with truth := σ.truth, nextBytes := σ.nextBytes } (Ev.timeout (D.tmsg C i)) hinv.fresh.2
    have hL : recUpd rec j i L = rec L := recUpd_other _ _ _ _ (fun e => hjl e.symm)
    refine ⟨?_, ?_⟩
    · intro hlt m hm
      rw [hL] at hlt
      simp only [List.mem_append] at hm
      rcases hm with hm | hm
      · exact hx.before hlt m hm
      · exact hrp m hm
    · intro hge
      rw [hL] at hge
      obtain ⟨i0, b', sL, sgL, f1, f2, f3, f4, f5, f6, f7, f8, f9, f10, f11, f12, f13, f14⟩ := hx.after hge
      refine ⟨i0, b', sL, sgL, f1, f2, f3, f4, f5, f6, f7,
        by rw [r1, lookup_setKV_other _ _ _ _ (fun e => hjl e.symm)]; exact f8, ?_, f10, f11, f12, ?_, ?_⟩
      · refine syncL_proj ?_ (syncL_with_table f9 σ'.truth σ'.nextBytes (fun b a hb => by rw [r2]; exact hext.truth b a hb)); rfl
      · intro m hm hp
        simp only [List.mem_append] at hm
        rcases hm with hm | hm
        · exact f13 m hm hp
        · rw [hrp m hm] at hp; cases hp
      · intro x hx' hxl
        exact List.mem_append_left _ (f14 x hx' hxl)


/-- **the timeout messages `msgs` are delivered one after the other** (any order): both invariants -/
theorem recx_deliver (k : Keys) (C : SysCfg) (L N : Nat) (D : RecData) (s0 : Nat → RState) (T0 : List (Nat × Atom))
    (hC : HappyCfg C L) (hS : RecSetup k C D s0 L T0) (hY : SyncPre C D s0 N)
    (hlockv : ∀ j ∈ C.honest, ∀ i ∈ C.honest, Top C D i → (s0 j).lock.view ≤ (D.hb i).view) :
    ∀ (msgs : List (Nat × Nat)) (rec : Nat → List Nat) (x : SysState × Msgs),
      RecInv k C D s0 L T0 rec x → RecX C L D s0 N rec x → msgs.Nodup →
      (∀ p ∈ msgs, p.1 ∈ C.honest ∧ p.2 ∈ C.honest ∧ p.2 ≠ p.1 ∧ p.2 ∉ rec p.1) →
      RecInv k C D s0 L T0 (recAll rec msgs) (deliverAll k C x (msgs.map fun p => (p.1, Ev.timeout (D.tmsg C p.2)))) ∧
      RecX C L D s0 N (recAll rec msgs) (deliverAll k C x (msgs.map fun p => (p.1, Ev.timeout (D.tmsg C p.2)))) := by
  intro msgs
  induction msgs with
  | nil => intro rec x h h' _ _; exact ⟨h, h'⟩
  | cons p rest ih =>
    intro rec x h h' hnd hall
    obtain ⟨j, i⟩ := p
    obtain ⟨σ, acc⟩ := x
    obtain ⟨h1, h2, h3, h4⟩ := hall (j, i) (by simp)
    have hstep := rec_step k C D s0 L T0 hS rec σ acc j i h h1 h2 h3 h4
    have hstep' := recx_step k C L N D s0 T0 hC hS hY hlockv rec σ acc j i h h' h1 h2 h3 h4
    simp only [List.map_cons]
    rw [show ((j, Ev.timeout (D.tmsg C i)) :: rest.map fun p => (p.1, Ev.timeout (D.tmsg C p.2))) =
      [(j, Ev.timeout (D.tmsg C i))] ++ rest.map fun p => (p.1, Ev.timeout (D.tmsg C p.2)) from rfl, deliverAll_append]
    unfold recAll
    apply ih _ _ hstep hstep' (List.nodup_cons.mp hnd).2
    intro p hp
    obtain ⟨q1, q2, q3, q4⟩ := hall p (by simp [hp])
    refine ⟨q1, q2, q3, ?_⟩
    by_cases hpj : p.1 = j
    · rw [hpj, recUpd_same]
      simp only [List.mem_append, List.mem_singleton, not_or]
      refine ⟨by rw [← hpj]; exact q4, ?_⟩
      intro e
      have : p = (j, i) := by
        obtain ⟨a, b⟩ := p
        simp only at hpj e
        rw [hpj, e]
      exact (List.nodup_cons.mp hnd).1 (this ▸ hp)
    · rw [recUpd_other _ _ _ _ hpj]; exact q4

/-- what `nl_step_cur` needs of a replica: it has entered view `w + 1` on the timeout certificate and can vote for `b'` -/
structure NLReady (k : Keys) (c : RCfg) (w N : Nat) (hb b' : Block) (s : RState) : Prop where
  view : s.view = w + 1
  lastVoted : s.lastVoted ≤ w
  queue : s.queue = []
  wvc : s.waitingVC = []
  wprop : s.waitingProp = []
  fetch : s.chain.fetchable = []
  ver : verifyQC (env k c s) b'.qc = true
  hasHb : s.chain.blocks.lookup b'.qc.hash = some hb
  hbv : hb.view ≤ w
  par : ∃ P, s.chain.blocks.lookup hb.qc.hash = some P ∧ P.view ≤ w
  ready : RuleReady c s (w + 1) hb
  hq : s.highQC.view ≤ w
  lock : s.lock.view ≤ w
  committed : s.committed.view ≤ w
  names : ∀ u, w < u → s.chain.blocks.lookup (pname u) = none ∧ s.votes.lookup (pname u) = none
  small : 2 * s.chain.blocks.length + (w + 1) ≤ N
  walk : cmWalk (s.chain.blocks.length + 2) s.chain.blocks s.committed.view hb = true

theorem NLReady.table {k : Keys} {c : RCfg} {w N : Nat} {hb b' : Block} {s : RState} (h : NLReady k c w N hb b' s)
    (T : List (Nat × Atom)) (nb : Nat) (hT : ∀ b a, s.truth.lookup b = some a → T.lookup b = some a) :
    NLReady k c w N hb b' { s with truth := T, nextBytes := nb } :=
  ⟨h.view, h.lastVoted, h.queue, h.wvc, h.wprop, h.fetch,
    verifyQC_mono (fun b => s.truth.lookup b) (fun b => T.lookup b) c.cfg s.chain.blocks s.chain.blocks _ _
      (fun b a hb' => hT b a hb') (fun _ _ h => h) h.ver,
    h.hasHb, h.hbv, h.par, ruleReady_congr c s _ _ _ rfl rfl h.ready, h.hq, h.lock, h.committed, h.names, h.small, h.walk⟩

/-- the state after the recovery round: the leader synchronised at `(v + 1, b')`, everybody else ready to vote for `b'` -/
structure RecDone (k : Keys) (C : SysCfg) (L : Nat) (D : RecData) (N : Nat) (i : Nat) (b' : Block) (σ1 : SysState) : Prop where
  fresh : FreshL σ1.truth σ1.nextBytes
  keys : σ1.reps.map (·.1) = C.honest
  blk : b'.hash = pname (D.v + 1) ∧ b'.parent = b'.qc.hash ∧ b'.view = D.v + 1
  leader : ∃ sL sgL, σ1.reps.lookup L = some sL ∧
    SyncL (C.rcfg L) (D.v + 1) (N + 2) b' (D.hb i) [(L, sgL)] { sL with truth := σ1.truth, nextBytes := σ1.nextBytes } ∧
    WalkZ b' sL
  others : ∀ j ∈ C.honest, j ≠ L → ∃ s, σ1.reps.lookup j = some s ∧
    NLReady k (C.rcfg j) D.v N (D.hb i) b' { s with truth := σ1.truth, nextBytes := σ1.nextBytes }

/-- the proposal round after the recovery, the proposal having reached the replicas `done` -/
structure PAInv (C : SysCfg) (L : Nat) (D : RecData) (N i : Nat) (b' : Block) (σ1 : SysState) (bt' : Nat → Nat)
    (done : List Nat) (x : SysState × Msgs) : Prop where
  fresh : FreshL x.1.truth x.1.nextBytes
  keys : x.1.reps.map (·.1) = C.honest
  table : ∀ b a, σ1.truth.lookup b = some a → x.1.truth.lookup b = some a
  leader : x.1.reps.lookup L = σ1.reps.lookup L
  undone : ∀ j, j ≠ L → j ∉ done → x.1.reps.lookup j = σ1.reps.lookup j
  did : ∀ j ∈ done, ∃ s, x.1.reps.lookup j = some s ∧ SyncR (D.v + 1) (N + 2) b' (D.hb i) s ∧ WalkZ b' s ∧
    x.1.truth.lookup (bt' j) = some ⟨j, blkMsg b'.hash⟩
  pool : x.2 = done.map (voteMsg C L b'.hash bt')

theorem pa_step (k : Keys) (C : SysCfg) (L : Nat) (hC : HappyCfg C L) (D : RecData) (N i : Nat) (b' : Block) (σ1 : SysState)
    (hN : N + 12 ≤ 99999) (hR : RecDone k C L D N i b' σ1)
    (bt' : Nat → Nat) (done : List Nat) (σ : SysState) (acc : Msgs) (j : Nat)
    (hinv : PAInv C L D N i b' σ1 bt' done (σ, acc)) (hj : j ∈ C.honest) (hjL : j ≠ L) (hnew : j ∉ done) :
    ∃ bt'', PAInv C L D N i b' σ1 bt'' (done ++ [j]) (deliverAll k C (σ, acc) [propMsg L b' j]) := by
  obtain ⟨s0, hl0, hS0⟩ := hR.others j hj hjL
  have hl : σ.reps.lookup j = some s0 := by rw [hinv.undone j hjL hnew]; exact hl0
  obtain ⟨σ', hd, r1, r2, r3⟩ := deliver_effect k C σ acc j (Ev.propose L b' none) s0 hl
  have hS1 := hS0.table σ.truth σ.nextBytes (fun b a hb => hinv.table b a hb)
  obtain ⟨P, hP1, hP2⟩ := hS1.par
  obtain ⟨n1, n2, n3, n4, ⟨bytes, n5, n6⟩⟩ := nl_step_cur k (C.rcfg j) L D.v N (D.hb i) P b'
    { s0 with truth := σ.truth, nextBytes := σ.nextBytes } hC.scheme hC.agg hC.rules (fun v => hC.lead j v) hjL
    hS1.view hS1.lastVoted hS1.queue hS1.wvc hS1.wprop hS1.fetch hinv.fresh hN hR.blk.1 hR.blk.2.1 hR.blk.2.2
    (by have h1 := verifyQC_parts
        have := hS1.hbv
        -- the certificate's view is the view of the certified block (or 0 for genesis)
        by_cases hg : b'.qc.hash = genesisHash
        · have hv := hS1.ver
          unfold verifyQC at hv
          rw [if_pos (by simpa using hg)] at hv
          have : b'.qc.view = 0 := by simpa using hv
          omega
        · obtain ⟨sg, b, _, _, hb, hv, _⟩ := verifyQC_parts k (C.rcfg j) _ b'.qc hS1.ver hg
          rw [hS1.hasHb] at hb; cases hb
          omega)
    hS1.ver hS1.hasHb hS1.hbv hP1 hP2 hS1.ready hS1.hq hS1.lock hS1.committed hS1.names hS1.small hS1.walk
  have hjmem : j ∈ σ.reps.map (·.1) := by rw [hinv.keys]; exact hj
  show ∃ bt'', PAInv C L D N i b' σ1 bt'' (done ++ [j]) (deliverAll k C (σ, acc) [(j, Ev.propose L b' none)])
  rw [hd]
  refine ⟨fun x => if x = j then bytes else bt' x, by rw [r2, r3]; exact n3, by rw [r1, keys_setKV _ _ _ hjmem]; exact hinv.keys,
    ?_, ?_, ?_, ?_, ?_⟩
  · intro b a hb
    rw [r2]; exact n4.truth b a (hinv.table b a hb)
  · rw [r1, lookup_setKV_other _ _ _ _ (fun e => hjL e.symm)]; exact hinv.leader
  · intro x hx hin
    simp only [List.mem_append, List.mem_singleton, not_or] at hin
    rw [r1, lookup_setKV_other _ _ _ _ hin.2]; exact hinv.undone x hx hin.1
  · intro x hx
    simp only [List.mem_append, List.mem_singleton] at hx
    by_cases hxj : x = j
    · subst hxj
      refine ⟨_, by rw [r1]; exact lookup_setKV_same _ _ _, n1, n2, ?_⟩
      rw [r2, if_pos rfl]; exact n5
    · rcases hx with hx | hx
      · obtain ⟨t, d2, d3, d4, d5⟩ := hinv.did x hx
        refine ⟨t, by rw [r1, lookup_setKV_other _ _ _ _ hxj]; exact d2, d3, d4, ?_⟩
        rw [r2, if_neg hxj]; exact n4.truth _ _ d5
      · exact absurd hx hxj
  · show acc ++ route C j _ = _
    have := n6 C
    rw [rcfg_id] at this
    have hpool : acc = done.map (voteMsg C L b'.hash bt') := hinv.pool
    rw [this, hpool, List.map_append]
    congr 1
    · apply List.map_congr_left
      intro x hx
      have hxj : x ≠ j := fun e => hnew (e ▸ hx)
      simp [voteMsg, hxj]
    · simp [voteMsg]; rfl

theorem pa_deliver (k : Keys) (C : SysCfg) (L : Nat) (hC : HappyCfg C L) (D : RecData) (N i : Nat) (b' : Block) (σ1 : SysState)
    (hN : N + 12 ≤ 99999) (hR : RecDone k C L D N i b' σ1) :
    ∀ (ord done : List Nat) (bt' : Nat → Nat) (x : SysState × Msgs), PAInv C L D N i b' σ1 bt' done x → ord.Nodup →
      (∀ j ∈ ord, j ∈ C.honest ∧ j ≠ L ∧ j ∉ done) →
      ∃ bt'', PAInv C L D N i b' σ1 bt'' (done ++ ord) (deliverAll k C x (ord.map (propMsg L b'))) := by
  intro ord
  induction ord with
  | nil => intro done bt' x h _ _; exact ⟨bt', by rw [List.append_nil]; exact h⟩
  | cons j rest ih =>
    intro done bt' x h hnd hall
    obtain ⟨σ, acc⟩ := x
    obtain ⟨h1, h2, h3⟩ := hall j (by simp)
    obtain ⟨bt1, hstep⟩ := pa_step k C L hC D N i b' σ1 hN hR bt' done σ acc j h h1 h2 h3
    simp only [List.map_cons]
    rw [show (propMsg L b' j :: rest.map (propMsg L b')) = [propMsg L b' j] ++ rest.map (propMsg L b') from rfl,
      deliverAll_append]
    obtain ⟨bt2, this⟩ := ih (done ++ [j]) bt1 _ hstep (List.nodup_cons.mp hnd).2 (by
      intro x hx
      obtain ⟨q1, q2, q3⟩ := hall x (by simp [hx])
      refine ⟨q1, q2, ?_⟩
      simp only [List.mem_append, List.mem_singleton, not_or]
      exact ⟨q3, fun e => (List.nodup_cons.mp hnd).1 (e ▸ hx)⟩)
    rw [List.append_assoc] at this
    exact ⟨bt2, this⟩

theorem votesFly_map (C : SysCfg) (L : Nat) (h : Hash) (bt : Nat → Nat) (ord : List Nat)
    (hfull : ∀ j ∈ C.honest, j ≠ L → j ∈ ord) : VotesFly C L h bt (ord.map (voteMsg C L h bt)) := by
  intro j hj hjL
  have hmem := hfull j hj hjL
  clear hfull
  induction ord with
  | nil => simp at hmem
  | cons x rest ih =>
    by_cases hxj : x = j
    · subst hxj
      simp [voteMsg, fromVote]
    · have : j ∈ rest := by
        simp only [List.mem_cons] at hmem
        rcases hmem with h | h
        · exact absurd h.symm hxj
        · exact h
      simp only [List.map_cons, List.find?_cons]
      have hf : fromVote j (voteMsg C L h bt x) = false := by simp [voteMsg, fromVote, hxj]
      rw [hf]
      exact ih this

/-- the proposals in flight to `ord`, when the proposals in the pool are exactly those of `b'` -/
theorem propsIn_of_pool (L : Nat) (b' : Block) (pool : Msgs) (ord : List Nat)
    (h1 : ∀ m ∈ pool, isProp m = true → ∃ j, m = propMsg L b' j) (h2 : ∀ j ∈ ord, propMsg L b' j ∈ pool) :
    propsIn pool ord = ord.map (propMsg L b') := by
  unfold propsIn
  induction ord with
  | nil => rfl
  | cons j rest ih =>
    have hf : pool.find? (propTo j) = some (propMsg L b' j) := by
      cases hfi : pool.find? (propTo j) with
      | none =>
        have := List.find?_eq_none.mp hfi _ (h2 j (by simp))
        simp [propTo, propMsg] at this
      | some m =>
        have hm := List.mem_of_find?_eq_some hfi
        have hp := List.find?_some hfi
        have hp' : m.1 = j ∧ isProp m = true := by
          unfold propTo at hp
          simp only [Bool.and_eq_true, beq_iff_eq] at hp
          exact ⟨hp.1, hp.2⟩
        obtain ⟨j', rfl⟩ := h1 m hm hp'.2
        have : j' = j := hp'.1
        rw [this]
    rw [List.filterMap_cons, hf]
    simp only [List.map_cons]
    rw [ih (fun x hx => h2 x (by simp [hx]))]

/-- **from the state after the recovery round to phase A**: the proposals reach everybody else, in any order -/
theorem recDone_phaseA (k : Keys) (C : SysCfg) (L : Nat) (hC : HappyCfg C L) (D : RecData) (N i : Nat) (b' : Block)
    (σ1 : SysState) (hN : N + 12 ≤ 99999) (hR : RecDone k C L D N i b' σ1) (ord : List Nat) (hord : OthersOrder C L ord) :
    ∃ bt : Nat → Nat,
      PhaseA C L (D.v + 1) (N + 2) b' (D.hb i) bt (deliverAll k C (σ1, []) (ord.map (propMsg L b'))).1 ∧
      VotesFly C L b'.hash bt (deliverAll k C (σ1, []) (ord.map (propMsg L b'))).2 ∧
      ∀ j ∈ C.honest, ∃ s, (deliverAll k C (σ1, []) (ord.map (propMsg L b'))).1.reps.lookup j = some s ∧ WalkZ b' s := by
  have hinit : PAInv C L D N i b' σ1 (fun _ => 0) [] (σ1, []) :=
    ⟨hR.fresh, hR.keys, fun _ _ h => h, rfl, fun _ _ _ => rfl, by simp, rfl⟩
  obtain ⟨bt', hfin⟩ := pa_deliver k C L hC D N i b' σ1 hN hR ord [] (fun _ => 0) (σ1, []) hinit hord.nodup
    (fun j hj => ⟨(hord.mem j hj).1, (hord.mem j hj).2, by simp⟩)
  rw [List.nil_append] at hfin
  obtain ⟨sL, sgL, hlL, hSL, hWL⟩ := hR.leader
  refine ⟨bt', ⟨hfin.fresh, hfin.keys, ?_, ⟨sL, sgL, by rw [hfin.leader]; exact hlL, ?_⟩, ?_⟩, ?_, ?_⟩
  · intro j hj hjL
    obtain ⟨s, d2, d3, _, _⟩ := hfin.did j (hord.full j hj hjL)
    exact ⟨s, d2, d3⟩
  · exact syncL_with_table hSL _ _ (fun b a hb => hfin.table b a hb)
  · intro j hj hjL
    obtain ⟨s, d2, d3, d4, d5⟩ := hfin.did j (hord.full j hj hjL)
    exact d5
  · rw [hfin.pool]; exact votesFly_map C L b'.hash bt' ord hord.full
  · intro j hj
    by_cases hjL : j = L
    · subst hjL
      exact ⟨sL, by rw [hfin.leader]; exact hlL, hWL⟩
    · obtain ⟨s, d2, d3, d4, d5⟩ := hfin.did j (hord.full j hj hjL)
      exact ⟨s, d2, d4⟩


/-- **the recovery round, exactly**: all timeout messages delivered (any order) — the leader has proposed `b'` on the
highest high QC `D.hq i` of a quorum and is synchronised at `(v + 1, b')`, everybody else has entered view `v + 1` and is
ready to vote for `b'`, and the proposals in flight are exactly those of `b'` -/
theorem recovery_round_done (k : Keys) (C : SysCfg) (L N : Nat) (D : RecData) (s0 : Nat → RState) (T0 : List (Nat × Atom))
    (hC : HappyCfg C L) (hS : RecSetup k C D s0 L T0) (hY : SyncPre C D s0 N)
    (hlockv : ∀ j ∈ C.honest, ∀ i ∈ C.honest, Top C D i → (s0 j).lock.view ≤ (D.hb i).view)
    (σ0 : SysState) (h0 : RecStart C s0 T0 σ0) (msgs : List (Nat × Nat)) (hm : FullOrder C msgs) :
    ∃ (i : Nat) (b' : Block), i ∈ C.honest ∧ Top C D i ∧ b'.view = D.v + 1 ∧ b'.qc = D.hq i ∧ b'.proposer = L ∧
      RecDone k C L D N i b' (recoveryRound k C D σ0 msgs).1 ∧
      (∀ m ∈ (recoveryRound k C D σ0 msgs).2, isProp m = true → ∃ j, m = propMsg L b' j) ∧
      (∀ j ∈ C.honest, j ≠ L → propMsg L b' j ∈ (recoveryRound k C D σ0 msgs).2) := by
  have hq : 2 ≤ (C.rcfg 0).cfg.quorum ∧ (C.rcfg 0).cfg.quorum ≤ C.n := quorum_bounds C.n hS.two
  have hinit : RecInv k C D s0 L T0 (fun _ => []) (σ0, []) := by
    refine ⟨h0.fresh, h0.keys, by intro b a hb; rw [h0.truth]; exact hb, by intro j _; simp, ?_, ?_, ?_⟩
    · intro j hj _
      exact ⟨s0 j, h0.reps j hj, fun _ => (hS.init j hj).1, fun h => by simp at h; omega⟩
    · intro _
      exact ⟨s0 L, h0.reps L hS.lmem, (hS.init L hS.lmem).1⟩
    · intro h; simp at h; omega
  have hinitX : RecX C L D s0 N (fun _ => []) (σ0, []) := by
    refine ⟨fun _ m hm => by simp at hm, fun h => ?_⟩
    simp at h; omega
  obtain ⟨hfin, hfinX⟩ := recx_deliver k C L N D s0 T0 hC hS hY hlockv msgs (fun _ => []) (σ0, []) hinit hinitX hm.nodup
    (fun p hp => ⟨(hm.valid p hp).1, (hm.valid p hp).2.1, (hm.valid p hp).2.2, by simp⟩)
  have hlen : ∀ j ∈ C.honest, (C.rcfg 0).cfg.quorum ≤ (recAll (fun _ => []) msgs j).length + 1 := by
    intro j hj
    obtain ⟨hnd, hmem⟩ := hfin.recs j hj
    have : C.honest.length ≤ (j :: recAll (fun _ => []) msgs j).length := by
      apply nodup_length_le _ _ hS.nodup
      intro x hx
      by_cases hxj : x = j
      · simp [hxj]
      · exact List.mem_cons_of_mem _ (recAll_mem msgs _ j x (Or.inr (hm.full j hj x hx hxj)))
    simp only [List.length_cons] at this
    have := hS.all
    omega
  obtain ⟨i, b', sL, sgL, f1, f2, f3, f4, f5, f6, f7, f8, f9, f10, f11, f12, f13, f14⟩ := hfinX.after (hlen L hS.lmem)
  refine ⟨i, b', f1, f2, f5, f6, f7, ⟨hfin.fresh, hfin.keys, ⟨f3, f4, f5⟩, ⟨sL, sgL, f8, f9, f10⟩, ?_⟩, f13, f14⟩
  intro j hj hjL
  obtain ⟨s, q1, _, q3⟩ := hfin.others j hj hjL
  have hmv := q3 (hlen j hj)
  refine ⟨s, q1, ?_⟩
  let σ1 := (recoveryRound k C D σ0 msgs).1
  let sT : RState := { s with truth := σ1.truth, nextBytes := σ1.nextBytes }
  have hknow : KnowsAll k C D j sT :=
    (hS.init j hj).2.2.2.mono (by show s.chain = (s0 j).chain; exact hmv.frame.chain) (fun b a hb => hfin.table b a hb)
  obtain ⟨a1, a2, a3, a4⟩ := hknow.qc i f1
  have hidx : absI D.bv j (recAll (fun _ => []) msgs j) ∈ C.honest := by
    have := absI_mem D.bv (recAll (fun _ => []) msgs j) j
    simp only [List.mem_cons] at this
    rcases this with h | h
    · rw [h]; exact hj
    · exact (hfin.recs j hj).2 _ h
  obtain ⟨c1, c2, c3, c4⟩ := hknow.qc _ hidx
  obtain ⟨P, hP1, hP2⟩ := hY.par j hj i f1 f2
  have hlk := hlockv j hj i f1 f2
  exact ⟨hmv.view, by show s.lastVoted ≤ _; rw [hmv.frame.lastVoted]; exact (hS.init j hj).2.2.1, hmv.queue,
    by show s.waitingVC = []; rw [hmv.frame.wvc]; exact (hS.init j hj).2.1,
    by show s.waitingProp = []; rw [hmv.frame.wprop]; exact hY.wprop j hj,
    by show s.chain.fetchable = []; rw [hmv.frame.chain]; exact hY.fetch j hj,
    by rw [f6]; exact a1, by rw [f6]; exact a2, by rw [← a3]; exact Nat.le_of_lt a4,
    ⟨P, by show s.chain.blocks.lookup _ = _; rw [hmv.frame.chain]; exact hP1, hP2⟩,
    ruleReady_congr (C.rcfg j) (s0 j) sT _ _ hmv.frame.chain hmv.frame.lock (hS.cover j hj i f1 f2),
    by show s.highQC.view ≤ _; rw [hmv.hqc]; exact Nat.le_of_lt c4,
    by show s.lock.view ≤ _; rw [hmv.frame.lock]; have : (D.hb i).view < D.v := by rw [← a3]; exact a4
       omega,
    by show s.committed.view ≤ _; rw [hmv.frame.committed]; exact hY.committed j hj,
    by intro u hu
       show s.chain.blocks.lookup _ = none ∧ s.votes.lookup _ = none
       rw [hmv.frame.chain, hmv.frame.votes]; exact hY.names j hj u hu,
    by show 2 * s.chain.blocks.length + _ ≤ N; rw [hmv.frame.chain]; exact hY.small j hj,
    by show cmWalk (s.chain.blocks.length + 2) s.chain.blocks s.committed.view _ = true
       rw [hmv.frame.chain, hmv.frame.committed]; exact hY.walk j hj i f1 f2⟩

/-- **Recovery reaches phase A** (`recovery_reaches_synced`, fixed leader): under the hypotheses of
`recovery_from_reachable` (with `ℓ = L`), `HappyCfg C L` and `SyncPre`, after the timeout messages (any order `msgs`)
and then the proposals in flight (any order `ordP`) have been delivered, the system is in phase A at `(v + 1, b')` for
the block `b'` the leader proposed on the highest high QC `D.hq i` of a quorum, the votes for `b'` are in flight, and the
committer of every replica can walk from `b'` down to its committed block. -/
theorem recovery_reaches_phaseA (k : Keys) (C : SysCfg) (L : Nat) (hC : HappyCfg C L) (D : RecData) (s0 : Nat → RState)
    (σ0 : SysState) (blk : Hash → Block) (hk : KeysOK k) (hr : Reach k C σ0) (hca : CA' σ0 blk)
    (hP : RecPre k C D s0 L σ0.truth) (h0 : RecStart C s0 σ0.truth σ0)
    (msgs : List (Nat × Nat)) (hm : FullOrder C msgs) (N : Nat) (hY : SyncPre C D s0 N)
    (ordP : List Nat) (hordP : OthersOrder C L ordP) :
    ∃ (i : Nat) (b' : Block) (bt : Nat → Nat),
      i ∈ C.honest ∧ Top C D i ∧ b'.view = D.v + 1 ∧ b'.qc = D.hq i ∧ b'.proposer = L ∧
      PhaseA C L (D.v + 1) (N + 2) b' (D.hb i) bt (proposalRound k C ordP (recoveryRound k C D σ0 msgs)).1 ∧
      VotesFly C L b'.hash bt (proposalRound k C ordP (recoveryRound k C D σ0 msgs)).2 ∧
      ∀ j ∈ C.honest, ∃ s, (proposalRound k C ordP (recoveryRound k C D σ0 msgs)).1.reps.lookup j = some s ∧ WalkZ b' s := by
  have hS := recSetup_of_reach k C D s0 L σ0 blk hk hr hca hP h0.reps
  have hlockv : ∀ j ∈ C.honest, ∀ i ∈ C.honest, Top C D i → (s0 j).lock.view ≤ (D.hb i).view :=
    fun j hj i hi ht => (top_block_covers_lock k C D s0 L σ0 blk hk hr hca hP h0.reps j i hj hi ht).1
  obtain ⟨i, b', g1, g2, g3, g4, g5, g6, g7, g8⟩ := recovery_round_done k C L N D s0 σ0.truth hC hS hY hlockv σ0 h0 msgs hm
  have hpi := propsIn_of_pool L b' (recoveryRound k C D σ0 msgs).2 ordP g7 (fun j hj => g8 j (hordP.mem j hj).1 (hordP.mem j hj).2)
  obtain ⟨bt, p1, p2, p3⟩ := recDone_phaseA k C L hC D N i b' _ (by have := hY.bound; omega) g6 ordP hordP
  refine ⟨i, b', bt, g1, g2, g3, g4, g5, ?_, ?_, ?_⟩
  · unfold proposalRound; rw [hpi]; exact p1
  · unfold proposalRound; rw [hpi]; exact p2
  · unfold proposalRound; rw [hpi]; exact p3

end HsVerif.Model
