import HsVerif.Model.Twins
/-! Helper lemmas for C18: the odometer of `NextScenario` counts in base `L`. -/
set_option linter.unusedVariables false
namespace HsVerif.Model.Twins

/-! ### generic list facts (core only) -/

theorem nodup_map_on {α β : Type} {f : α → β} {l : List α}
    (hinj : ∀ x ∈ l, ∀ y ∈ l, f x = f y → x = y) (h : l.Nodup) : (l.map f).Nodup := by
  unfold List.Nodup at *
  rw [List.pairwise_map]
  induction l with
  | nil => exact List.Pairwise.nil
  | cons a l ih =>
    rw [List.pairwise_cons] at h ⊢
    refine ⟨fun b hb hab => h.1 b hb (hinj a (by simp) b (by simp [hb]) hab), ?_⟩
    exact ih (fun x hx y hy => hinj x (by simp [hx]) y (by simp [hy])) h.2

/-! ### numbers in base `L` -/

/-- value of a big-endian digit list in base `L` -/
def value (L : Nat) : List Nat → Nat
  | [] => 0
  | x :: xs => x * L ^ xs.length + value L xs

/-- all digits below `L` -/
def Digits (L : Nat) (xs : List Nat) : Prop := ∀ x ∈ xs, x < L

/-- big-endian base-`L` digits of `c`, `V` of them -/
def digits (L : Nat) : Nat → Nat → List Nat
  | 0, _ => []
  | V + 1, c => (c / L ^ V) % L :: digits L V (c % L ^ V)

theorem digits_length (L V c : Nat) : (digits L V c).length = V := by
  induction V generalizing c with
  | zero => rfl
  | succ V ih => simp [digits, ih]

theorem digits_lt (L V c : Nat) (hL : 0 < L) : Digits L (digits L V c) := by
  induction V generalizing c with
  | zero => intro x hx; simp [digits] at hx
  | succ V ih =>
    intro x hx
    simp only [digits, List.mem_cons] at hx
    rcases hx with rfl | hx
    · exact Nat.mod_lt _ hL
    · exact ih _ x hx

theorem value_lt (L : Nat) (xs : List Nat) (h : Digits L xs) : value L xs < L ^ xs.length := by
  induction xs with
  | nil => simp [value]
  | cons x xs ih =>
    have hx : x < L := h x (by simp)
    have hv := ih (fun y hy => h y (by simp [hy]))
    simp only [value, List.length_cons, Nat.pow_succ]
    have h1 : x * L ^ xs.length + L ^ xs.length ≤ L ^ xs.length * L := by
      have : (x + 1) * L ^ xs.length ≤ L * L ^ xs.length := Nat.mul_le_mul_right _ hx
      rw [Nat.add_mul, Nat.one_mul, Nat.mul_comm L] at this
      exact this
    omega

theorem value_digits (L V c : Nat) (hc : c < L ^ V) : value L (digits L V c) = c := by
  induction V generalizing c with
  | zero => simp [Nat.pow_zero] at hc; subst hc; rfl
  | succ V ih =>
    have hP : 0 < L ^ V := by
      rcases Nat.eq_zero_or_pos (L ^ V) with h | h
      · rw [Nat.pow_succ, h] at hc; simp at hc
      · exact h
    have hq : c / L ^ V < L := Nat.div_lt_of_lt_mul (by rw [Nat.pow_succ] at hc; exact hc)
    simp only [digits, value, digits_length]
    rw [Nat.mod_eq_of_lt hq, ih _ (Nat.mod_lt _ hP)]
    have := Nat.div_add_mod c (L ^ V)
    rw [Nat.mul_comm] at this
    exact this

theorem value_inj (L : Nat) : ∀ (xs ys : List Nat), xs.length = ys.length → Digits L xs → Digits L ys →
    value L xs = value L ys → xs = ys
  | [], [], _, _, _, _ => rfl
  | [], _ :: _, h, _, _, _ => by simp at h
  | _ :: _, [], h, _, _, _ => by simp at h
  | x :: xs, y :: ys, hl, hx, hy, hv => by
    have hl' : xs.length = ys.length := by simpa using hl
    have hxs : Digits L xs := fun z hz => hx z (by simp [hz])
    have hys : Digits L ys := fun z hz => hy z (by simp [hz])
    have bx := value_lt L xs hxs
    have by' := value_lt L ys hys
    simp only [value] at hv
    rw [hl'] at hv bx
    have key : x = y := by
      rcases Nat.lt_trichotomy x y with h | h | h
      · exfalso
        have : (x + 1) * L ^ ys.length ≤ y * L ^ ys.length := Nat.mul_le_mul_right _ h
        rw [Nat.add_mul, Nat.one_mul] at this
        omega
      · exact h
      · exfalso
        have : (y + 1) * L ^ ys.length ≤ x * L ^ ys.length := Nat.mul_le_mul_right _ h
        rw [Nat.add_mul, Nat.one_mul] at this
        omega
    subst key
    have : value L xs = value L ys := by omega
    rw [value_inj L xs ys hl' hxs hys this]


/-! ### the odometer step -/

theorem incr_cons (L x : Nat) (xs : List Nat) : incr L (x :: xs) =
    if (incr L xs).2 then (if x + 1 < L then ((x + 1) :: (incr L xs).1, false) else (0 :: (incr L xs).1, true))
    else (x :: (incr L xs).1, false) := by
  simp only [incr]

theorem incr_length (L : Nat) (xs : List Nat) : (incr L xs).1.length = xs.length := by
  induction xs with
  | nil => rfl
  | cons x xs ih =>
    rw [incr_cons]
    cases hc : (incr L xs).2 with
    | false => simp [ih]
    | true =>
      by_cases hlt : x + 1 < L <;> simp [hlt, ih]

/-- one step adds one (carry out = overflow by `L ^ length`) and keeps digits in range -/
theorem incr_spec (L : Nat) (xs : List Nat) (h : Digits L xs) :
    Digits L (incr L xs).1 ∧
    value L (incr L xs).1 + (if (incr L xs).2 then L ^ xs.length else 0) = value L xs + 1 := by
  induction xs with
  | nil => simp [incr, value, Digits]
  | cons x xs ih =>
    have hx : x < L := h x (by simp)
    obtain ⟨ih1, ih2⟩ := ih (fun y hy => h y (by simp [hy]))
    have hlen := incr_length L xs
    rw [incr_cons]
    cases hc : (incr L xs).2 with
    | false =>
      rw [hc] at ih2
      simp only [Bool.false_eq_true, ↓reduceIte, Nat.add_zero] at ih2 ⊢
      refine ⟨?_, ?_⟩
      · intro y hy
        simp only [List.mem_cons] at hy
        rcases hy with rfl | hy
        · exact hx
        · exact ih1 y hy
      · simp only [value, hlen]; omega
    | true =>
      rw [hc] at ih2
      simp only [↓reduceIte] at ih2 ⊢
      by_cases hlt : x + 1 < L
      · simp only [hlt, ↓reduceIte, Bool.false_eq_true, Nat.add_zero]
        refine ⟨?_, ?_⟩
        · intro y hy
          simp only [List.mem_cons] at hy
          rcases hy with rfl | hy
          · exact hlt
          · exact ih1 y hy
        · simp only [value, hlen, Nat.add_mul, Nat.one_mul]; omega
      · simp only [hlt, ↓reduceIte]
        have hxL : x + 1 = L := by omega
        refine ⟨?_, ?_⟩
        · intro y hy
          simp only [List.mem_cons] at hy
          rcases hy with rfl | hy
          · omega
          · exact ih1 y hy
        · simp only [value, hlen, List.length_cons, Nat.pow_succ, Nat.zero_mul, Nat.zero_add]
          have : L ^ xs.length * L = x * L ^ xs.length + L ^ xs.length := by
            rw [← hxL, Nat.mul_add, Nat.mul_one, Nat.mul_comm]
          omega

/-- the carry flag is raised exactly on the last number -/
theorem incr_carry_iff (L : Nat) (xs : List Nat) (h : Digits L xs) :
    (incr L xs).2 = true ↔ value L xs + 1 = L ^ xs.length := by
  obtain ⟨h1, h2⟩ := incr_spec L xs h
  have hb := value_lt L _ h1
  rw [incr_length] at hb
  have hv := value_lt L xs h
  cases hc : (incr L xs).2 with
  | false =>
    rw [hc] at h2
    simp only [Bool.false_eq_true, ↓reduceIte, Nat.add_zero] at h2
    constructor
    · intro h; cases h
    · intro h; omega
  | true =>
    rw [hc] at h2
    simp only [↓reduceIte] at h2
    constructor
    · intro _; omega
    · intro _; rfl

theorem incr_value_of_no_carry (L : Nat) (xs : List Nat) (h : Digits L xs)
    (hc : value L xs + 1 < L ^ xs.length) : value L (incr L xs).1 = value L xs + 1 := by
  obtain ⟨h1, h2⟩ := incr_spec L xs h
  have : (incr L xs).2 = false := by
    cases hb : (incr L xs).2 with
    | false => rfl
    | true => have := (incr_carry_iff L xs h).1 hb; omega
  simp only [this, Bool.false_eq_true, ↓reduceIte, Nat.add_zero] at h2
  exact h2

/-! ### the generator walks through the numbers `0 .. L^V - 1` -/

theorem digits_zero (L V : Nat) : digits L V 0 = List.replicate V 0 := by
  induction V with
  | zero => rfl
  | succ V ih => simp [digits, ih, List.replicate_succ]

theorem digits_lt' (L V c : Nat) (hc : c < L ^ V) : Digits L (digits L V c) := by
  rcases Nat.eq_zero_or_pos L with h | h
  · subst h
    cases V with
    | zero => intro x hx; simp [digits] at hx
    | succ V => simp [Nat.pow_succ] at hc
  · exact digits_lt L V c h

theorem digits_value (L : Nat) (xs : List Nat) (h : Digits L xs) :
    digits L xs.length (value L xs) = xs :=
  value_inj L _ _ (digits_length _ _ _) (digits_lt' _ _ _ (value_lt L xs h)) h
    (value_digits _ _ _ (value_lt L xs h))

/-- a generator as `NewGenerator` (and possibly `Shuffle`) leave it -/
structure Fresh (g : Gen) : Prop where
  idx : g.indices = List.replicate g.views 0
  rem : g.remaining = ((g.lp.length ^ g.views : Nat) : Int)
  fin : g.done = (g.lp.length == 0 && decide (g.views > 0))

/-- number of scenarios of a generator: `len(leadersPartitions) ^ Views` -/
def Gen.total (g : Gen) : Nat := g.lp.length ^ g.views

/-- scenario number `c` (0-based): the views selected by the digits of `c` -/
def scenarioAt (g : Gen) (c : Nat) : Scenario :=
  List.zipWith (pick g.lp) (digits g.lp.length g.views c) g.offsets

/-- the generator state after `c` calls -/
def stateAt (g : Gen) (c : Nat) : Gen :=
  if c < g.total then
    { g with indices := digits g.lp.length g.views c, remaining := (g.total : Int) - c, done := false }
  else
    { g with indices := digits g.lp.length g.views 0, remaining := 0, done := true }

theorem fresh_stateAt (g : Gen) (h : Fresh g) : stateAt g 0 = g := by
  obtain ⟨h1, h2, h3⟩ := h
  unfold stateAt Gen.total
  cases g with
  | mk lp indices offsets remaining views allNodes done =>
    simp only at h1 h2 h3 ⊢
    by_cases hN : 0 < lp.length ^ views
    · simp only [hN, ↓reduceIte, digits_zero]
      have hd : done = false := by
        rw [h3]
        rcases Nat.eq_zero_or_pos lp.length with h0 | h0
        · rw [h0] at hN
          cases views with
          | zero => simp
          | succ v => simp [Nat.pow_succ] at hN
        · have : (lp.length == 0) = false := beq_false_of_ne (by omega)
          simp [this]
      subst hd h1
      simp [h2]
    · simp only [hN, ↓reduceIte, digits_zero]
      have hz : lp.length ^ views = 0 := by omega
      have hd : done = true := by
        rw [h3]
        cases views with
        | zero => simp at hz
        | succ v =>
          have : lp.length = 0 := by
            rcases Nat.eq_zero_or_pos lp.length with h0 | h0
            · exact h0
            · have := Nat.pow_pos (n := v + 1) h0; omega
          simp [this]
      subst hd h1
      simp [h2, hz]

theorem next_stateAt (g : Gen) (c : Nat) :
    (stateAt g c).next =
      (stateAt g (c + 1), if c < g.total then some (scenarioAt g c) else none) := by
  by_cases hc : c < g.total
  · have hD := digits_lt' g.lp.length g.views c hc
    have hlen := digits_length g.lp.length g.views c
    have hspec := incr_spec g.lp.length _ hD
    have hcar := incr_carry_iff g.lp.length _ hD
    have hil := incr_length g.lp.length (digits g.lp.length g.views c)
    rw [value_digits _ _ _ hc, hlen] at hspec hcar
    rw [hlen] at hil
    by_cases hc1 : c + 1 < g.total
    · have hnc : (incr g.lp.length (digits g.lp.length g.views c)).2 = false := by
        cases hb : (incr g.lp.length (digits g.lp.length g.views c)).2 with
        | false => rfl
        | true => have := hcar.1 hb; unfold Gen.total at hc1; omega
      have hval : value g.lp.length (incr g.lp.length (digits g.lp.length g.views c)).1 = c + 1 := by
        have := hspec.2; rw [hnc] at this; simpa using this
      have heq : (incr g.lp.length (digits g.lp.length g.views c)).1 = digits g.lp.length g.views (c + 1) := by
        apply value_inj g.lp.length _ _ (by rw [hil, digits_length]) hspec.1 (digits_lt' _ _ _ hc1)
        rw [hval, value_digits _ _ _ hc1]
      simp only [stateAt, hc, hc1, ↓reduceIte, Gen.next, Bool.false_eq_true, scenarioAt]
      rw [heq, hnc]
      congr 1
      congr 1
      omega
    · have hN : c + 1 = g.total := by omega
      have hcy : (incr g.lp.length (digits g.lp.length g.views c)).2 = true := hcar.2 (by unfold Gen.total at hN; omega)
      have hval : value g.lp.length (incr g.lp.length (digits g.lp.length g.views c)).1 = 0 := by
        have := hspec.2; rw [hcy] at this; simp only [↓reduceIte] at this; unfold Gen.total at hN; omega
      have h0 : 0 < g.lp.length ^ g.views := by unfold Gen.total at hc; omega
      have heq : (incr g.lp.length (digits g.lp.length g.views c)).1 = digits g.lp.length g.views 0 := by
        apply value_inj g.lp.length _ _ (by rw [hil, digits_length]) hspec.1 (digits_lt' _ _ _ h0)
        rw [hval, value_digits _ _ _ h0]
      simp only [stateAt, hc, hc1, ↓reduceIte, Gen.next, Bool.false_eq_true, scenarioAt]
      rw [heq, hcy]
      congr 1
      congr 1
      omega
  · have hc1 : ¬ c + 1 < g.total := by omega
    simp only [stateAt, hc, hc1, ↓reduceIte, Gen.next]

theorem run_stateAt (g : Gen) (k c : Nat) :
    (stateAt g c).run k =
      (stateAt g (c + k), (List.range k).map fun i => if c + i < g.total then some (scenarioAt g (c + i)) else none) := by
  induction k generalizing c with
  | zero => simp [Gen.run]
  | succ k ih =>
    simp only [Gen.run]
    rw [next_stateAt, ih (c + 1)]
    simp only [List.range_succ_eq_map, List.map_cons, List.map_map, Nat.add_zero]
    congr 1
    · congr 1; omega
    · congr 1
      apply List.map_congr_left
      intro i _
      simp only [Function.comp]
      have : c + 1 + i = c + (i + 1) := by omega
      rw [this]

/-! ### which sequences come out: generic in the alphabet -/

/-- `index := ii + off; if index >= L { index -= L }` -/
def wrapIdx (L ii off : Nat) : Nat := if ii + off ≥ L then ii + off - L else ii + off

theorem wrapIdx_lt {L d o : Nat} (hd : d < L) (ho : o < L) : wrapIdx L d o < L := by
  unfold wrapIdx; split <;> omega

theorem wrapIdx_inj {L d d' o : Nat} (hd : d < L) (hd' : d' < L) (ho : o < L)
    (h : wrapIdx L d o = wrapIdx L d' o) : d = d' := by
  unfold wrapIdx at h; split at h <;> split at h <;> omega

theorem wrapIdx_solve {L j o : Nat} (hj : j < L) (ho : o < L) :
    (j + L - o) % L < L ∧ wrapIdx L ((j + L - o) % L) o = j := by
  by_cases h : o ≤ j
  · have e : j + L - o = L + (j - o) := by omega
    rw [e, Nat.add_mod_left, Nat.mod_eq_of_lt (by omega)]
    refine ⟨by omega, ?_⟩
    unfold wrapIdx; split <;> omega
  · have e : j + L - o < L := by omega
    rw [Nat.mod_eq_of_lt e]
    refine ⟨e, ?_⟩
    unfold wrapIdx; split <;> omega

/-- `pick` for any alphabet type -/
def pickAt {α : Type} (l : List α) (dflt : α) (ii off : Nat) : α := l.getD (wrapIdx l.length ii off) dflt

theorem pick_eq_pickAt (lp : List View) (ii off : Nat) : pick lp ii off = pickAt lp emptyView ii off := rfl

theorem pickAt_eq {α : Type} (l : List α) (dflt : α) (d o : Nat) (h : wrapIdx l.length d o < l.length) :
    pickAt l dflt d o = l[wrapIdx l.length d o] := by
  simp [pickAt, List.getD_eq_getElem?_getD, h]

theorem nodup_getElem_inj {α : Type} : ∀ {l : List α}, l.Nodup → ∀ {i j : Nat} (hi : i < l.length) (hj : j < l.length),
    l[i] = l[j] → i = j
  | [], _, i, _, hi, _, _ => by simp at hi
  | a :: l, hn, i, j, hi, hj, e => by
    rw [List.nodup_cons] at hn
    cases i with
    | zero =>
      cases j with
      | zero => rfl
      | succ j =>
        simp only [List.getElem_cons_zero, List.getElem_cons_succ] at e
        exact absurd (e ▸ List.getElem_mem _) hn.1
    | succ i =>
      cases j with
      | zero =>
        simp only [List.getElem_cons_zero, List.getElem_cons_succ] at e
        exact absurd (e ▸ List.getElem_mem _) hn.1
      | succ j =>
        simp only [List.getElem_cons_succ] at e
        have := nodup_getElem_inj hn.2 (by simpa using hi) (by simpa using hj) e
        omega

/-- the sequence selected by a digit tuple -/
def seqOf {α : Type} (l : List α) (dflt : α) (offs : List Nat) (t : List Nat) : List α :=
  List.zipWith (pickAt l dflt) t offs

theorem seqOf_length {α : Type} (l : List α) (dflt : α) (offs t : List Nat) (h : t.length = offs.length) :
    (seqOf l dflt offs t).length = offs.length := by
  simp [seqOf, List.length_zipWith, h]

theorem seqOf_mem {α : Type} (l : List α) (dflt : α) : ∀ (offs t : List Nat), Digits l.length t →
    (∀ o ∈ offs, o < l.length) → ∀ x ∈ seqOf l dflt offs t, x ∈ l
  | _, [], _, _, x, hx => by simp [seqOf] at hx
  | [], _ :: _, _, _, x, hx => by simp [seqOf] at hx
  | o :: offs, d :: t, hd, ho, x, hx => by
    simp only [seqOf, List.zipWith_cons_cons, List.mem_cons] at hx
    rcases hx with rfl | hx
    · have hw := wrapIdx_lt (hd d (by simp)) (ho o (by simp))
      rw [pickAt_eq l dflt d o hw]
      exact List.getElem_mem _
    · exact seqOf_mem l dflt offs t (fun y hy => hd y (by simp [hy])) (fun y hy => ho y (by simp [hy])) x hx

theorem seqOf_inj {α : Type} (l : List α) (dflt : α) (hn : l.Nodup) : ∀ (offs t t' : List Nat),
    t.length = offs.length → t'.length = offs.length → Digits l.length t → Digits l.length t' →
    (∀ o ∈ offs, o < l.length) → seqOf l dflt offs t = seqOf l dflt offs t' → t = t'
  | [], [], [], _, _, _, _, _, _ => rfl
  | [], _ :: _, _, h, _, _, _, _, _ => by simp at h
  | [], [], _ :: _, _, h, _, _, _, _ => by simp at h
  | _ :: _, [], _, h, _, _, _, _, _ => by simp at h
  | _ :: _, _ :: _, [], _, h, _, _, _, _ => by simp at h
  | o :: offs, d :: t, d' :: t', hl, hl', hd, hd', ho, e => by
    simp only [seqOf, List.zipWith_cons_cons, List.cons.injEq] at e
    have hdL := hd d (by simp)
    have hdL' := hd' d' (by simp)
    have hoL := ho o (by simp)
    have hw := wrapIdx_lt hdL hoL
    have hw' := wrapIdx_lt hdL' hoL
    rw [pickAt_eq l dflt d o hw, pickAt_eq l dflt d' o hw'] at e
    have h1 := wrapIdx_inj hdL hdL' hoL (nodup_getElem_inj hn hw hw' e.1)
    have h2 := seqOf_inj l dflt hn offs t t' (by simpa using hl) (by simpa using hl')
      (fun y hy => hd y (by simp [hy])) (fun y hy => hd' y (by simp [hy])) (fun y hy => ho y (by simp [hy])) e.2
    rw [h1, h2]

theorem seqOf_solve {α : Type} [DecidableEq α] (l : List α) (dflt : α) : ∀ (offs : List Nat) (s : List α),
    s.length = offs.length → (∀ x ∈ s, x ∈ l) → (∀ o ∈ offs, o < l.length) →
    ∃ t, t.length = offs.length ∧ Digits l.length t ∧ seqOf l dflt offs t = s
  | [], [], _, _, _ => ⟨[], rfl, by intro x hx; simp at hx, rfl⟩
  | [], _ :: _, h, _, _ => by simp at h
  | _ :: _, [], h, _, _ => by simp at h
  | o :: offs, x :: s, hl, hm, ho => by
    obtain ⟨t, ht1, ht2, ht3⟩ := seqOf_solve l dflt offs s (by simpa using hl)
      (fun y hy => hm y (by simp [hy])) (fun y hy => ho y (by simp [hy]))
    have hx : x ∈ l := hm x (by simp)
    have hj : l.idxOf x < l.length := List.idxOf_lt_length_iff.2 hx
    have hoL := ho o (by simp)
    obtain ⟨hdL, hsolve⟩ := wrapIdx_solve hj hoL
    refine ⟨(l.idxOf x + l.length - o) % l.length :: t, by simp [ht1], ?_, ?_⟩
    · intro y hy
      simp only [List.mem_cons] at hy
      rcases hy with rfl | hy
      · exact hdL
      · exact ht2 y hy
    · simp only [seqOf, List.zipWith_cons_cons, List.cons.injEq]
      refine ⟨?_, ht3⟩
      rw [pickAt_eq l dflt _ o (by rw [hsolve]; exact hj)]
      simp only [hsolve]
      exact List.getElem_idxOf hj

/-- all sequences of a generator over alphabet `l`, in delivery order -/
def allSeq {α : Type} (l : List α) (dflt : α) (V : Nat) (offs : List Nat) : List (List α) :=
  (List.range (l.length ^ V)).map fun c => seqOf l dflt offs (digits l.length V c)

theorem allSeq_length {α : Type} (l : List α) (dflt : α) (V : Nat) (offs : List Nat) :
    (allSeq l dflt V offs).length = l.length ^ V := by simp [allSeq]

theorem allSeq_nodup {α : Type} (l : List α) (dflt : α) (V : Nat) (offs : List Nat) (hn : l.Nodup)
    (hlen : offs.length = V) (ho : ∀ o ∈ offs, o < l.length) : (allSeq l dflt V offs).Nodup := by
  apply nodup_map_on _ List.nodup_range
  intro c hc c' hc' e
  rw [List.mem_range] at hc hc'
  have := seqOf_inj l dflt hn offs _ _ (by rw [digits_length, hlen]) (by rw [digits_length, hlen])
    (digits_lt' _ _ _ hc) (digits_lt' _ _ _ hc') ho e
  rw [← value_digits _ _ _ hc, ← value_digits _ _ _ hc', this]

theorem mem_allSeq {α : Type} [DecidableEq α] (l : List α) (dflt : α) (V : Nat) (offs : List Nat)
    (hlen : offs.length = V) (ho : ∀ o ∈ offs, o < l.length) (s : List α) :
    s ∈ allSeq l dflt V offs ↔ s.length = V ∧ ∀ x ∈ s, x ∈ l := by
  constructor
  · intro h
    simp only [allSeq, List.mem_map, List.mem_range] at h
    obtain ⟨c, hc, rfl⟩ := h
    refine ⟨by rw [seqOf_length _ _ _ _ (by rw [digits_length, hlen]), hlen], ?_⟩
    exact seqOf_mem l dflt offs _ (digits_lt' _ _ _ hc) ho
  · rintro ⟨h1, h2⟩
    obtain ⟨t, ht1, ht2, ht3⟩ := seqOf_solve l dflt offs s (by rw [h1, hlen]) h2 ho
    simp only [allSeq, List.mem_map, List.mem_range]
    have hv := value_lt l.length t ht2
    rw [ht1, hlen] at hv
    refine ⟨value l.length t, hv, ?_⟩
    have := digits_value l.length t ht2
    rw [ht1, hlen] at this
    rw [this, ht3]

/-! ### shuffling permutes the set of sequences -/

theorem seqOf_map {α β : Type} (f : α → β) (l : List α) (da : α) (db : β) : ∀ (offs t : List Nat),
    Digits l.length t → (∀ o ∈ offs, o < l.length) →
    seqOf (l.map f) db offs t = (seqOf l da offs t).map f
  | _, [], _, _ => by simp [seqOf]
  | [], _ :: _, _, _ => by simp [seqOf]
  | o :: offs, d :: t, hd, ho => by
    have hw := wrapIdx_lt (hd d (by simp)) (ho o (by simp))
    have ih := seqOf_map f l da db offs t (fun y hy => hd y (by simp [hy])) (fun y hy => ho y (by simp [hy]))
    simp only [seqOf, List.zipWith_cons_cons, List.map_cons, List.cons.injEq] at ih ⊢
    refine ⟨?_, ih⟩
    rw [pickAt_eq l da d o hw, pickAt_eq (l.map f) db d o (by simpa using hw)]
    simp

theorem allSeq_map {α β : Type} (f : α → β) (l : List α) (da : α) (db : β) (V : Nat) (offs : List Nat)
    (ho : ∀ o ∈ offs, o < l.length) :
    allSeq (l.map f) db V offs = (allSeq l da V offs).map (·.map f) := by
  simp only [allSeq, List.length_map, List.map_map]
  apply List.map_congr_left
  intro c hc
  rw [List.mem_range] at hc
  simp only [Function.comp]
  have := seqOf_map f l da db offs (digits l.length V c) (digits_lt' _ _ _ hc) ho
  simpa using this

theorem allSeq_perm {α : Type} [DecidableEq α] {l l' : List α} (hp : l'.Perm l) (hn : l.Nodup) (dflt : α)
    (V : Nat) (offs offs' : List Nat) (hl : offs.length = V) (hl' : offs'.length = V)
    (ho : ∀ o ∈ offs, o < l.length) (ho' : ∀ o ∈ offs', o < l.length) :
    (allSeq l' dflt V offs').Perm (allSeq l dflt V offs) := by
  have hlen := hp.length_eq
  have hn' : l'.Nodup := hp.nodup_iff.2 hn
  rw [List.perm_ext_iff_of_nodup (allSeq_nodup l' dflt V offs' hn' hl' (by rw [hlen]; exact ho'))
    (allSeq_nodup l dflt V offs hn hl ho)]
  intro s
  rw [mem_allSeq l' dflt V offs' hl' (by rw [hlen]; exact ho'), mem_allSeq l dflt V offs hl ho]
  constructor
  · rintro ⟨h1, h2⟩; exact ⟨h1, fun x hx => hp.mem_iff.1 (h2 x hx)⟩
  · rintro ⟨h1, h2⟩; exact ⟨h1, fun x hx => hp.mem_iff.2 (h2 x hx)⟩

theorem range_map_getD {α : Type} (l : List α) (d : α) : (List.range l.length).map (l.getD · d) = l := by
  apply List.ext_getElem
  · simp
  · intro i h1 h2
    simp [List.getD_eq_getElem?_getD, h2]

theorem filterMap_getElem?_eq_map {α : Type} (l : List α) (d : α) : ∀ (perm : List Nat),
    (∀ j ∈ perm, j < l.length) → perm.filterMap (l[·]?) = perm.map (l.getD · d)
  | [], _ => rfl
  | j :: perm, h => by
    have hj := h j (by simp)
    have ih := filterMap_getElem?_eq_map l d perm (fun y hy => h y (by simp [hy]))
    simp [hj, ih, List.getD_eq_getElem?_getD]

/-! ### checkCommits -/

/-- some considered replica has executed a block at position `j` -/
def Occupied (logs : List (List Nat)) (j : Nat) : Prop := ∃ l ∈ logs, j < l.length

/-- no two considered replicas executed different blocks at position `j` -/
def Agree (logs : List (List Nat)) (j : Nat) : Prop :=
  ∀ l₁ ∈ logs, ∀ l₂ ∈ logs, ∀ a b, l₁[j]? = some a → l₂[j]? = some b → a = b

theorem anyAt_iff (logs : List (List Nat)) (i : Nat) : anyAt logs i = true ↔ Occupied logs i := by
  simp [anyAt, Occupied]

def insKey (ks : List Nat) (h : Nat) : List Nat := if ks.contains h then ks else ks ++ [h]

theorem insKey_of_mem {ks : List Nat} {h : Nat} (hm : h ∈ ks) : insKey ks h = ks := by simp [insKey, hm]

theorem insKey_of_not_mem {ks : List Nat} {h : Nat} (hm : h ∉ ks) : insKey ks h = ks ++ [h] := by
  simp [insKey, hm]

theorem nodup_snoc {α : Type} {l : List α} {a : α} (hn : l.Nodup) (ha : a ∉ l) : (l ++ [a]).Nodup := by
  rw [List.nodup_append]
  refine ⟨hn, by simp, ?_⟩
  intro x hx b hb
  simp only [List.mem_singleton] at hb
  subst hb
  intro e
  exact ha (e ▸ hx)

theorem foldl_insKey (hs : List Nat) : ∀ (ks : List Nat),
    (∀ x, x ∈ hs.foldl insKey ks ↔ x ∈ ks ∨ x ∈ hs) ∧ (ks.Nodup → (hs.foldl insKey ks).Nodup) := by
  induction hs with
  | nil => intro ks; simp
  | cons h hs ih =>
    intro ks
    obtain ⟨ih1, ih2⟩ := ih (insKey ks h)
    simp only [List.foldl_cons]
    by_cases hm : h ∈ ks
    · rw [insKey_of_mem hm] at ih1 ih2 ⊢
      refine ⟨fun x => ?_, ih2⟩
      rw [ih1]
      simp only [List.mem_cons]
      constructor
      · rintro (h1 | h1)
        · exact Or.inl h1
        · exact Or.inr (Or.inr h1)
      · rintro (h1 | h1 | h1)
        · exact Or.inl h1
        · exact Or.inl (h1 ▸ hm)
        · exact Or.inr h1
    · rw [insKey_of_not_mem hm] at ih1 ih2 ⊢
      refine ⟨fun x => ?_, fun hn => ih2 (nodup_snoc hn hm)⟩
      rw [ih1]
      simp only [List.mem_append, List.mem_cons, List.not_mem_nil, or_false]
      constructor
      · rintro ((h1 | h1) | h1)
        · exact Or.inl h1
        · exact Or.inr (Or.inl h1)
        · exact Or.inr (Or.inr h1)
      · rintro (h1 | h1 | h1)
        · exact Or.inl (Or.inl h1)
        · exact Or.inl (Or.inr h1)
        · exact Or.inr h1

theorem nodup_all_eq {l : List Nat} (hn : l.Nodup) (a : Nat) (h : ∀ x ∈ l, x = a) (hne : l ≠ []) : l = [a] := by
  match l, hn, h, hne with
  | [], _, _, hne => exact absurd rfl hne
  | [x], _, h, _ => rw [h x (by simp)]
  | x :: y :: r, hn, h, _ =>
    exfalso
    rw [List.nodup_cons] at hn
    have hx := h x (by simp)
    have hy := h y (by simp)
    exact hn.1 (by simp [hx, hy])

theorem keysAt_eq (logs : List (List Nat)) (i : Nat) :
    keysAt logs i = (logs.filterMap (·[i]?)).foldl insKey [] := rfl

theorem keysAt_one_iff (logs : List (List Nat)) (i : Nat) :
    (keysAt logs i).length = 1 ↔ Occupied logs i ∧ Agree logs i := by
  rw [keysAt_eq]
  obtain ⟨hm, hn⟩ := foldl_insKey (logs.filterMap (·[i]?)) []
  have hn := hn List.nodup_nil
  have hmem : ∀ x, x ∈ (logs.filterMap (·[i]?)).foldl insKey [] ↔ ∃ l ∈ logs, l[i]? = some x := by
    intro x; rw [hm]; simp [List.mem_filterMap]
  constructor
  · intro h1
    match hK : (logs.filterMap (·[i]?)).foldl insKey [], h1 with
    | [a], _ =>
      rw [hK] at hmem
      constructor
      · obtain ⟨l, hl, hla⟩ := (hmem a).1 (by simp)
        refine ⟨l, hl, ?_⟩
        have := List.getElem?_eq_some_iff.1 hla
        exact this.1
      · intro l₁ h₁ l₂ h₂ a' b' ha hb
        have e1 : a' = a := by simpa using (hmem a').2 ⟨l₁, h₁, ha⟩
        have e2 : b' = a := by simpa using (hmem b').2 ⟨l₂, h₂, hb⟩
        rw [e1, e2]
  · rintro ⟨⟨l, hl, hlt⟩, hag⟩
    have ha : l[i] ∈ (logs.filterMap (·[i]?)).foldl insKey [] := (hmem _).2 ⟨l, hl, List.getElem?_eq_getElem hlt⟩
    have hall : ∀ x ∈ (logs.filterMap (·[i]?)).foldl insKey [], x = l[i] := by
      intro x hx
      obtain ⟨l', hl', hx'⟩ := (hmem x).1 hx
      exact hag l' hl' l hl x l[i] hx' (List.getElem?_eq_getElem hlt)
    rw [nodup_all_eq hn l[i] hall (List.ne_nil_of_mem ha)]
    rfl

theorem le_foldl_max (logs : List (List Nat)) : ∀ (m : Nat),
    m ≤ logs.foldl (fun m l => max m l.length) m ∧ ∀ l ∈ logs, l.length ≤ logs.foldl (fun m l => max m l.length) m := by
  induction logs with
  | nil => intro m; simp
  | cons a logs ih =>
    intro m
    obtain ⟨h1, h2⟩ := ih (max m a.length)
    simp only [List.foldl_cons, List.mem_cons]
    refine ⟨by omega, ?_⟩
    rintro l (rfl | hl)
    · omega
    · exact h2 l hl

theorem length_le_maxLen (logs : List (List Nat)) (l : List Nat) (h : l ∈ logs) : l.length ≤ maxLen logs :=
  (le_foldl_max logs 0).2 l h

/-- the loop of `checkCommits`, started at `i` with everything below `i` agreed -/
theorem checkLoop_spec (logs : List (List Nat)) : ∀ (fuel i : Nat),
    (∀ j < i, Occupied logs j ∧ Agree logs j) → maxLen logs < fuel + i →
    (∀ j < (checkLoop logs fuel i).2, Occupied logs j ∧ Agree logs j) ∧
    ((checkLoop logs fuel i).1 = true → ¬ Occupied logs (checkLoop logs fuel i).2) ∧
    ((checkLoop logs fuel i).1 = false →
      Occupied logs (checkLoop logs fuel i).2 ∧ ¬ Agree logs (checkLoop logs fuel i).2)
  | 0, i, hpre, hf => by
    simp only [checkLoop]
    refine ⟨hpre, ?_, by simp⟩
    intro _ ⟨l, hl, hlt⟩
    have := length_le_maxLen logs l hl
    omega
  | fuel + 1, i, hpre, hf => by
    simp only [checkLoop]
    by_cases hany : anyAt logs i = true
    · simp only [hany, Bool.not_true, Bool.false_eq_true, ↓reduceIte]
      by_cases hk : (keysAt logs i).length = 1
      · have hk' : ((keysAt logs i).length != 1) = false := by simp [hk]
        simp only [hk', Bool.false_eq_true, ↓reduceIte]
        have hoa := (keysAt_one_iff logs i).1 hk
        apply checkLoop_spec logs fuel (i + 1)
        · intro j hj
          by_cases hji : j < i
          · exact hpre j hji
          · have : j = i := by omega
            subst this; exact hoa
        · omega
      · have hk' : ((keysAt logs i).length != 1) = true := by simp [hk]
        simp only [hk', ↓reduceIte]
        refine ⟨hpre, by simp, ?_⟩
        intro _
        have hocc := (anyAt_iff logs i).1 hany
        exact ⟨hocc, fun hag => hk ((keysAt_one_iff logs i).2 ⟨hocc, hag⟩)⟩
    · have hany' : anyAt logs i = false := by simpa using hany
      simp only [hany', Bool.not_false, ↓reduceIte]
      refine ⟨hpre, ?_, by simp⟩
      intro _ hocc
      exact hany ((anyAt_iff logs i).2 hocc)

/-! ### JSON: sorted member list and back -/

theorem mem_insertNode (x y : NodeID) : ∀ (l : List NodeID), y ∈ insertNode x l ↔ y = x ∨ y ∈ l
  | [] => by simp [insertNode]
  | z :: l => by
    simp only [insertNode]
    split
    · simp
    · simp only [List.mem_cons, mem_insertNode x y l]
      constructor
      · rintro (h | h | h)
        · exact Or.inr (Or.inl h)
        · exact Or.inl h
        · exact Or.inr (Or.inr h)
      · rintro (h | h | h)
        · exact Or.inr (Or.inl h)
        · exact Or.inl h
        · exact Or.inr (Or.inr h)

theorem mem_marshalSet (y : NodeID) : ∀ (s : NodeSet), y ∈ marshalSet s ↔ y ∈ s
  | [] => by simp [marshalSet]
  | x :: s => by
    have ih := mem_marshalSet y s
    simp only [marshalSet, List.foldr_cons] at ih ⊢
    rw [mem_insertNode, ih]
    simp

theorem length_insertNode (x : NodeID) : ∀ (l : List NodeID), (insertNode x l).length = l.length + 1
  | [] => rfl
  | z :: l => by
    simp only [insertNode]
    split
    · simp
    · simp [length_insertNode x l]

theorem length_marshalSet : ∀ (s : NodeSet), (marshalSet s).length = s.length
  | [] => rfl
  | x :: s => by
    have ih := length_marshalSet s
    simp only [marshalSet, List.foldr_cons] at ih ⊢
    rw [length_insertNode, ih]
    simp

theorem add_of_mem {s : NodeSet} {v : NodeID} (hm : v ∈ s) : NodeSet.add s v = s := by
  simp [NodeSet.add, hm]

theorem add_of_not_mem {s : NodeSet} {v : NodeID} (hm : v ∉ s) : NodeSet.add s v = s ++ [v] := by
  simp [NodeSet.add, hm]

theorem mem_add (s : NodeSet) (v y : NodeID) : y ∈ NodeSet.add s v ↔ y ∈ s ∨ y = v := by
  by_cases hm : v ∈ s
  · rw [add_of_mem hm]
    constructor
    · exact Or.inl
    · rintro (h | h)
      · exact h
      · exact h ▸ hm
  · rw [add_of_not_mem hm]; simp

theorem nodup_add (s : NodeSet) (v : NodeID) (h : s.Nodup) : (NodeSet.add s v).Nodup := by
  by_cases hm : v ∈ s
  · rw [add_of_mem hm]; exact h
  · rw [add_of_not_mem hm]; exact nodup_snoc h hm

theorem foldl_add (l : List NodeID) : ∀ (acc : NodeSet),
    (∀ y, y ∈ l.foldl NodeSet.add acc ↔ y ∈ acc ∨ y ∈ l) ∧ (acc.Nodup → (l.foldl NodeSet.add acc).Nodup) := by
  induction l with
  | nil => intro acc; simp
  | cons x l ih =>
    intro acc
    obtain ⟨h1, h2⟩ := ih (NodeSet.add acc x)
    simp only [List.foldl_cons]
    constructor
    · intro y
      rw [h1, mem_add]
      simp only [List.mem_cons]
      constructor
      · rintro ((h | h) | h)
        · exact Or.inl h
        · exact Or.inr (Or.inl h)
        · exact Or.inr (Or.inr h)
      · rintro (h | h | h)
        · exact Or.inl (Or.inl h)
        · exact Or.inl (Or.inr h)
        · exact Or.inr h
    · intro hn; exact h2 (nodup_add acc x hn)

theorem mem_unmarshal_marshal (s : NodeSet) (y : NodeID) : y ∈ unmarshalSet (marshalSet s) ↔ y ∈ s := by
  unfold unmarshalSet
  rw [(foldl_add (marshalSet s) []).1 y, mem_marshalSet]
  simp

theorem nodup_unmarshal (l : List NodeID) : (unmarshalSet l).Nodup :=
  (foldl_add l []).2 List.nodup_nil

/-! ### assignNodeIDs in closed form -/

/-- replicas `id, id+1, …, id+cnt-1`, each as two twins -/
def cfgTwins (id cnt : Nat) : List NodeID := (List.range cnt).flatMap fun i => [⟨id + i, 1⟩, ⟨id + i, 2⟩]

/-- replicas `id, …, id+cnt-1`, each as one node -/
def cfgNodes (id cnt : Nat) : List NodeID := (List.range cnt).map fun i => ⟨id + i, 0⟩

theorem flatMap_congr' {α β : Type} {f g : α → List β} : ∀ (l : List α), (∀ x ∈ l, f x = g x) →
    l.flatMap f = l.flatMap g
  | [], _ => rfl
  | a :: l, h => by
    simp only [List.flatMap_cons]
    rw [h a (by simp), flatMap_congr' l (fun x hx => h x (by simp [hx]))]

theorem cfgTwins_succ (id cnt : Nat) :
    cfgTwins id (cnt + 1) = [⟨id, 1⟩, ⟨id, 2⟩] ++ cfgTwins (id + 1) cnt := by
  simp only [cfgTwins, List.range_succ_eq_map, List.flatMap_cons, List.flatMap_map, Nat.add_zero]
  congr 1
  apply flatMap_congr'
  intro i _
  simp only [Nat.succ_eq_add_one]
  have : id + (i + 1) = id + 1 + i := by omega
  rw [this]

theorem cfgNodes_succ (id cnt : Nat) : cfgNodes id (cnt + 1) = ⟨id, 0⟩ :: cfgNodes (id + 1) cnt := by
  simp only [cfgNodes, List.range_succ_eq_map, List.map_cons, List.map_map, Nat.add_zero]
  congr 1
  apply List.map_congr_left
  intro i _
  simp only [Function.comp, Nat.succ_eq_add_one]
  have : id + (i + 1) = id + 1 + i := by omega
  rw [this]

theorem assignLoop_spec : ∀ (cnt id rem : Nat) (nodes twins : List NodeID),
    assignLoop cnt id rem nodes twins =
      (nodes ++ cfgNodes (id + min cnt rem) (cnt - min cnt rem), twins ++ cfgTwins id (min cnt rem))
  | 0, id, rem, nodes, twins => by simp [assignLoop, cfgNodes, cfgTwins]
  | cnt + 1, id, rem, nodes, twins => by
    simp only [assignLoop]
    by_cases hr : rem > 0
    · simp only [hr, ↓reduceIte]
      rw [assignLoop_spec cnt (id + 1) (rem - 1)]
      have hm : min (cnt + 1) rem = min cnt (rem - 1) + 1 := by omega
      rw [hm, cfgTwins_succ]
      have e1 : id + 1 + min cnt (rem - 1) = id + (min cnt (rem - 1) + 1) := by omega
      have e2 : cnt + 1 - (min cnt (rem - 1) + 1) = cnt - min cnt (rem - 1) := by omega
      rw [e1, e2, List.append_assoc]
    · simp only [hr, ↓reduceIte]
      have h0 : rem = 0 := by omega
      subst h0
      rw [assignLoop_spec cnt (id + 1) 0]
      simp only [Nat.min_zero, Nat.add_zero, Nat.sub_zero, cfgNodes_succ, List.append_assoc, List.singleton_append]
      simp [cfgTwins]

theorem assign_spec (n t : Nat) :
    assignNodeIDs n t = (cfgNodes (1 + min n t) (n - min n t), cfgTwins 1 (min n t)) := by
  simp [assignNodeIDs, assignLoop_spec]

theorem mem_cfgNodes (id cnt : Nat) (nd : NodeID) : nd ∈ cfgNodes id cnt ↔ nd.tid = 0 ∧ id ≤ nd.rid ∧ nd.rid < id + cnt := by
  simp only [cfgNodes, List.mem_map, List.mem_range]
  constructor
  · rintro ⟨i, hi, rfl⟩; simp; omega
  · rintro ⟨h1, h2, h3⟩
    refine ⟨nd.rid - id, by omega, ?_⟩
    cases nd with
    | mk r t => simp at h1 h2 ⊢; exact ⟨by omega, h1.symm⟩

theorem mem_cfgTwins (id cnt : Nat) (nd : NodeID) :
    nd ∈ cfgTwins id cnt ↔ (nd.tid = 1 ∨ nd.tid = 2) ∧ id ≤ nd.rid ∧ nd.rid < id + cnt := by
  simp only [cfgTwins, List.mem_flatMap, List.mem_range, List.mem_cons, List.not_mem_nil, or_false]
  constructor
  · rintro ⟨i, hi, rfl | rfl⟩ <;> simp <;> omega
  · rintro ⟨h1, h2, h3⟩
    refine ⟨nd.rid - id, by omega, ?_⟩
    cases nd with
    | mk r t =>
      simp at h1 h2 ⊢
      have : id + (r - id) = r := by omega
      rw [this]
      rcases h1 with h | h <;> simp [h]

end HsVerif.Model.Twins
