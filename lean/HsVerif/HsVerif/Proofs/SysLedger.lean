import HsVerif.Proofs.SysSafety
import HsVerif.Proofs.ReplicaLog
/-!
C01, ledger layer (task S5), system level: THE COMMIT LOGS OF HONEST REPLICAS ARE HASH CHAINS FROM
GENESIS.  Helpers; the property theorems are in Props/C01Ledger.lean.

1. `LChain blk prev l` (hash-linked chain after `prev`: `b.parent = prev.hash`, views strictly
   increasing, every block is THE block of its hash) and `lastOr`.  Under the standing hypotheses
   `Ctx k C σ blk` of Proofs/SysSafety.lean (added to ITS namespace, so that `X.…` works):
   * `Ctx.ext_le`, `Ctx.tip_ext`: everything below a GC block is GC with views not increasing; a
     committed block (`Tip`: genesis or the tail of a three-chain) of higher view extends one of lower view
     (`committed_on_one_branch`);
   * `Ctx.stored_par`: a stored parent link out of a GC block of positive view is its abstract parent link;
   * `Ctx.path_anchor` — EVERY ANCHOR IS THE PREVIOUSLY COMMITTED BLOCK: a stored parent path (`Path`,
     Proofs/ReplicaLog.lean) down from a committed block `t` that extends the committed block `c1`, through
     blocks of views above `c1`'s, to an anchor of view at most `c1`'s, ends exactly at `c1` (views fall
     strictly along the path, and GC blocks of one view coincide);
   * `Ctx.path_chain`, `Ctx.segs_chain`: the segments of a step (`Segs`) form an `LChain` after the block
     committed before, ending in the new committed block, again a `Tip`.
   All facts are taken in the state AFTER the step: block maps only grow (`pruneToHeight` leaves the block
   map alone, `pruneToHeight_blocks`; it prunes the height index only) and ghost histories only grow.
2. `ca'_back`, `ca'_back_run`: `CA'` of the state after an action implies `CA'` of the state before it —
   the run-level theorems assume `CA'` of the FINAL state only.
3. The run with ledgers `sysStepL` / `sysRunL` (`sysStepL_fst`, `sysRunL_fst`: its first component is
   `sysStep` / `sysRun`), the ledger invariant `LedgerInv` (`RepLedger`: for every replica, ledger ++
   pending log is an `LChain` from genesis ending in the committed block; nothing in `out`, no commit event
   deferred) and its preservation `sysStepL_inv`, `sysRunL_inv` — for runs in which the adversary does
   not deliver `Ev.commit` events (`SysAct.noCommit`; with such a delivery the ledger is arbitrary,
   Props/C01Ledger.lean `ledger_counterexample`).
4. `sysStep_rep_view`, `reach_wait`: across ANY action the view of a replica's committed block does not
   decrease; no commit event waits in a deferred list of a reachable replica state.
-/
set_option linter.unusedVariables false
namespace HsVerif.SysLedger
open HsVerif.Model HsVerif.Props HsVerif.Props.C01Sys HsVerif.Props.C01SysWF HsVerif.Safety HsVerif.SysSafety

/-- the last block of a log that starts after `prev` (`prev` itself for the empty log) -/
def lastOr (prev : Block) : List Block → Block
  | [] => prev
  | b :: rest => lastOr b rest

theorem lastOr_append (prev : Block) (l1 l2 : List Block) : lastOr prev (l1 ++ l2) = lastOr (lastOr prev l1) l2 := by
  induction l1 generalizing prev with
  | nil => rfl
  | cons b rest ih => exact ih b

/-- a hash-linked chain after `prev`: each block's parent hash is the hash of the block before it, views
strictly increase, and every block is THE block of its hash -/
def LChain (blk : Hash → Block) : Block → List Block → Prop
  | _, [] => True
  | prev, b :: rest => b.parent = prev.hash ∧ prev.view < b.view ∧ b = blk b.hash ∧ LChain blk b rest

theorem lchain_append (blk : Hash → Block) (prev : Block) (l1 l2 : List Block) :
    LChain blk prev (l1 ++ l2) ↔ LChain blk prev l1 ∧ LChain blk (lastOr prev l1) l2 := by
  induction l1 generalizing prev with
  | nil => simp [LChain, lastOr]
  | cons b rest ih =>
    simp only [List.cons_append, LChain, lastOr, ih b]
    constructor
    · rintro ⟨h1, h2, h3, h4, h5⟩; exact ⟨⟨h1, h2, h3, h4⟩, h5⟩
    · rintro ⟨⟨h1, h2, h3, h4⟩, h5⟩; exact ⟨h1, h2, h3, h4, h5⟩

/-- genesis, or the tail of a three-chain of the abstract system: what a committed block is -/
def Tip (C : SysCfg) (σ : SysState) (blk : Hash → Block) (x : Block) : Prop :=
  x = genesisBlock ∨ ∃ b2 b1, ThreeChain (S := SysAbs C σ blk) x b2 b1

end HsVerif.SysLedger

namespace HsVerif.SysSafety
open HsVerif.Model HsVerif.Props HsVerif.Props.C01Sys HsVerif.Props.C01SysWF HsVerif.Safety HsVerif.SysLedger

section
variable {k : Keys} {C : SysCfg} {σ : SysState} {blk : Hash → Block} (X : Ctx k C σ blk)
include X

theorem Ctx.tip_gc {x : Block} (h : Tip C σ blk x) : GC (SysAbs C σ blk) x := by
  rcases h with h | ⟨b2, b1, T⟩
  · exact Or.inl h
  · exact X.three_gc T

/-- the parent of a GC block is GC and not above it -/
theorem Ctx.gc_par {b : Block} (h : GC (SysAbs C σ blk) b) :
    GC (SysAbs C σ blk) ((SysAbs C σ blk).par b) ∧ Block.view ((SysAbs C σ blk).par b) ≤ b.view := by
  rcases h with rfl | hc
  · rw [sysAbs_par, if_pos rfl]; exact ⟨Or.inl rfl, Nat.le_refl _⟩
  · exact ⟨(X.cert hc).gc, Nat.le_of_lt (X.cert hc).lt⟩

/-- everything a GC block extends is GC and not above it -/
theorem Ctx.ext_le : ∀ (n : Nat) (a c : Block), GC (SysAbs C σ blk) a → up (SysAbs C σ blk) n a = c →
    GC (SysAbs C σ blk) c ∧ c.view ≤ a.view := by
  intro n
  induction n with
  | zero => intro a c ha h; cases h; exact ⟨ha, Nat.le_refl _⟩
  | succ n ih =>
    intro a c ha h
    obtain ⟨h1, h2⟩ := X.gc_par ha
    obtain ⟨h3, h4⟩ := ih _ c h1 h
    exact ⟨h3, Nat.le_trans h4 h2⟩

/-- a committed block of higher view extends a committed block of lower view -/
theorem Ctx.tip_ext {t c : Block} (ht : Tip C σ blk t) (hc : Tip C σ blk c) (hv : c.view < t.view) :
    Ext (SysAbs C σ blk) t c := by
  rcases hc with rfl | ⟨c2, c1, Tc⟩
  · exact X.gc_ext_gen _ _ rfl (X.tip_gc ht)
  · rcases ht with rfl | ⟨t2, t1, Tt⟩
    · exact absurd hv (Nat.not_lt_zero _)
    · rcases committed_on_one_branch X.discipline Tt Tc with h | ⟨n, hn⟩
      · exact h
      · have := (X.ext_le n c t (X.three_gc Tc) hn).2
        omega

/-- a stored parent link out of a GC block of positive view is its abstract parent link -/
theorem Ctx.stored_par {i : Nat} {s : RState} {b p : Block} (hs : σ.reps.lookup i = some s)
    (hb : GC (SysAbs C σ blk) b) (hv : 0 < b.view) (hp : sget s b.parent = some p) :
    (SysAbs C σ blk).par b = p ∧ b = blk b.hash ∧ b.parent = p.hash ∧ p = blk p.hash ∧
      GC (SysAbs C σ blk) p ∧ p.view < b.view := by
  have hne : b ≠ genesisBlock := by
    intro e; rw [e] at hv; exact Nat.lt_irrefl _ hv
  have hc : Certified (SysAbs C σ blk) b := by
    rcases hb with h | h
    · exact absurd h hne
    · exact h
  have V := X.cert hc
  obtain ⟨h1, h2, _⟩ := X.stored hs hp
  have hpar : (SysAbs C σ blk).par b = p := by rw [sysAbs_par, if_neg hne]; exact h1.symm
  refine ⟨hpar, V.known, h2.symm, X.stored_known hs hp, hpar ▸ V.gc, hpar ▸ V.lt⟩

/-- a stored parent path down from a GC block, all of positive view, is a hash-linked chain above its anchor -/
theorem Ctx.path_chain {i : Nat} {s : RState} {a t : Block} {seg : List Block} (hs : σ.reps.lookup i = some s)
    (h : Path s a seg t) : GC (SysAbs C σ blk) t → (∀ x ∈ seg, 0 < x.view) →
    LChain blk a seg ∧ lastOr a seg = t := by
  induction h with
  | nil => intro _ _; exact ⟨trivial, rfl⟩
  | snoc seg p b _ hp ih =>
    intro hb hv
    obtain ⟨_, h2, h3, _, h5, h6⟩ := X.stored_par hs hb (hv b (by simp)) hp
    obtain ⟨i1, i2⟩ := ih h5 (fun x hx => hv x (List.mem_append_left _ hx))
    refine ⟨(lchain_append blk a seg [b]).mpr ⟨i1, ?_⟩, by rw [lastOr_append]; rfl⟩
    rw [i2]
    exact ⟨h3, h6, h2, trivial⟩

/-- **the anchor of a segment is the block committed before it**: a stored parent path down from a GC
block `t` that extends the GC block `c1`, through blocks of views above `c1`'s to an anchor of view at
most `c1`'s, ends exactly at `c1` -/
theorem Ctx.path_anchor {i : Nat} {s : RState} {a t c1 : Block} {seg : List Block} (hs : σ.reps.lookup i = some s)
    (hc1 : GC (SysAbs C σ blk) c1) (h : Path s a seg t) : GC (SysAbs C σ blk) t → Ext (SysAbs C σ blk) t c1 →
    (∀ x ∈ seg, c1.view < x.view) → a.view ≤ c1.view → a = c1 := by
  induction h with
  | nil =>
    intro ha ⟨n, hn⟩ _ hv
    have := (X.ext_le n a c1 ha hn).2
    exact X.gc_unique ha hc1 (by omega)
  | snoc seg p b _ hp ih =>
    intro hb ⟨n, hn⟩ hsv hv
    have hbv := hsv b (by simp)
    obtain ⟨h1, _, _, _, h5, _⟩ := X.stored_par hs hb (by omega) hp
    cases n with
    | zero => cases hn; exact absurd hbv (Nat.lt_irrefl _)
    | succ n =>
      have hn' : up (SysAbs C σ blk) n ((SysAbs C σ blk).par b) = c1 := hn
      rw [h1] at hn'
      exact ih h5 ⟨n, hn'⟩ (fun x hx => hsv x (List.mem_append_left _ hx)) hv

/-- **segments are hash-linked chains that continue the log**: in a system state satisfying the standing
hypotheses, the blocks appended by successive commits of one replica (`Segs`) starting from a committed
block `c0` form a hash-linked chain after `c0` with strictly increasing views, ending in the new
committed block, which is again the tail of a three-chain -/
theorem Ctx.segs_chain {i : Nat} {s : RState} {vs : List GRec} {c0 t : Block} {l : List Block}
    (hs : σ.reps.lookup i = some s) (hsub : ∀ r, r ∈ vs → r ∈ s.ghost) (hc0 : Tip C σ blk c0)
    (h : Segs (C.rcfg i) s vs c0 l t) : LChain blk c0 l ∧ lastOr c0 l = t ∧ Tip C σ blk t := by
  induction h with
  | nil => exact ⟨trivial, rfl, hc0⟩
  | snoc l c1 a seg t _ hne hpath hav hsv hcc ih =>
    obtain ⟨i1, i2, i3⟩ := ih
    obtain ⟨x, id, hm, hch⟩ := hcc
    have ht : Tip C σ blk t := Or.inr (X.commit_chain hs (hsub _ hm) hch)
    have htv := hsv t (hpath.top_mem hne)
    have hext := X.tip_ext ht i3 htv
    have ha : a = c1 := X.path_anchor hs (X.tip_gc i3) hpath (X.tip_gc ht) hext hsv hav
    subst ha
    obtain ⟨p1, p2⟩ := X.path_chain hs hpath (X.tip_gc ht) (fun x hx => by have := hsv x hx; omega)
    refine ⟨(lchain_append blk c0 l seg).mpr ⟨i1, by rw [i2]; exact p1⟩, by rw [lastOr_append, i2]; exact p2, ht⟩

end
end HsVerif.SysSafety

namespace HsVerif.SysLedger
open HsVerif.Model HsVerif.Props HsVerif.Props.C01Sys HsVerif.Props.C01SysWF HsVerif.Safety HsVerif.SysSafety

/-! ### nothing is ever removed: `CA'` of a later state gives `CA'` of an earlier one -/

/-- across any action, a replica keeps its stored blocks and its ghost history grows by appending -/
theorem sysStep_rep_grows (k : Keys) (C : SysCfg) (σ : SysState) (a : SysAct) (i : Nat) (s : RState)
    (hs : σ.reps.lookup i = some s) :
    ∃ s', (sysStep k C σ a).reps.lookup i = some s' ∧ Grows s.chain.blocks s' ∧ ∃ new, s'.ghost = s.ghost ++ new := by
  have hrun : ∀ (j : Nat) (f : RState → RState × List Out),
      (∀ sx : RState, Grows sx.chain.blocks (f sx).1 ∧ ∃ new, (f sx).1.ghost = sx.ghost ++ new) →
      ∃ s', (σ.run j f).reps.lookup i = some s' ∧ Grows s.chain.blocks s' ∧ ∃ new, s'.ghost = s.ghost ++ new := by
    intro j f hf
    unfold SysState.run
    split
    · exact ⟨s, hs, grows_refl s, [], by simp⟩
    · rename_i sj hj
      by_cases hij : i = j
      · subst hij
        have : sj = s := by
          have : some sj = some s := by rw [← hj, ← hs]
          cases this; rfl
        subst this
        refine ⟨_, lookup_setKV_self _ _ _, ?_⟩
        exact hf { sj with truth := σ.truth, nextBytes := σ.nextBytes }
      · exact ⟨s, by simp only [lookup_setKV_ne _ _ _ _ hij]; exact hs, grows_refl s, [], by simp⟩
  cases a with
  | start j => exact hrun j _ (fun sx => ⟨start_grows k _ sx, C01Rule.ghost_appends_start k _ sx⟩)
  | deliver j e => exact hrun j _ (fun sx => ⟨step_grows k _ sx e, C01Rule.ghost_appends_step k _ sx e⟩)
  | fetchable j l =>
    simp only [sysStep]
    split
    · exact ⟨s, hs, grows_refl s, [], by simp⟩
    · rename_i sj hj
      by_cases hij : i = j
      · subst hij
        have : sj = s := by
          have : some sj = some s := by rw [← hj, ← hs]
          cases this; rfl
        subst this
        exact ⟨_, lookup_setKV_self _ _ _, grows_of_blocks_eq _ _ rfl, [], by simp⟩
      · exact ⟨s, by simp only [lookup_setKV_ne _ _ _ _ hij]; exact hs, grows_refl s, [], by simp⟩
  | forge a =>
    simp only [sysStep]
    split
    · exact ⟨s, hs, grows_refl s, [], by simp⟩
    · exact ⟨s, hs, grows_refl s, [], by simp⟩

/-- **`CA'` is downward closed along a run**: stores and ghost histories only grow (pruning removes
nothing from the block map), so content addressing of the state after an action gives it before -/
theorem ca'_back (k : Keys) (C : SysCfg) (σ : SysState) (a : SysAct) (blk : Hash → Block)
    (h : CA' (sysStep k C σ a) blk) : CA' σ blk := by
  refine ⟨⟨h.1.1, ?_⟩, ?_⟩
  · intro i s hs
    obtain ⟨s', hs', hg, new, hnew⟩ := sysStep_rep_grows k C σ a i s hs
    obtain ⟨h1, h2⟩ := h.1.2 i s' hs'
    exact ⟨fun x b hb => h1 x b (hg x b hb), fun b id hm => h2 b id (by rw [hnew]; exact List.mem_append_left _ hm)⟩
  · intro i s x b hs hb
    obtain ⟨s', hs', hg, _⟩ := sysStep_rep_grows k C σ a i s hs
    exact h.2 i s' x b hs' (hg x b hb)

theorem snoc_induction {α} (P : List α → Prop) (h0 : P []) (hs : ∀ l a, P l → P (l ++ [a])) : ∀ l, P l := by
  have : ∀ n (l : List α), l.length = n → P l := by
    intro n
    induction n with
    | zero => intro l hl; rw [List.length_eq_zero_iff.mp hl]; exact h0
    | succ n ih =>
      intro l hl
      rcases List.eq_nil_or_concat l with rfl | ⟨l', a, rfl⟩
      · exact h0
      · rw [List.concat_eq_append] at hl ⊢
        exact hs l' a (ih l' (by simpa using hl))
  exact fun l => this _ l rfl

theorem sysRun_snoc (k : Keys) (C : SysCfg) (acts : List SysAct) (a : SysAct) :
    sysRun k C (acts ++ [a]) = sysStep k C (sysRun k C acts) a := by
  simp [sysRun, List.foldl_append]

theorem ca'_back_run (k : Keys) (C : SysCfg) (blk : Hash → Block) (acts more : List SysAct)
    (h : CA' (sysRun k C (acts ++ more)) blk) : CA' (sysRun k C acts) blk := by
  revert h
  refine snoc_induction (fun more => CA' (sysRun k C (acts ++ more)) blk → CA' (sysRun k C acts) blk) ?_ ?_ more
  · intro h; simpa using h
  · intro more a ih h
    apply ih
    rw [← List.append_assoc, sysRun_snoc] at h
    exact ca'_back k C _ a blk h

end HsVerif.SysLedger

namespace HsVerif.SysLedger
open HsVerif.Model HsVerif.Props HsVerif.Props.C01Sys HsVerif.Props.C01SysWF HsVerif.Safety HsVerif.SysSafety

/-! ### the run with ledgers -/

/-- the replica that takes a step in action `a`, and the outputs of that step (`SysState.run` throws
them away) -/
def stepOuts (k : Keys) (C : SysCfg) (σ : SysState) : SysAct → Option (Nat × List Out)
  | .start i => (σ.reps.lookup i).map fun s =>
      (i, (start k (C.rcfg i) { s with truth := σ.truth, nextBytes := σ.nextBytes }).2)
  | .deliver i e => (σ.reps.lookup i).map fun s =>
      (i, (step k (C.rcfg i) { s with truth := σ.truth, nextBytes := σ.nextBytes } e).2)
  | _ => none

/-- `sysStep`, appending the blocks of the `Out.commit` outputs of the step to the ledger of the
replica that took it -/
def sysStepL (k : Keys) (C : SysCfg) (p : SysState × (Nat → List Block)) (a : SysAct) :
    SysState × (Nat → List Block) :=
  (sysStep k C p.1 a,
    match stepOuts k C p.1 a with
    | some (i, outs) => fun j => if j = i then p.2 j ++ commitsOf outs else p.2 j
    | none => p.2)

theorem sysStepL_fst (k : Keys) (C : SysCfg) (p : SysState × (Nat → List Block)) (a : SysAct) :
    (sysStepL k C p a).1 = sysStep k C p.1 a := rfl

def sysRunL (k : Keys) (C : SysCfg) (acts : List SysAct) : SysState × (Nat → List Block) :=
  acts.foldl (sysStepL k C) (sysInit k C, fun _ => [])

theorem sysRunL_snoc (k : Keys) (C : SysCfg) (acts : List SysAct) (a : SysAct) :
    sysRunL k C (acts ++ [a]) = sysStepL k C (sysRunL k C acts) a := by
  simp [sysRunL, List.foldl_append]

theorem sysRunL_fst (k : Keys) (C : SysCfg) (acts : List SysAct) : (sysRunL k C acts).1 = sysRun k C acts := by
  refine snoc_induction (fun acts => (sysRunL k C acts).1 = sysRun k C acts) rfl ?_ acts
  intro l a ih
  rw [sysRunL_snoc, sysRun_snoc, sysStepL_fst, ih]

/-- the adversary does not inject commit events into a replica's event loop (`Ev.commit` is an
internal event of the replica: committer → event loop → executor) -/
def _root_.HsVerif.Model.SysAct.noCommit : SysAct → Bool
  | .deliver _ (.commit _) => false
  | _ => true

/-! ### the system invariant -/

/-- what the ledger invariant says of replica state `s` with ledger `l` -/
structure RepLedger (blk : Hash → Block) (l : List Block) (s : RState) : Prop where
  out : s.out = []
  wait : waitCommits s = []
  chain : LChain blk genesisBlock (l ++ pending s)
  last : lastOr genesisBlock (l ++ pending s) = s.committed

def LedgerInv (blk : Hash → Block) (σ : SysState) (L : Nat → List Block) : Prop :=
  ∀ i s, σ.reps.lookup i = some s → RepLedger blk (L i) s

theorem ledgerInv_init (k : Keys) (C : SysCfg) (blk : Hash → Block) : LedgerInv blk (sysInit k C) (fun _ => []) := by
  intro i s h
  simp only [sysInit, lookup_init] at h
  split at h
  · cases h; exact ⟨rfl, rfl, trivial, rfl⟩
  · cases h

end HsVerif.SysLedger

namespace HsVerif.SysSafety
open HsVerif.Model HsVerif.Props HsVerif.Props.C01Sys HsVerif.Props.C01SysWF HsVerif.Safety HsVerif.SysLedger

/-- one step of one replica keeps the ledger invariant: the step's log (`LogStep`, Proofs/ReplicaLog.lean)
read in the state AFTER the step, where all standing hypotheses are assumed -/
theorem Ctx.rep_ledger {k : Keys} {C : SysCfg} {σ : SysState} {blk : Hash → Block} (X : Ctx k C σ blk)
    {i : Nat} {s s' : RState} {outs : List Out} {l : List Block} (hs' : σ.reps.lookup i = some s')
    (hlog : LogStep (C.rcfg i) s (queuedCommits s) s' outs) (hg : Grows s.chain.blocks s')
    (hcb : CommittedBy (C.rcfg i) s) (hout : s'.out = []) (hl : RepLedger blk l s) :
    RepLedger blk (l ++ commitsOf outs) s' := by
  obtain ⟨new, seg, hgh, hw, hq, hsegs⟩ := hlog
  have htip : Tip C σ blk s.committed := by
    rcases hcb with h | ⟨x, id, hm, hcc⟩
    · exact Or.inl h
    · exact Or.inr (X.commit_chain hs' (by rw [hgh]; exact List.mem_append_left _ hm)
        (commitChain_grows _ s s' x _ hg hcc))
  obtain ⟨c1, c2, _⟩ := X.segs_chain hs' (fun r hr => by rw [hgh]; exact List.mem_append_right _ hr) htip hsegs
  have hp : pending s = queuedCommits s := by simp [pending, outCommits, hl.out]
  have hp' : pending s' = queuedCommits s' := by simp [pending, outCommits, hout]
  have he : l ++ commitsOf outs ++ pending s' = (l ++ pending s) ++ seg := by
    rw [hp', hp, List.append_assoc, hq, List.append_assoc]
  refine ⟨hout, hw, ?_, ?_⟩
  · rw [he]; exact (lchain_append blk _ _ _).mpr ⟨hl.chain, by rw [hl.last]; exact c1⟩
  · rw [he, lastOr_append, hl.last]; exact c2

end HsVerif.SysSafety

namespace HsVerif.SysLedger
open HsVerif.Model HsVerif.Props HsVerif.Props.C01Sys HsVerif.Props.C01SysWF HsVerif.Safety HsVerif.SysSafety

theorem repLedger_ext (blk : Hash → Block) (l : List Block) (s : RState) (t : List (Nat × Atom)) (nb : Nat)
    (h : RepLedger blk l s) : RepLedger blk l { s with truth := t, nextBytes := nb } :=
  ⟨h.out, h.wait, h.chain, h.last⟩

theorem noCommit_deliver (i : Nat) (e : Ev) (h : (SysAct.deliver i e).noCommit = true) : evCommits [e] = [] := by
  cases e <;> first | rfl | (simp [SysAct.noCommit] at h)

theorem step_out_nil (k : Keys) (c : RCfg) (s : RState) (e : Ev) : (step k c s e).1.out = [] := rfl
theorem start_out_nil (k : Keys) (c : RCfg) (s : RState) : (start k c s).1.out = [] := rfl

/-- `SysState.run` with a step function that satisfies the log invariant keeps the ledger invariant -/
theorem run_ledger {k : Keys} {C : SysCfg} {σ : SysState} {blk : Hash → Block} (i : Nat)
    (f : RState → RState × List Out) (X : Ctx k C (σ.run i f) blk) (hr : Reach k C σ)
    (hf : ∀ sx : RState, waitCommits sx = [] →
      LogStep (C.rcfg i) sx (queuedCommits sx) (f sx).1 (f sx).2 ∧ Grows sx.chain.blocks (f sx).1 ∧ (f sx).1.out = [])
    (L : Nat → List Block) (h : LedgerInv blk σ L) :
    LedgerInv blk (σ.run i f)
      (match (σ.reps.lookup i).map (fun s => (i, (f { s with truth := σ.truth, nextBytes := σ.nextBytes }).2)) with
        | some (i, outs) => fun j => if j = i then L j ++ commitsOf outs else L j
        | none => L) := by
  cases hl : σ.reps.lookup i with
  | none =>
    have : σ.run i f = σ := by unfold SysState.run; rw [hl]
    rw [this]; exact h
  | some s =>
    have hrun : σ.run i f = ({ reps := setKV i (f { s with truth := σ.truth, nextBytes := σ.nextBytes }).1 σ.reps
                               truth := (f { s with truth := σ.truth, nextBytes := σ.nextBytes }).1.truth
                               nextBytes := (f { s with truth := σ.truth, nextBytes := σ.nextBytes }).1.nextBytes } : SysState) := by
      unfold SysState.run; rw [hl]
    simp only [Option.map_some]
    intro j sj hj
    by_cases hji : j = i
    · subst hji
      have hlk : (σ.run j f).reps.lookup j = some (f { s with truth := σ.truth, nextBytes := σ.nextBytes }).1 := by
        rw [hrun]; exact lookup_setKV_self _ _ _
      have : sj = (f { s with truth := σ.truth, nextBytes := σ.nextBytes }).1 := by
        have : some sj = some (f { s with truth := σ.truth, nextBytes := σ.nextBytes }).1 := by rw [← hj, ← hlk]
        cases this; rfl
      subst this
      simp only [if_true]
      have hls := repLedger_ext blk _ s σ.truth σ.nextBytes (h j s hl)
      obtain ⟨h1, h2, h3⟩ := hf { s with truth := σ.truth, nextBytes := σ.nextBytes } hls.wait
      have hcb : CommittedBy (C.rcfg j) { s with truth := σ.truth, nextBytes := σ.nextBytes } :=
        (repSafe_congr _ s _ rfl rfl rfl rfl (reach_safe k C X.hrl σ hr j s hl)).comm
      exact X.rep_ledger hlk h1 h2 hcb h3 hls
    · simp only [if_neg hji]
      have : σ.reps.lookup j = some sj := by
        rw [hrun] at hj
        simpa only [lookup_setKV_ne _ _ _ _ hji] using hj
      exact h j sj this

/-- **one action keeps the ledger invariant**, the standing hypotheses being assumed of the state AFTER
the action; the action is not the delivery of a commit event -/
theorem sysStepL_inv {k : Keys} {C : SysCfg} {σ : SysState} {blk : Hash → Block} (a : SysAct)
    (X : Ctx k C (sysStep k C σ a) blk) (hr : Reach k C σ) (ha : a.noCommit = true)
    (L : Nat → List Block) (h : LedgerInv blk σ L) :
    LedgerInv blk (sysStep k C σ a) (sysStepL k C (σ, L) a).2 := by
  cases a with
  | start i =>
    exact run_ledger i (start k (C.rcfg i)) X hr
      (fun sx hw => ⟨start_log k _ sx hw, start_grows k _ sx, start_out_nil k _ sx⟩) L h
  | deliver i e =>
    refine run_ledger i (fun s => step k (C.rcfg i) s e) X hr (fun sx hw => ⟨?_, step_grows k _ sx e, step_out_nil k _ sx e⟩) L h
    have := step_log k (C.rcfg i) sx e hw
    rw [noCommit_deliver i e ha, List.append_nil] at this
    exact this
  | fetchable i l =>
    show LedgerInv blk (sysStep k C σ (.fetchable i l)) L
    simp only [sysStep]
    split
    · exact h
    · rename_i s hl
      intro j sj hj
      by_cases hji : j = i
      · subst hji
        simp only [lookup_setKV_self] at hj
        cases hj
        have := h j s hl
        exact ⟨this.out, this.wait, this.chain, this.last⟩
      · simp only [lookup_setKV_ne _ _ _ _ hji] at hj
        exact h j sj hj
  | forge a =>
    show LedgerInv blk (sysStep k C σ (.forge a)) L
    simp only [sysStep]
    split
    · exact h
    · exact h

/-- **the ledger invariant holds along every run without injected commit events**, the standing
hypotheses (`CA'` in particular) being assumed of the FINAL state only (`ca'_back_run`) -/
theorem sysRunL_inv (k : Keys) (C : SysCfg) (hk : KeysOK k) (hn : 1 ≤ C.n) (hf : FewFaulty C)
    (hsch : C.scheme ≠ .bls12) (hrl : C.rules ≠ .fast) (blk : Hash → Block) (acts : List SysAct) :
    (∀ a ∈ acts, a.noCommit = true) → CA' (sysRun k C acts) blk →
    LedgerInv blk (sysRun k C acts) (sysRunL k C acts).2 := by
  refine snoc_induction (fun acts => (∀ a ∈ acts, a.noCommit = true) → CA' (sysRun k C acts) blk →
    LedgerInv blk (sysRun k C acts) (sysRunL k C acts).2) ?_ ?_ acts
  · intro _ _; exact ledgerInv_init k C blk
  · intro l a ih hacts hca
    have hca' : CA' (sysRun k C l) blk := ca'_back_run k C blk l [a] hca
    have I := ih (fun x hx => hacts x (List.mem_append_left _ hx)) hca'
    rw [sysRun_snoc] at hca ⊢
    have X : Ctx k C (sysStep k C (sysRun k C l) a) blk :=
      ⟨hk, .step _ a (reach_run k C l), hn, hf, hsch, hrl, hca⟩
    have := sysStepL_inv a X (reach_run k C l) (hacts a (by simp)) _ I
    rw [sysRunL_snoc]
    have e : sysRunL k C l = (sysRun k C l, (sysRunL k C l).2) := by rw [← sysRunL_fst]
    rw [e]; exact this

end HsVerif.SysLedger

namespace HsVerif.SysLedger
open HsVerif.Model HsVerif.Props HsVerif.Props.C01Sys HsVerif.Props.C01SysWF HsVerif.Safety HsVerif.SysSafety

/-- across any action (ANY delivered event), a replica without deferred commit events stays so, and the
view of its committed block does not decrease -/
theorem sysStep_rep_view (k : Keys) (C : SysCfg) (σ : SysState) (a : SysAct) (i : Nat) (s' : RState)
    (hs' : (sysStep k C σ a).reps.lookup i = some s') :
    ∃ s, σ.reps.lookup i = some s ∧
      (waitCommits s = [] → waitCommits s' = [] ∧ s.committed.view ≤ s'.committed.view) := by
  have hrun : ∀ (j : Nat) (f : RState → RState × List Out),
      (∀ sx : RState, waitCommits sx = [] → ∃ p0, LogStep (C.rcfg j) sx p0 (f sx).1 (f sx).2) →
      (σ.run j f).reps.lookup i = some s' →
      ∃ s, σ.reps.lookup i = some s ∧
        (waitCommits s = [] → waitCommits s' = [] ∧ s.committed.view ≤ s'.committed.view) := by
    intro j f hf
    unfold SysState.run
    split
    · intro h; exact ⟨s', h, fun hw => ⟨hw, Nat.le_refl _⟩⟩
    · rename_i sj hj
      intro h
      by_cases hij : i = j
      · subst hij
        simp only [lookup_setKV_self] at h
        cases h
        refine ⟨sj, hj, fun hw => ?_⟩
        obtain ⟨p0, hlog⟩ := hf { sj with truth := σ.truth, nextBytes := σ.nextBytes } hw
        exact ⟨hlog.wait, hlog.view_le⟩
      · simp only [lookup_setKV_ne _ _ _ _ hij] at h
        exact ⟨s', h, fun hw => ⟨hw, Nat.le_refl _⟩⟩
  cases a with
  | start j => exact hrun j _ (fun sx hw => ⟨_, start_log k _ sx hw⟩) hs'
  | deliver j e => exact hrun j _ (fun sx hw => ⟨_, step_log k _ sx e hw⟩) hs'
  | fetchable j l =>
    simp only [sysStep] at hs'
    split at hs'
    · exact ⟨s', hs', fun hw => ⟨hw, Nat.le_refl _⟩⟩
    · rename_i sj hj
      by_cases hij : i = j
      · subst hij
        simp only [lookup_setKV_self] at hs'
        cases hs'
        exact ⟨sj, hj, fun hw => ⟨hw, Nat.le_refl _⟩⟩
      · simp only [lookup_setKV_ne _ _ _ _ hij] at hs'
        exact ⟨s', hs', fun hw => ⟨hw, Nat.le_refl _⟩⟩
  | forge a =>
    simp only [sysStep] at hs'
    split at hs'
    · exact ⟨s', hs', fun hw => ⟨hw, Nat.le_refl _⟩⟩
    · exact ⟨s', hs', fun hw => ⟨hw, Nat.le_refl _⟩⟩

/-- no commit event ever waits in a deferred list of a replica of a reachable system state -/
theorem reach_wait (k : Keys) (C : SysCfg) (σ : SysState) (hr : Reach k C σ) :
    ∀ i s, σ.reps.lookup i = some s → waitCommits s = [] := by
  induction hr with
  | init =>
    intro i s h
    simp only [sysInit, lookup_init] at h
    split at h
    · cases h; rfl
    · cases h
  | step σ a _ ih =>
    intro i s' hs'
    obtain ⟨s, hs, h⟩ := sysStep_rep_view k C σ a i s' hs'
    exact (h (ih i s hs)).1

end HsVerif.SysLedger
