import HsVerif.Proofs.ReplicaLive
/-!
The block store only grows: a block found under a hash stays there, with every handler.  Used
for monotonicity of the high QC (C07) and for the lock invariant (C01 layer B).
-/
open Std.Do
set_option mvcgen.warning false
set_option linter.unusedSimpArgs false
namespace HsVerif.Model

/-- every entry of `x` is (still) in the chain's block map -/
def ChainGrows (x : List (Hash × Block)) (c : RChain) : Prop :=
  ∀ h b, x.lookup h = some b → c.blocks.lookup h = some b

def Grows (x : List (Hash × Block)) (s : RState) : Prop := ChainGrows x s.chain

theorem ChainGrows.refl (c : RChain) : ChainGrows c.blocks c := fun _ _ h => h

theorem lookup_cons_stable (l : List (Hash × Block)) (k h : Hash) (b nb : Block)
    (hn : l.lookup k = none) (hl : l.lookup h = some b) : ((k, nb) :: l).lookup h = some b := by
  rw [List.lookup_cons]
  split
  · rename_i heq
    have : h = k := by simpa using heq
    rw [this, hn] at hl; cases hl
  · exact hl

theorem chainGrows_get (x) (c : RChain) (h : Hash) (hg : ChainGrows x c) : ChainGrows x (c.get h).1 := by
  unfold RChain.get
  split
  · exact hg
  · rename_i hn
    split
    · intro k b hx
      exact lookup_cons_stable _ _ _ _ _ hn (hg k b hx)
    · exact hg

theorem chainGrows_store (x) (c : RChain) (nb : Block) (hg : ChainGrows x c) : ChainGrows x (c.store nb) := by
  unfold RChain.store
  split
  · exact hg
  · rename_i hn
    intro k b hx
    exact lookup_cons_stable _ _ _ _ _ hn (hg k b hx)

theorem chainGrows_extendsAux (x) : ∀ (fuel : Nat) (c : RChain) (b t : Block), ChainGrows x c →
    ChainGrows x (RChain.extendsAux fuel c b t).1 := by
  intro fuel
  induction fuel with
  | zero => intro c b t hg; exact hg
  | succ n ih =>
    intro c b t hg
    unfold RChain.extendsAux
    split
    · have hget := chainGrows_get x c b.parent hg
      split
      · rename_i c' p heq
        have : c' = (c.get b.parent).1 := by rw [heq]
        exact ih c' p t (this ▸ hget)
      · rename_i c' heq
        have : c' = (c.get b.parent).1 := by rw [heq]
        exact this ▸ hget
    · exact hg

theorem chainGrows_extends (x) (c : RChain) (b t : Block) (hg : ChainGrows x c) : ChainGrows x (c.extends b t).1 :=
  chainGrows_extendsAux x _ c b t hg

theorem pruneAux_blocks (ch : List Hash) : ∀ (fuel h : Nat) (c : RChain) (acc : List Block),
    (RChain.pruneAux ch fuel h c acc).1.blocks = c.blocks := by
  intro fuel
  induction fuel with
  | zero => intro h c acc; rfl
  | succ n ih =>
    intro h c acc
    unfold RChain.pruneAux
    split
    · rw [ih]
    · rfl

theorem chainGrows_prune (x) (c : RChain) (cm : Block) (h : Nat) (hg : ChainGrows x c) :
    ChainGrows x (c.pruneToHeight cm h).1 := by
  unfold RChain.pruneToHeight
  intro k b hx
  simp only
  rw [pruneAux_blocks]
  exact hg k b hx

end HsVerif.Model

namespace HsVerif.Model

/-- closes the verification conditions of a store-growth frame -/
macro "grows_finish" : tactic => `(tactic| (
  (try simp_all +zetaDelta [Grows])
  all_goals (first
    | done
    | exact chainGrows_get _ _ _ (by assumption)
    | exact chainGrows_store _ _ _ (by assumption)
    | exact chainGrows_extends _ _ _ _ (by assumption)
    | exact chainGrows_prune _ _ _ _ (chainGrows_store _ _ _ (by assumption))
    | exact chainGrows_prune _ _ _ _ (by assumption)
    | skip)))

section GrowsFrames
theorem emit_gr (o : Out) (x) :
    ⦃fun s => ⌜Grows x s⌝⦄ emit o ⦃⇓ _ s => ⌜Grows x s⌝⦄ := by
  mvcgen [emit]  <;> grows_finish
attribute [local spec] emit_gr

theorem addEvent_gr (e : Ev) (x) :
    ⦃fun s => ⌜Grows x s⌝⦄ addEvent e ⦃⇓ _ s => ⌜Grows x s⌝⦄ := by
  mvcgen [addEvent]  <;> grows_finish
attribute [local spec] addEvent_gr

theorem getBlock_gr (h : Hash) (x) :
    ⦃fun s => ⌜Grows x s⌝⦄ getBlock h ⦃⇓ _ s => ⌜Grows x s⌝⦄ := by
  mvcgen [getBlock]  <;> grows_finish
attribute [local spec] getBlock_gr

theorem fetchFor_gr (h : Hash) (x) :
    ⦃fun s => ⌜Grows x s⌝⦄ fetchFor h ⦃⇓ _ s => ⌜Grows x s⌝⦄ := by
  mvcgen [fetchFor]  <;> grows_finish
attribute [local spec] fetchFor_gr

theorem signMsg_gr (c : RCfg) (m : Msg) (x) :
    ⦃fun s => ⌜Grows x s⌝⦄ signMsg c m ⦃⇓ _ s => ⌜Grows x s⌝⦄ := by
  mvcgen [signMsg]  <;> grows_finish
attribute [local spec] signMsg_gr

theorem verifyQCM_gr (k : Keys) (c : RCfg) (q : QC) (x) :
    ⦃fun s => ⌜Grows x s⌝⦄ verifyQCM k c q ⦃⇓ _ s => ⌜Grows x s⌝⦄ := by
  mvcgen [verifyQCM]  <;> grows_finish
attribute [local spec] verifyQCM_gr

theorem verifyTCM_gr (k : Keys) (c : RCfg) (t : TC) (x) :
    ⦃fun s => ⌜Grows x s⌝⦄ verifyTCM k c t ⦃⇓ _ s => ⌜Grows x s⌝⦄ := by
  mvcgen [verifyTCM]  <;> grows_finish
attribute [local spec] verifyTCM_gr

theorem qcRef_gr (q : QC) (x) :
    ⦃fun s => ⌜Grows x s⌝⦄ qcRef q ⦃⇓ _ s => ⌜Grows x s⌝⦄ := by
  mvcgen [qcRef]  <;> grows_finish
attribute [local spec] qcRef_gr

theorem extendsM_gr (b t : Block) (x) :
    ⦃fun s => ⌜Grows x s⌝⦄ extendsM b t ⦃⇓ _ s => ⌜Grows x s⌝⦄ := by
  mvcgen [extendsM]  <;> grows_finish
attribute [local spec] extendsM_gr

theorem voteRule_gr (c : RCfg) (v : Nat) (b : Block) (agg : Option AggQC) (x) :
    ⦃fun s => ⌜Grows x s⌝⦄ voteRule c v b agg ⦃⇓ _ s => ⌜Grows x s⌝⦄ := by
  mvcgen [voteRule]  <;> grows_finish
attribute [local spec] voteRule_gr

theorem commitRule_gr (c : RCfg) (b : Block) (x) :
    ⦃fun s => ⌜Grows x s⌝⦄ commitRule c b ⦃⇓ _ s => ⌜Grows x s⌝⦄ := by
  mvcgen [commitRule]  <;> grows_finish
attribute [local spec] commitRule_gr

theorem commitInner_gr (fuel : Nat) (b : Block) (x) :
    ⦃fun s => ⌜Grows x s⌝⦄ commitInner fuel b ⦃⇓ _ s => ⌜Grows x s⌝⦄ := by
  induction fuel generalizing b with
  | zero => mvcgen [commitInner]  <;> grows_finish
  | succ n ih => mvcgen [commitInner, ih]  <;> grows_finish
attribute [local spec] commitInner_gr

theorem tryCommit_gr (c : RCfg) (b : Block) (x) :
    ⦃fun s => ⌜Grows x s⌝⦄ tryCommit c b ⦃⇓ _ s => ⌜Grows x s⌝⦄ := by
  mvcgen [tryCommit]
  case inv1 => exact ⇓ _ s => ⌜Grows x s⌝
  all_goals grows_finish
attribute [local spec] tryCommit_gr

theorem votesCleanup_gr  (x) :
    ⦃fun s => ⌜Grows x s⌝⦄ votesCleanup ⦃⇓ _ s => ⌜Grows x s⌝⦄ := by
  mvcgen [votesCleanup]  <;> grows_finish
attribute [local spec] votesCleanup_gr

theorem collectVote_gr (k : Keys) (c : RCfg) (id : Nat) (sig : Option Sig) (h : Hash) (d : Bool) (x) :
    ⦃fun s => ⌜Grows x s⌝⦄ collectVote k c id sig h d ⦃⇓ _ s => ⌜Grows x s⌝⦄ := by
  mvcgen [collectVote]  <;> grows_finish
attribute [local spec] collectVote_gr

theorem aggregateVote_gr (k : Keys) (c : RCfg) (b : Block) (sg : Sig) (x) :
    ⦃fun s => ⌜Grows x s⌝⦄ aggregateVote k c b sg ⦃⇓ _ s => ⌜Grows x s⌝⦄ := by
  mvcgen [aggregateVote]  <;> grows_finish
attribute [local spec] aggregateVote_gr

theorem markProposed_gr (fuel : Nat) (b : Block) (x) :
    ⦃fun s => ⌜Grows x s⌝⦄ markProposed fuel b ⦃⇓ _ s => ⌜Grows x s⌝⦄ := by
  induction fuel generalizing b with
  | zero => mvcgen [markProposed]  <;> grows_finish
  | succ n ih => mvcgen [markProposed, ih]  <;> grows_finish
attribute [local spec] markProposed_gr

theorem verifyAggM_go_gr (k : Keys) (c : RCfg) (l : List QC) (x) :
    ⦃fun s => ⌜Grows x s⌝⦄ verifyAggM.go k c l ⦃⇓ _ s => ⌜Grows x s⌝⦄ := by
  induction l with
  | nil => mvcgen [verifyAggM.go]  <;> grows_finish
  | cons q rest ih => mvcgen [verifyAggM.go, ih]  <;> grows_finish
attribute [local spec] verifyAggM_go_gr

theorem verifyAggM_gr (k : Keys) (c : RCfg) (a : AggQC) (x) :
    ⦃fun s => ⌜Grows x s⌝⦄ verifyAggM k c a ⦃⇓ _ s => ⌜Grows x s⌝⦄ := by
  mvcgen [verifyAggM]  <;> grows_finish
attribute [local spec] verifyAggM_gr

theorem verifyAnyM_gr (k : Keys) (c : RCfg) (q : QC) (agg : Option AggQC) (x) :
    ⦃fun s => ⌜Grows x s⌝⦄ verifyAnyM k c q agg ⦃⇓ _ s => ⌜Grows x s⌝⦄ := by
  mvcgen [verifyAnyM]  <;> grows_finish
attribute [local spec] verifyAnyM_gr

theorem voterVerify_gr (k : Keys) (c : RCfg) (id : Nat) (b : Block) (agg : Option AggQC) (x) :
    ⦃fun s => ⌜Grows x s⌝⦄ voterVerify k c id b agg ⦃⇓ _ s => ⌜Grows x s⌝⦄ := by
  mvcgen [voterVerify]  <;> grows_finish
attribute [local spec] voterVerify_gr

theorem voteFor_gr (c : RCfg) (b : Block) (id : Nat) (x) :
    ⦃fun s => ⌜Grows x s⌝⦄ voteFor c b id ⦃⇓ _ s => ⌜Grows x s⌝⦄ := by
  mvcgen [voteFor]
  all_goals simp_all +zetaDelta [AP, List.filter_append, GRec.isAdv]
  all_goals (rename_i h; rw [← h]; simp [List.filter_append, GRec.isAdv])
attribute [local spec] voteFor_gr

theorem onValidPropose_gr (k : Keys) (c : RCfg) (id : Nat) (b : Block) (x) :
    ⦃fun s => ⌜Grows x s⌝⦄ onValidPropose k c id b ⦃⇓ _ s => ⌜Grows x s⌝⦄ := by
  mvcgen [onValidPropose]  <;> grows_finish
attribute [local spec] onValidPropose_gr

theorem createAndPropose_gr (k : Keys) (c : RCfg) (si : SyncInfo) (x) :
    ⦃fun s => ⌜Grows x s⌝⦄ createAndPropose k c si ⦃⇓ _ s => ⌜Grows x s⌝⦄ := by
  mvcgen [createAndPropose]  <;> grows_finish
attribute [local spec] createAndPropose_gr

theorem verifySyncInfo_gr (k : Keys) (c : RCfg) (si : SyncInfo) (x) :
    ⦃fun s => ⌜Grows x s⌝⦄ verifySyncInfo k c si ⦃⇓ _ s => ⌜Grows x s⌝⦄ := by
  mvcgen [verifySyncInfo]  <;> grows_finish
attribute [local spec] verifySyncInfo_gr

end GrowsFrames
end HsVerif.Model
