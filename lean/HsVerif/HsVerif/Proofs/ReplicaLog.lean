import HsVerif.Proofs.ReplicaPair
/-!
The COMMIT LOG of one replica (C01, ledger layer, task S5), replica level — no system facts.

* `outCommits s` / `queuedCommits s`: the blocks of the `Out.commit` outputs emitted so far in this step
  and of the `Ev.commit` events still queued; `pending s = outCommits s ++ queuedCommits s` is what the
  replica has decided to output and not yet handed to the caller of `step`.  `tick` moves the queue head
  to `out` (FIFO), which keeps `pending`.  `waitCommits s`: commit events in the deferred lists
  `waitingVC` / `waitingProp` — the handlers only ever put `.propose` / `.vote` events there, so this
  is `[]` in every state reached from one where it is `[]`; the hypothesis is needed because `tick`
  re-queues the deferred lists.
* frames `_pd`: everything but the committer and `tick` leaves `PD s = (outCommits s, queuedCommits s,
  waitCommits s)` alone (GENERATED from the `_lc` frames of Proofs/ReplicaRule.lean by substitution).
* `commitInner_succ_run`: one level of the committer as an equation between runs; `commitInner_ci`
  (`CI`): a successful `commitInner fuel b` appends to the queued commits ONE stored parent path
  (`Path s a seg b`) whose blocks all have views above the old committed block's, starting above an
  anchor `a` whose view is at most the old committed block's; an unsuccessful one changes nothing
  (all or nothing).  `tryCommit_tl` (`TL`): the whole of `tryCommit c b` — nothing, or one non-empty
  segment ending at the new committed block, which the commit rule returned for `b`.
* `Segs` / `LCore` / `LR`: the one-step invariant carried through all handlers up to `step` and `start`
  (the chain `_lr`, same shape as the `_vr` chain of Proofs/ReplicaRule.lean, with `LRP` / `LRW` for the
  vote that is pending / known): relative to the state `s0` the step started in, the ghost history is
  `s0.ghost ++ new`, and `pending s = pending s0 ++ l` where `l` is a concatenation of segments chained
  in time (`Segs c s new s0.committed l s.committed`), each ending in a block the commit rule returned
  for a block voted for in `new`.
* `step_log`, `start_log`: one step from ANY state with `waitCommits s = []`.
-/
open Std.Do
set_option mvcgen.warning false
set_option linter.unusedSimpArgs false
set_option linter.unusedVariables false
namespace HsVerif.Model
open HsVerif.Proofs

/-- the block of a commit output -/
def Out.commitOf : Out → Option Block
  | .commit b => some b
  | _ => none

/-- the block of a queued commit event -/
def Ev.commitOf : Ev → Option Block
  | .commit b => some b
  | _ => none

def commitsOf (outs : List Out) : List Block := outs.filterMap Out.commitOf
def evCommits (es : List Ev) : List Block := es.filterMap Ev.commitOf

def outCommits (s : RState) : List Block := commitsOf s.out
def queuedCommits (s : RState) : List Block := evCommits s.queue
def pending (s : RState) : List Block := outCommits s ++ queuedCommits s
def waitCommits (s : RState) : List Block := evCommits (s.waitingVC ++ s.waitingProp)

/-- the definitions as in the task statement -/
example (s : RState) : outCommits s = s.out.filterMap (fun o => match o with | .commit b => some b | _ => none) := by
  unfold outCommits commitsOf
  congr 1

example (s : RState) : queuedCommits s = s.queue.filterMap (fun e => match e with | .commit b => some b | _ => none) := by
  unfold queuedCommits evCommits
  congr 1

example (s : RState) : pending s = outCommits s ++ queuedCommits s := rfl

@[simp] theorem commitsOf_nil : commitsOf [] = [] := rfl
@[simp] theorem commitsOf_append (a b : List Out) : commitsOf (a ++ b) = commitsOf a ++ commitsOf b := by
  simp [commitsOf, List.filterMap_append]
@[simp] theorem evCommits_nil : evCommits [] = [] := rfl
@[simp] theorem evCommits_append (a b : List Ev) : evCommits (a ++ b) = evCommits a ++ evCommits b := by
  simp [evCommits, List.filterMap_append]
@[simp] theorem commitsOf_cons (o : Out) (l : List Out) :
    commitsOf (o :: l) = (match o.commitOf with | some b => [b] | none => []) ++ commitsOf l := by
  simp only [commitsOf, List.filterMap_cons]; cases o.commitOf <;> rfl
@[simp] theorem evCommits_cons (e : Ev) (l : List Ev) :
    evCommits (e :: l) = (match e.commitOf with | some b => [b] | none => []) ++ evCommits l := by
  simp only [evCommits, List.filterMap_cons]; cases e.commitOf <;> rfl

/-- the commit-relevant part of the state that everything but the committer and `tick` leaves alone -/
@[reducible] def PD (s : RState) : List Block × List Block × List Block := (outCommits s, queuedCommits s, waitCommits s)

macro "pd_finish" : tactic => `(tactic| (
  (try simp_all +zetaDelta [PD, outCommits, queuedCommits, waitCommits, Out.commitOf, Ev.commitOf])))

section PDFrames
theorem getBlock_pd (h : Hash) (x) :
    ⦃fun s => ⌜PD s = x⌝⦄ getBlock h ⦃⇓ _ s => ⌜PD s = x⌝⦄ := by
  mvcgen [getBlock] <;> pd_finish
attribute [local spec] getBlock_pd

theorem fetchFor_pd (h : Hash) (x) :
    ⦃fun s => ⌜PD s = x⌝⦄ fetchFor h ⦃⇓ _ s => ⌜PD s = x⌝⦄ := by
  mvcgen [fetchFor] <;> pd_finish
attribute [local spec] fetchFor_pd

theorem signMsg_pd (c : RCfg) (m : Msg) (x) :
    ⦃fun s => ⌜PD s = x⌝⦄ signMsg c m ⦃⇓ _ s => ⌜PD s = x⌝⦄ := by
  mvcgen [signMsg, emit] <;> pd_finish
attribute [local spec] signMsg_pd

theorem verifyQCM_pd (k : Keys) (c : RCfg) (q : QC) (x) :
    ⦃fun s => ⌜PD s = x⌝⦄ verifyQCM k c q ⦃⇓ _ s => ⌜PD s = x⌝⦄ := by
  mvcgen [verifyQCM] <;> pd_finish
attribute [local spec] verifyQCM_pd

theorem verifyTCM_pd (k : Keys) (c : RCfg) (t : TC) (x) :
    ⦃fun s => ⌜PD s = x⌝⦄ verifyTCM k c t ⦃⇓ _ s => ⌜PD s = x⌝⦄ := by
  mvcgen [verifyTCM] <;> pd_finish
attribute [local spec] verifyTCM_pd

theorem qcRef_pd (q : QC) (x) :
    ⦃fun s => ⌜PD s = x⌝⦄ qcRef q ⦃⇓ _ s => ⌜PD s = x⌝⦄ := by
  mvcgen [qcRef] <;> pd_finish
attribute [local spec] qcRef_pd

theorem extendsM_pd (b t : Block) (x) :
    ⦃fun s => ⌜PD s = x⌝⦄ extendsM b t ⦃⇓ _ s => ⌜PD s = x⌝⦄ := by
  mvcgen [extendsM] <;> pd_finish
attribute [local spec] extendsM_pd

theorem voteRule_pd (c : RCfg) (v : Nat) (b : Block) (agg : Option AggQC) (x) :
    ⦃fun s => ⌜PD s = x⌝⦄ voteRule c v b agg ⦃⇓ _ s => ⌜PD s = x⌝⦄ := by
  mvcgen [voteRule] <;> pd_finish
attribute [local spec] voteRule_pd

theorem commitRule_pd (c : RCfg) (b : Block) (x) :
    ⦃fun s => ⌜PD s = x⌝⦄ commitRule c b ⦃⇓ _ s => ⌜PD s = x⌝⦄ := by
  mvcgen [commitRule] <;> pd_finish
attribute [local spec] commitRule_pd

theorem votesCleanup_pd  (x) :
    ⦃fun s => ⌜PD s = x⌝⦄ votesCleanup ⦃⇓ _ s => ⌜PD s = x⌝⦄ := by
  mvcgen [votesCleanup] <;> pd_finish
attribute [local spec] votesCleanup_pd

theorem collectVote_pd (k : Keys) (c : RCfg) (id : Nat) (sig : Option Sig) (h : Hash) (d : Bool) (x) :
    ⦃fun s => ⌜PD s = x⌝⦄ collectVote k c id sig h d ⦃⇓ _ s => ⌜PD s = x⌝⦄ := by
  mvcgen [collectVote, addEvent] <;> pd_finish
attribute [local spec] collectVote_pd

theorem aggregateVote_pd (k : Keys) (c : RCfg) (b : Block) (sg : Sig) (x) :
    ⦃fun s => ⌜PD s = x⌝⦄ aggregateVote k c b sg ⦃⇓ _ s => ⌜PD s = x⌝⦄ := by
  mvcgen [aggregateVote, emit] <;> pd_finish
attribute [local spec] aggregateVote_pd

theorem markProposed_pd (fuel : Nat) (b : Block) (x) :
    ⦃fun s => ⌜PD s = x⌝⦄ markProposed fuel b ⦃⇓ _ s => ⌜PD s = x⌝⦄ := by
  induction fuel generalizing b with
  | zero => mvcgen [markProposed] <;> pd_finish
  | succ n ih => mvcgen [markProposed, ih] <;> pd_finish
attribute [local spec] markProposed_pd

theorem verifyAggM_go_pd (k : Keys) (c : RCfg) (l : List QC) (x) :
    ⦃fun s => ⌜PD s = x⌝⦄ verifyAggM.go k c l ⦃⇓ _ s => ⌜PD s = x⌝⦄ := by
  induction l with
  | nil => mvcgen [verifyAggM.go] <;> pd_finish
  | cons q rest ih => mvcgen [verifyAggM.go, ih] <;> pd_finish
attribute [local spec] verifyAggM_go_pd

theorem verifyAggM_pd (k : Keys) (c : RCfg) (a : AggQC) (x) :
    ⦃fun s => ⌜PD s = x⌝⦄ verifyAggM k c a ⦃⇓ _ s => ⌜PD s = x⌝⦄ := by
  mvcgen [verifyAggM] <;> pd_finish
attribute [local spec] verifyAggM_pd

theorem verifyAnyM_pd (k : Keys) (c : RCfg) (q : QC) (agg : Option AggQC) (x) :
    ⦃fun s => ⌜PD s = x⌝⦄ verifyAnyM k c q agg ⦃⇓ _ s => ⌜PD s = x⌝⦄ := by
  mvcgen [verifyAnyM] <;> pd_finish
attribute [local spec] verifyAnyM_pd

theorem voterVerify_pd (k : Keys) (c : RCfg) (id : Nat) (b : Block) (agg : Option AggQC) (x) :
    ⦃fun s => ⌜PD s = x⌝⦄ voterVerify k c id b agg ⦃⇓ _ s => ⌜PD s = x⌝⦄ := by
  mvcgen [voterVerify] <;> pd_finish
attribute [local spec] voterVerify_pd

theorem voteFor_pd (c : RCfg) (b : Block) (id : Nat) (x) :
    ⦃fun s => ⌜PD s = x⌝⦄ voteFor c b id ⦃⇓ _ s => ⌜PD s = x⌝⦄ := by
  mvcgen [voteFor] <;> pd_finish
attribute [local spec] voteFor_pd

theorem verifySyncInfo_pd (k : Keys) (c : RCfg) (si : SyncInfo) (x) :
    ⦃fun s => ⌜PD s = x⌝⦄ verifySyncInfo k c si ⦃⇓ _ s => ⌜PD s = x⌝⦄ := by
  mvcgen [verifySyncInfo] <;> pd_finish
attribute [local spec] verifySyncInfo_pd

end PDFrames

/-! ### run forms -/

theorem run_bind' {α β} (x : M α) (f : α → M β) (s : RState) :
    (x >>= f).run s = (f (x.run s).1).run (x.run s).2 := rfl

theorem run_get' (s : RState) : (get : M RState).run s = (s, s) := rfl

theorem commitInner_zero_run (b : Block) (s : RState) : (commitInner 0 b).run s = (false, s) := rfl

/-- one level of the committer, as an equation between runs -/
theorem commitInner_succ_run (n : Nat) (b : Block) (s : RState) : (commitInner (n + 1) b).run s =
    if s.committed.view ≥ b.view then (true, s) else
      match ((getBlock b.parent).run s).1 with
      | none => (false, ((getBlock b.parent).run s).2)
      | some p =>
        if ((commitInner n p).run ((getBlock b.parent).run s).2).1 then
          (true, { ((commitInner n p).run ((getBlock b.parent).run s).2).2 with
            queue := (((commitInner n p).run ((getBlock b.parent).run s).2).2.queue ++ [.commit b]) ++ [.exec b], committed := b })
        else (false, ((commitInner n p).run ((getBlock b.parent).run s).2).2) := by
  simp only [commitInner, addEvent, run_bind', run_get']
  by_cases h : s.committed.view ≥ b.view
  · simp only [h, ↓reduceIte]; rfl
  · simp only [h, ↓reduceIte, run_bind']
    generalize StateT.run (getBlock b.parent) s = r
    obtain ⟨o, s1⟩ := r
    cases o with
    | none => rfl
    | some p =>
      simp only [run_bind']
      generalize StateT.run (commitInner n p) s1 = r2
      obtain ⟨r, s2⟩ := r2
      cases r <;> rfl

theorem pd_run {α} (f : M α) (h : ∀ x, ⦃fun s => ⌜PD s = x⌝⦄ f ⦃⇓ _ s => ⌜PD s = x⌝⦄) (s : RState) :
    outCommits (f.run s).2 = outCommits s ∧ queuedCommits (f.run s).2 = queuedCommits s ∧
      waitCommits (f.run s).2 = waitCommits s := by
  have := run_res_of_triple f (fun s' => PD s' = PD s) (fun _ s' => PD s' = PD s) (h (PD s)) s rfl
  simp only [PD, Prod.mk.injEq] at this
  exact this

theorem getBlock_some (h : Hash) (s : RState) (p : Block) (hr : ((getBlock h).run s).1 = some p) :
    sget ((getBlock h).run s).2 h = some p :=
  get_some s.chain h p hr

/-! ### stored parent paths and what the committer appends -/

/-- `Path s a seg t`: going up from `a` along STORED parent links through the blocks `seg` ends at `t`
(`t` is the last block of `seg`, or `a` itself when `seg` is empty) -/
inductive Path (s : RState) (a : Block) : List Block → Block → Prop
  | nil : Path s a [] a
  | snoc (seg : List Block) (p b : Block) : Path s a seg p → sget s b.parent = some p → Path s a (seg ++ [b]) b

theorem Path.grows {s s' : RState} {a t : Block} {seg : List Block} (hg : Grows s.chain.blocks s')
    (h : Path s a seg t) : Path s' a seg t := by
  induction h with
  | nil => exact .nil
  | snoc seg p b _ hl ih => exact .snoc seg p b ih (hg _ _ hl)

theorem Path.top_mem {s : RState} {a t : Block} {seg : List Block} (h : Path s a seg t) (hne : seg ≠ []) : t ∈ seg := by
  cases h with
  | nil => exact absurd rfl hne
  | snoc seg p b _ _ => simp

/-- what one `commitInner fuel b` does, as a relation between the state before and the answer / state after -/
structure CI (s0 : RState) (b : Block) (r : Bool) (s : RState) : Prop where
  store : Grows s0.chain.blocks s
  out : outCommits s = outCommits s0
  wait : waitCommits s = waitCommits s0
  no : r = false → queuedCommits s = queuedCommits s0 ∧ s.committed = s0.committed
  yes : r = true → ∃ a seg, Path s a seg b ∧ a.view ≤ s0.committed.view ∧ (∀ x ∈ seg, s0.committed.view < x.view) ∧
      queuedCommits s = queuedCommits s0 ++ seg ∧ (seg = [] → s.committed = s0.committed) ∧ (seg ≠ [] → s.committed = b)

theorem commitInner_ci : ∀ (fuel : Nat) (b : Block) (s : RState),
    CI s b ((commitInner fuel b).run s).1 ((commitInner fuel b).run s).2 := by
  intro fuel
  induction fuel with
  | zero =>
    intro b s
    rw [commitInner_zero_run]
    exact ⟨grows_refl s, rfl, rfl, fun _ => ⟨rfl, rfl⟩, fun h => by cases h⟩
  | succ n ih =>
    intro b s
    rw [commitInner_succ_run]
    split
    · rename_i hv
      exact ⟨grows_refl s, rfl, rfl, (fun h => by cases h),
        fun _ => ⟨b, [], .nil, hv, (fun x hx => by cases hx), by simp, fun _ => rfl, fun h => absurd rfl h⟩⟩
    · rename_i hv
      have hgg := grows_run _ (getBlock_gr b.parent) s
      have hgp := pd_run _ (getBlock_pd b.parent) s
      have hgc := (lc_run _ (getBlock_lc b.parent) s).2
      have hgs := getBlock_some b.parent s
      generalize (getBlock b.parent).run s = g at hgg hgp hgc hgs
      obtain ⟨o, s1⟩ := g
      cases o with
      | none => exact ⟨hgg, hgp.1, hgp.2.2, fun _ => ⟨hgp.2.1, hgc⟩, fun h => by cases h⟩
      | some p =>
        simp only at hgg hgp hgc hgs ⊢
        have hp := hgs p rfl
        have I := ih p s1
        generalize (commitInner n p).run s1 = r2 at I
        obtain ⟨r, s2⟩ := r2
        cases r with
        | false =>
          simp only [Bool.false_eq_true, ↓reduceIte]
          obtain ⟨h1, h2⟩ := I.no rfl
          exact ⟨grows_transR _ _ _ hgg I.store, I.out.trans hgp.1, I.wait.trans hgp.2.2,
            fun _ => ⟨h1.trans hgp.2.1, h2.trans hgc⟩, fun h => by cases h⟩
        | true =>
          simp only [↓reduceIte]
          obtain ⟨a, seg, hpath, hav, hsv, hq, _, _⟩ := I.yes rfl
          refine ⟨grows_transR _ _ _ hgg I.store, I.out.trans hgp.1, I.wait.trans hgp.2.2, (fun h => by cases h), fun _ => ?_⟩
          refine ⟨a, seg ++ [b], ?_, by rw [← hgc]; exact hav, ?_, ?_, by simp, fun _ => rfl⟩
          · exact .snoc seg p b (Path.grows (s := s2) (grows_of_blocks_eq _ _ rfl) hpath) (I.store _ _ hp)
          · intro x hx
            rcases List.mem_append.mp hx with hx | hx
            · rw [← hgc]; exact hsv x hx
            · simp only [List.mem_singleton] at hx; subst hx; omega
          · show evCommits (s2.queue ++ [Ev.commit b] ++ [Ev.exec b]) = _
            have hq' : evCommits s2.queue = queuedCommits s ++ seg := by
              have : evCommits s2.queue = queuedCommits s1 ++ seg := hq
              rw [this, hgp.2.1]
            simp [hq', Ev.commitOf]


/-! ### `tryCommit` -/

/-- before the committer runs: nothing commit-relevant has changed since `s0` -/
structure TS' (s0 s : RState) : Prop where
  store : Grows s0.chain.blocks s
  pd : PD s = PD s0
  comm : s.committed = s0.committed

/-- what `tryCommit c b` does to the commit log, as a relation between the state before and after:
nothing, or ONE segment — a non-empty stored parent path `seg` from an anchor `a` of view at most that
of the old committed block, all of whose blocks have a higher view, queued in order, ending at the
new committed block, which the commit rule returned for `b` -/
structure TL (c : RCfg) (b : Block) (s0 s : RState) : Prop where
  store : Grows s0.chain.blocks s
  out : outCommits s = outCommits s0
  wait : waitCommits s = waitCommits s0
  seg : (queuedCommits s = queuedCommits s0 ∧ s.committed = s0.committed) ∨
        ∃ a seg, seg ≠ [] ∧ Path s a seg s.committed ∧ a.view ≤ s0.committed.view ∧
          (∀ x ∈ seg, s0.committed.view < x.view) ∧ queuedCommits s = queuedCommits s0 ++ seg ∧
          CommitChain c s b s.committed

theorem TL.of_ts {c : RCfg} {b : Block} {s0 s : RState} (h : TS' s0 s) : TL c b s0 s := by
  have hp := h.pd
  simp only [PD, Prod.mk.injEq] at hp
  exact ⟨h.store, hp.1, hp.2.2, Or.inl ⟨hp.2.1, h.comm⟩⟩

theorem commitChain_congr (c : RCfg) (s s' : RState) (b t : Block) (hb : s'.chain.blocks = s.chain.blocks)
    (h : CommitChain c s b t) : CommitChain c s' b t :=
  commitChain_grows c s s' b t (grows_of_blocks_eq s s' hb) h

/-- a `TL` step followed by something that keeps the commit-relevant fields -/
theorem TL.keep {c : RCfg} {b : Block} {s0 s s' : RState} (h : TL c b s0 s) (hg : Grows s.chain.blocks s')
    (ho : outCommits s' = outCommits s) (hq : queuedCommits s' = queuedCommits s) (hw : waitCommits s' = waitCommits s)
    (hc : s'.committed = s.committed) : TL c b s0 s' := by
  refine ⟨grows_transR _ _ _ h.store hg, ho.trans h.out, hw.trans h.wait, ?_⟩
  rw [hq, hc]
  rcases h.seg with h1 | ⟨a, seg, h1, h2, h3, h4, h5, h6⟩
  · exact Or.inl h1
  · exact Or.inr ⟨a, seg, h1, h2.grows hg, h3, h4, h5, commitChain_grows c s s' b _ hg h6⟩

theorem ts'_store (s0 s : RState) (b : Block) (h : TS' s0 s) : TS' s0 { s with chain := s.chain.store b } :=
  ⟨grows_transR _ _ _ h.1 (store_blocks_grows _ _), h.2, h.3⟩

theorem commitRule_ts' (c : RCfg) (b : Block) (s0 : RState) :
    ⦃fun s => ⌜TS' s0 s⌝⦄ commitRule c b ⦃⇓ r s => ⌜TS' s0 s ∧ (∀ b3, r = some b3 → CommitChain c s b b3)⌝⦄ := by
  apply triple_of_run
  intro s ⟨hg, hp, hc⟩
  have h1 := run_res_of_triple _ _ _ (commitRule_rule c b s.lock) s rfl
  have h2 := run_res_of_triple _ _ _ (commitRule_cm c b s.committed) s rfl
  have h3 := grows_run _ (commitRule_gr c b) s
  have h4 := run_res_of_triple _ (fun s' => PD s' = PD s) (fun _ s' => PD s' = PD s) (commitRule_pd c b (PD s)) s rfl
  exact ⟨⟨grows_transR _ _ _ hg h3, h4.trans hp, h2.trans hc⟩, h1.2⟩

theorem commitInner_tl (c : RCfg) (b : Block) (s0 : RState) (fuel : Nat) (t : Block) :
    ⦃fun s => ⌜TS' s0 s ∧ CommitChain c s b t⌝⦄ commitInner fuel t ⦃⇓ _ s => ⌜TL c b s0 s⌝⦄ := by
  apply triple_of_run
  intro s ⟨⟨hg, hp, hc⟩, hcc⟩
  simp only [PD, Prod.mk.injEq] at hp
  have I := commitInner_ci fuel t s
  generalize (commitInner fuel t).run s = r2 at I
  obtain ⟨r, s2⟩ := r2
  refine ⟨grows_transR _ _ _ hg I.store, I.out.trans hp.1, I.wait.trans hp.2.2, ?_⟩
  cases r with
  | false =>
    obtain ⟨h1, h2⟩ := I.no rfl
    exact Or.inl ⟨h1.trans hp.2.1, h2.trans hc⟩
  | true =>
    obtain ⟨a, seg, hpath, hav, hsv, hq, he, hne⟩ := I.yes rfl
    by_cases hs : seg = []
    · subst hs
      exact Or.inl ⟨by rw [← hp.2.1]; simpa using hq, (he rfl).trans hc⟩
    · refine Or.inr ⟨a, seg, hs, ?_, by rw [← hc]; exact hav, fun x hx => by rw [← hc]; exact hsv x hx,
        by rw [← hp.2.1]; exact hq, ?_⟩
      · rw [hne hs]; exact hpath
      · rw [hne hs]; exact commitChain_grows c s _ b t I.store hcc

theorem tl_prune (c : RCfg) (b : Block) (s0 s : RState) (cm : Block) (n : Nat) (h : TL c b s0 s) :
    TL c b s0 { s with chain := (s.chain.pruneToHeight cm n).1 } :=
  h.keep (grows_of_blocks_eq s _ (pruneToHeight_blocks _ _ _)) rfl rfl rfl rfl

theorem tl_abort (c : RCfg) (b : Block) (s0 s : RState) (f : Block) (h : TL c b s0 s) :
    TL c b s0 { s with queue := s.queue ++ [.abort f] } :=
  h.keep (grows_of_blocks_eq s _ rfl) rfl (by simp [queuedCommits, Ev.commitOf]) rfl rfl

theorem tryCommit_ts' (c : RCfg) (b : Block) (s0 : RState) :
    ⦃fun s => ⌜TS' s0 s⌝⦄ tryCommit c b ⦃⇓ _ s => ⌜TL c b s0 s⌝⦄ := by
  have h1 := commitRule_ts' c b s0
  have h2 := commitInner_tl c b s0
  mvcgen [tryCommit, addEvent, h1, h2]
  case inv1 => exact ⇓ _ s => ⌜TL c b s0 s⌝
  all_goals (first
    | exact ts'_store _ _ _ (by assumption)
    | exact tl_prune _ _ _ _ _ _ (by assumption)
    | exact tl_abort _ _ _ _ _ (by assumption)
    | assumption
    | (rename_i h; exact TL.of_ts h.1)
    | (rename_i h; exact ⟨h.1, h.2 _ rfl⟩)
    | (simp_all; done)
    | skip)

/-- **what `tryCommit c b` does to the commit log** -/
theorem tryCommit_tl (c : RCfg) (b : Block) (s : RState) : TL c b s ((tryCommit c b).run s).2 :=
  run_res_of_triple _ _ _ (tryCommit_ts' c b s) s ⟨grows_refl s, rfl, rfl⟩


/-! ### the one-step log invariant -/

/-- `Segs c s vs c0 l t`: starting with committed block `c0`, successive commits appended the blocks `l`
— a concatenation of SEGMENTS — and ended with committed block `t`.  Each segment `seg` is non-empty, a
stored parent path (in `s`) up from an anchor `a` whose view is at most that of the block `c1` committed
before the segment, all its blocks have views above `c1`'s, and its last block — the new committed
block — was returned by the commit rule for a block voted for among `vs`. -/
inductive Segs (c : RCfg) (s : RState) (vs : List GRec) (c0 : Block) : List Block → Block → Prop
  | nil : Segs c s vs c0 [] c0
  | snoc (l : List Block) (c1 a : Block) (seg : List Block) (t : Block) :
      Segs c s vs c0 l c1 → seg ≠ [] → Path s a seg t → a.view ≤ c1.view → (∀ x ∈ seg, c1.view < x.view) →
      (∃ x id, GRec.vote x id ∈ vs ∧ CommitChain c s x t) → Segs c s vs c0 (l ++ seg) t

theorem Segs.grows {c : RCfg} {s s' : RState} {vs : List GRec} {c0 t : Block} {l : List Block}
    (hg : Grows s.chain.blocks s') (h : Segs c s vs c0 l t) : Segs c s' vs c0 l t := by
  induction h with
  | nil => exact .nil
  | snoc l c1 a seg t _ h1 h2 h3 h4 h5 ih =>
    obtain ⟨x, id, hm, hcc⟩ := h5
    exact .snoc l c1 a seg t ih h1 (h2.grows hg) h3 h4 ⟨x, id, hm, commitChain_grows c s s' x t hg hcc⟩

theorem Segs.mono {c : RCfg} {s : RState} {vs vs' : List GRec} {c0 t : Block} {l : List Block}
    (hs : ∀ r, r ∈ vs → r ∈ vs') (h : Segs c s vs c0 l t) : Segs c s vs' c0 l t := by
  induction h with
  | nil => exact .nil
  | snoc l c1 a seg t _ h1 h2 h3 h4 h5 ih =>
    obtain ⟨x, id, hm, hcc⟩ := h5
    exact .snoc l c1 a seg t ih h1 h2 h3 h4 ⟨x, id, hs _ hm, hcc⟩

theorem Segs.congr {c : RCfg} {s s' : RState} {vs : List GRec} {c0 t : Block} {l : List Block}
    (h : Segs c s vs c0 l t) (hb : s'.chain.blocks = s.chain.blocks) : Segs c s' vs c0 l t :=
  h.grows (grows_of_blocks_eq s s' hb)

/-- the committed view never decreases along segments -/
theorem Segs.view_le {c : RCfg} {s : RState} {vs : List GRec} {c0 t : Block} {l : List Block}
    (h : Segs c s vs c0 l t) : c0.view ≤ t.view := by
  induction h with
  | nil => exact Nat.le_refl _
  | snoc l c1 a seg t _ h1 h2 h3 h4 h5 ih =>
    have := h4 t (h2.top_mem h1)
    omega

/-- the facts carried through a step that started in `s0`, about the votes `vs` cast since: no commit
event waits in the deferred lists, and the pending log (`pending`) has grown by segments -/
structure LCore (c : RCfg) (s0 : RState) (vs : List GRec) (s : RState) : Prop where
  wait : waitCommits s = []
  segs : ∃ l, pending s = pending s0 ++ l ∧ Segs c s vs s0.committed l s.committed

theorem LCore.refl (c : RCfg) (s : RState) (hw : waitCommits s = []) : LCore c s [] s :=
  ⟨hw, [], by simp, .nil⟩

theorem LCore.keep {c : RCfg} {s0 : RState} {vs : List GRec} {s s' : RState} (h : LCore c s0 vs s)
    (hg : Grows s.chain.blocks s') (hp : pending s' = pending s) (hw : waitCommits s' = [])
    (hc : s'.committed = s.committed) : LCore c s0 vs s' := by
  obtain ⟨l, h1, h2⟩ := h.segs
  exact ⟨hw, l, by rw [hp, h1], by rw [hc]; exact h2.grows hg⟩

theorem LCore.mono {c : RCfg} {s0 : RState} {vs vs' : List GRec} {s : RState} (h : LCore c s0 vs s)
    (hs : ∀ r, r ∈ vs → r ∈ vs') : LCore c s0 vs' s := by
  obtain ⟨l, h1, h2⟩ := h.segs
  exact ⟨h.wait, l, h1, h2.mono hs⟩

/-- a `tryCommit c b` for a block `b` among the votes -/
theorem LCore.tc {c : RCfg} {s0 : RState} {vs : List GRec} {s s' : RState} {b : Block} {id : Nat}
    (h : LCore c s0 vs s) (hm : GRec.vote b id ∈ vs) (ht : TL c b s s') : LCore c s0 vs s' := by
  obtain ⟨l, h1, h2⟩ := h.segs
  refine ⟨by rw [ht.wait]; exact h.wait, ?_⟩
  rcases ht.seg with ⟨hq, hc⟩ | ⟨a, seg, hne, hpath, hav, hsv, hq, hcc⟩
  · exact ⟨l, by simp only [pending, ht.out, hq]; exact h1, by rw [hc]; exact h2.grows ht.store⟩
  · refine ⟨l ++ seg, ?_, .snoc l s.committed a seg _ (h2.grows ht.store) hne hpath hav hsv ⟨b, id, hm, hcc⟩⟩
    simp only [pending, ht.out, hq]
    rw [← List.append_assoc, ← List.append_assoc]
    congr 1

/-- **the one-step log invariant**: the ghost history has grown by `new`, about which `LCore` holds -/
def LR (c : RCfg) (s0 s : RState) : Prop := ∃ new, s.ghost = s0.ghost ++ new ∧ LCore c s0 new s

/-- ... with a block `b` that is about to be voted for (`onValidPropose` runs `tryCommit` first) -/
def LRP (c : RCfg) (s0 : RState) (b : Block) (id : Nat) (s : RState) : Prop :=
  ∃ new, s.ghost = s0.ghost ++ new ∧ LCore c s0 (new ++ [.vote b id]) s

/-- ... with a block `b` known to be among the new votes (`createAndPropose` runs `tryCommit` after the vote) -/
def LRW (c : RCfg) (s0 : RState) (b : Block) (id : Nat) (s : RState) : Prop :=
  ∃ new, s.ghost = s0.ghost ++ new ∧ LCore c s0 new s ∧ GRec.vote b id ∈ new

theorem LR.refl (c : RCfg) (s : RState) (hw : waitCommits s = []) : LR c s s := ⟨[], by simp, LCore.refl c s hw⟩

theorem lrp_of_lr (c : RCfg) (s0 : RState) (b : Block) (id : Nat) (s : RState) (h : LR c s0 s) : LRP c s0 b id s := by
  obtain ⟨new, hg, hc⟩ := h
  exact ⟨new, hg, hc.mono (fun r hr => List.mem_append_left _ hr)⟩

theorem lr_of_lrw (c : RCfg) (s0 : RState) (b : Block) (id : Nat) (s : RState) (h : LRW c s0 b id s) : LR c s0 s := by
  obtain ⟨new, hg, hc, _⟩ := h
  exact ⟨new, hg, hc⟩

/-- the invariant reads only ghost history, committed block, block map and the commit events -/
theorem lr_congr (c : RCfg) (s0 s s' : RState) (h : LR c s0 s) (hg : s'.ghost = s.ghost)
    (hc : s'.committed = s.committed) (hb : s'.chain = s.chain)
    (hp : waitCommits s = [] → pending s' = pending s) (hw : waitCommits s = [] → waitCommits s' = []) : LR c s0 s' := by
  obtain ⟨new, hgh, hcore⟩ := h
  exact ⟨new, by rw [hg, hgh], hcore.keep (grows_of_blocks_eq s s' (by rw [hb])) (hp hcore.wait) (hw hcore.wait) hc⟩

/-- appending a record that is not a vote (or is: the votes only grow) -/
theorem lr_append (c : RCfg) (s0 s s' : RState) (r : GRec) (h : LR c s0 s)
    (hg : s'.ghost = s.ghost ++ [r]) (hc : s'.committed = s.committed) (hb : s'.chain = s.chain)
    (hp : waitCommits s = [] → pending s' = pending s) (hw : waitCommits s = [] → waitCommits s' = []) : LR c s0 s' := by
  obtain ⟨new, hgh, hcore⟩ := h
  have hk := hcore.keep (grows_of_blocks_eq s s' (by rw [hb])) (hp hcore.wait) (hw hcore.wait) hc
  exact ⟨new ++ [r], by rw [hg, hgh, List.append_assoc], hk.mono (fun r' h' => List.mem_append_left _ h')⟩

theorem lcore_run {α} {c : RCfg} {s0 : RState} {vs : List GRec} (f : M α)
    (hgr : ∀ x, ⦃fun s => ⌜Grows x s⌝⦄ f ⦃⇓ _ s => ⌜Grows x s⌝⦄)
    (hlc : ∀ x, ⦃fun s => ⌜LC s = x⌝⦄ f ⦃⇓ _ s => ⌜LC s = x⌝⦄)
    (hpd : ∀ x, ⦃fun s => ⌜PD s = x⌝⦄ f ⦃⇓ _ s => ⌜PD s = x⌝⦄) (s : RState) (h : LCore c s0 vs s) :
    LCore c s0 vs (f.run s).2 := by
  have hp := pd_run f hpd s
  exact h.keep (grows_run f hgr s) (by simp only [pending, hp.1, hp.2.1]) (by rw [hp.2.2]; exact h.wait) (lc_run f hlc s).2

/-- anything that leaves ghost history, committed block and commit events alone and lets the store grow -/
theorem lr_frame {α} (c : RCfg) (s0 : RState) (f : M α)
    (hvs : ∀ x, ⦃fun s => ⌜VS s = x⌝⦄ f ⦃⇓ _ s => ⌜VS s = x⌝⦄)
    (hgr : ∀ x, ⦃fun s => ⌜Grows x s⌝⦄ f ⦃⇓ _ s => ⌜Grows x s⌝⦄)
    (hlc : ∀ x, ⦃fun s => ⌜LC s = x⌝⦄ f ⦃⇓ _ s => ⌜LC s = x⌝⦄)
    (hpd : ∀ x, ⦃fun s => ⌜PD s = x⌝⦄ f ⦃⇓ _ s => ⌜PD s = x⌝⦄) :
    ⦃fun s => ⌜LR c s0 s⌝⦄ f ⦃⇓ _ s => ⌜LR c s0 s⌝⦄ := by
  apply triple_of_run
  intro s ⟨new, hg, hc⟩
  exact ⟨new, by rw [ghost_of_vs f hvs s, hg], lcore_run f hgr hlc hpd s hc⟩

section LRChain
variable (k : Keys) (c : RCfg) (s0 : RState)

theorem getBlock_lr (h : Hash) : ⦃fun s => ⌜LR c s0 s⌝⦄ getBlock h ⦃⇓ _ s => ⌜LR c s0 s⌝⦄ :=
  lr_frame c s0 _ (getBlock_frame h) (getBlock_gr h) (getBlock_lc h) (getBlock_pd h)
theorem signMsg_lr (m : Msg) : ⦃fun s => ⌜LR c s0 s⌝⦄ signMsg c m ⦃⇓ _ s => ⌜LR c s0 s⌝⦄ :=
  lr_frame c s0 _ (signMsg_frame c m) (signMsg_gr c m) (signMsg_lc c m) (signMsg_pd c m)
theorem verifySyncInfo_lr (si : SyncInfo) :
    ⦃fun s => ⌜LR c s0 s⌝⦄ verifySyncInfo k c si ⦃⇓ _ s => ⌜LR c s0 s⌝⦄ :=
  lr_frame c s0 _ (verifySyncInfo_frame k c si) (verifySyncInfo_gr k c si) (verifySyncInfo_lc k c si) (verifySyncInfo_pd k c si)
theorem collectVote_lr (id : Nat) (sig : Option Sig) (h : Hash) (d : Bool) :
    ⦃fun s => ⌜LR c s0 s⌝⦄ collectVote k c id sig h d ⦃⇓ _ s => ⌜LR c s0 s⌝⦄ :=
  lr_frame c s0 _ (collectVote_frame k c id sig h d) (collectVote_gr k c id sig h d) (collectVote_lc k c id sig h d)
    (collectVote_pd k c id sig h d)
theorem aggregateVote_lr (b : Block) (sg : Sig) :
    ⦃fun s => ⌜LR c s0 s⌝⦄ aggregateVote k c b sg ⦃⇓ _ s => ⌜LR c s0 s⌝⦄ :=
  lr_frame c s0 _ (aggregateVote_frame k c b sg) (aggregateVote_gr k c b sg) (aggregateVote_lc k c b sg)
    (aggregateVote_pd k c b sg)
theorem markProposed_lr (fuel : Nat) (b : Block) :
    ⦃fun s => ⌜LR c s0 s⌝⦄ markProposed fuel b ⦃⇓ _ s => ⌜LR c s0 s⌝⦄ :=
  lr_frame c s0 _ (markProposed_frame fuel b) (markProposed_gr fuel b) (markProposed_lc fuel b) (markProposed_pd fuel b)
theorem voterVerify_lr (id : Nat) (b : Block) (agg : Option AggQC) :
    ⦃fun s => ⌜LR c s0 s⌝⦄ voterVerify k c id b agg ⦃⇓ _ s => ⌜LR c s0 s⌝⦄ :=
  lr_frame c s0 _ (voterVerify_vs k c id b agg) (voterVerify_gr k c id b agg) (voterVerify_lc k c id b agg)
    (voterVerify_pd k c id b agg)

/-- `tryCommit c b` before the vote for `b` (`onValidPropose`) -/
theorem tryCommit_lrp (b : Block) (id : Nat) :
    ⦃fun s => ⌜LRP c s0 b id s⌝⦄ tryCommit c b ⦃⇓ _ s => ⌜LRP c s0 b id s⌝⦄ := by
  apply triple_of_run
  intro s ⟨new, hg, hc⟩
  exact ⟨new, by rw [ghost_of_vs _ (tryCommit_frame c b) s, hg],
    hc.tc (List.mem_append_right _ (List.mem_singleton.mpr rfl)) (tryCommit_tl c b s)⟩

/-- `tryCommit c b` after the vote for `b` (`createAndPropose`) -/
theorem tryCommit_lrw (b : Block) (id : Nat) :
    ⦃fun s => ⌜LRW c s0 b id s⌝⦄ tryCommit c b ⦃⇓ _ s => ⌜LR c s0 s⌝⦄ := by
  apply triple_of_run
  intro s ⟨new, hg, hc, hm⟩
  exact ⟨new, by rw [ghost_of_vs _ (tryCommit_frame c b) s, hg], hc.tc hm (tryCommit_tl c b s)⟩

theorem voteFor_ghost (b : Block) (id : Nat) (s : RState) :
    ((voteFor c b id).run s).2.ghost = s.ghost ++ [.vote b id] := by
  have hv := run_res_of_triple _ (fun s' => VS s' = (s.ghost, s.lastVoted)) _ (voteFor_vs c b id s.ghost s.lastVoted) s rfl
  have := congrArg (fun x => x.1) hv
  simpa [VS] using this

/-- the vote for `b` after its `tryCommit` (`onValidPropose`) -/
theorem voteFor_lrp (b : Block) (id : Nat) :
    ⦃fun s => ⌜LRP c s0 b id s⌝⦄ voteFor c b id ⦃⇓ _ s => ⌜LR c s0 s⌝⦄ := by
  apply triple_of_run
  intro s ⟨new, hg, hc⟩
  exact ⟨new ++ [.vote b id], by rw [voteFor_ghost, hg, List.append_assoc],
    lcore_run _ (voteFor_gr c b id) (voteFor_lc c b id) (voteFor_pd c b id) s hc⟩

/-- the vote for `b` before its `tryCommit` (`createAndPropose`) -/
theorem voteFor_lrw (b : Block) (id : Nat) :
    ⦃fun s => ⌜LR c s0 s⌝⦄ voteFor c b id ⦃⇓ _ s => ⌜LRW c s0 b id s⌝⦄ := by
  apply triple_of_run
  intro s ⟨new, hg, hc⟩
  exact ⟨new ++ [.vote b id], by rw [voteFor_ghost, hg, List.append_assoc],
    (lcore_run _ (voteFor_gr c b id) (voteFor_lc c b id) (voteFor_pd c b id) s hc).mono
      (fun r hr => List.mem_append_left _ hr),
    List.mem_append_right _ (List.mem_singleton.mpr rfl)⟩

end LRChain

/-- closes a side goal `waitCommits s = [] → pending s' = pending s` / `… → waitCommits s' = []` -/
macro "pd_side" : tactic => `(tactic| (
  intro hw0
  (try simp only [waitCommits, evCommits_append, List.append_eq_nil_iff] at hw0)
  (simp_all +zetaDelta [pending, outCommits, queuedCommits, waitCommits, Out.commitOf, Ev.commitOf])))

/-- closes the verification conditions of the `LR` chain -/
macro "lr_finish" : tactic => `(tactic| (
  (try intros)
  (try simp only [and_true, true_and, and_self, implies_true] at *)
  (first
    | done
    | assumption
    | (apply lr_congr <;> first | assumption | rfl | pd_side)
    | (apply lr_append <;> first | assumption | rfl | pd_side)
    | (exact lrp_of_lr _ _ _ _ _ (by assumption))
    | (exact lr_of_lrw _ _ _ _ _ (by assumption))
    | (simp_all; done)
    | skip)))

section LRHandlers
variable (k : Keys) (c : RCfg) (s0 : RState)

theorem onValidPropose_lr (id : Nat) (b : Block) :
    ⦃fun s => ⌜LRP c s0 b id s⌝⦄ onValidPropose k c id b ⦃⇓ _ s => ⌜LR c s0 s⌝⦄ := by
  have h1 := tryCommit_lrp c s0 b id
  have h2 := voteFor_lrp c s0 b id
  have h3 := aggregateVote_lr k c s0
  mvcgen [onValidPropose, h1, h2, h3]
  all_goals lr_finish

theorem createAndPropose_lr (si : SyncInfo) :
    ⦃fun s => ⌜LR c s0 s⌝⦄ createAndPropose k c si ⦃⇓ _ s => ⌜LR c s0 s⌝⦄ := by
  have h1 := getBlock_lr c s0
  have h2 := markProposed_lr c s0
  have h3 := fun b agg => voterVerify_lr k c s0 c.id b agg
  have h4 := fun b => voteFor_lrw c s0 b c.id
  have h5 := fun b => tryCommit_lrw c s0 b c.id
  have h7 := aggregateVote_lr k c s0
  mvcgen [createAndPropose, emit, h1, h2, h3, h4, h5, h7]
  all_goals lr_finish

theorem advanceView_lr (si : SyncInfo) :
    ⦃fun s => ⌜LR c s0 s⌝⦄ advanceView k c si ⦃⇓ _ s => ⌜LR c s0 s⌝⦄ := by
  have h1 := verifySyncInfo_lr k c s0
  have h2 := getBlock_lr c s0
  have h4 := createAndPropose_lr k c s0
  mvcgen [advanceView, emit, addEvent, h1, h2, h4]
  all_goals lr_finish

theorem onRemoteTimeout_lr (t : TimeoutMsg) :
    ⦃fun s => ⌜LR c s0 s⌝⦄ onRemoteTimeout k c t ⦃⇓ _ s => ⌜LR c s0 s⌝⦄ := by
  have h1 := advanceView_lr k c s0
  mvcgen [onRemoteTimeout, h1]
  all_goals lr_finish

theorem onLocalTimeout_lr :
    ⦃fun s => ⌜LR c s0 s⌝⦄ onLocalTimeout k c ⦃⇓ _ s => ⌜LR c s0 s⌝⦄ := by
  have h1 := onRemoteTimeout_lr k c s0
  have h2 := signMsg_lr c s0
  mvcgen [onLocalTimeout, emit, h1, h2]
  all_goals lr_finish

theorem onPropose_lr (id : Nat) (b : Block) (agg : Option AggQC) :
    ⦃fun s => ⌜LR c s0 s⌝⦄ onPropose k c id b agg ⦃⇓ _ s => ⌜LR c s0 s⌝⦄ := by
  have h1 := advanceView_lr k c s0
  have h2 := voterVerify_lr k c s0 id b agg
  have h3 := onValidPropose_lr k c s0 id b
  mvcgen [onPropose, emit, h1, h2, h3]
  all_goals lr_finish

theorem tick_lr :
    ⦃fun s => ⌜LR c s0 s⌝⦄ tick k c ⦃⇓ _ s => ⌜LR c s0 s⌝⦄ := by
  have h1 := onPropose_lr k c s0
  have h2 := onRemoteTimeout_lr k c s0
  have h3 := onLocalTimeout_lr k c s0
  have h4 := advanceView_lr k c s0
  have h5 := collectVote_lr k c s0
  mvcgen [tick, emit, h1, h2, h3, h4, h5]
  all_goals lr_finish

theorem runLoop_lr (fuel : Nat) :
    ⦃fun s => ⌜LR c s0 s⌝⦄ runLoop k c fuel ⦃⇓ _ s => ⌜LR c s0 s⌝⦄ := by
  induction fuel with
  | zero => mvcgen [runLoop]
  | succ n ih =>
    have h1 := tick_lr k c s0
    mvcgen [runLoop, h1, ih]

end LRHandlers


/-! ### one delivered event, and `Start` -/

/-- what a state satisfying the one-step invariant relative to `s0` looks like, spelled out -/
def LogStep (c : RCfg) (s0 : RState) (p0 : List Block) (s : RState) (outs : List Out) : Prop :=
  ∃ new l, s.ghost = s0.ghost ++ new ∧ waitCommits s = [] ∧
    commitsOf outs ++ queuedCommits s = p0 ++ l ∧ Segs c s new s0.committed l s.committed

/-- **the log invariant of one delivered event** (ANY state `s` in whose deferred lists no commit event
waits, ANY event `e`): the commit outputs of the step followed by the commit events still queued are
the commit events queued before, then `e` if it is a commit event, then the segments of the step -/
theorem step_log (k : Keys) (c : RCfg) (s : RState) (e : Ev) (hw : waitCommits s = []) :
    LogStep c s (queuedCommits s ++ evCommits [e]) (step k c s e).1 (step k c s e).2 := by
  unfold step
  have h0 : LR c { s with out := [], queue := s.queue ++ [e] } { s with out := [], queue := s.queue ++ [e] } :=
    LR.refl c _ hw
  obtain ⟨new, hg, hcore⟩ := run_res_of_triple (runLoop k c 100000) _ _ (runLoop_lr k c _ 100000) _ h0
  obtain ⟨l, h1, h2⟩ := hcore.segs
  refine ⟨new, l, hg, hcore.wait, ?_, h2.congr rfl⟩
  have : pending ({ s with out := [], queue := s.queue ++ [e] } : RState) = queuedCommits s ++ evCommits [e] := by
    simp [pending, outCommits, queuedCommits]
  rw [← this, ← h1]; rfl

theorem start_log (k : Keys) (c : RCfg) (s : RState) (hw : waitCommits s = []) :
    LogStep c s (queuedCommits s) (start k c s).1 (start k c s).2 := by
  unfold start
  have h0 : LR c { s with out := [] } { s with out := [] } := LR.refl c _ hw
  have h1 := createAndPropose_lr k c { s with out := [] }
  have h2 := runLoop_lr k c { s with out := [] }
  have spec : ⦃fun s' => ⌜LR c { s with out := [] } s'⌝⦄ (do
      let s ← get
      if s.view == 1 && c.leader 1 == c.id then
        createAndPropose k c { qc := some s.highQC, tc := some s.highTC }
      runLoop k c 100000 : M Unit) ⦃⇓ _ s' => ⌜LR c { s with out := [] } s'⌝⦄ := by
    mvcgen [h1, h2]
  obtain ⟨new, hg, hcore⟩ := run_res_of_triple _ _ _ spec _ h0
  obtain ⟨l, h1, h2⟩ := hcore.segs
  refine ⟨new, l, hg, hcore.wait, ?_, h2.congr rfl⟩
  have : pending ({ s with out := [] } : RState) = queuedCommits s := by
    simp [pending, outCommits, queuedCommits]
  rw [← this, ← h1]; rfl

theorem LogStep.wait {c : RCfg} {s0 s : RState} {p0 : List Block} {outs : List Out}
    (h : LogStep c s0 p0 s outs) : waitCommits s = [] := by
  obtain ⟨new, l, _, hw, _, _⟩ := h
  exact hw

/-- the committed view never decreases in a step -/
theorem LogStep.view_le {c : RCfg} {s0 s : RState} {p0 : List Block} {outs : List Out}
    (h : LogStep c s0 p0 s outs) : s0.committed.view ≤ s.committed.view := by
  obtain ⟨new, l, _, _, _, hs⟩ := h
  exact hs.view_le

end HsVerif.Model
