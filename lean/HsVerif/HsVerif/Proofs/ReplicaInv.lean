import HsVerif.Proofs.ReplicaVote
/-! The vote-discipline invariant `Inv3` is preserved by every handler of the replica model. -/
open Std.Do
set_option mvcgen.warning false
namespace HsVerif.Model

def Inv3 (k : Keys) (c : RCfg) (s : RState) : Prop := InvV k c (VS s)

theorem triple_of_forall {α X} (f : M α) (P : RState → Prop) (Q : PostCond α (.arg RState .pure)) (proj : RState → X)
    (h : ∀ x, ⦃fun s => ⌜proj s = x ∧ P s⌝⦄ f ⦃Q⦄) : ⦃fun s => ⌜P s⌝⦄ f ⦃Q⦄ := by
  intro s hP
  exact h (proj s) s ⟨rfl, hP⟩

/-- a computation that leaves `VS` alone preserves every predicate on `VS`; result facts `R`
established by the computation are kept -/
theorem lift_frame {α} (k : Keys) (c : RCfg) (f : M α) (R : α → Nat → Prop)
    (hf : ∀ g lv, ⦃fun s => ⌜VS s = (g, lv)⌝⦄ f ⦃⇓ r s => ⌜VS s = (g, lv) ∧ R r lv⌝⦄) :
    ⦃fun s => ⌜Inv3 k c s⌝⦄ f ⦃⇓ r s => ⌜Inv3 k c s ∧ R r s.lastVoted⌝⦄ := by
  apply triple_of_forall (proj := VS)
  intro x
  by_cases hx : InvV k c x
  · apply Triple.entails_wp_of_pre_post (hf x.1 x.2)
    · intro s h; exact h.1
    · refine ⟨?_, ?_⟩
      · intro a s h
        have h' : VS s = (x.1, x.2) ∧ R a x.2 := h
        simp only [Inv3]
        rw [h'.1]
        refine ⟨hx, ?_⟩
        have : s.lastVoted = x.2 := by have := h'.1; simp only [VS, Prod.mk.injEq] at this; exact this.2
        rw [this]; exact h'.2
      · simp
  · intro s h
    exact absurd (by have := h.2; simp only [Inv3] at this; rw [h.1] at this; exact this) hx

theorem frame_inv {α} (k : Keys) (c : RCfg) (f : M α)
    (hf : ∀ x, ⦃fun s => ⌜VS s = x⌝⦄ f ⦃⇓ _ s => ⌜VS s = x⌝⦄) :
    ⦃fun s => ⌜Inv3 k c s⌝⦄ f ⦃⇓ _ s => ⌜Inv3 k c s⌝⦄ := by
  have := lift_frame k c f (fun _ _ => True) (fun g lv => by
    apply Triple.entails_wp_of_pre_post (hf (g, lv))
    · exact SPred.entails.refl _
    · refine ⟨?_, by simp⟩
      intro a s h; exact ⟨h, trivial⟩)
  apply Triple.entails_wp_of_pre_post this
  · exact SPred.entails.refl _
  · refine ⟨?_, by simp⟩
    intro a s h; exact h.1

/-- a computation that leaves `VS` alone preserves every predicate on `VS` -/
theorem frame_pres {α} (P : List GRec × Nat → Prop) (f : M α)
    (hf : ∀ x, ⦃fun s => ⌜VS s = x⌝⦄ f ⦃⇓ _ s => ⌜VS s = x⌝⦄) :
    ⦃fun s => ⌜P (VS s)⌝⦄ f ⦃⇓ _ s => ⌜P (VS s)⌝⦄ := by
  apply triple_of_forall (proj := VS)
  intro x
  by_cases hx : P x
  · apply Triple.entails_wp_of_pre_post (hf x)
    · intro s h; exact h.1
    · refine ⟨?_, by simp⟩
      intro a s h
      have h' : VS s = x := h
      show P (VS s)
      rw [h']; exact hx
  · intro s h
    exact absurd (by have := h.2; rw [h.1] at this; exact this) hx

section Inv
variable (k : Keys) (c : RCfg)

theorem emit_inv (o : Out) : ⦃fun s => ⌜Inv3 k c s⌝⦄ emit o ⦃⇓ _ s => ⌜Inv3 k c s⌝⦄ := frame_inv k c _ (emit_frame o)
theorem addEvent_inv (e : Ev) : ⦃fun s => ⌜Inv3 k c s⌝⦄ addEvent e ⦃⇓ _ s => ⌜Inv3 k c s⌝⦄ := frame_inv k c _ (addEvent_frame e)
theorem getBlock_inv (h : Hash) : ⦃fun s => ⌜Inv3 k c s⌝⦄ getBlock h ⦃⇓ _ s => ⌜Inv3 k c s⌝⦄ := frame_inv k c _ (getBlock_frame h)
theorem signMsg_inv (m : Msg) : ⦃fun s => ⌜Inv3 k c s⌝⦄ signMsg c m ⦃⇓ _ s => ⌜Inv3 k c s⌝⦄ := frame_inv k c _ (signMsg_frame c m)
theorem verifyTCM_inv (t : TC) : ⦃fun s => ⌜Inv3 k c s⌝⦄ verifyTCM k c t ⦃⇓ _ s => ⌜Inv3 k c s⌝⦄ := frame_inv k c _ (verifyTCM_frame k c t)
theorem verifyQCM_inv (q : QC) : ⦃fun s => ⌜Inv3 k c s⌝⦄ verifyQCM k c q ⦃⇓ _ s => ⌜Inv3 k c s⌝⦄ := frame_inv k c _ (verifyQCM_frame k c q)
theorem verifyAggM_inv (a : AggQC) : ⦃fun s => ⌜Inv3 k c s⌝⦄ verifyAggM k c a ⦃⇓ _ s => ⌜Inv3 k c s⌝⦄ := frame_inv k c _ (verifyAggM_frame k c a)
theorem tryCommit_inv (b : Block) : ⦃fun s => ⌜Inv3 k c s⌝⦄ tryCommit c b ⦃⇓ _ s => ⌜Inv3 k c s⌝⦄ := frame_inv k c _ (tryCommit_frame c b)
theorem collectVote_inv (id : Nat) (sig : Option Sig) (h : Hash) (d : Bool) :
    ⦃fun s => ⌜Inv3 k c s⌝⦄ collectVote k c id sig h d ⦃⇓ _ s => ⌜Inv3 k c s⌝⦄ := frame_inv k c _ (collectVote_frame k c id sig h d)
theorem aggregateVote_inv (b : Block) (sg : Sig) :
    ⦃fun s => ⌜Inv3 k c s⌝⦄ aggregateVote k c b sg ⦃⇓ _ s => ⌜Inv3 k c s⌝⦄ := frame_inv k c _ (aggregateVote_frame k c b sg)
theorem markProposed_inv (fuel : Nat) (b : Block) :
    ⦃fun s => ⌜Inv3 k c s⌝⦄ markProposed fuel b ⦃⇓ _ s => ⌜Inv3 k c s⌝⦄ := frame_inv k c _ (markProposed_frame fuel b)

theorem voterVerify_inv (id : Nat) (b : Block) (agg : Option AggQC) :
    ⦃fun s => ⌜Inv3 k c s⌝⦄ voterVerify k c id b agg
    ⦃⇓ r s => ⌜Inv3 k c s ∧ (r = .ok () → s.lastVoted < b.view ∧ Facts k c b id)⌝⦄ :=
  lift_frame k c _ (fun (r : VRes Unit) lv => r = VRes.ok () → lv < b.view ∧ Facts k c b id) (voterVerify_spec k c id b agg)

attribute [local spec] emit_inv addEvent_inv getBlock_inv signMsg_inv verifyTCM_inv verifyQCM_inv verifyAggM_inv
  collectVote_inv aggregateVote_inv markProposed_inv voterVerify_inv

theorem voteFor_inv (b : Block) (id : Nat) :
    ⦃fun s => ⌜Inv3 k c s ∧ s.lastVoted < b.view ∧ Facts k c b id⌝⦄ voteFor c b id ⦃⇓ _ s => ⌜Inv3 k c s⌝⦄ := by
  apply triple_of_forall (proj := VS)
  intro x
  by_cases hx : InvV k c x ∧ x.2 < b.view ∧ Facts k c b id
  · apply Triple.entails_wp_of_pre_post (voteFor_vs c b id x.1 x.2)
    · intro s h; exact h.1
    · refine ⟨?_, by simp⟩
      intro a s h
      have h' : VS s = (x.1 ++ [.vote b id], b.view) := h
      simp only [Inv3]; rw [h']
      exact InvV_vote k c x.1 x.2 b id hx.1 hx.2.1 hx.2.2
  · intro s h
    refine absurd ?_ hx
    obtain ⟨h1, h2, h3, h4⟩ := h
    simp only [Inv3] at h2
    rw [h1] at h2
    refine ⟨h2, ?_, h4⟩
    have : s.lastVoted = x.2 := by rw [← h1]
    omega

theorem onValidPropose_inv (id : Nat) (b : Block) :
    ⦃fun s => ⌜Inv3 k c s ∧ s.lastVoted < b.view ∧ Facts k c b id⌝⦄ onValidPropose k c id b ⦃⇓ _ s => ⌜Inv3 k c s⌝⦄ := by
  by_cases hf : Facts k c b id
  · have h1 := frame_pres (fun x => InvV k c x ∧ x.2 < b.view) _ (tryCommit_frame c b)
    mvcgen [onValidPropose, h1, voteFor_inv, aggregateVote_inv]
    all_goals simp_all [Inv3]
  · intro s h; exact absurd h.2.2 hf

theorem createAndPropose_inv (si : SyncInfo) :
    ⦃fun s => ⌜Inv3 k c s⌝⦄ createAndPropose k c si ⦃⇓ _ s => ⌜Inv3 k c s⌝⦄ := by
  mvcgen [createAndPropose, voteFor_inv, tryCommit_inv]
  all_goals simp_all +zetaDelta [Inv3]

theorem verifySyncInfo_inv (si : SyncInfo) :
    ⦃fun s => ⌜Inv3 k c s⌝⦄ verifySyncInfo k c si ⦃⇓ _ s => ⌜Inv3 k c s⌝⦄ := frame_inv k c _ (verifySyncInfo_frame k c si)

theorem advanceView_inv (si : SyncInfo) :
    ⦃fun s => ⌜Inv3 k c s⌝⦄ advanceView k c si ⦃⇓ _ s => ⌜Inv3 k c s⌝⦄ := by
  mvcgen [advanceView, verifySyncInfo_inv, createAndPropose_inv]
  all_goals simp_all +zetaDelta [Inv3]
  all_goals (exact InvV_adv k c _ _ _ _ _ (by assumption))

theorem onRemoteTimeout_inv (t : TimeoutMsg) :
    ⦃fun s => ⌜Inv3 k c s⌝⦄ onRemoteTimeout k c t ⦃⇓ _ s => ⌜Inv3 k c s⌝⦄ := by
  mvcgen [onRemoteTimeout, advanceView_inv]
  all_goals simp_all +zetaDelta [Inv3]

theorem onLocalTimeout_inv :
    ⦃fun s => ⌜Inv3 k c s⌝⦄ onLocalTimeout k c ⦃⇓ _ s => ⌜Inv3 k c s⌝⦄ := by
  mvcgen [onLocalTimeout, onRemoteTimeout_inv]
  all_goals simp_all +zetaDelta [Inv3]
  all_goals (first | exact InvV_tmo k c _ _ _ (by assumption) | skip)

theorem onPropose_inv (id : Nat) (b : Block) (agg : Option AggQC) :
    ⦃fun s => ⌜Inv3 k c s⌝⦄ onPropose k c id b agg ⦃⇓ _ s => ⌜Inv3 k c s⌝⦄ := by
  mvcgen [onPropose, advanceView_inv, onValidPropose_inv]
  all_goals simp_all +zetaDelta [Inv3]

theorem tick_inv :
    ⦃fun s => ⌜Inv3 k c s⌝⦄ tick k c ⦃⇓ _ s => ⌜Inv3 k c s⌝⦄ := by
  mvcgen [tick, onPropose_inv, onRemoteTimeout_inv, onLocalTimeout_inv, advanceView_inv]
  all_goals simp_all +zetaDelta [Inv3]

theorem runLoop_inv (fuel : Nat) :
    ⦃fun s => ⌜Inv3 k c s⌝⦄ runLoop k c fuel ⦃⇓ _ s => ⌜Inv3 k c s⌝⦄ := by
  induction fuel with
  | zero => mvcgen [runLoop]
  | succ n ih => mvcgen [runLoop, tick_inv, ih]

end Inv
end HsVerif.Model
