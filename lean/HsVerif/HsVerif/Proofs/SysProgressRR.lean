import HsVerif.Proofs.SysProgress
/-!
The fault-free synchronous run with ROUND-ROBIN leaders (C05, Stage 2, second part), generic in
the number `n ≥ 4` of replicas: the replica-level lemmas of Proofs/SysProgress.lean for a proposer
that is not the next collector of votes, and the system-level phases.
-/
open Std.Do
set_option mvcgen.warning false
set_option linter.unusedSimpArgs false
set_option linter.unusedVariables false
namespace HsVerif.Model
open HsVerif.Proofs

/-! ## replica level: proposer ≠ collector -/

/-- `markProposed` walks down the happy chain without fetching, whatever was proposed last -/
theorem markWalk_chain (w : Who) (sg : Nat → Sig) (J lp : Nat) : ∀ (m fuel : Nat), m ≤ J → m + 1 ≤ fuel →
    markWalk fuel (chainOf w sg J) lp (hb w sg m) = true := by
  intro m
  induction m with
  | zero =>
    intro fuel _ hf
    cases fuel with
    | zero => omega
    | succ f => simp [markWalk, hb_view]
  | succ m ih =>
    intro fuel hm hf
    cases fuel with
    | zero => omega
    | succ f =>
      unfold markWalk
      by_cases hv : (hb w sg (m + 1)).view > lp
      · rw [if_pos hv, hb_qc, lookup_hqc w sg J m (by omega)]
        exact ih f (by omega) (by omega)
      · rw [if_neg hv]

/-- the proposer's state right after `createAndPropose` for block `j + 1`, before `aggregateVote` -/
structure ProposedCore (c : RCfg) (w : Who) (sg : Nat → Sig) (j : Nat) (m F : RState) (bytes : Nat) (evs : List Ev) : Prop where
  view : F.view = j + 1
  highQC : F.highQC = hqc sg j
  lastVoted : F.lastVoted = j + 1
  lastProposed : F.lastProposed = j + 1
  nextCmd : F.nextCmd = w.cnt (j + 1) + 1
  lock : F.lock = hb w sg (j - 1)
  committed : F.committed = hb w sg (j - 2)
  blocks : F.chain.blocks = chainOf w sg (j + 1)
  fetchable : F.chain.fetchable = []
  prune : F.chain.pruneHeight = j - 2
  votes : F.votes = m.votes
  table : F.truth.lookup bytes = some ⟨c.id, blkMsg (pname (j + 1))⟩
  queue : F.queue = m.queue ++ evs
  passive : ∀ e ∈ evs, e.passive = true
  short : evs.length ≤ 3
  out : F.out = m.out ++ [.sign (blkMsg (pname (j + 1))), .sendPropose (hb w sg (j + 1)) none]
  wprop : F.waitingProp = m.waitingProp
  wvc : F.waitingVC = m.waitingVC
  fresh : FreshS F
  ext : Ext m F


/-- **`createAndPropose` for block `j + 1` of the happy path**, up to the point where the proposer
hands its own vote to `aggregateVote` (any `lastProposed`: the walk that marks ancestors as proposed
runs down the stored chain) -/
theorem propose_core (k : Keys) (c : RCfg) (w : Who) (sg : Nat → Sig) (j : Nat) (m : RState) (tc : Option TC)
    (hw : w.cfg (j + 1) = c)
    (hs : c.scheme ≠ .bls12) (hr : c.rules = .chained ∨ c.rules = .simple)
    (hlead : c.id = c.leader (j + 1))
    (hview : m.view = j + 1) (hhq : m.highQC = hqc sg j) (hlv : m.lastVoted ≤ j)
    (hnc : m.nextCmd = w.cnt (j + 1))
    (hlock : m.lock = hb w sg (j - 2)) (hcm : m.committed = hb w sg (j - 3))
    (hbl : m.chain.blocks = chainOf w sg j) (hfe : m.chain.fetchable = []) (hph : m.chain.pruneHeight = j - 3)
    (hf : FreshS m)
    (hok : QCok (fun b => m.truth.lookup b) c.cfg sg j) :
    ∃ bytes evs F, (createAndPropose k c { qc := some (hqc sg j), tc := tc }).run m =
        (aggregateVote k c (hb w sg (j + 1)) (.multi c.scheme [⟨c.id, bytes⟩])).run F ∧
      ProposedCore c w sg j m F bytes evs := by
  have hbeq : newBlock c m (hqc sg j) = hb w sg (j + 1) := by
    unfold newBlock; rw [hview, hnc, ← hw]; rfl
  have hlk : m.chain.blocks.lookup (hqc sg j).hash = some (hb w sg j) := by
    rw [hbl]; exact lookup_hqc w sg j j (Nat.le_refl _)
  have hver : verifyQC (env k c m) (hqc sg j) = true := verifyQC_happy k c w sg m j j (Nat.le_refl _) hbl hok
  -- markProposed: the certified block is not above what was proposed last
  have hmark : (markProposed (m.chain.fuel + 1) (hb w sg j)).run m = pure (true, m) :=
    markProposed_walk _ _ m (by
      rw [hbl]
      exact markWalk_chain w sg j m.lastProposed j _ (Nat.le_refl _) (by unfold RChain.fuel; rw [hbl, chainOf_length]; omega))
  -- the vote rule on the new block
  have hrule : ∀ s' : RState, s'.chain = m.chain → s'.lock = m.lock →
      (voteRule c m.view (newBlock c m (hqc sg j)) none).run s' = pure (true, s') := by
    intro s' hc hl
    rw [hbeq]
    have hl1 : s'.chain.blocks.lookup (hb w sg (j + 1)).qc.hash = some (hb w sg j) := by rw [hc]; exact hlk
    have h2 : (hb w sg j).qc.hash = "" ∨ ∃ gb, s'.chain.blocks.lookup (hb w sg j).qc.hash = some gb := by
      cases j with
      | zero => exact Or.inl rfl
      | succ i =>
        refine Or.inr ⟨hb w sg i, ?_⟩
        rw [hc, hbl]; exact lookup_hqc w sg (i + 1) i (by omega)
    have hlkv : s'.lock.view = j - 2 := by rw [hl, hlock, hb_view]
    rcases hr with hr | hr
    · by_cases hj : 1 ≤ j
      · exact voteRule_chained_above c hr s' _ (hb w sg j) _ hl1 h2 (by rw [hlkv, hb_view]; omega)
      · have hj0 : j = 0 := by omega
        subst hj0
        refine voteRule_chained_extends c hr s' _ (hb w sg 0) _ hl1 h2 rfl (by rw [hlkv]; show 0 < 1; omega) ?_
        have hfuel : s'.chain.fuel - 1 = s'.chain.blocks.length + s'.chain.fetchable.length + 0 + 1 := by
          unfold RChain.fuel; omega
        rw [hfuel, hl, hlock]
        simp [extWalk]
    · exact voteRule_simple_ok c hr s' _ (hb w sg j) _ (by rw [hview, hb_view]; exact Nat.le_refl _) hl1 h2 (by rw [hlkv, hb_view]; omega)
  have hrun := createAndPropose_run k c m (hqc sg j) (hb w sg j) tc hs (by rcases hr with h | h <;> rw [h] <;> decide)
    (by rw [hhq]; exact hlk) hmark (by rw [hview]; omega) hrule hver (by rw [hqc_view, hview]; omega)
    (by rw [hview]; exact hlead)
  rw [hbeq] at hrun
  let b := hb w sg (j + 1)
  let v3 := voteS c b c.id (propS m)
  have hfm : FreshS (propS m) := hf
  obtain ⟨ho3, hl3, hf3, hc3⟩ := voteS_facts c b c.id (propS m) hfm
  have hfe3 : v3.chain.fetchable = [] := by rw [show v3.chain = (propS m).chain from hc3]; exact hfe
  have htc : tcS c b v3 = tcL c b v3 := tcS_eq_tcL c (by rcases hr with h | h <;> rw [h] <;> decide) b v3 hfe3
  have hv3lock : v3.lock = hb w sg (j - 2) := by
    have : v3.lock = m.lock := by show (voteS c b c.id (propS m)).lock = _; unfold voteS signState; split <;> rfl
    rw [this, hlock]
  have hv3cm : v3.committed = hb w sg (j - 3) := by
    have : v3.committed = m.committed := by show (voteS c b c.id (propS m)).committed = _; unfold voteS signState; split <;> rfl
    rw [this, hcm]
  obtain ⟨ch', evs, htl, hch1, hch2, hch3, hevp, hevl⟩ := tcL_happy c w sg hr j v3
    (by rw [show v3.chain = (propS m).chain from hc3]; exact hbl) hfe3 hv3lock hv3cm
    (by rw [show v3.chain = (propS m).chain from hc3]; exact hph)
  rw [← htc] at htl
  let s6 : RState := { tcS c b v3 with out := (tcS c b v3).out ++ [.sendPropose b none] }
  have hft := tcS_fresh c b v3 hf3
  have hs6truth : s6.truth = v3.truth := by
    have := tcS_tcp c b v3
    simp only [TCP, Prod.mk.injEq] at this
    exact this.2.2.2.2.2.2.2.2.2.2.2.1
  have hs6blocks : s6.chain.blocks = chainOf w sg (j + 1) := by
    show (tcS c b v3).chain.blocks = _; rw [htl]; exact hch1
  have hs6hq : s6.highQC = hqc sg j := by
    show (tcS c b v3).highQC = _; rw [htl]
    show (voteS c b c.id (propS m)).highQC = _
    have : (voteS c b c.id (propS m)).highQC = m.highQC := by unfold voteS signState; split <;> rfl
    rw [this, hhq]
  have hs6votes : s6.votes = m.votes := by
    show (tcS c b v3).votes = _; rw [htl]
    show (voteS c b c.id (propS m)).votes = _
    unfold voteS signState; split <;> rfl
  refine ⟨signBytes c (blkMsg b.hash) (propS m), evs, s6, hrun, ?_⟩
  obtain ⟨w1, w2, w3, w4, w5, w6, w7, w8, w9, w10, w11⟩ := voteS_fields c b c.id (propS m)
  refine ⟨?_, ?_, ?_, ?_, ?_, ?_, ?_, ?_, ?_, ?_, ?_, ?_, ?_, hevp, hevl, ?_, ?_, ?_, ?_, ?_⟩
  · show (tcS c b v3).view = _; rw [htl]; show v3.view = _; rw [show v3.view = (propS m).view from w1]; exact hview
  · exact hs6hq
  · show (tcS c b v3).lastVoted = _; rw [htl]; show v3.lastVoted = _; rw [show v3.lastVoted = b.view from w11]; exact hb_view w sg (j + 1)
  · show (tcS c b v3).lastProposed = _; rw [htl]; show v3.lastProposed = _; rw [show v3.lastProposed = (propS m).lastProposed from w3]; exact hview
  · show (tcS c b v3).nextCmd = _; rw [htl]; show v3.nextCmd = _; rw [show v3.nextCmd = (propS m).nextCmd from w4]; show m.nextCmd + 1 = _; rw [hnc]
  · show (tcS c b v3).lock = _; rw [htl]
  · show (tcS c b v3).committed = _; rw [htl]
  · exact hs6blocks
  · show (tcS c b v3).chain.fetchable = _; rw [htl]; exact hch2
  · show (tcS c b v3).chain.pruneHeight = _; rw [htl]; exact hch3
  · exact hs6votes
  · show s6.truth.lookup _ = _
    rw [hs6truth]; exact hl3
  · show (tcS c b v3).queue = _; rw [htl]; show v3.queue ++ evs = _; rw [show v3.queue = (propS m).queue from w8]; rfl
  · show (tcS c b v3).out ++ _ = _
    rw [tcS_out, show v3.out = _ from ho3, List.append_assoc]; rfl
  · show (tcS c b v3).waitingProp = _; rw [htl]; exact w9
  · show (tcS c b v3).waitingVC = _; rw [htl]; exact w10
  · exact hft
  · have e1 : Ext m (propS m) := ext_of_eq m _ hf.2 rfl rfl rfl
    have e2 := voteS_ext c b c.id (propS m) hs hfm.2
    have e3 := tcS_ext c b v3 hf3.2
    have e4 : Ext (tcS c b v3) s6 := ext_of_eq _ _ hft.2 rfl rfl rfl
    exact ((e1.trans e2).trans e3).trans e4



/-- **the proposer proposes and sends its vote to the next leader** `L2 ≠ c.id` -/
theorem propose_send (k : Keys) (c : RCfg) (w : Who) (sg : Nat → Sig) (j L2 : Nat) (m : RState) (tc : Option TC)
    (hw : w.cfg (j + 1) = c)
    (hs : c.scheme ≠ .bls12) (hr : c.rules = .chained ∨ c.rules = .simple)
    (hlead : c.id = c.leader (j + 1)) (hlead2 : c.leader (j + 2) = L2) (hne2 : L2 ≠ c.id)
    (hview : m.view = j + 1) (hhq : m.highQC = hqc sg j) (hlv : m.lastVoted ≤ j)
    (hnc : m.nextCmd = w.cnt (j + 1))
    (hlock : m.lock = hb w sg (j - 2)) (hcm : m.committed = hb w sg (j - 3))
    (hbl : m.chain.blocks = chainOf w sg j) (hfe : m.chain.fetchable = []) (hph : m.chain.pruneHeight = j - 3)
    (hf : FreshS m)
    (hok : QCok (fun b => m.truth.lookup b) c.cfg sg j) :
    ∃ bytes evs F, (createAndPropose k c { qc := some (hqc sg j), tc := tc }).run m =
        pure ((), { F with out := F.out ++ [.sendVote L2 (.multi c.scheme [⟨c.id, bytes⟩]) (pname (j + 1))] }) ∧
      ProposedCore c w sg j m F bytes evs := by
  obtain ⟨bytes, evs, F, hrun, hP⟩ := propose_core k c w sg j m tc hw hs hr hlead hview hhq hlv hnc hlock hcm hbl hfe hph hf hok
  refine ⟨bytes, evs, F, ?_, hP⟩
  rw [hrun, aggregateVote_send k c _ _ F (by show c.leader (j + 1 + 1) ≠ c.id; rw [hlead2]; exact hne2)]
  show pure ((), { F with out := F.out ++ [Out.sendVote (c.leader (j + 1 + 1)) _ (pname (j + 1))] }) = _
  rw [hlead2]

/-- `Start` at the leader of view 1 when another replica leads view 2: it proposes block 1 and sends its vote -/
theorem proposer_start (k : Keys) (c : RCfg) (w : Who) (sg : Nat → Sig) (L2 : Nat) (s : RState) (hw : w.cfg 1 = c)
    (hs : c.scheme ≠ .bls12) (hr : c.rules = .chained ∨ c.rules = .simple)
    (hlead : c.leader 1 = c.id) (hlead2 : c.leader 2 = L2) (hne2 : L2 ≠ c.id)
    (hbase : Base w sg 0 s) (hnc : s.nextCmd = w.cnt 1) (hf : FreshS s) :
    ∃ bytes, Base w sg 1 (start k c s).1 ∧ (start k c s).1.votes = s.votes ∧
      (start k c s).1.lastProposed = 1 ∧ (start k c s).1.nextCmd = w.cnt 1 + 1 ∧
      (start k c s).1.truth.lookup bytes = some ⟨c.id, blkMsg (pname 1)⟩ ∧
      FreshS (start k c s).1 ∧ Ext s (start k c s).1 ∧
      ∀ C : SysCfg, route C c.id (start k c s).2 =
        (C.honest.filter (· != c.id)).map (fun i => (i, Ev.propose c.id (hb w sg 1) none)) ++
        [(L2, Ev.vote c.id (some (.multi c.scheme [⟨c.id, bytes⟩])) (pname 1) false)] := by
  let m : RState := { s with out := [] }
  obtain ⟨bytes, evs, F, hrun, hP⟩ := propose_send k c w sg 0 L2 m (some s.highTC) hw hs hr hlead.symm hlead2 hne2
    (by show s.view = 1; rw [hbase.view]; rfl) hbase.highQC (by show s.lastVoted ≤ 0; rw [hbase.lastVoted]; exact Nat.le_refl _)
    hnc hbase.lock hbase.committed hbase.blocks hbase.fetchable hbase.prune hf (Or.inl rfl)
  have hhq : s.highQC = hqc sg 0 := hbase.highQC
  rw [← hhq] at hrun
  let F' : RState := { F with out := F.out ++ [.sendVote L2 (.multi c.scheme [⟨c.id, bytes⟩]) (pname 1)] }
  have hst := start_leader_run k c s F' (by rw [hbase.view]; rfl) hlead hrun
  have hFq : F'.queue = evs := by show F.queue = evs; rw [hP.queue]; show s.queue ++ evs = evs; rw [hbase.queue]; rfl
  have hquiet : ∀ e ∈ evs, e.quiet = true := fun e he => quiet_of_passive e (hP.passive e he)
  have hrest := runLoop_quiet k c evs 100000 F' hquiet (by show F.waitingVC = []; rw [hP.wvc]; exact hbase.wvc)
    (by have := hP.short; omega)
  have hFF : F' = { F' with queue := evs } := by rw [← hFq]
  rw [hFF, hrest] at hst
  rw [hst]
  refine ⟨bytes, ⟨?_, ?_, ?_, ?_, ?_, ?_, ?_, ?_, rfl, ?_, ?_⟩, ?_, ?_, ?_, hP.table, hP.fresh, ?_, ?_⟩
  · show F.view = _; rw [hP.view]; rfl
  · show F.highQC = _; rw [hP.highQC]
  · show F.lastVoted = _; rw [hP.lastVoted]
  · show F.lock = _; rw [hP.lock]
  · show F.committed = _; rw [hP.committed]
  · show F.chain.blocks = _; rw [hP.blocks]
  · show F.chain.fetchable = _; rw [hP.fetchable]
  · show F.chain.pruneHeight = _; rw [hP.prune]
  · show F.waitingProp = _; rw [hP.wprop]; exact hbase.wprop
  · show F.waitingVC = _; rw [hP.wvc]; exact hbase.wvc
  · show F.votes = _; rw [hP.votes]
  · show F.lastProposed = _; rw [hP.lastProposed]
  · show F.nextCmd = _; rw [hP.nextCmd]
  · have e1 : Ext s m := ext_of_eq s m hf.2 rfl rfl rfl
    have e2 : Ext F { F' with queue := [], out := [] } := ext_of_eq _ _ hP.fresh.2 rfl rfl rfl
    exact (e1.trans hP.ext).trans e2
  · intro C
    show route C c.id ((F.out ++ _) ++ evs.map Ev.toOut) = _
    rw [route_append, route_append, hP.out, route_silent C c.id (evs.map Ev.toOut) (by
      intro o ho
      obtain ⟨e, he, rfl⟩ := List.mem_map.mp ho
      exact toOut_silent e (hquiet e he))]
    show (route C c.id ([] ++ _) ++ _) ++ [] = _
    simp [route]


/-- `onPropose` once `advanceView` on the proposal's certificate has been run (to `s1`), up to `aggregateVote` -/
theorem onPropose_run_after_gen (k : Keys) (c : RCfg) (s s1 : RState) (ld : Nat) (b : Block)
    (hs : c.scheme ≠ .bls12)
    (h1 : (advanceView k c { qc := some b.qc }).run s = pure ((), s1))
    (hv : b.view = s1.view) (hlv : s1.lastVoted < b.view) (hld : ld = c.leader b.view)
    (hpar : b.parent = b.qc.hash) (hqv : b.qc.view < b.view)
    (hqc : verifyQC (env k c s1) b.qc = true)
    (hrule : (voteRule c b.view b none).run s1 = pure (true, s1)) :
    (onPropose k c ld b none).run s =
      (aggregateVote k c b (voteSig c b (tcS c b s1))).run (voteS c b ld (tcS c b s1)) := by
  have h2 : ¬ b.view > s1.view + 10 := by omega
  have h3 : ¬ b.view > s1.view := by omega
  have h4 := voterVerify_ok k c s1 ld b hlv hrule hqc hpar hqv hld
  simp [onPropose, h1, h2, h3, h4, onValidPropose_run_gen k c ld b _ hs]

/-- **The next collector receives the proposal of block `j + 1`** (it leads view `j + 2`): from
`Base j` to `Base (j+1)`; it reports its new view to the proposer and keeps its own vote. -/
theorem nl_propose_collect (k : Keys) (c : RCfg) (cL : Who) (sg : Nat → Sig) (j L : Nat) (s : RState)
    (hs : c.scheme ≠ .bls12) (ha : c.agg = false) (hr : c.rules = .chained ∨ c.rules = .simple)
    (hid : c.cfg.has c.id = true) (hq2 : 2 ≤ c.cfg.quorum)
    (hlead : c.leader (j + 1) = L) (hlead2 : c.leader (j + 2) = c.id) (hne : c.id ≠ L)
    (hbase : Base cL sg j s) (hvotes : s.votes = []) (hf : FreshS s)
    (hok : QCok (fun b => s.truth.lookup b) c.cfg sg j) :
    ∃ bytes,
      Base cL sg (j + 1) (step k c s (.propose L (hb cL sg (j + 1)) none)).1 ∧
      (step k c s (.propose L (hb cL sg (j + 1)) none)).1.votes = [(pname (j + 1), [(c.id, .multi c.scheme [⟨c.id, bytes⟩])])] ∧
      (step k c s (.propose L (hb cL sg (j + 1)) none)).1.lastProposed = s.lastProposed ∧
      (step k c s (.propose L (hb cL sg (j + 1)) none)).1.nextCmd = s.nextCmd ∧
      FreshS (step k c s (.propose L (hb cL sg (j + 1)) none)).1 ∧
      Ext s (step k c s (.propose L (hb cL sg (j + 1)) none)).1 ∧
      (step k c s (.propose L (hb cL sg (j + 1)) none)).1.truth.lookup bytes = some ⟨c.id, blkMsg (pname (j + 1))⟩ ∧
      ∀ C : SysCfg, route C c.id (step k c s (.propose L (hb cL sg (j + 1)) none)).2 =
        (if 1 ≤ j then [(L, Ev.newview c.id { qc := some (hqc sg j) })] else []) := by
  let b := hb cL sg (j + 1)
  let s0 : RState := { s with out := [], queue := s.queue ++ [.propose L b none] }
  let sA : RState := { s0 with queue := [] }
  have hbaseA : Base cL sg j sA := ⟨hbase.view, hbase.highQC, hbase.lastVoted, hbase.lock, hbase.committed, hbase.blocks,
    hbase.fetchable, hbase.prune, rfl, hbase.wprop, hbase.wvc⟩
  have hver : verifyQC (env k c sA) (hqc sg j) = true :=
    verifyQC_happy k c cL sg sA j j (Nat.le_refl _) hbase.blocks hok
  obtain ⟨lt, g, hadv⟩ := nl_advance k c cL sg j L sA ha hlead hne hbaseA hver
  let s1 : RState := nlAdvS sA sg j L lt g
  have hl1 : s1.chain.blocks.lookup b.qc.hash = some (hb cL sg j) := by
    show s.chain.blocks.lookup (hqc sg j).hash = _
    rw [hbase.blocks]; exact lookup_hqc cL sg j j (Nat.le_refl _)
  -- the vote rule
  have hrule : (voteRule c b.view b none).run s1 = pure (true, s1) := by
    have h2 : (hb cL sg j).qc.hash = "" ∨ ∃ gb, s1.chain.blocks.lookup (hb cL sg j).qc.hash = some gb := by
      cases j with
      | zero => exact Or.inl rfl
      | succ i =>
        refine Or.inr ⟨hb cL sg i, ?_⟩
        show s.chain.blocks.lookup (hqc sg i).hash = _
        rw [hbase.blocks]; exact lookup_hqc cL sg (i + 1) i (by omega)
    have hlk : s1.lock.view = j - 2 := by show s.lock.view = _; rw [hbase.lock, hb_view]
    rcases hr with hr | hr
    · by_cases hj : 1 ≤ j
      · exact voteRule_chained_above c hr s1 b (hb cL sg j) _ hl1 h2 (by rw [hlk, hb_view]; omega)
      · have hj0 : j = 0 := by omega
        subst hj0
        refine voteRule_chained_extends c hr s1 b (hb cL sg 0) _ hl1 h2 rfl (by rw [hlk]; show 0 < 1; omega) ?_
        have hfuel : s1.chain.fuel - 1 = s1.chain.blocks.length + s1.chain.fetchable.length + 0 + 1 := by
          unfold RChain.fuel; omega
        rw [hfuel]
        show extWalk _ _ (hb cL sg 0) s.lock = true
        rw [hbase.lock]
        simp [extWalk]
    · exact voteRule_simple_ok c hr s1 b (hb cL sg j) _ (Nat.le_refl _) hl1 h2 (by rw [hlk, hb_view]; omega)
  have hon : (onPropose k c L b none).run sA =
      (aggregateVote k c b (voteSig c b (tcS c b s1))).run (voteS c b L (tcS c b s1)) :=
    onPropose_run_after_gen k c sA s1 L b hs hadv rfl (by show s.lastVoted < j + 1; rw [hbase.lastVoted]; omega)
      hlead.symm rfl (by show (hqc sg j).view < j + 1; rw [hqc_view]; omega)
      (verifyQC_happy k c cL sg s1 j j (Nat.le_refl _) hbase.blocks hok) hrule
  -- tryCommit
  have hfe1 : s1.chain.fetchable = [] := hbase.fetchable
  have htc : tcS c b s1 = tcL c b s1 := tcS_eq_tcL c (by rcases hr with h | h <;> rw [h] <;> decide) b s1 hfe1
  obtain ⟨ch', evs, htl, hch1, hch2, hch3, hevp, hevl⟩ := tcL_happy c cL sg hr j s1 hbase.blocks hfe1 hbase.lock
    hbase.committed hbase.prune
  rw [← htc] at htl
  let v3 : RState := voteS c b L (tcS c b s1)
  obtain ⟨w1, w2, w3, w4, w5, w6, w7, w8, w9, w10, w11⟩ := voteS_fields c b L (tcS c b s1)
  have hfA : FreshS s1 := hf
  have hft := tcS_fresh c b s1 hfA
  obtain ⟨ho3, hl3, hf3, hc3⟩ := voteS_facts c b L (tcS c b s1) hft
  have hv3blocks : v3.chain.blocks = chainOf cL sg (j + 1) := by
    rw [show v3.chain = (tcS c b s1).chain from hc3, htl]; exact hch1
  have hv3hq : v3.highQC = hqc sg j := by
    rw [show v3.highQC = (tcS c b s1).highQC from w2, htl]; rfl
  have hv3votes : v3.votes = [] := by
    rw [show v3.votes = (tcS c b s1).votes from w7, htl]; exact hvotes
  have hcv := collectVote_add_run k c v3 c.id c.id (signBytes c (blkMsg b.hash) (tcS c b s1)) b.hash b false
    (by rw [hv3blocks, show b.hash = hname (j + 1) from hb_hash cL sg (j + 1), lookup_chainOf, if_pos (Nat.le_refl _)])
    rfl (by rw [hv3hq, hqc_view]; show j < (hb cL sg (j + 1)).view; rw [hb_view]; omega)
    (verify_single _ c.cfg c.id _ _ hs hid hl3)
    (by rw [hv3votes]; simp) (by rw [hv3votes]; simp; omega)
  let A : RState := addVoteS v3 b.hash c.id (voteSig c b (tcS c b s1))
  have hon' : (onPropose k c L b none).run sA = pure ((), A) := by
    rw [hon, aggregateVote_self k c b _ _ (by show c.leader (j + 1 + 1) = c.id; exact hlead2)]
    exact hcv
  let q : List Ev := (if 1 ≤ j then [Ev.viewChange (j + 1) false] else []) ++ evs
  have hAq : A.queue = q := by
    show v3.queue = _
    rw [show v3.queue = (tcS c b s1).queue from w8, htl]; rfl
  have hAw : A.waitingProp = [] := by
    show v3.waitingProp = _
    rw [show v3.waitingProp = (tcS c b s1).waitingProp from w9, htl]; exact hbase.wprop
  have hquiet : ∀ e ∈ q, e.quiet = true := by
    intro e he
    simp only [q, List.mem_append] at he
    rcases he with he | he
    · split at he
      · simp at he; subst he; rfl
      · simp at he
    · exact quiet_of_passive e (hevp e he)
  have hqlen : q.length < 99999 := by
    simp only [q, List.length_append]
    split <;> simp <;> omega
  have htick := tick_propose k c s0 A L b none [] (by show s.queue ++ _ = _; rw [hbase.queue]; rfl) hon'
  have hX : ({ A with waitingProp := [], queue := A.queue ++ A.waitingProp } : RState) =
      { ({ A with waitingProp := [] } : RState) with queue := q } := by
    simp only [hAw, hAq, List.append_nil]
  rw [hX] at htick
  have hrest := runLoop_quiet k c q 99999 { A with waitingProp := [] } hquiet
    (by show v3.waitingVC = []; rw [show v3.waitingVC = (tcS c b s1).waitingVC from w10, htl]; exact hbase.wvc) hqlen
  have hstep : step k c s (.propose L b none) =
      ({ A with waitingProp := [], queue := [], out := [] }, A.out ++ q.map Ev.toOut) := by
    rw [step_run_eq k c s _ (99999 + 1) rfl, runLoop_succ k c _ s0 _ htick, hrest]
    rfl
  have hAout : A.out = (if 1 ≤ j then [Out.sendNewView L { qc := some (hqc sg j) }] else []) ++
      [.sign (blkMsg b.hash)] := by
    show v3.out = _
    rw [show v3.out = _ from ho3, tcS_out]
    show ([] ++ _) ++ _ = _
    simp
  have hAvotes : A.votes = [(pname (j + 1), [(c.id, .multi c.scheme [⟨c.id, signBytes c (blkMsg b.hash) (tcS c b s1)⟩])])] := by
    show cleanVotes v3 _ = _
    rw [hv3votes]
    have hlg : v3.chain.localGet b.hash = some b := by
      show v3.chain.blocks.lookup b.hash = _
      rw [hv3blocks, show b.hash = hname (j + 1) from hb_hash cL sg (j + 1), lookup_chainOf, if_pos (Nat.le_refl _)]
    have hnv : ¬ b.view ≤ v3.highQC.view := by rw [hv3hq, hqc_view]; show ¬ (hb cL sg (j + 1)).view ≤ j; rw [hb_view]; omega
    simp [cleanVotes, hlg, hnv, voteSig]
    rfl
  refine ⟨signBytes c (blkMsg b.hash) (tcS c b s1), ?_⟩
  show Base cL sg (j + 1) (step k c s (.propose L b none)).1 ∧ (step k c s (.propose L b none)).1.votes = _ ∧
    (step k c s (.propose L b none)).1.lastProposed = _ ∧ (step k c s (.propose L b none)).1.nextCmd = _ ∧
    FreshS (step k c s (.propose L b none)).1 ∧
    Ext s (step k c s (.propose L b none)).1 ∧ (step k c s (.propose L b none)).1.truth.lookup _ = _ ∧
      ∀ C : SysCfg, route C c.id (step k c s (.propose L b none)).2 = _
  rw [hstep]
  refine ⟨⟨?_, ?_, ?_, ?_, ?_, ?_, ?_, ?_, rfl, rfl, ?_⟩, hAvotes, ?_, ?_, hf3, ?_, hl3, ?_⟩
  · show v3.view = _
    rw [show v3.view = (tcS c b s1).view from w1, htl]; show j + 1 = max (j + 1) 1; omega
  · exact hv3hq
  · show v3.lastVoted = _
    rw [show v3.lastVoted = b.view from w11]; exact hb_view cL sg (j + 1)
  · show v3.lock = _
    rw [show v3.lock = (tcS c b s1).lock from w5, htl]; rfl
  · show v3.committed = _
    rw [show v3.committed = (tcS c b s1).committed from w6, htl]; rfl
  · exact hv3blocks
  · show v3.chain.fetchable = _
    rw [show v3.chain = (tcS c b s1).chain from hc3, htl]; exact hch2
  · show v3.chain.pruneHeight = _
    rw [show v3.chain = (tcS c b s1).chain from hc3, htl]; show ch'.pruneHeight = _; rw [hch3]; omega
  · show v3.waitingVC = _
    rw [show v3.waitingVC = (tcS c b s1).waitingVC from w10, htl]; exact hbase.wvc
  · show v3.lastProposed = _
    rw [show v3.lastProposed = (tcS c b s1).lastProposed from w3, htl]; rfl
  · show v3.nextCmd = _
    rw [show v3.nextCmd = (tcS c b s1).nextCmd from w4, htl]; rfl
  · have e1 : Ext s s1 := ext_of_eq s s1 hf.2 rfl rfl rfl
    have e2 := tcS_ext c b s1 hfA.2
    have e3 := voteS_ext c b L (tcS c b s1) hs hft.2
    have e4 : Ext (voteS c b L (tcS c b s1)) { A with waitingProp := [], queue := [], out := [] } :=
      ext_of_eq _ _ hf3.2 rfl rfl rfl
    exact ((e1.trans e2).trans e3).trans e4
  · intro C
    rw [route_append, hAout, route_append]
    rw [route_silent C c.id (q.map Ev.toOut) (by
      intro o ho
      obtain ⟨e, he, rfl⟩ := List.mem_map.mp ho
      exact toOut_silent e (hquiet e he))]
    by_cases hj : 1 ≤ j
    · simp [hj, route]
    · simp [hj, route]


/-- a replica at block `j` that collects the votes `vs` for it -/
structure Coll (w : Who) (sg : Nat → Sig) (j : Nat) (vs : List (Nat × Sig)) (s : RState) : Prop where
  base : Base w sg j s
  votes : s.votes = [(pname j, vs)]

/-- **the collector keeps a vote that does not yet complete the quorum** -/
theorem collector_vote_add (k : Keys) (c : RCfg) (w : Who) (sg : Nat → Sig) (j i id bytes : Nat) (vs : List (Nat × Sig)) (s : RState)
    (hs : c.scheme ≠ .bls12)
    (hld : Coll w sg (j + 1) vs s) (hi : c.cfg.has i = true)
    (hbytes : s.truth.lookup bytes = some ⟨i, blkMsg (pname (j + 1))⟩)
    (hnew : ∀ v ∈ vs, v.1 ≠ i) (hlen : vs.length + 1 < c.cfg.quorum) :
    (step k c s (.vote id (some (.multi c.scheme [⟨i, bytes⟩])) (pname (j + 1)) false)).2 = [] ∧
    Coll w sg (j + 1) (vs ++ [(i, .multi c.scheme [⟨i, bytes⟩])])
      (step k c s (.vote id (some (.multi c.scheme [⟨i, bytes⟩])) (pname (j + 1)) false)).1 ∧
    (step k c s (.vote id (some (.multi c.scheme [⟨i, bytes⟩])) (pname (j + 1)) false)).1.truth = s.truth ∧
    (step k c s (.vote id (some (.multi c.scheme [⟨i, bytes⟩])) (pname (j + 1)) false)).1.nextBytes = s.nextBytes ∧
    (step k c s (.vote id (some (.multi c.scheme [⟨i, bytes⟩])) (pname (j + 1)) false)).1.lastProposed = s.lastProposed ∧
    (step k c s (.vote id (some (.multi c.scheme [⟨i, bytes⟩])) (pname (j + 1)) false)).1.nextCmd = s.nextCmd := by
  let sg1 : Sig := .multi c.scheme [⟨i, bytes⟩]
  let s0 : RState := { s with out := [], queue := s.queue ++ [.vote id (some sg1) (pname (j + 1)) false] }
  let sA : RState := { s0 with queue := [] }
  have hbase := hld.base
  have hl : sA.chain.blocks.lookup (pname (j + 1)) = some (hb w sg (j + 1)) := by
    show s.chain.blocks.lookup (hname (j + 1)) = _
    rw [hbase.blocks, lookup_chainOf, if_pos (Nat.le_refl _)]
  have hvl : (sA.votes.lookup (pname (j + 1))).getD [] = vs := by
    show (s.votes.lookup (pname (j + 1))).getD [] = vs
    rw [hld.votes]; simp [List.lookup]
  have hcv := collectVote_add_run k c sA id i bytes (pname (j + 1)) (hb w sg (j + 1)) false hl rfl
    (by show s.highQC.view < _; rw [hbase.highQC, hqc_view, hb_view]; omega)
    (verify_single _ c.cfg i bytes _ hs hi hbytes) (by rw [hvl]; exact hnew) (by rw [hvl]; exact hlen)
  let sB : RState := addVoteS sA (pname (j + 1)) i sg1
  have hsBq : sB.queue = [] := rfl
  have ht := tick_vote k c s0 sB id _ _ false [] (by show s.queue ++ _ = _; rw [hbase.queue]; rfl) hcv
  have hstep : step k c s (.vote id (some sg1) (pname (j + 1)) false) = ({ sB with out := [] }, []) := by
    rw [step_run_eq k c s _ (99998 + 1 + 1) rfl, runLoop_succ k c _ s0 sB ht, runLoop_idle k c sB 99998 hsBq]
    rfl
  have hvotes : sB.votes = [(pname (j + 1), vs ++ [(i, sg1)])] := by
    show cleanVotes sA _ = _
    rw [hvl]
    have hfil : sA.votes.filter (fun p => p.1 != pname (j + 1)) = [] := by
      show s.votes.filter _ = []
      rw [hld.votes]; simp
    rw [hfil]
    have hlg : sA.chain.localGet (pname (j + 1)) = some (hb w sg (j + 1)) := hl
    have hnv : ¬ (hb w sg (j + 1)).view ≤ sA.highQC.view := by
      show ¬ _ ≤ s.highQC.view; rw [hb_view, hbase.highQC, hqc_view]; omega
    simp [cleanVotes, hlg, hnv]
  show (step k c s (.vote id (some sg1) (pname (j + 1)) false)).2 = [] ∧ Coll w sg (j + 1) _ (step k c s (.vote id (some sg1) (pname (j + 1)) false)).1 ∧
    (step k c s (.vote id (some sg1) (pname (j + 1)) false)).1.truth = s.truth ∧
    (step k c s (.vote id (some sg1) (pname (j + 1)) false)).1.nextBytes = s.nextBytes ∧
    (step k c s (.vote id (some sg1) (pname (j + 1)) false)).1.lastProposed = s.lastProposed ∧
    (step k c s (.vote id (some sg1) (pname (j + 1)) false)).1.nextCmd = s.nextCmd
  rw [hstep]
  refine ⟨rfl, ⟨⟨hbase.view, hbase.highQC, hbase.lastVoted, hbase.lock, hbase.committed, hbase.blocks, hbase.fetchable,
    hbase.prune, rfl, hbase.wprop, hbase.wvc⟩, hvotes⟩, rfl, rfl, rfl, rfl⟩



/-- **the vote that completes the quorum**: the collector certifies block `j + 1` (the combined
signature becomes `sg' (j + 1)`), enters view `j + 2`, proposes block `j + 2` and sends its vote to the
next leader `L3` -/
theorem collector_vote_quorum (k : Keys) (c : RCfg) (w : Who) (sg : Nat → Sig) (j i id bytes L3 : Nat) (vs : List (Nat × Sig)) (s : RState)
    (hw : w.cfg (j + 2) = c) (hnc : s.nextCmd = w.cnt (j + 2))
    (hs : c.scheme ≠ .bls12) (ha : c.agg = false) (hr : c.rules = .chained ∨ c.rules = .simple)
    (hq2 : 2 ≤ c.cfg.quorum)
    (hlead : c.leader (j + 2) = c.id) (hlead3 : c.leader (j + 3) = L3) (hne3 : L3 ≠ c.id)
    (hld : Coll w sg (j + 1) vs s) (hvok : VotesOK (fun b => s.truth.lookup b) c.cfg (j + 1) vs)
    (hi : c.cfg.has i = true) (hbytes : s.truth.lookup bytes = some ⟨i, blkMsg (pname (j + 1))⟩)
    (hnew : ∀ v ∈ vs, v.1 ≠ i) (hlen : c.cfg.quorum ≤ vs.length + 1) (hf : FreshS s) :
    ∃ (sgq : Sig) (bytes' : Nat),
      Base w (fun m => if m = j + 1 then sgq else sg m) (j + 2)
        (step k c s (.vote id (some (.multi c.scheme [⟨i, bytes⟩])) (pname (j + 1)) false)).1 ∧
      (step k c s (.vote id (some (.multi c.scheme [⟨i, bytes⟩])) (pname (j + 1)) false)).1.votes = [] ∧
      (step k c s (.vote id (some (.multi c.scheme [⟨i, bytes⟩])) (pname (j + 1)) false)).1.lastProposed = j + 2 ∧
      (step k c s (.vote id (some (.multi c.scheme [⟨i, bytes⟩])) (pname (j + 1)) false)).1.nextCmd = w.cnt (j + 2) + 1 ∧
      QCok (fun b => (step k c s (.vote id (some (.multi c.scheme [⟨i, bytes⟩])) (pname (j + 1)) false)).1.truth.lookup b)
        c.cfg (fun m => if m = j + 1 then sgq else sg m) (j + 1) ∧
      (step k c s (.vote id (some (.multi c.scheme [⟨i, bytes⟩])) (pname (j + 1)) false)).1.truth.lookup bytes' =
        some ⟨c.id, blkMsg (pname (j + 2))⟩ ∧
      FreshS (step k c s (.vote id (some (.multi c.scheme [⟨i, bytes⟩])) (pname (j + 1)) false)).1 ∧
      Ext s (step k c s (.vote id (some (.multi c.scheme [⟨i, bytes⟩])) (pname (j + 1)) false)).1 ∧
      ∀ C : SysCfg, route C c.id (step k c s (.vote id (some (.multi c.scheme [⟨i, bytes⟩])) (pname (j + 1)) false)).2 =
        (C.honest.filter (· != c.id)).map
          (fun x => (x, Ev.propose c.id (hb w (fun m => if m = j + 1 then sgq else sg m) (j + 2)) none)) ++
        [(L3, Ev.vote c.id (some (.multi c.scheme [⟨c.id, bytes'⟩])) (pname (j + 2)) false)] := by
  let sg1 : Sig := .multi c.scheme [⟨i, bytes⟩]
  let hash := pname (j + 1)
  let blk := hb w sg (j + 1)
  have hbase := hld.base
  have hsgv : verify (fun b => s.truth.lookup b) c.cfg sg1 (blkMsg hash) = true :=
    verify_single _ c.cfg i bytes _ hs hi hbytes
  obtain ⟨sgq, hcomb, hverq, hlenq⟩ := combine_votes_verifies (fun b => s.truth.lookup b) c.cfg (blkMsg hash)
    (vs ++ [(i, sg1)])
    (by simp only [List.map_append, List.map_cons, List.map_nil]
        rw [List.nodup_append]
        refine ⟨hvok.nodup, by simp, ?_⟩
        intro a ha' b hb'
        simp at hb'; subst hb'
        obtain ⟨x, hx, hxe⟩ := List.mem_map.mp ha'
        intro e; exact hnew x hx (by rw [hxe, e]))
    (by simp; omega)
    (by intro v hv
        simp only [List.mem_append, List.mem_singleton] at hv
        rcases hv with hv | rfl
        · exact hvok.valid v hv
        · exact ⟨hi, Or.inl ⟨hs, bytes, rfl, hbytes⟩⟩)
  have hcomb' : combine c.cfg (vs.map (fun x => x.2) ++ [sg1]) = .ok sgq := by simpa using hcomb
  refine ⟨sgq, ?_⟩
  let sg' : Nat → Sig := fun m => if m = j + 1 then sgq else sg m
  have hsg' : ∀ m, m < j + 1 → sg m = sg' m := by
    intro m hm; show sg m = if m = j + 1 then sgq else sg m; rw [if_neg (by omega)]
  have hqceq : (⟨some sgq, blk.view, hash⟩ : QC) = hqc sg' (j + 1) := by
    show (⟨some sgq, (hb w sg (j + 1)).view, pname (j + 1)⟩ : QC) = ⟨some (sg' (j + 1)), j + 1, pname (j + 1)⟩
    rw [hb_view]; show _ = (⟨some (if j + 1 = j + 1 then sgq else sg (j + 1)), j + 1, pname (j + 1)⟩ : QC); rw [if_pos rfl]
  let qc : QC := hqc sg' (j + 1)
  let s0 : RState := { s with out := [], queue := s.queue ++ [.vote id (some sg1) hash false] }
  let sA : RState := { s0 with queue := [] }
  have hblk : sA.chain.blocks.lookup hash = some blk := by
    show s.chain.blocks.lookup (hname (j + 1)) = _
    rw [hbase.blocks, lookup_chainOf, if_pos (Nat.le_refl _)]
  have hvl : (sA.votes.lookup hash).getD [] = vs := by
    show (s.votes.lookup (pname (j + 1))).getD [] = vs
    rw [hld.votes]; simp [List.lookup]
  have hqcok : QCok (fun b => s.truth.lookup b) c.cfg sg' (j + 1) :=
    Or.inr ⟨by show verify _ _ (if j + 1 = j + 1 then sgq else sg (j + 1)) _ = true; rw [if_pos rfl]; exact hverq,
      by show _ ≤ (if j + 1 = j + 1 then sgq else sg (j + 1)).len; rw [if_pos rfl, hlenq]; simpa using hlen⟩
  have hbase' : Base w sg' (j + 1) s := base_congr w sg sg' (j + 1) s hsg' hbase
  have hcv : (collectVote k c id (some sg1) hash false).run sA = pure ((), qcFormedS c sA hash qc) := by
    have := collectVote_quorum_run k c sA id i bytes hash blk false sgq hblk (hb_hash w sg (j + 1)) (pname_ne_genesis _)
      (by show s.highQC.view < _; rw [hbase.highQC, hqc_view, hb_view]; omega) hsgv (by rw [hvl]; exact hnew)
      (by rw [hvl]; exact hlen) (by rw [hvl]; exact hcomb')
    rw [hqceq] at this; exact this
  let sB : RState := qcFormedS c sA hash qc
  have ht1 : (tick k c).run s0 = pure (true, sB) :=
    tick_vote k c s0 sB id (some sg1) hash false [] (by show s.queue ++ _ = _; rw [hbase.queue]; rfl) hcv
  let sC : RState := { sB with queue := [] }
  have hsCvotes : sC.votes = [] := by
    show cleanVotes sA (sA.votes.filter _) = []
    have : sA.votes.filter (fun p => p.1 != hash) = [] := by
      show s.votes.filter _ = []; rw [hld.votes]; simp [hash]
    rw [this]; rfl
  have hver : verifyQC (env k c sC) qc = true :=
    verifyQC_happy k c w sg' sC (j + 1) (j + 1) (Nat.le_refl _) hbase'.blocks hqcok
  have hlk' : sC.chain.blocks.lookup qc.hash = some (hb w sg' (j + 1)) := by
    show s.chain.blocks.lookup _ = _
    rw [hbase'.blocks]; exact lookup_hqc w sg' (j + 1) (j + 1) (Nat.le_refl _)
  have hsCview : sC.view = j + 1 := by show s.view = _; rw [hbase.view]; omega
  let m : RState := movedS sC qc (hb w sg' (j + 1))
  have hmhq : (updHighQC sC qc (hb w sg' (j + 1))).highQC = qc := by
    unfold updHighQC
    rw [if_neg (by show ¬ (hb w sg' (j + 1)).view ≤ s.highQC.view; rw [hb_view, hbase.highQC, hqc_view]; omega)]
  obtain ⟨bytes', evs, F0, hrun, hP⟩ := propose_send k c w sg' (j + 1) L3 m none hw hs hr hlead.symm hlead3 hne3
    (by show sC.view + 1 = _; rw [hsCview]) hmhq (by show s.lastVoted ≤ _; rw [hbase.lastVoted]; exact Nat.le_refl _)
    hnc hbase'.lock hbase'.committed hbase'.blocks hbase'.fetchable hbase'.prune hf hqcok
  let F : RState := { F0 with out := F0.out ++ [.sendVote L3 (.multi c.scheme [⟨c.id, bytes'⟩]) (pname (j + 1 + 1))] }
  have hadv : (advanceView k c { qc := some qc }).run sC = pure ((), F) := by
    rw [advanceView_move k c sC qc (hb w sg' (j + 1)) ha hver hlk' (by rw [hsCview]; show j + 1 = (hqc sg' (j + 1)).view; rw [hqc_view])]
    rw [if_pos (by rw [hsCview]; exact hlead), hmhq]
    exact hrun
  have ht2 : (tick k c).run sB = pure (true, F) :=
    tick_newview k c sB F c.id { qc := some qc } [] rfl hadv
  let q : List Ev := [Ev.viewChange (j + 2) false] ++ evs
  have hFq : F.queue = q := by
    show F0.queue = q
    rw [hP.queue]; show (sC.queue ++ [Ev.viewChange (sC.view + 1) false]) ++ evs = _
    rw [hsCview]; rfl
  have hquiet : ∀ e ∈ q, e.quiet = true := by
    intro e he
    simp only [q, List.mem_append, List.mem_singleton] at he
    rcases he with rfl | he
    · rfl
    · exact quiet_of_passive e (hP.passive e he)
  have hrest := runLoop_quiet k c q 99998 F hquiet (by show F0.waitingVC = []; rw [hP.wvc]; exact hbase.wvc)
    (by simp only [q, List.length_append, List.length_singleton]; have := hP.short; omega)
  have hFF : F = { F with queue := q } := by rw [← hFq]
  have hstep : step k c s (.vote id (some sg1) hash false) =
      ({ F with queue := [], out := [] }, F.out ++ q.map Ev.toOut) := by
    rw [step_run_eq k c s _ (99998 + 1 + 1) rfl, runLoop_succ k c _ s0 sB ht1, runLoop_succ k c _ sB F ht2, hFF, hrest]
    rfl
  refine ⟨bytes', ?_⟩
  show Base w sg' (j + 2) (step k c s (.vote id (some sg1) hash false)).1 ∧
    (step k c s (.vote id (some sg1) hash false)).1.votes = [] ∧
    (step k c s (.vote id (some sg1) hash false)).1.lastProposed = j + 2 ∧
    (step k c s (.vote id (some sg1) hash false)).1.nextCmd = w.cnt (j + 2) + 1 ∧
    QCok (fun b => (step k c s (.vote id (some sg1) hash false)).1.truth.lookup b) c.cfg sg' (j + 1) ∧
    (step k c s (.vote id (some sg1) hash false)).1.truth.lookup bytes' = _ ∧
    FreshS (step k c s (.vote id (some sg1) hash false)).1 ∧ Ext s (step k c s (.vote id (some sg1) hash false)).1 ∧
    ∀ C : SysCfg, route C c.id (step k c s (.vote id (some sg1) hash false)).2 = _
  rw [hstep]
  have hextF : Ext s { F with queue := [], out := [] } := by
    have e1 : Ext s m := ext_of_eq s m hf.2 rfl rfl rfl
    have e2 : Ext F0 { F with queue := [], out := [] } := ext_of_eq _ _ hP.fresh.2 rfl rfl rfl
    exact (e1.trans hP.ext).trans e2
  refine ⟨⟨?_, ?_, ?_, ?_, ?_, ?_, ?_, ?_, rfl, ?_, ?_⟩, ?_, ?_, ?_, ?_, hP.table, hP.fresh, hextF, ?_⟩
  · show F0.view = _; rw [hP.view]; show j + 1 + 1 = max (j + 2) 1; omega
  · show F0.highQC = _; rw [hP.highQC]; rfl
  · show F0.lastVoted = _; rw [hP.lastVoted]
  · show F0.lock = _; rw [hP.lock]; rfl
  · show F0.committed = _; rw [hP.committed]; rfl
  · show F0.chain.blocks = _; rw [hP.blocks]
  · show F0.chain.fetchable = _; rw [hP.fetchable]
  · show F0.chain.pruneHeight = _; rw [hP.prune]; rfl
  · show F0.waitingProp = _; rw [hP.wprop]; exact hbase.wprop
  · show F0.waitingVC = _; rw [hP.wvc]; exact hbase.wvc
  · show F0.votes = _; rw [hP.votes]; exact hsCvotes
  · show F0.lastProposed = _; rw [hP.lastProposed]
  · show F0.nextCmd = _; rw [hP.nextCmd]
  · rcases hqcok with h | ⟨h1, h2⟩
    · omega
    · exact Or.inr ⟨verify_mono _ _ _ _ _ (fun b a hb' => hextF.truth b a hb') h1, h2⟩
  · intro C
    show route C c.id ((F0.out ++ _) ++ q.map Ev.toOut) = _
    rw [route_append, route_append, hP.out, route_silent C c.id (q.map Ev.toOut) (by
      intro o ho
      obtain ⟨e, he, rfl⟩ := List.mem_map.mp ho
      exact toOut_silent e (hquiet e he))]
    show (route C c.id ([] ++ _) ++ _) ++ [] = _
    simp [route]
    intro _ _ _; rfl


/-! ## system level: round-robin leaders -/

/-- the round-robin leader of view `v` among `n` replicas -/
def rrL (C : SysCfg) (v : Nat) : Nat := v % C.n + 1

/-- how many of the views `1 … J` replica `i` leads -/
def propsBy (C : SysCfg) (i : Nat) : Nat → Nat
  | 0 => 0
  | J + 1 => propsBy C i J + (if rrL C (J + 1) = i then 1 else 0)

/-- round-robin: the proposer of view `v` is its leader; the command in its block is that leader's next one -/
def rrWho (C : SysCfg) : Who := ⟨fun v => C.rcfg (rrL C v), fun v => propsBy C (rrL C v) v⟩

/-- the fault-free configuration with round-robin leaders: all `n ≥ 4` replicas run the model,
chained or simplified HotStuff, plain timeout rule, ECDSA / EdDSA -/
structure HappyRR (C : SysCfg) : Prop where
  scheme : C.scheme ≠ .bls12
  agg : C.agg = false
  rules : C.rules = .chained ∨ C.rules = .simple
  leaders : C.leaders = .roundRobin
  nodup : C.honest.Nodup
  range : ∀ i ∈ C.honest, 1 ≤ i ∧ i ≤ C.n
  full : ∀ i, 1 ≤ i → i ≤ C.n → i ∈ C.honest
  all : C.honest.length = C.n
  four : 4 ≤ C.n

theorem HappyRR.lead {C : SysCfg} (h : HappyRR C) (i v : Nat) : (C.rcfg i).leader v = rrL C v := by
  unfold RCfg.leader SysCfg.rcfg rrL
  simp [h.leaders]

theorem HappyRR.mem {C : SysCfg} (h : HappyRR C) (v : Nat) : rrL C v ∈ C.honest := by
  have hn : 0 < C.n := by have := h.four; omega
  have := Nat.mod_lt v hn
  exact h.full _ (by unfold rrL; omega) (by unfold rrL; omega)

theorem HappyRR.next_ne {C : SysCfg} (h : HappyRR C) (v : Nat) : rrL C (v + 1) ≠ rrL C v := by
  have hn : 2 ≤ C.n := by have := h.four; omega
  unfold rrL
  intro e
  have e' : (v + 1) % C.n = v % C.n := by omega
  have h1 : (v + 1) % C.n = (v % C.n + 1) % C.n := by
    rw [Nat.add_mod]; simp [Nat.mod_eq_of_lt (by omega : 1 < C.n)]
  have hlt := Nat.mod_lt v (by omega : 0 < C.n)
  rw [h1] at e'
  by_cases hc : v % C.n + 1 < C.n
  · rw [Nat.mod_eq_of_lt hc] at e'; omega
  · have : v % C.n + 1 = C.n := by omega
    rw [this, Nat.mod_self] at e'; omega

theorem HappyRR.has {C : SysCfg} (h : HappyRR C) (i j : Nat) (hi : i ∈ C.honest) : (C.rcfg j).cfg.has i = true := by
  have := h.range i hi
  simp [Cfg.has, RCfg.cfg, SysCfg.rcfg, this.1, this.2]

theorem quorum_bounds4 (n : Nat) (h : 4 ≤ n) : 3 ≤ quorumSize n ∧ quorumSize n ≤ n := by
  unfold quorumSize numFaulty
  omega

theorem HappyRR.quorum {C : SysCfg} (h : HappyRR C) (i : Nat) :
    3 ≤ (C.rcfg i).cfg.quorum ∧ (C.rcfg i).cfg.quorum ≤ C.n := by
  show 3 ≤ quorumSize C.n ∧ quorumSize C.n ≤ C.n
  exact quorum_bounds4 C.n h.four

theorem propsBy_self (C : SysCfg) (J : Nat) : propsBy C (rrL C (J + 1)) (J + 1) = propsBy C (rrL C (J + 1)) J + 1 := by
  simp [propsBy]

theorem propsBy_other (C : SysCfg) (i J : Nat) (h : i ≠ rrL C (J + 1)) : propsBy C i (J + 1) = propsBy C i J := by
  have : ¬ rrL C (J + 1) = i := fun e => h e.symm
  simp [propsBy, this]

theorem rrWho_cfg (C : SysCfg) (v : Nat) : (rrWho C).cfg v = C.rcfg (rrL C v) := rfl
theorem rrWho_cnt (C : SysCfg) (v : Nat) : (rrWho C).cnt v = propsBy C (rrL C v) v := rfl


/-- what the non-proposer `i` sends after the proposal of block `j + 1`: its new view to the proposer
(from the second proposal on) and — unless it is itself the next leader — its vote to the next leader -/
def rrMsgsA (C : SysCfg) (sg : Nat → Sig) (j : Nat) (bytes : Nat → Nat) (i : Nat) : Msgs :=
  (if 1 ≤ j then [(rrL C (j + 1), Ev.newview i { qc := some (hqc sg j) })] else []) ++
  (if i = rrL C (j + 2) then []
   else [(rrL C (j + 2), Ev.vote i (some (.multi C.scheme [⟨i, bytes i⟩])) (pname (j + 1)) false)])

/-- replica `i` is at block `J`, holds the votes `vs`, and has proposed in `propsBy C i Jc` views -/
structure RepOK (C : SysCfg) (sg : Nat → Sig) (i J Jc : Nat) (vs : List (Hash × List (Nat × Sig))) (s : RState) : Prop where
  base : Base (rrWho C) sg J s
  votes : s.votes = vs
  cmd : s.nextCmd = propsBy C i Jc + 1

theorem repOK_with_table {C : SysCfg} {sg : Nat → Sig} {i J Jc : Nat} {vs} {s : RState} (T : List (Nat × Atom)) (nb : Nat)
    (h : RepOK C sg i J Jc vs s) : RepOK C sg i J Jc vs { s with truth := T, nextBytes := nb } :=
  ⟨base_with_table _ _ _ _ _ _ h.base, h.votes, h.cmd⟩

/-- the votes the next leader holds after it has received the proposal of block `j + 1` -/
def ownVote (C : SysCfg) (j : Nat) (bytes : Nat → Nat) (i : Nat) : List (Hash × List (Nat × Sig)) :=
  if i = rrL C (j + 2) then [(pname (j + 1), [(i, .multi C.scheme [⟨i, bytes i⟩])])] else []

/-- **the proposal round (round-robin)**: the proposal of block `j + 1` reaches the non-proposers
`todo` one after the other -/
theorem rr_deliver_proposals (k : Keys) (C : SysCfg) (hC : HappyRR C) (sg : Nat → Sig) (j : Nat) :
    ∀ (todo done : List Nat) (σ : SysState) (bytes : Nat → Nat),
      todo.Nodup → (∀ i ∈ todo, i ∈ C.honest ∧ i ≠ rrL C (j + 1) ∧ i ∉ done) →
      FreshL σ.truth σ.nextBytes → σ.reps.map (·.1) = C.honest →
      (∀ m, m ≤ j → QCok (fun b => σ.truth.lookup b) (C.rcfg 0).cfg sg m) →
      (∀ i ∈ todo, ∃ si, σ.reps.lookup i = some si ∧ RepOK C sg i j (j + 1) [] si) →
      (∀ i ∈ done, (∃ si, σ.reps.lookup i = some si ∧ RepOK C sg i (j + 1) (j + 1) (ownVote C j bytes i) si) ∧
        σ.truth.lookup (bytes i) = some ⟨i, blkMsg (pname (j + 1))⟩) →
      ∃ (bytes' : Nat → Nat) (σ' : SysState),
        deliverAll k C (σ, done.flatMap (rrMsgsA C sg j bytes))
          (todo.map fun i => (i, Ev.propose (rrL C (j + 1)) (hb (rrWho C) sg (j + 1)) none)) =
          (σ', (done ++ todo).flatMap (rrMsgsA C sg j bytes')) ∧
        FreshL σ'.truth σ'.nextBytes ∧ σ'.reps.map (·.1) = C.honest ∧
        (∀ i ∈ done ++ todo, (∃ si, σ'.reps.lookup i = some si ∧ RepOK C sg i (j + 1) (j + 1) (ownVote C j bytes' i) si) ∧
          σ'.truth.lookup (bytes' i) = some ⟨i, blkMsg (pname (j + 1))⟩) ∧
        (∀ b a, σ.truth.lookup b = some a → σ'.truth.lookup b = some a) ∧
        (∀ i, i ∉ todo → σ'.reps.lookup i = σ.reps.lookup i) := by
  intro todo
  induction todo with
  | nil =>
    intro done σ bytes _ _ hfr hkeys _ _ hdone
    refine ⟨bytes, σ, by simp [deliverAll], hfr, hkeys, ?_, fun _ _ h => h, fun _ _ => rfl⟩
    intro i hi
    simp only [List.append_nil] at hi
    exact hdone i hi
  | cons i rest ih =>
    intro done σ bytes hnd hmem hfr hkeys hqcs htodo hdone
    obtain ⟨si, hli, hri⟩ := htodo i (by simp)
    obtain ⟨hih, hip, hid⟩ := hmem i (by simp)
    let ev : Ev := Ev.propose (rrL C (j + 1)) (hb (rrWho C) sg (j + 1)) none
    obtain ⟨hr1, hr2, hr3, hr4⟩ := runOut_spec σ i (fun s => step k (C.rcfg i) s ev) si hli
    let r := σ.runOut i (fun s => step k (C.rcfg i) s ev)
    -- the step of replica `i`, in both roles
    have hstepfacts : ∃ b,
        RepOK C sg i (j + 1) (j + 1) (if i = rrL C (j + 2) then [(pname (j + 1), [(i, .multi C.scheme [⟨i, b⟩])])] else [])
          (step k (C.rcfg i) { si with truth := σ.truth, nextBytes := σ.nextBytes } ev).1 ∧
        FreshS (step k (C.rcfg i) { si with truth := σ.truth, nextBytes := σ.nextBytes } ev).1 ∧
        Ext { si with truth := σ.truth, nextBytes := σ.nextBytes } (step k (C.rcfg i) { si with truth := σ.truth, nextBytes := σ.nextBytes } ev).1 ∧
        (step k (C.rcfg i) { si with truth := σ.truth, nextBytes := σ.nextBytes } ev).1.truth.lookup b = some ⟨i, blkMsg (pname (j + 1))⟩ ∧
        route C i (step k (C.rcfg i) { si with truth := σ.truth, nextBytes := σ.nextBytes } ev).2 =
          (if 1 ≤ j then [(rrL C (j + 1), Ev.newview i { qc := some (hqc sg j) })] else []) ++
          (if i = rrL C (j + 2) then [] else [(rrL C (j + 2), Ev.vote i (some (.multi C.scheme [⟨i, b⟩])) (pname (j + 1)) false)]) := by
      by_cases hic : i = rrL C (j + 2)
      · obtain ⟨b, q1, q2, q3, q4, q5, q6, q7, q8⟩ := nl_propose_collect k (C.rcfg i) (rrWho C) sg j (rrL C (j + 1))
          { si with truth := σ.truth, nextBytes := σ.nextBytes } hC.scheme hC.agg hC.rules (hC.has i i hih)
          (by have := (hC.quorum i).1; omega) (hC.lead i _) (by rw [hC.lead]; exact hic.symm) hip
          (base_with_table _ _ _ _ _ _ hri.base) hri.votes hfr (hqcs j (Nat.le_refl _))
        refine ⟨b, ⟨q1, ?_, ?_⟩, q5, q6, q7, ?_⟩
        · rw [if_pos hic]; exact q2
        · rw [q4]; exact hri.cmd
        · rw [if_pos hic, List.append_nil]; exact q8 C
      · obtain ⟨q1, q2, q3, b, q4, q5, q6, q7, q8⟩ := nl_propose_step k (C.rcfg i) (rrWho C) sg j (rrL C (j + 1)) (rrL C (j + 2))
          { si with truth := σ.truth, nextBytes := σ.nextBytes } hC.scheme hC.agg hC.rules (hC.lead i _) (hC.lead i _) hip hic
          (base_with_table _ _ _ _ _ _ hri.base) hfr (hqcs j (Nat.le_refl _))
        refine ⟨b, ⟨q1, ?_, ?_⟩, q2, q3, q4, ?_⟩
        · rw [if_neg hic, q6]; exact hri.votes
        · rw [q8]; exact hri.cmd
        · rw [if_neg hic]; exact q5 C
    obtain ⟨b, hrep, hf1, hext, hbt, hroute⟩ := hstepfacts
    let bytes1 : Nat → Nat := fun x => if x = i then b else bytes x
    have hTle : ∀ x a, σ.truth.lookup x = some a → r.1.truth.lookup x = some a := by
      intro x a hx
      rw [show r.1.truth = _ from hr2]
      exact hext.truth x a hx
    have hrest : ∀ x ∈ rest, ∃ sx, r.1.reps.lookup x = some sx ∧ RepOK C sg x j (j + 1) [] sx := by
      intro x hx
      obtain ⟨sx, h1, h2⟩ := htodo x (by simp [hx])
      have hxi : x ≠ i := by
        intro e; subst e
        exact (List.nodup_cons.mp hnd).1 hx
      exact ⟨sx, by rw [show r.1.reps = _ from hr1, lookup_setKV_other _ _ _ _ hxi]; exact h1, h2⟩
    have hown : ∀ x, x ≠ i → ownVote C j bytes1 x = ownVote C j bytes x := by
      intro x hx
      unfold ownVote
      show (if x = _ then [(_, [(x, Sig.multi C.scheme [⟨x, if x = i then b else bytes x⟩])])] else []) = _
      rw [if_neg hx]
    have hdone' : ∀ x ∈ done ++ [i], (∃ sx, r.1.reps.lookup x = some sx ∧ RepOK C sg x (j + 1) (j + 1) (ownVote C j bytes1 x) sx) ∧
        r.1.truth.lookup (bytes1 x) = some ⟨x, blkMsg (pname (j + 1))⟩ := by
      intro x hx
      simp only [List.mem_append, List.mem_singleton] at hx
      rcases hx with hx | rfl
      · obtain ⟨⟨sx, h1, h2⟩, h3⟩ := hdone x hx
        have hxi : x ≠ i := fun e => hid (e ▸ hx)
        refine ⟨⟨sx, by rw [show r.1.reps = _ from hr1, lookup_setKV_other _ _ _ _ hxi]; exact h1, by rw [hown x hxi]; exact h2⟩, ?_⟩
        show r.1.truth.lookup (if x = i then b else bytes x) = _
        rw [if_neg hxi]; exact hTle _ _ h3
      · refine ⟨⟨_, by rw [show r.1.reps = _ from hr1]; exact lookup_setKV_same _ _ _, ?_⟩, ?_⟩
        · have : ownVote C j bytes1 x = (if x = rrL C (j + 2) then [(pname (j + 1), [(x, .multi C.scheme [⟨x, b⟩])])] else []) := by
            unfold ownVote
            show (if x = _ then [(_, [(x, Sig.multi C.scheme [⟨x, if x = x then b else bytes x⟩])])] else []) = _
            rw [if_pos rfl]
          rw [this]; exact hrep
        · show r.1.truth.lookup (if x = x then b else bytes x) = _
          rw [if_pos rfl, show r.1.truth = _ from hr2]; exact hbt
    have hacc : done.flatMap (rrMsgsA C sg j bytes) ++ route C i r.2 = (done ++ [i]).flatMap (rrMsgsA C sg j bytes1) := by
      rw [List.flatMap_append]
      congr 1
      · apply flatMap_congr'
        intro x hx
        have hxi : x ≠ i := fun e => hid (e ▸ hx)
        unfold rrMsgsA
        show _ = _ ++ (if x = _ then [] else [(_, Ev.vote x (some (.multi C.scheme [⟨x, if x = i then b else bytes x⟩])) _ false)])
        rw [if_neg hxi]
      · rw [show r.2 = _ from hr4, hroute]
        simp only [List.flatMap_cons, List.flatMap_nil, List.append_nil]
        unfold rrMsgsA
        show _ = _ ++ (if i = _ then [] else [(_, Ev.vote i (some (.multi C.scheme [⟨i, if i = i then b else bytes i⟩])) _ false)])
        rw [if_pos rfl]
    have hmem' : ∀ x ∈ rest, x ∈ C.honest ∧ x ≠ rrL C (j + 1) ∧ x ∉ done ++ [i] := by
      intro x hx
      obtain ⟨h1, h2, h3⟩ := hmem x (by simp [hx])
      refine ⟨h1, h2, ?_⟩
      simp only [List.mem_append, List.mem_singleton, not_or]
      exact ⟨h3, fun e => (List.nodup_cons.mp hnd).1 (e ▸ hx)⟩
    obtain ⟨bytes', σ', h1, h2, h3, h4, h5, h6⟩ := ih (done ++ [i]) r.1 bytes1 (List.nodup_cons.mp hnd).2 hmem'
      (by rw [show r.1.truth = _ from hr2, show r.1.nextBytes = _ from hr3]; exact hf1)
      (by rw [show r.1.reps = _ from hr1, keys_setKV _ _ _ (by rw [hkeys]; exact hih)]; exact hkeys)
      (fun m hm => (hqcs m hm).mono (fun x a hx => hTle x a hx)) hrest hdone'
    refine ⟨bytes', σ', ?_, h2, h3, ?_, ?_, ?_⟩
    · simp only [List.map_cons, deliverAll]
      show deliverAll k C (r.1, _ ++ route C i r.2) _ = _
      rw [hacc, h1]
      simp
    · intro x hx
      exact h4 x (by simpa using hx)
    · intro x a hx
      exact h5 x a (hTle x a hx)
    · intro x hx
      simp only [List.mem_cons, not_or] at hx
      rw [h6 x hx.2, show r.1.reps = _ from hr1, lookup_setKV_other _ _ _ _ hx.1]


theorem filter_ne_length (l : List Nat) (a : Nat) (hn : l.Nodup) (hm : a ∈ l) : (l.filter (· != a)).length + 1 = l.length := by
  induction l with
  | nil => simp at hm
  | cons x rest ih =>
    rw [List.nodup_cons] at hn
    by_cases hx : x = a
    · subst hx
      have : rest.filter (· != x) = rest := by
        apply List.filter_eq_self.mpr
        intro y hy
        simp only [bne_iff_ne, ne_eq]
        exact fun e => hn.1 (e ▸ hy)
      simp [this]
    · have hm' : a ∈ rest := by
        simp only [List.mem_cons] at hm
        rcases hm with h | h
        · exact absurd h.symm hx
        · exact h
      have := ih hn.2 hm'
      simp [List.filter_cons, hx, this]

theorem repOK_noop {C : SysCfg} {sg : Nat → Sig} {i J Jc : Nat} {vs} {s : RState} (T : List (Nat × Atom)) (nb : Nat)
    (h : RepOK C sg i J Jc vs s) :
    RepOK C sg i J Jc vs { ({ s with truth := T, nextBytes := nb } : RState) with out := [] } :=
  ⟨base_noop _ _ _ _ _ _ h.base, h.votes, h.cmd⟩

/-- what holds of the system throughout the vote round of block `j + 1` (round-robin): the table,
the certificates, and every replica other than the collector `rrL C (j + 2)` at block `j + 1` -/
structure RRCommon (C : SysCfg) (sg : Nat → Sig) (j : Nat) (σ : SysState) : Prop where
  fresh : FreshL σ.truth σ.nextBytes
  keys : σ.reps.map (·.1) = C.honest
  qcs : ∀ m, m ≤ j → QCok (fun b => σ.truth.lookup b) (C.rcfg 0).cfg sg m
  rest : ∀ i ∈ C.honest, i ≠ rrL C (j + 2) → ∃ si, σ.reps.lookup i = some si ∧ RepOK C sg i (j + 1) (j + 1) [] si

/-- the collector still collects: it holds the votes `vs` (its own, the proposer's, those of `done`) -/
structure RRColl (C : SysCfg) (sg : Nat → Sig) (j : Nat) (done : List Nat) (vs : List (Nat × Sig)) (σ : SysState) : Prop where
  common : RRCommon C sg j σ
  coll : ∃ sc, σ.reps.lookup (rrL C (j + 2)) = some sc ∧ Coll (rrWho C) sg (j + 1) vs sc ∧
    sc.nextCmd = propsBy C (rrL C (j + 2)) (j + 1) + 1
  votes : VotesOK (fun b => σ.truth.lookup b) (C.rcfg 0).cfg (j + 1) vs
  lt : vs.length < (C.rcfg 0).cfg.quorum
  count : vs.length = 2 + (done.filter (· != rrL C (j + 2))).length
  from_ : ∀ v ∈ vs, v.1 = rrL C (j + 2) ∨ v.1 = rrL C (j + 1) ∨ v.1 ∈ done

/-- the collector has certified block `j + 1` (combined signature `sg' (j + 1)`) and proposed block `j + 2` -/
structure RRProp (C : SysCfg) (sg sg' : Nat → Sig) (j bc : Nat) (σ : SysState) : Prop where
  agree : ∀ m, m ≠ j + 1 → sg' m = sg m
  common : RRCommon C sg j σ
  qc : QCok (fun b => σ.truth.lookup b) (C.rcfg 0).cfg sg' (j + 1)
  prop : ∃ sc, σ.reps.lookup (rrL C (j + 2)) = some sc ∧ RepOK C sg' (rrL C (j + 2)) (j + 2) (j + 2) [] sc
  table : σ.truth.lookup bc = some ⟨rrL C (j + 2), blkMsg (pname (j + 2))⟩

/-- the messages in flight after the proposer `rrL C (j + 1)` has proposed block `j + 1`: the
proposal to everybody else, and the proposer's vote to the next leader -/
def rrMsgsB (C : SysCfg) (sg : Nat → Sig) (j bp : Nat) : Msgs :=
  (C.honest.filter (· != rrL C (j + 1))).map (fun i => (i, Ev.propose (rrL C (j + 1)) (hb (rrWho C) sg (j + 1)) none)) ++
  [(rrL C (j + 2), Ev.vote (rrL C (j + 1)) (some (.multi C.scheme [⟨rrL C (j + 1), bp⟩])) (pname (j + 1)) false)]

/-- the state of the vote round after the messages of `done` have been delivered -/
def RVPhase (C : SysCfg) (sg : Nat → Sig) (j : Nat) (done : List Nat) (x : SysState × Msgs) : Prop :=
  (x.2 = [] ∧ ∃ vs, RRColl C sg j done vs x.1) ∨
  (∃ sg' bc, RRProp C sg sg' j bc x.1 ∧ x.2 = rrMsgsB C sg' (j + 1) bc)


/-- a no-op delivery to a replica other than the collector keeps the common part -/
theorem rrcommon_noop (C : SysCfg) (sg : Nat → Sig) (j a : Nat) (σ σ' : SysState) (sa : RState)
    (ha : a ∈ C.honest) (hac : a ≠ rrL C (j + 2)) (hl : σ.reps.lookup a = some sa)
    (hr : σ'.reps = setKV a { ({ sa with truth := σ.truth, nextBytes := σ.nextBytes } : RState) with out := [] } σ.reps)
    (ht : σ'.truth = σ.truth) (hn : σ'.nextBytes = σ.nextBytes) (h : RRCommon C sg j σ) :
    RRCommon C sg j σ' ∧ σ'.reps.lookup (rrL C (j + 2)) = σ.reps.lookup (rrL C (j + 2)) := by
  refine ⟨⟨by rw [ht, hn]; exact h.fresh, by rw [hr, keys_setKV _ _ _ (by rw [h.keys]; exact ha)]; exact h.keys,
    by rw [ht]; exact h.qcs, ?_⟩, by rw [hr, lookup_setKV_other _ _ _ _ (fun e => hac e.symm)]⟩
  intro i hi hic
  by_cases hia : i = a
  · subst hia
    obtain ⟨si, q1, q2⟩ := h.rest i hi hic
    rw [hl] at q1; cases q1
    exact ⟨_, by rw [hr]; exact lookup_setKV_same _ _ _, repOK_noop _ _ q2⟩
  · obtain ⟨si, q1, q2⟩ := h.rest i hi hic
    exact ⟨si, by rw [hr, lookup_setKV_other _ _ _ _ hia]; exact q1, q2⟩

/-- a new-view message of the vote round reaches the proposer of block `j + 1`: nothing changes -/
theorem rvphase_newview (k : Keys) (C : SysCfg) (hC : HappyRR C) (sg : Nat → Sig) (j i : Nat) (done : List Nat)
    (x : SysState × Msgs) (h : RVPhase C sg j done x) :
    RVPhase C sg j done (deliverAll k C x [(rrL C (j + 1), Ev.newview i { qc := some (hqc sg j) })]) ∧
    (∀ b a, x.1.truth.lookup b = some a →
      (deliverAll k C x [(rrL C (j + 1), Ev.newview i { qc := some (hqc sg j) })]).1.truth.lookup b = some a) := by
  obtain ⟨σ, acc⟩ := x
  rw [deliverAll_one]
  have hpc : rrL C (j + 1) ≠ rrL C (j + 2) := fun e => hC.next_ne (j + 1) e.symm
  have hcommon : RRCommon C sg j σ := by
    rcases h with ⟨_, vs, hv⟩ | ⟨sg', bc, hp, _⟩
    · exact hv.common
    · exact hp.common
  obtain ⟨sp, hl, hrp⟩ := hcommon.rest (rrL C (j + 1)) (hC.mem _) hpc
  have hno := newview_noop k (C.rcfg (rrL C (j + 1))) (rrWho C) sg (j + 1) j i { sp with truth := σ.truth, nextBytes := σ.nextBytes }
    hC.agg (base_with_table _ _ _ _ _ _ hrp.base) (by omega) (hcommon.qcs j (Nat.le_refl _))
  obtain ⟨r1, r2, r3, r4⟩ := runOut_noop σ (rrL C (j + 1)) (fun s => step k (C.rcfg (rrL C (j + 1))) s (.newview i { qc := some (hqc sg j) })) sp hl hno
  obtain ⟨hc', hlc⟩ := rrcommon_noop C sg j (rrL C (j + 1)) σ _ sp (hC.mem _) hpc hl r1 r2 r3 hcommon
  refine ⟨?_, by intro b a hb'; rw [r2]; exact hb'⟩
  rcases h with ⟨hacc, vs, hv⟩ | ⟨sg', bc, hp, hacc⟩
  · refine Or.inl ⟨?_, vs, ⟨hc', by rw [hlc]; exact hv.coll, by rw [r2]; exact hv.votes, hv.lt, hv.count, hv.from_⟩⟩
    show acc ++ route C _ _ = []
    rw [r4]; simpa [route] using hacc
  · refine Or.inr ⟨sg', bc, ⟨hp.agree, hc', by rw [r2]; exact hp.qc, by rw [hlc]; exact hp.prop, by rw [r2]; exact hp.table⟩, ?_⟩
    show acc ++ route C _ _ = _
    rw [r4]; simpa [route] using hacc


theorem coll_with_table {w : Who} {sg : Nat → Sig} {j : Nat} {vs : List (Nat × Sig)} {s : RState} (T : List (Nat × Atom)) (nb : Nat)
    (h : Coll w sg j vs s) : Coll w sg j vs { s with truth := T, nextBytes := nb } :=
  ⟨base_with_table _ _ _ _ _ _ h.base, h.votes⟩

/-- a delivery to the collector keeps what is known of everybody else -/
theorem rrcommon_at_collector (C : SysCfg) (sg : Nat → Sig) (j : Nat) (σ σ' : SysState) (sc' : RState)
    (hc : rrL C (j + 2) ∈ C.honest)
    (hr : σ'.reps = setKV (rrL C (j + 2)) sc' σ.reps)
    (hfr : FreshL σ'.truth σ'.nextBytes)
    (hT : ∀ b a, σ.truth.lookup b = some a → σ'.truth.lookup b = some a) (h : RRCommon C sg j σ) :
    RRCommon C sg j σ' := by
  refine ⟨hfr, by rw [hr, keys_setKV _ _ _ (by rw [h.keys]; exact hc)]; exact h.keys,
    fun m hm => (h.qcs m hm).mono (fun x a hx => hT x a hx), ?_⟩
  intro i hi hic
  obtain ⟨si, q1, q2⟩ := h.rest i hi hic
  exact ⟨si, by rw [hr, lookup_setKV_other _ _ _ _ hic]; exact q1, q2⟩

/-- a vote of the vote round reaches the collector -/
theorem rvphase_vote (k : Keys) (C : SysCfg) (hC : HappyRR C) (sg : Nat → Sig) (j i b : Nat) (done : List Nat)
    (x : SysState × Msgs) (h : RVPhase C sg j done x)
    (hih : i ∈ C.honest) (hic : i ≠ rrL C (j + 2)) (hip : i ≠ rrL C (j + 1)) (hid : i ∉ done)
    (hb' : x.1.truth.lookup b = some ⟨i, blkMsg (pname (j + 1))⟩) :
    RVPhase C sg j (done ++ [i])
      (deliverAll k C x [(rrL C (j + 2), Ev.vote i (some (.multi C.scheme [⟨i, b⟩])) (pname (j + 1)) false)]) ∧
    (∀ y a, x.1.truth.lookup y = some a →
      (deliverAll k C x [(rrL C (j + 2), Ev.vote i (some (.multi C.scheme [⟨i, b⟩])) (pname (j + 1)) false)]).1.truth.lookup y = some a) := by
  obtain ⟨σ, acc⟩ := x
  rw [deliverAll_one]
  have hq := hC.quorum 0
  have hcm := hC.mem (j + 2)
  have hsch : (C.rcfg (rrL C (j + 2))).scheme = C.scheme := rfl
  have hfilter : (done ++ [i]).filter (· != rrL C (j + 2)) = done.filter (· != rrL C (j + 2)) ++ [i] := by
    rw [List.filter_append]
    simp [hic]
  rcases h with ⟨hacc, vs, hv⟩ | ⟨sg', bc, hp, hacc⟩
  · obtain ⟨sc, hl, hcoll, hcmd⟩ := hv.coll
    have hnew : ∀ v ∈ vs, v.1 ≠ i := by
      intro v hv' e
      rcases hv.from_ v hv' with h1 | h1 | h1
      · exact hic (e ▸ h1)
      · exact hip (e ▸ h1)
      · exact hid (e ▸ h1)
    obtain ⟨r1, r2, r3, r4⟩ := runOut_spec σ (rrL C (j + 2))
      (fun s => step k (C.rcfg (rrL C (j + 2))) s (.vote i (some (.multi C.scheme [⟨i, b⟩])) (pname (j + 1)) false)) sc hl
    by_cases hcase : vs.length + 1 < (C.rcfg 0).cfg.quorum
    · -- the vote is kept
      obtain ⟨a1, a2, a3, a4, a5, a6⟩ := collector_vote_add k (C.rcfg (rrL C (j + 2))) (rrWho C) sg j i i b vs
        { sc with truth := σ.truth, nextBytes := σ.nextBytes } hC.scheme (coll_with_table _ _ hcoll)
        (hC.has i _ hih) hb' hnew hcase
      rw [hsch] at a1 a2 a3 a4 a5 a6
      refine ⟨Or.inl ⟨?_, vs ++ [(i, .multi C.scheme [⟨i, b⟩])], ?_⟩, by intro y a hy; rw [r2, a3]; exact hy⟩
      · show acc ++ route C _ _ = []
        rw [r4, a1]; simpa [route] using hacc
      · refine ⟨rrcommon_at_collector C sg j σ _ _ hcm r1 (by rw [r2, r3, a3, a4]; exact hv.common.fresh)
          (by intro y a hy; rw [r2, a3]; exact hy) hv.common, ⟨_, by rw [r1]; exact lookup_setKV_same _ _ _, a2, by rw [a6]; exact hcmd⟩,
          ?_, by simp only [List.length_append, List.length_singleton]; exact hcase, ?_, ?_⟩
        · rw [r2, a3]
          refine ⟨?_, ?_⟩
          · intro v hv'
            simp only [List.mem_append, List.mem_singleton] at hv'
            rcases hv' with hv' | rfl
            · exact hv.votes.valid v hv'
            · exact ⟨hC.has i 0 hih, Or.inl ⟨hC.scheme, b, rfl, hb'⟩⟩
          · simp only [List.map_append, List.map_cons, List.map_nil]
            rw [List.nodup_append]
            refine ⟨hv.votes.nodup, by simp, ?_⟩
            intro a ha' b' hb''
            simp at hb''; subst hb''
            obtain ⟨v, hv', hve⟩ := List.mem_map.mp ha'
            intro e; exact hnew v hv' (by rw [hve, e])
        · rw [hfilter]
          simp only [List.length_append, List.length_singleton]; rw [hv.count]; omega
        · intro v hv'
          simp only [List.mem_append, List.mem_singleton] at hv' ⊢
          rcases hv' with hv' | rfl
          · rcases hv.from_ v hv' with h1 | h1 | h1
            · exact Or.inl h1
            · exact Or.inr (Or.inl h1)
            · exact Or.inr (Or.inr (Or.inl h1))
          · exact Or.inr (Or.inr (Or.inr rfl))
    · -- the vote completes the quorum
      have hnc : ({ sc with truth := σ.truth, nextBytes := σ.nextBytes } : RState).nextCmd = (rrWho C).cnt (j + 2) := by
        show sc.nextCmd = propsBy C (rrL C (j + 2)) (j + 2)
        rw [hcmd, propsBy_self]
      obtain ⟨sgq, bytes', q1, q2, q3, q4, q5, q6, q7, q8, q9⟩ := collector_vote_quorum k (C.rcfg (rrL C (j + 2))) (rrWho C) sg j i i b
        (rrL C (j + 3)) vs { sc with truth := σ.truth, nextBytes := σ.nextBytes } rfl hnc hC.scheme hC.agg hC.rules
        (by have hqe : (C.rcfg (rrL C (j + 2))).cfg.quorum = (C.rcfg 0).cfg.quorum := rfl
            omega) (hC.lead _ _) (hC.lead _ _) (hC.next_ne (j + 2)) (coll_with_table _ _ hcoll) hv.votes (hC.has i _ hih) hb' hnew
        (by have hqe : (C.rcfg (rrL C (j + 2))).cfg.quorum = (C.rcfg 0).cfg.quorum := rfl
            omega) hv.common.fresh
      rw [hsch] at q1 q2 q3 q4 q5 q6 q7 q8 q9
      let sg' : Nat → Sig := fun m => if m = j + 1 then sgq else sg m
      have hT : ∀ y a, σ.truth.lookup y = some a → (σ.runOut (rrL C (j + 2)) (fun s => step k (C.rcfg (rrL C (j + 2))) s
          (.vote i (some (.multi C.scheme [⟨i, b⟩])) (pname (j + 1)) false))).1.truth.lookup y = some a := by
        intro y a hy; rw [r2]; exact q8.truth y a hy
      refine ⟨Or.inr ⟨sg', bytes', ⟨?_, ?_, by rw [r2]; exact q5, ⟨_, by rw [r1]; exact lookup_setKV_same _ _ _, ⟨q1, q2, ?_⟩⟩, by rw [r2]; exact q6⟩, ?_⟩, hT⟩
      · intro m hm; show (if m = j + 1 then sgq else sg m) = sg m; rw [if_neg hm]
      · exact rrcommon_at_collector C sg j σ _ _ hcm r1 (by rw [r2, r3]; exact q7) hT hv.common
      · rw [q4]; rfl
      · show acc ++ route C _ _ = _
        have hacc' : acc = [] := hacc
        have q9' := q9 C
        rw [show (C.rcfg (rrL C (j + 2))).id = rrL C (j + 2) from rfl] at q9'
        rw [r4, hacc', q9']
        rfl
  · -- the block is already certified
    obtain ⟨sc, hl, hrc⟩ := hp.prop
    have hno := late_vote_noop k (C.rcfg (rrL C (j + 2))) (rrWho C) sg' (j + 2) (j + 1) i i b
      { sc with truth := σ.truth, nextBytes := σ.nextBytes } (base_with_table _ _ _ _ _ _ hrc.base) (by omega)
    rw [hsch] at hno
    obtain ⟨r1, r2, r3, r4⟩ := runOut_noop σ (rrL C (j + 2))
      (fun s => step k (C.rcfg (rrL C (j + 2))) s (.vote i (some (.multi C.scheme [⟨i, b⟩])) (pname (j + 1)) false)) sc hl hno
    refine ⟨Or.inr ⟨sg', bc, ⟨hp.agree, rrcommon_at_collector C sg j σ _ _ hcm r1 (by rw [r2, r3]; exact hp.common.fresh)
      (by intro y a hy; rw [r2]; exact hy) hp.common, by rw [r2]; exact hp.qc,
      ⟨_, by rw [r1]; exact lookup_setKV_same _ _ _, repOK_noop _ _ hrc⟩, by rw [r2]; exact hp.table⟩, ?_⟩,
      by intro y a hy; rw [r2]; exact hy⟩
    show acc ++ route C _ _ = _
    rw [r4]; simpa [route] using hacc


/-- the collector itself sends no vote message -/
theorem rvphase_skip (C : SysCfg) (sg : Nat → Sig) (j : Nat) (done : List Nat) (x : SysState × Msgs)
    (h : RVPhase C sg j done x) : RVPhase C sg j (done ++ [rrL C (j + 2)]) x := by
  rcases h with ⟨hacc, vs, hv⟩ | h
  · refine Or.inl ⟨hacc, vs, ⟨hv.common, hv.coll, hv.votes, hv.lt, ?_, ?_⟩⟩
    · rw [List.filter_append]; simp [hv.count]
    · intro v hv'
      rcases hv.from_ v hv' with h1 | h1 | h1
      · exact Or.inl h1
      · exact Or.inr (Or.inl h1)
      · exact Or.inr (Or.inr (by simp [h1]))
  · exact Or.inr h

/-- **the vote round (round-robin)**: the messages of the non-proposers `todo` are delivered -/
theorem rr_deliver_votes (k : Keys) (C : SysCfg) (hC : HappyRR C) (sg : Nat → Sig) (j : Nat) (bytes : Nat → Nat) :
    ∀ (todo done : List Nat) (x : SysState × Msgs),
      todo.Nodup → (∀ i ∈ todo, i ∈ C.honest ∧ i ≠ rrL C (j + 1) ∧ i ∉ done) → RVPhase C sg j done x →
      (∀ i ∈ todo, x.1.truth.lookup (bytes i) = some ⟨i, blkMsg (pname (j + 1))⟩) →
      RVPhase C sg j (done ++ todo) (deliverAll k C x (todo.flatMap (rrMsgsA C sg j bytes))) ∧
      (∀ y a, x.1.truth.lookup y = some a →
        (deliverAll k C x (todo.flatMap (rrMsgsA C sg j bytes))).1.truth.lookup y = some a) := by
  intro todo
  induction todo with
  | nil =>
    intro done x _ _ h _
    simp only [List.flatMap_nil, List.append_nil]
    exact ⟨h, fun _ _ h => h⟩
  | cons i rest ih =>
    intro done x hnd hmem h htab
    obtain ⟨hih, hip, hid⟩ := hmem i (by simp)
    simp only [List.flatMap_cons]
    rw [deliverAll_append]
    have hone : RVPhase C sg j (done ++ [i]) (deliverAll k C x (rrMsgsA C sg j bytes i)) ∧
        (∀ y a, x.1.truth.lookup y = some a → (deliverAll k C x (rrMsgsA C sg j bytes i)).1.truth.lookup y = some a) := by
      unfold rrMsgsA
      have hnv : ∀ x' : SysState × Msgs, RVPhase C sg j done x' →
          RVPhase C sg j done (deliverAll k C x' (if 1 ≤ j then [(rrL C (j + 1), Ev.newview i { qc := some (hqc sg j) })] else [])) ∧
          (∀ y a, x'.1.truth.lookup y = some a →
            (deliverAll k C x' (if 1 ≤ j then [(rrL C (j + 1), Ev.newview i { qc := some (hqc sg j) })] else [])).1.truth.lookup y = some a) := by
        intro x' h'
        by_cases hj : 1 ≤ j
        · rw [if_pos hj]; exact rvphase_newview k C hC sg j i done x' h'
        · rw [if_neg hj]; exact ⟨h', fun _ _ h => h⟩
      rw [deliverAll_append]
      obtain ⟨h1, t1⟩ := hnv x h
      by_cases hic : i = rrL C (j + 2)
      · rw [if_pos hic]
        refine ⟨?_, t1⟩
        have := rvphase_skip C sg j done _ h1
        rw [← hic] at this
        exact this
      · rw [if_neg hic]
        obtain ⟨h2, t2⟩ := rvphase_vote k C hC sg j i (bytes i) done _ h1 hih hic hip hid (t1 _ _ (htab i (by simp)))
        exact ⟨h2, fun y a hy => t2 y a (t1 y a hy)⟩
    obtain ⟨h1, t1⟩ := hone
    have hmem' : ∀ a ∈ rest, a ∈ C.honest ∧ a ≠ rrL C (j + 1) ∧ a ∉ done ++ [i] := by
      intro a ha
      obtain ⟨q1, q2, q3⟩ := hmem a (by simp [ha])
      refine ⟨q1, q2, ?_⟩
      simp only [List.mem_append, List.mem_singleton, not_or]
      exact ⟨q3, fun e => (List.nodup_cons.mp hnd).1 (e ▸ ha)⟩
    obtain ⟨h2, t2⟩ := ih (done ++ [i]) _ (List.nodup_cons.mp hnd).2 hmem' h1
      (fun a ha => t1 _ _ (htab a (by simp [ha])))
    refine ⟨?_, fun y a hy => t2 y a (t1 y a hy)⟩
    rw [show done ++ i :: rest = done ++ [i] ++ rest by simp]
    exact h2


/-- **after the proposer `rrL C (j + 1)` has proposed block `j + 1`** (round-robin; `j = 0`: after
`Start`): the proposer is at block `j + 1`, everybody else at block `j`, nobody holds votes, and
the proposal and the proposer's vote are in flight -/
def RB (C : SysCfg) (j : Nat) (x : SysState × Msgs) : Prop :=
  ∃ (sg : Nat → Sig) (bp : Nat),
    FreshL x.1.truth x.1.nextBytes ∧ x.1.reps.map (·.1) = C.honest ∧
    (∀ m, m ≤ j → QCok (fun b => x.1.truth.lookup b) (C.rcfg 0).cfg sg m) ∧
    (∀ i ∈ C.honest, ∃ si, x.1.reps.lookup i = some si ∧
      RepOK C sg i (if i = rrL C (j + 1) then j + 1 else j) (j + 1) [] si) ∧
    x.1.truth.lookup bp = some ⟨rrL C (j + 1), blkMsg (pname (j + 1))⟩ ∧
    x.2 = rrMsgsB C sg j bp

/-- **after every replica has received block `j + 1`** (round-robin): everybody is at block `j + 1`,
the next leader holds its own vote and the proposer's, the other votes (and the new-view
messages) are in flight -/
def RA (C : SysCfg) (j : Nat) (x : SysState × Msgs) : Prop :=
  ∃ (sg : Nat → Sig) (bytes : Nat → Nat),
    RRCommon C sg j x.1 ∧
    (∃ sc, x.1.reps.lookup (rrL C (j + 2)) = some sc ∧
      Coll (rrWho C) sg (j + 1)
        [(rrL C (j + 2), .multi C.scheme [⟨rrL C (j + 2), bytes (rrL C (j + 2))⟩]),
         (rrL C (j + 1), .multi C.scheme [⟨rrL C (j + 1), bytes (rrL C (j + 1))⟩])] sc ∧
      sc.nextCmd = propsBy C (rrL C (j + 2)) (j + 1) + 1) ∧
    (∀ i ∈ C.honest, x.1.truth.lookup (bytes i) = some ⟨i, blkMsg (pname (j + 1))⟩) ∧
    x.2 = (C.honest.filter (· != rrL C (j + 1))).flatMap (rrMsgsA C sg j bytes)

theorem rr_others (C : SysCfg) (hC : HappyRR C) (v : Nat) :
    (C.honest.filter (· != rrL C v)).Nodup ∧
    (∀ i ∈ C.honest.filter (· != rrL C v), i ∈ C.honest ∧ i ≠ rrL C v) ∧
    (C.honest.filter (· != rrL C v)).length + 1 = C.n := by
  refine ⟨hC.nodup.filter _, ?_, ?_⟩
  · intro i hi
    simp only [List.mem_filter, bne_iff_ne, ne_eq] at hi
    exact hi
  · rw [← hC.all]; exact filter_ne_length C.honest _ hC.nodup (hC.mem v)

/-- the proposal round (round-robin): `RB j` to `RA j` -/
theorem rr_round_BA (k : Keys) (C : SysCfg) (hC : HappyRR C) (j : Nat) (x : SysState × Msgs)
    (h : RB C j x) : RA C j (syncRound k C x) := by
  obtain ⟨sg, bp, hfr, hkeys, hqcs, hreps, hbp, hms⟩ := h
  obtain ⟨hnd, hmem, _⟩ := rr_others C hC (j + 1)
  have hq := hC.quorum 0
  have hpc : rrL C (j + 1) ≠ rrL C (j + 2) := fun e => hC.next_ne (j + 1) e.symm
  unfold syncRound
  rw [hms]
  unfold rrMsgsB
  rw [deliverAll_append]
  obtain ⟨bytes', σ', h1, h2, h3, h4, h5, h6⟩ := rr_deliver_proposals k C hC sg j (C.honest.filter (· != rrL C (j + 1))) [] x.1
    (fun _ => 0) hnd (fun i hi => ⟨(hmem i hi).1, (hmem i hi).2, by simp⟩) hfr hkeys hqcs
    (by intro i hi
        obtain ⟨si, q1, q2⟩ := hreps i (hmem i hi).1
        rw [if_neg (hmem i hi).2] at q2
        exact ⟨si, q1, q2⟩)
    (by simp)
  simp only [List.flatMap_nil, List.nil_append] at h1 h4
  rw [h1, deliverAll_one]
  -- the proposer's vote reaches the next leader
  have hcmem : rrL C (j + 2) ∈ C.honest.filter (· != rrL C (j + 1)) := by
    simp only [List.mem_filter, bne_iff_ne, ne_eq]; exact ⟨hC.mem _, fun e => hpc e.symm⟩
  obtain ⟨⟨sc, hlc, hrc⟩, htc⟩ := h4 _ hcmem
  have hov : ownVote C j bytes' (rrL C (j + 2)) =
      [(pname (j + 1), [(rrL C (j + 2), .multi C.scheme [⟨rrL C (j + 2), bytes' (rrL C (j + 2))⟩])])] := by
    unfold ownVote; rw [if_pos rfl]
  rw [hov] at hrc
  have hsch : (C.rcfg (rrL C (j + 2))).scheme = C.scheme := rfl
  obtain ⟨a1, a2, a3, a4, a5, a6⟩ := collector_vote_add k (C.rcfg (rrL C (j + 2))) (rrWho C) sg j (rrL C (j + 1)) (rrL C (j + 1)) bp
    [(rrL C (j + 2), .multi C.scheme [⟨rrL C (j + 2), bytes' (rrL C (j + 2))⟩])]
    { sc with truth := σ'.truth, nextBytes := σ'.nextBytes } hC.scheme ⟨base_with_table _ _ _ _ _ _ hrc.base, hrc.votes⟩
    (hC.has _ _ (hC.mem _)) (h5 _ _ hbp) (by intro v hv; simp at hv; subst hv; exact fun e => hpc e.symm)
    (by have hqe : (C.rcfg (rrL C (j + 2))).cfg.quorum = (C.rcfg 0).cfg.quorum := rfl
        simp; omega)
  rw [hsch] at a1 a2 a3 a4 a5 a6
  obtain ⟨r1, r2, r3, r4⟩ := runOut_spec σ' (rrL C (j + 2))
    (fun s => step k (C.rcfg (rrL C (j + 2))) s (.vote (rrL C (j + 1)) (some (.multi C.scheme [⟨rrL C (j + 1), bp⟩])) (pname (j + 1)) false)) sc hlc
  let bytes2 : Nat → Nat := fun y => if y = rrL C (j + 1) then bp else bytes' y
  refine ⟨sg, bytes2, ⟨by rw [r2, r3, a3, a4]; exact h2, by rw [r1, keys_setKV _ _ _ (by rw [h3]; exact hC.mem _)]; exact h3, ?_, ?_⟩, ?_, ?_, ?_⟩
  · intro m hm
    rw [r2, a3]
    exact (hqcs m hm).mono (fun y a hy => h5 y a hy)
  · intro i hi hic
    rw [r1, lookup_setKV_other _ _ _ _ hic]
    by_cases hip : i = rrL C (j + 1)
    · obtain ⟨si, q1, q2⟩ := hreps i hi
      rw [if_pos hip] at q2
      refine ⟨si, ?_, q2⟩
      rw [h6 i (by rw [hip]; simp)]; exact q1
    · have him : i ∈ C.honest.filter (· != rrL C (j + 1)) := by
        simp only [List.mem_filter, bne_iff_ne, ne_eq]; exact ⟨hi, hip⟩
      obtain ⟨⟨si, q1, q2⟩, _⟩ := h4 i him
      have : ownVote C j bytes' i = [] := by unfold ownVote; rw [if_neg hic]
      rw [this] at q2
      exact ⟨si, q1, q2⟩
  · refine ⟨_, by rw [r1]; exact lookup_setKV_same _ _ _, ?_, by rw [a6]; exact hrc.cmd⟩
    have e1 : bytes2 (rrL C (j + 2)) = bytes' (rrL C (j + 2)) := by
      show (if rrL C (j + 2) = rrL C (j + 1) then bp else _) = _; rw [if_neg (fun e => hpc e.symm)]
    have e2 : bytes2 (rrL C (j + 1)) = bp := by
      show (if rrL C (j + 1) = rrL C (j + 1) then bp else _) = _; rw [if_pos rfl]
    rw [e1, e2]
    exact a2
  · intro i hi
    rw [r2, a3]
    by_cases hip : i = rrL C (j + 1)
    · show σ'.truth.lookup (if i = rrL C (j + 1) then bp else bytes' i) = _
      rw [if_pos hip, hip]; exact h5 _ _ hbp
    · show σ'.truth.lookup (if i = rrL C (j + 1) then bp else bytes' i) = _
      rw [if_neg hip]
      exact (h4 i (by simp only [List.mem_filter, bne_iff_ne, ne_eq]; exact ⟨hi, hip⟩)).2
  · show _ ++ route C _ _ = _
    rw [r4, a1]
    simp only [route, List.append_nil]
    apply flatMap_congr'
    intro i hi
    have hip := (hmem i hi).2
    unfold rrMsgsA
    show _ = _ ++ (if i = _ then [] else [(_, Ev.vote i (some (.multi C.scheme [⟨i, if i = rrL C (j + 1) then bp else bytes' i⟩])) _ false)])
    rw [if_neg hip]


theorem repOK_next (C : SysCfg) (sg sg' : Nat → Sig) (i j : Nat) (s : RState)
    (hagree : ∀ m, m ≠ j + 1 → sg' m = sg m) (hi : i ≠ rrL C (j + 2))
    (h : RepOK C sg i (j + 1) (j + 1) [] s) : RepOK C sg' i (j + 1) (j + 2) [] s :=
  ⟨base_congr (rrWho C) sg sg' (j + 1) s (fun m hm => (hagree m (by omega)).symm) h.base, h.votes,
    by rw [h.cmd, propsBy_other C i (j + 1) hi]⟩

/-- the vote round (round-robin): `RA j` to `RB (j + 1)` -/
theorem rr_round_AB (k : Keys) (C : SysCfg) (hC : HappyRR C) (j : Nat) (x : SysState × Msgs)
    (h : RA C j x) : RB C (j + 1) (syncRound k C x) := by
  obtain ⟨sg, bytes, hcommon, ⟨sc, hlc, hcoll, hcmd⟩, htab, hms⟩ := h
  obtain ⟨hnd, hmem, hlen⟩ := rr_others C hC (j + 1)
  have hq := hC.quorum 0
  have hpc : rrL C (j + 1) ≠ rrL C (j + 2) := fun e => hC.next_ne (j + 1) e.symm
  unfold syncRound
  rw [hms]
  have hinit : RVPhase C sg j [] (x.1, []) := by
    refine Or.inl ⟨rfl, _, ⟨hcommon, ⟨sc, hlc, hcoll, hcmd⟩, ⟨?_, ?_⟩, by simp; omega, by simp, ?_⟩⟩
    · intro v hv
      simp only [List.mem_cons, List.not_mem_nil, or_false] at hv
      rcases hv with rfl | rfl
      · exact ⟨hC.has _ 0 (hC.mem _), Or.inl ⟨hC.scheme, _, rfl, htab _ (hC.mem _)⟩⟩
      · exact ⟨hC.has _ 0 (hC.mem _), Or.inl ⟨hC.scheme, _, rfl, htab _ (hC.mem _)⟩⟩
    · simp only [List.map_cons, List.map_nil, List.nodup_cons, List.mem_singleton, List.not_mem_nil, not_false_eq_true,
        List.nodup_nil, and_true]
      exact fun e => hpc e.symm
    · intro v hv
      simp only [List.mem_cons, List.not_mem_nil, or_false] at hv
      rcases hv with rfl | rfl
      · exact Or.inl rfl
      · exact Or.inr (Or.inl rfl)
  obtain ⟨hfin, _⟩ := rr_deliver_votes k C hC sg j bytes (C.honest.filter (· != rrL C (j + 1))) [] (x.1, []) hnd
    (fun i hi => ⟨(hmem i hi).1, (hmem i hi).2, by simp⟩) hinit (fun i hi => htab i (hmem i hi).1)
  simp only [List.nil_append] at hfin
  rcases hfin with ⟨_, vs, hv⟩ | ⟨sg', bc, hp, hacc⟩
  · -- impossible: all the votes are in
    exfalso
    have hcmem : rrL C (j + 2) ∈ C.honest.filter (· != rrL C (j + 1)) := by
      simp only [List.mem_filter, bne_iff_ne, ne_eq]; exact ⟨hC.mem _, fun e => hpc e.symm⟩
    have := filter_ne_length _ (rrL C (j + 2)) hnd hcmem
    have h1 := hv.count
    have h2 := hv.lt
    omega
  · refine ⟨sg', bc, hp.common.fresh, hp.common.keys, ?_, ?_, hp.table, hacc⟩
    · intro m hm
      by_cases hmj : m = j + 1
      · subst hmj; exact hp.qc
      · exact qcok_agree _ _ sg sg' m (hp.agree m hmj) (hp.common.qcs m (by omega))
    · intro i hi
      by_cases hic : i = rrL C (j + 2)
      · obtain ⟨sc', q1, q2⟩ := hp.prop
        rw [if_pos hic, hic]
        exact ⟨sc', q1, q2⟩
      · obtain ⟨si, q1, q2⟩ := hp.common.rest i hi hic
        rw [if_neg hic]
        exact ⟨si, q1, repOK_next C sg sg' i j si hp.agree hic q2⟩


/-- before the leader of view 1 has started (round-robin) -/
def RRStartPre (C : SysCfg) (sg : Nat → Sig) (σ : SysState) : Prop :=
  FreshL σ.truth σ.nextBytes ∧ σ.reps.map (·.1) = C.honest ∧
  ∀ i ∈ C.honest, ∃ si, σ.reps.lookup i = some si ∧ RepOK C sg i 0 0 [] si

/-- after it has started: `RB 0` for the given `sg` -/
def RRStartPost (C : SysCfg) (sg : Nat → Sig) (x : SysState × Msgs) : Prop :=
  ∃ bp, FreshL x.1.truth x.1.nextBytes ∧ x.1.reps.map (·.1) = C.honest ∧
    (∀ i ∈ C.honest, ∃ si, x.1.reps.lookup i = some si ∧ RepOK C sg i (if i = rrL C 1 then 1 else 0) 1 [] si) ∧
    x.1.truth.lookup bp = some ⟨rrL C 1, blkMsg (pname 1)⟩ ∧ x.2 = rrMsgsB C sg 0 bp

theorem repOK_start_other (C : SysCfg) (sg : Nat → Sig) (i : Nat) (s : RState) (hi : i ≠ rrL C 1)
    (h : RepOK C sg i 0 0 [] s) : RepOK C sg i 0 1 [] s :=
  ⟨h.base, h.votes, by rw [h.cmd, propsBy_other C i 0 hi]⟩

theorem rr_startAll_spec (k : Keys) (C : SysCfg) (hC : HappyRR C) (sg : Nat → Sig) :
    ∀ (todo : List Nat) (x : SysState × Msgs), todo.Nodup → (∀ i ∈ todo, i ∈ C.honest) →
      (rrL C 1 ∈ todo → RRStartPre C sg x.1 ∧ x.2 = []) → (rrL C 1 ∉ todo → RRStartPost C sg x) →
      RRStartPost C sg (startAll k C x todo) := by
  intro todo
  induction todo with
  | nil => intro x _ _ _ h2; exact h2 (by simp)
  | cons i rest ih =>
    intro x hnd hmem hpre hpost
    obtain ⟨σ, acc⟩ := x
    have hih := hmem i (by simp)
    have hirest : i ∉ rest := (List.nodup_cons.mp hnd).1
    unfold startAll
    apply ih _ (List.nodup_cons.mp hnd).2 (fun a ha => hmem a (by simp [ha]))
    · intro hLr
      have hiL : i ≠ rrL C 1 := fun e => hirest (e ▸ hLr)
      obtain ⟨⟨hfr, hkeys, hall⟩, hacc⟩ := hpre (by simp [hLr])
      obtain ⟨si, hl, hri⟩ := hall i hih
      have hno := start_nonleader k (C.rcfg i) { si with truth := σ.truth, nextBytes := σ.nextBytes } hri.base.queue
        (by rw [hC.lead]; exact fun e => hiL e.symm)
      obtain ⟨r1, r2, r3, r4⟩ := runOut_noop σ i (start k (C.rcfg i)) si hl hno
      refine ⟨⟨by rw [r2, r3]; exact hfr, by rw [r1, keys_setKV _ _ _ (by rw [hkeys]; exact hih)]; exact hkeys, ?_⟩, ?_⟩
      · intro a ha
        by_cases hai : a = i
        · subst hai
          exact ⟨_, by rw [r1]; exact lookup_setKV_same _ _ _, repOK_noop _ _ hri⟩
        · obtain ⟨sa, q1, q2⟩ := hall a ha
          exact ⟨sa, by rw [r1, lookup_setKV_other _ _ _ _ hai]; exact q1, q2⟩
      · show acc ++ route C i _ = []
        rw [r4]; simpa [route] using hacc
    · intro hLr
      by_cases hiL : i = rrL C 1
      · obtain ⟨⟨hfr, hkeys, hall⟩, hacc⟩ := hpre (by simp [hiL])
        obtain ⟨si, hl, hri⟩ := hall i hih
        obtain ⟨bp, q1, q2, q3, q4, q5, q6, q7, q8⟩ := proposer_start k (C.rcfg i) (rrWho C) sg (rrL C 2)
          { si with truth := σ.truth, nextBytes := σ.nextBytes } (by rw [rrWho_cfg, hiL])
          hC.scheme hC.rules (by rw [hC.lead]; exact hiL.symm) (hC.lead _ _)
          (by rw [show (C.rcfg i).id = i from rfl, hiL]; exact hC.next_ne 1)
          (base_with_table _ _ _ _ _ _ hri.base)
          (by show si.nextCmd = propsBy C (rrL C 1) 1; rw [hri.cmd, propsBy_self, hiL]) hfr
        obtain ⟨r1, r2, r3, r4⟩ := runOut_spec σ i (start k (C.rcfg i)) si hl
        refine ⟨bp, by rw [r2, r3]; exact q6, by rw [r1, keys_setKV _ _ _ (by rw [hkeys]; exact hih)]; exact hkeys, ?_,
          by rw [r2, ← hiL]; exact q5, ?_⟩
        · intro a ha
          by_cases hai : a = i
          · subst hai
            rw [if_pos hiL]
            refine ⟨_, by rw [r1]; exact lookup_setKV_same _ _ _, ⟨q1, by rw [q2]; exact hri.votes, ?_⟩⟩
            rw [q4]; show propsBy C (rrL C 1) 1 + 1 = propsBy C a 1 + 1; rw [hiL]
          · obtain ⟨sa, p1, p2⟩ := hall a ha
            rw [if_neg (fun e => hai (e.trans hiL.symm))]
            exact ⟨sa, by rw [r1, lookup_setKV_other _ _ _ _ hai]; exact p1,
              repOK_start_other C sg a sa (fun e => hai (e.trans hiL.symm)) p2⟩
        · show acc ++ route C i _ = _
          have hacc' : acc = [] := hacc
          have q8' := q8 C
          rw [show (C.rcfg i).id = i from rfl, show (C.rcfg i).scheme = C.scheme from rfl] at q8'
          rw [r4, hacc', q8']
          unfold rrMsgsB
          rw [hiL]
          rfl
      · obtain ⟨bp, hfr, hkeys, hall, htab, hacc⟩ := hpost (by simp only [List.mem_cons, not_or]; exact ⟨fun e => hiL e.symm, hLr⟩)
        obtain ⟨si, hl, hri⟩ := hall i hih
        rw [if_neg hiL] at hri
        have hno := start_nonleader k (C.rcfg i) { si with truth := σ.truth, nextBytes := σ.nextBytes } hri.base.queue
          (by rw [hC.lead]; exact fun e => hiL e.symm)
        obtain ⟨r1, r2, r3, r4⟩ := runOut_noop σ i (start k (C.rcfg i)) si hl hno
        refine ⟨bp, by rw [r2, r3]; exact hfr, by rw [r1, keys_setKV _ _ _ (by rw [hkeys]; exact hih)]; exact hkeys, ?_,
          by rw [r2]; exact htab, ?_⟩
        · intro a ha
          by_cases hai : a = i
          · subst hai
            rw [if_neg hiL]
            exact ⟨_, by rw [r1]; exact lookup_setKV_same _ _ _, repOK_noop _ _ hri⟩
          · obtain ⟨sa, p1, p2⟩ := hall a ha
            exact ⟨sa, by rw [r1, lookup_setKV_other _ _ _ _ hai]; exact p1, p2⟩
        · show acc ++ route C i _ = _
          rw [r4]; simpa [route] using hacc

/-- after `Start` everywhere the leader of view 1 has proposed block 1 -/
theorem rr_start (k : Keys) (C : SysCfg) (hC : HappyRR C) : RB C 0 (syncStart k C) := by
  let sg : Nat → Sig := fun _ => .multi .ecdsa []
  have hpre : RRStartPre C sg (sysInit k C) := by
    refine ⟨FreshL.nil 1, by simp [sysInit, List.map_map, Function.comp_def], ?_⟩
    intro i hi
    refine ⟨{}, (by show (C.honest.map (fun i => (i, ({} : RState)))).lookup i = _; rw [lookup_init, if_pos hi]),
      ⟨⟨rfl, rfl, rfl, rfl, rfl, rfl, rfl, rfl, rfl, rfl, rfl⟩, rfl, rfl⟩⟩
  obtain ⟨bp, h1, h2, h3, h4, h5⟩ := rr_startAll_spec k C hC sg C.honest (sysInit k C, []) hC.nodup (fun _ h => h)
    (fun _ => ⟨hpre, rfl⟩) (fun h => absurd (hC.mem 1) h)
  have hq0 : ∀ m, m ≤ 0 → QCok (fun b => (syncStart k C).1.truth.lookup b) (C.rcfg 0).cfg sg m := by
    intro m hm
    have : m = 0 := by omega
    subst this; exact Or.inl rfl
  exact ⟨sg, bp, h1, h2, hq0, h3, h4, h5⟩

/-- **the synchronous run with round-robin leaders stays on the happy path**: after `2 j` rounds
the leader of view `j + 1` has proposed block `j + 1`, after `2 j + 1` rounds every replica has
received it -/
theorem rr_phases (k : Keys) (C : SysCfg) (hC : HappyRR C) (j : Nat) :
    RB C j (syncRun k C (2 * j)) ∧ RA C j (syncRun k C (2 * j + 1)) := by
  induction j with
  | zero =>
    have h0 : RB C 0 (syncRun k C 0) := rr_start k C hC
    exact ⟨h0, rr_round_BA k C hC 0 _ h0⟩
  | succ j ih =>
    have hB : RB C (j + 1) (syncRun k C (2 * (j + 1))) := by
      rw [show 2 * (j + 1) = (2 * j + 1) + 1 by omega]
      exact rr_round_AB k C hC j _ ih.2
    exact ⟨hB, rr_round_BA k C hC (j + 1) _ hB⟩


/-- **the state of every replica after `r` rounds (round-robin)**: it is at block `J`, where
`J = (r + 1) / 2` — except for the leader of view `r / 2 + 1` after an even number of rounds, which
has just proposed block `r / 2 + 1` -/
theorem rr_state (k : Keys) (C : SysCfg) (hC : HappyRR C) (r i : Nat) (hi : i ∈ C.honest) :
    ∃ s J, (syncRun k C r).1.reps.lookup i = some s ∧
      (J = (r + 1) / 2 ∨ (r % 2 = 0 ∧ i = rrL C (r / 2 + 1) ∧ J = r / 2 + 1)) ∧
      s.view = max J 1 ∧ s.highQC.view = J - 1 ∧ s.lock.view = J - 2 ∧ s.committed.view = J - 3 ∧
      s.lastVoted = J ∧ s.queue = [] := by
  obtain ⟨hB, hA⟩ := rr_phases k C hC (r / 2)
  rcases Nat.mod_two_eq_zero_or_one r with h | h
  · have hr : r = 2 * (r / 2) := by omega
    rw [← hr] at hB
    obtain ⟨sg, bp, _, _, _, hreps, _, _⟩ := hB
    obtain ⟨s, h1, h2⟩ := hreps i hi
    by_cases hip : i = rrL C (r / 2 + 1)
    · rw [if_pos hip] at h2
      exact ⟨s, r / 2 + 1, h1, Or.inr ⟨h, hip, rfl⟩, base_values h2.base⟩
    · rw [if_neg hip] at h2
      exact ⟨s, r / 2, h1, Or.inl (by omega), base_values h2.base⟩
  · have hr : r = 2 * (r / 2) + 1 := by omega
    rw [← hr] at hA
    obtain ⟨sg, bytes, hcommon, ⟨sc, hlc, hcoll, _⟩, _, _⟩ := hA
    by_cases hic : i = rrL C (r / 2 + 2)
    · rw [hic]
      exact ⟨sc, r / 2 + 1, hlc, Or.inl (by omega), base_values hcoll.base⟩
    · obtain ⟨s, h1, h2⟩ := hcommon.rest i hi hic
      exact ⟨s, r / 2 + 1, h1, Or.inl (by omega), base_values h2.base⟩

end HsVerif.Model
