import HsVerif.Proofs.ReplicaSig
/-!
Byte ids of the signature table are fresh: with every handler of the replica model, the keys of
`truth` stay pairwise distinct and below `nextBytes` (so a lookup finds an entry iff it is in the
table, and nothing signed later shadows it).  Frames GENERATED from the lock frames by textual
substitution `_lk → _fr`, `x ≤ s.lock.view → FreshS s`, `lock_finish → fr_finish`.
-/
open Std.Do
set_option mvcgen.warning false
set_option linter.unusedSimpArgs false
set_option linter.unusedVariables false
namespace HsVerif.Model

/-- keys strictly decreasing from the head (newest first) and all below the next free id -/
def FreshL (t : List (Nat × Atom)) (nb : Nat) : Prop :=
  t.Pairwise (fun p q => q.1 < p.1) ∧ ∀ p ∈ t, p.1 < nb

def FreshS (s : RState) : Prop := FreshL s.truth s.nextBytes

theorem fresh_iff (s : RState) : FreshS s ↔ FreshL s.truth s.nextBytes := Iff.rfl

theorem FreshL.cons {t nb} (a : Atom) (h : FreshL t nb) : FreshL ((nb, a) :: t) (nb + 1) := by
  refine ⟨List.pairwise_cons.mpr ⟨fun q hq => h.2 q hq, h.1⟩, ?_⟩
  intro p hp
  rcases List.mem_cons.mp hp with rfl | hp
  · exact Nat.lt_succ_self _
  · exact Nat.lt_succ_of_lt (h.2 p hp)

theorem FreshL.nil (nb : Nat) : FreshL [] nb := ⟨List.Pairwise.nil, by simp⟩

/-- with fresh keys, a lookup finds exactly the entries of the table -/
theorem FreshL.lookup_iff {t nb} (h : FreshL t nb) (b : Nat) (a : Atom) : t.lookup b = some a ↔ (b, a) ∈ t := by
  induction t with
  | nil => simp
  | cons p t ih =>
    obtain ⟨b', a'⟩ := p
    have ht : FreshL t nb := ⟨(List.pairwise_cons.mp h.1).2, fun q hq => h.2 q (List.mem_cons_of_mem _ hq)⟩
    have hlt := (List.pairwise_cons.mp h.1).1
    simp only [List.lookup, List.mem_cons, Prod.mk.injEq]
    by_cases hb : b = b'
    · subst hb
      simp only [beq_self_eq_true, Option.some.injEq, true_and]
      constructor
      · intro e; exact Or.inl e.symm
      · rintro (e | hm)
        · exact e.symm
        · have := hlt _ hm; simp at this
    · have h' : (b == b') = false := by simpa using hb
      simp only [h', hb, false_and, false_or]
      exact ih ht

/-- closes the verification conditions of a `FreshS` frame -/
macro "fr_finish" : tactic => `(tactic| (
  (try intros)
  (try simp +zetaDelta [fresh_iff] at *)
  (first
    | done
    | assumption
    | (exact FreshL.cons _ (by assumption))
    | (simp_all; done)
    | skip)))

section FreshFrames

theorem emit_fr (o : Out) :
    ⦃fun s => ⌜FreshS s⌝⦄ emit o ⦃⇓ _ s => ⌜FreshS s⌝⦄ := by
  mvcgen [emit]  <;> fr_finish
attribute [local spec] emit_fr

theorem addEvent_fr (e : Ev) :
    ⦃fun s => ⌜FreshS s⌝⦄ addEvent e ⦃⇓ _ s => ⌜FreshS s⌝⦄ := by
  mvcgen [addEvent]  <;> fr_finish
attribute [local spec] addEvent_fr

theorem getBlock_fr (h : Hash) :
    ⦃fun s => ⌜FreshS s⌝⦄ getBlock h ⦃⇓ _ s => ⌜FreshS s⌝⦄ := by
  mvcgen [getBlock]  <;> fr_finish
attribute [local spec] getBlock_fr

theorem fetchFor_fr (h : Hash) :
    ⦃fun s => ⌜FreshS s⌝⦄ fetchFor h ⦃⇓ _ s => ⌜FreshS s⌝⦄ := by
  mvcgen [fetchFor]  <;> fr_finish
attribute [local spec] fetchFor_fr

theorem signMsg_fr (c : RCfg) (m : Msg) :
    ⦃fun s => ⌜FreshS s⌝⦄ signMsg c m ⦃⇓ _ s => ⌜FreshS s⌝⦄ := by
  mvcgen [signMsg]  <;> fr_finish
attribute [local spec] signMsg_fr

theorem verifyQCM_fr (k : Keys) (c : RCfg) (q : QC) :
    ⦃fun s => ⌜FreshS s⌝⦄ verifyQCM k c q ⦃⇓ _ s => ⌜FreshS s⌝⦄ := by
  mvcgen [verifyQCM]  <;> fr_finish
attribute [local spec] verifyQCM_fr

theorem verifyTCM_fr (k : Keys) (c : RCfg) (t : TC) :
    ⦃fun s => ⌜FreshS s⌝⦄ verifyTCM k c t ⦃⇓ _ s => ⌜FreshS s⌝⦄ := by
  mvcgen [verifyTCM]  <;> fr_finish
attribute [local spec] verifyTCM_fr

theorem qcRef_fr (q : QC) :
    ⦃fun s => ⌜FreshS s⌝⦄ qcRef q ⦃⇓ _ s => ⌜FreshS s⌝⦄ := by
  mvcgen [qcRef]  <;> fr_finish
attribute [local spec] qcRef_fr

theorem extendsM_fr (b t : Block) :
    ⦃fun s => ⌜FreshS s⌝⦄ extendsM b t ⦃⇓ _ s => ⌜FreshS s⌝⦄ := by
  mvcgen [extendsM]  <;> fr_finish
attribute [local spec] extendsM_fr

theorem voteRule_fr (c : RCfg) (v : Nat) (b : Block) (agg : Option AggQC) :
    ⦃fun s => ⌜FreshS s⌝⦄ voteRule c v b agg ⦃⇓ _ s => ⌜FreshS s⌝⦄ := by
  mvcgen [voteRule]  <;> fr_finish
attribute [local spec] voteRule_fr

theorem commitRule_fr (c : RCfg) (b : Block) :
    ⦃fun s => ⌜FreshS s⌝⦄ commitRule c b ⦃⇓ _ s => ⌜FreshS s⌝⦄ := by
  mvcgen [commitRule]  <;> fr_finish
attribute [local spec] commitRule_fr

theorem commitInner_fr (fuel : Nat) (b : Block) :
    ⦃fun s => ⌜FreshS s⌝⦄ commitInner fuel b ⦃⇓ _ s => ⌜FreshS s⌝⦄ := by
  induction fuel generalizing b with
  | zero => mvcgen [commitInner]  <;> fr_finish
  | succ n ih => mvcgen [commitInner, ih]  <;> fr_finish
attribute [local spec] commitInner_fr

theorem tryCommit_fr (c : RCfg) (b : Block) :
    ⦃fun s => ⌜FreshS s⌝⦄ tryCommit c b ⦃⇓ _ s => ⌜FreshS s⌝⦄ := by
  mvcgen [tryCommit]
  case inv1 => exact ⇓ _ s => ⌜FreshS s⌝
  all_goals fr_finish
attribute [local spec] tryCommit_fr

theorem votesCleanup_fr  :
    ⦃fun s => ⌜FreshS s⌝⦄ votesCleanup ⦃⇓ _ s => ⌜FreshS s⌝⦄ := by
  mvcgen [votesCleanup]  <;> fr_finish
attribute [local spec] votesCleanup_fr

theorem collectVote_fr (k : Keys) (c : RCfg) (id : Nat) (sig : Option Sig) (h : Hash) (d : Bool) :
    ⦃fun s => ⌜FreshS s⌝⦄ collectVote k c id sig h d ⦃⇓ _ s => ⌜FreshS s⌝⦄ := by
  mvcgen [collectVote]  <;> fr_finish
attribute [local spec] collectVote_fr

theorem aggregateVote_fr (k : Keys) (c : RCfg) (b : Block) (sg : Sig) :
    ⦃fun s => ⌜FreshS s⌝⦄ aggregateVote k c b sg ⦃⇓ _ s => ⌜FreshS s⌝⦄ := by
  mvcgen [aggregateVote]  <;> fr_finish
attribute [local spec] aggregateVote_fr

theorem markProposed_fr (fuel : Nat) (b : Block) :
    ⦃fun s => ⌜FreshS s⌝⦄ markProposed fuel b ⦃⇓ _ s => ⌜FreshS s⌝⦄ := by
  induction fuel generalizing b with
  | zero => mvcgen [markProposed]  <;> fr_finish
  | succ n ih => mvcgen [markProposed, ih]  <;> fr_finish
attribute [local spec] markProposed_fr

theorem verifyAggM_go_fr (k : Keys) (c : RCfg) (l : List QC) :
    ⦃fun s => ⌜FreshS s⌝⦄ verifyAggM.go k c l ⦃⇓ _ s => ⌜FreshS s⌝⦄ := by
  induction l with
  | nil => mvcgen [verifyAggM.go]  <;> fr_finish
  | cons q rest ih => mvcgen [verifyAggM.go, ih]  <;> fr_finish
attribute [local spec] verifyAggM_go_fr

theorem verifyAggM_fr (k : Keys) (c : RCfg) (a : AggQC) :
    ⦃fun s => ⌜FreshS s⌝⦄ verifyAggM k c a ⦃⇓ _ s => ⌜FreshS s⌝⦄ := by
  mvcgen [verifyAggM]  <;> fr_finish
attribute [local spec] verifyAggM_fr

theorem verifyAnyM_fr (k : Keys) (c : RCfg) (q : QC) (agg : Option AggQC) :
    ⦃fun s => ⌜FreshS s⌝⦄ verifyAnyM k c q agg ⦃⇓ _ s => ⌜FreshS s⌝⦄ := by
  mvcgen [verifyAnyM]  <;> fr_finish
attribute [local spec] verifyAnyM_fr

theorem voterVerify_fr (k : Keys) (c : RCfg) (id : Nat) (b : Block) (agg : Option AggQC) :
    ⦃fun s => ⌜FreshS s⌝⦄ voterVerify k c id b agg ⦃⇓ _ s => ⌜FreshS s⌝⦄ := by
  mvcgen [voterVerify]  <;> fr_finish
attribute [local spec] voterVerify_fr

theorem voteFor_fr (c : RCfg) (b : Block) (id : Nat) :
    ⦃fun s => ⌜FreshS s⌝⦄ voteFor c b id ⦃⇓ _ s => ⌜FreshS s⌝⦄ := by
  mvcgen [voteFor] <;> fr_finish
attribute [local spec] voteFor_fr

theorem onValidPropose_fr (k : Keys) (c : RCfg) (id : Nat) (b : Block) :
    ⦃fun s => ⌜FreshS s⌝⦄ onValidPropose k c id b ⦃⇓ _ s => ⌜FreshS s⌝⦄ := by
  mvcgen [onValidPropose]  <;> fr_finish
attribute [local spec] onValidPropose_fr

theorem createAndPropose_fr (k : Keys) (c : RCfg) (si : SyncInfo) :
    ⦃fun s => ⌜FreshS s⌝⦄ createAndPropose k c si ⦃⇓ _ s => ⌜FreshS s⌝⦄ := by
  mvcgen [createAndPropose]  <;> fr_finish
attribute [local spec] createAndPropose_fr

theorem verifySyncInfo_fr (k : Keys) (c : RCfg) (si : SyncInfo) :
    ⦃fun s => ⌜FreshS s⌝⦄ verifySyncInfo k c si ⦃⇓ _ s => ⌜FreshS s⌝⦄ := by
  mvcgen [verifySyncInfo]  <;> fr_finish
attribute [local spec] verifySyncInfo_fr


theorem advanceView_fr (k : Keys) (c : RCfg) (si : SyncInfo) :
    ⦃fun s => ⌜FreshS s⌝⦄ advanceView k c si ⦃⇓ _ s => ⌜FreshS s⌝⦄ := by
  mvcgen [advanceView] <;> fr_finish

theorem onRemoteTimeout_fr (k : Keys) (c : RCfg) (t : TimeoutMsg) :
    ⦃fun s => ⌜FreshS s⌝⦄ onRemoteTimeout k c t ⦃⇓ _ s => ⌜FreshS s⌝⦄ := by
  mvcgen [onRemoteTimeout, advanceView_fr] <;> fr_finish

theorem onLocalTimeout_fr (k : Keys) (c : RCfg) :
    ⦃fun s => ⌜FreshS s⌝⦄ onLocalTimeout k c ⦃⇓ _ s => ⌜FreshS s⌝⦄ := by
  mvcgen [onLocalTimeout, onRemoteTimeout_fr] <;> fr_finish

theorem onPropose_fr (k : Keys) (c : RCfg) (id : Nat) (b : Block) (agg : Option AggQC) :
    ⦃fun s => ⌜FreshS s⌝⦄ onPropose k c id b agg ⦃⇓ _ s => ⌜FreshS s⌝⦄ := by
  mvcgen [onPropose, advanceView_fr] <;> fr_finish

theorem tick_fr (k : Keys) (c : RCfg) :
    ⦃fun s => ⌜FreshS s⌝⦄ tick k c ⦃⇓ _ s => ⌜FreshS s⌝⦄ := by
  mvcgen [tick, onPropose_fr, onRemoteTimeout_fr, onLocalTimeout_fr, advanceView_fr] <;> fr_finish

theorem runLoop_fr (k : Keys) (c : RCfg) (fuel : Nat) :
    ⦃fun s => ⌜FreshS s⌝⦄ runLoop k c fuel ⦃⇓ _ s => ⌜FreshS s⌝⦄ := by
  induction fuel with
  | zero => mvcgen [runLoop] <;> fr_finish
  | succ n ih => mvcgen [runLoop, tick_fr, ih] <;> fr_finish


end FreshFrames

theorem step_fresh (k : Keys) (c : RCfg) (s : RState) (e : Ev) (h : FreshS s) : FreshS (step k c s e).1 := by
  unfold step
  have := HsVerif.Proofs.run_res_of_triple (runLoop k c 100000) (fun s' => FreshS s')
    (fun _ s' => FreshS s') (runLoop_fr k c 100000)
    { s with out := [], queue := s.queue ++ [e] } h
  simp only [StateT.run, Id.run] at this ⊢
  exact this

theorem start_fresh (k : Keys) (c : RCfg) (s : RState) (h : FreshS s) : FreshS (start k c s).1 := by
  unfold start
  have spec : ⦃fun s => ⌜FreshS s⌝⦄ (do
      let s ← get
      if s.view == 1 && c.leader 1 == c.id then
        createAndPropose k c { qc := some s.highQC, tc := some s.highTC }
      runLoop k c 100000 : M Unit) ⦃⇓ _ s => ⌜FreshS s⌝⦄ := by
    mvcgen [createAndPropose_fr, runLoop_fr]
  have := HsVerif.Proofs.run_res_of_triple _ (fun s' => FreshS s') (fun _ s' => FreshS s') spec { s with out := [] } h
  simp only [StateT.run, Id.run] at this ⊢
  exact this

end HsVerif.Model
