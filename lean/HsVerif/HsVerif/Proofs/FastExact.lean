import HsVerif.Proofs.FastSafety
import HsVerif.Proofs.FastCex
/-!
Fast-HotStuff with EXACT freshness of the aggregate QC (`A.view + 1 = w.view`, the paper's rule, instead of
the repaired code's `A.view + 1 ≥ w.view`), everything else as implemented (`FastSafety.Discipline`):
a voter SKIPS the reported QCs it cannot validate, different voters of one block may be shown different
aggregate QCs, and a voter does not compare the block's QC with its OWN high QC.

**Still not safe.**  This file has
  * `ExactFresh S`     every honest vote is plain or justified by an aggregate QC of the PRECEDING view
  * `Discipline' S`    `Discipline` plus facts of the pacemaker that make a schedule realistic (a reported high QC
                       is of a view below the one that timed out; votes and timeouts of a view follow a quorum of
                       timeouts of the preceding view)
  * `Tbl`, `Tbl.OK`, `Tbl.RealOK`   the table checker of `Proofs/FastCex.lean`, now with the block tree as a
                       table, the EF clause inside `just`, and the realism clauses; `Tbl.discipline'`, `Tbl.exact`
  * `efull`            a seven replica schedule (f = 2, quorum 5) that satisfies all of it and commits two
                       conflicting blocks
  * `LockJust`, `fast_committed_on_one_branch_locked`   what is missing: a voter that also respects its own
                       high QC (the QC of every block it voted for before) -- NOT what the code does -- is safe,
                       with or without EF; the schedule violates it (and `StrictJust`, `UniformJust` of F1).

Why EF does not help.  EF pins the view of the aggregate QC, so for each view all aggregate QCs draw from ONE pool
of honest reports.  But above a committed pair `b0 ← b1` the certified blocks may still FORK (not at consecutive
views): `P` (view 3) and `Q` (view 4), both children of `b1`, both certified, by different quorums -- `P` by
a b d, `Q` by a b c.  c never has `P`, d never has `Q`.  In view 5 the pool is  a:P b:Q c:Q d:P e:gen.  A
quorum misses two replicas, so c can be shown {a d e z1 z2} (it misses itself and b: every non-genesis report
in it is `P`, which c cannot validate) and d can be shown {b c e z1 z2} (only `Q`, which d cannot validate):
both see genesis as the highest VALID report and vote for `w` (view 6, parent genesis), although each of them
holds -- and reported -- a QC above `b0`.  With e and the two Byzantine replicas `w` is certified.

The schedule (replicas 0 = a, 1 = b, 2 = c, 3 = d, 4 = e honest, 5 = z1, 6 = z2 Byzantine; global event
times in brackets; the Byzantine replicas vote for every block and sign every timeout reporting the genesis QC):
Blocks    0 gen (view 0)   1 b0 (1, parent gen)   2 b1 (2, b0)   3 P (3, b1)   4 Q (4, b1)
          5 w (6, parent gen)   6 w1 (7, w)   7 w2 (8, w1)
  view 1  a b c vote b0 [1-3]; they time out reporting gen [4-6].
  view 2  a b c vote b1 (plain rule) [7-9]: their high QC becomes QC(b0).  c (b0), d, e (gen) time out [10-12].
  view 3  P (view 3, parent b1, QC(b1), plain rule) reaches a, b and d (d fetches b1): they vote [13-15];
          a and b COMMIT b0.  The votes for P are collected by a Byzantine replica (or are delayed): nobody
          honest learns QC(P) yet.  a (b1), b (b1), c (b0) time out [16-18]:
              A3 = a:b1 b:b1 c:b0 z1:gen z2:gen
  view 4  Q (view 4, parent b1, QC(b1)) with A3 (3 + 1 = 4): a, b, c have b1, the highest report: they vote
          [19-21].  P and Q are both certified.  a, b, c (all b1) time out [22-24].
  view 5  a and d are sent QC(P) (they have P), b and c are sent QC(Q) (they have Q).  c is never given P, d is
          never given Q (their fetches fail).  All five time out [25-29]: a:P b:Q c:Q d:P e:gen.
              A5c = a:P d:P e:gen z1:gen z2:gen        A5d = b:Q c:Q e:gen z1:gen z2:gen
  view 6  the Byzantine leader proposes w (view 6, parent gen, QC(gen)):
          to c with A5c (5 + 1 = 6): c lacks P, the reports of a and d are skipped, highest valid QC = gen: vote [30]
          to d with A5d: d lacks Q, the reports of b and c are skipped, highest valid QC = gen: vote [31]
          to e with A5c: e has nothing but gen: vote [32].   QC(w) exists: c d e z1 z2.
          c (Q), d (P), e (gen) time out [33-35].
  view 7  w1 (view 7, parent w, QC(w), plain rule): c d e vote [36-38]; QC(w1) exists.  They time out (w) [39-41].
  view 8  w2 (view 8, parent w1, QC(w1)) reaches c [42]: c COMMITS w.   b0 and w are not on one branch.

Replay notes (implementation; not part of the abstract instance): the adversary delays the messages between
honest replicas and makes block fetches fail (P at c, Q at d, everything at e); views are left on timeout
certificates only (aggregate timeout rule), every view 1..7 has a quorum of timeouts before the first event of the
next view (`efull_real`); a new-view message carrying an aggregate QC makes the receiver adopt its highest VALID
report as high QC, which is harmless here as long as the fetches keep failing (for c that is Q, for d it is P, which
they hold already); the leader of view 6 must be Byzantine (w is sent with two different aggregate
QCs: the aggregate QC is not covered by the block hash); P, w1, w2 are sent without aggregate QC (plain rule), which
an honest leader that entered the view on a timeout certificate does not do.
-/
namespace HsVerif.FastExact
open HsVerif.Safety HsVerif.FastSafety HsVerif.Model HsVerif.QuorumCount

/-! ### Definitions on the abstract timed system -/

section
variable (S : TSys)

/-- **Exact freshness**: every honest vote is justified by the plain rule or by an aggregate QC whose view is
EXACTLY the view before the block's (`aggQC.View() + 1 == block.View()`; the code has `≥`). -/
def ExactFresh : Prop := ∀ r w t, S.honest r → S.votedAt r w t →
  Plain S w ∨ ∃ T u rep, AggJ S r w t T u rep ∧ u + 1 = S.view w

/-- a timeout certificate for view `u` can exist at time `t`: a quorum whose honest members signed a view `u`
timeout before `t` -/
def TCBefore (u t : Nat) : Prop :=
  ∃ Q, S.Quorum Q ∧ ∀ m, Q m → S.honest m → ∃ t' R, t' < t ∧ S.timedOutAt m u t' R

/-- `Discipline` plus pacemaker facts.  The three extra clauses are STRONGER than what the code guarantees (see
the field comments); they are here to show that the counterexample does not depend on their failure. -/
structure Discipline' : Prop where
  base : Discipline S
  /-- the high QC reported in the timeout of view `u` is of a view below `u`.  (Code: usual, not enforced -- under
  the aggregate timeout rule a plain QC does not end a view, and `advanceView` adopts the QC of any proposal.) -/
  report_below : ∀ m u t R, S.honest m → S.timedOutAt m u t R → S.view R < u
  /-- a vote in view `x + 1` follows a quorum of timeouts of view `x`.  (Code: a proposal is handled only when
  `proposalView ≤ localView`, and under the aggregate timeout rule a view is left only on a timeout certificate
  or aggregate QC of a view `≥` the current one: the code gives "of some view ≥ x".) -/
  vote_after_tc : ∀ r w t, S.honest r → S.votedAt r w t → S.view w ≤ 1 ∨ ∃ u, u + 1 = S.view w ∧ TCBefore S u t
  /-- the same for the timeout of view `x + 1` (`OnLocalTimeout` signs for the current view) -/
  tmo_after_tc : ∀ m u t R, S.honest m → S.timedOutAt m u t R → u ≤ 1 ∨ ∃ u', u' + 1 = u ∧ TCBefore S u' t

/-- EXTRA hypothesis 3 (not what the code does: `VoteRule` never looks at the replica's own high QC): a replica
does not vote for a block whose QC is lower than the QC of a block it voted for earlier -- i.e. the voter treats
its own high QC as one more report of the aggregate QC (and as a lock under the plain rule). -/
def LockJust : Prop := ∀ r x w tx t, S.honest r → S.votedAt r x tx → S.votedAt r w t → tx < t →
  S.view (S.par x) ≤ S.view (S.par w)

end

section
variable {S : TSys}

theorem ExactFresh.just (h : ExactFresh S) : ∀ r w t, S.honest r → S.votedAt r w t →
    Plain S w ∨ ∃ T u rep, AggJ S r w t T u rep := by
  intro r w t hh hv
  rcases h r w t hh hv with hp | ⟨T, u, rep, A, _⟩
  · exact Or.inl hp
  · exact Or.inr ⟨T, u, rep, A⟩

/-- the key step under `LockJust`: an honest replica voted for both `b1` and `w`, for `b1` first -/
theorem key_locked (D : Discipline S) (hl : LockJust S) {b0 b1 : S.Blk} (C : TwoChain S b0 b1) :
    ∀ w, Certified S w → S.view b0 + 2 ≤ S.view w → S.view b0 ≤ S.view (S.par w) := by
  intro w hw hge
  obtain ⟨Q1, hQ1, hv1⟩ := C.cert
  obtain ⟨Qw, hQw, hvw⟩ := hw
  obtain ⟨r, hr1, hrw, hh⟩ := D.inter Q1 Qw hQ1 hQw
  obtain ⟨t1, ht1⟩ := hv1 r hr1 hh
  obtain ⟨tw, htw⟩ := hvw r hrw hh
  have hlt : t1 < tw := D.vote_order r b1 w t1 tw hh ht1 htw (by have := C.v; omega)
  have := hl r b1 w t1 tw hh ht1 htw hlt
  rwa [C.p] at this

/-- **Safety of Fast-HotStuff when a voter respects its own high QC** (no freshness condition is needed). -/
theorem fast_committed_on_one_branch_locked (D : Discipline S) (hl : LockJust S) {b0 b1 c0 c1 : S.Blk}
    (Cb : TwoChain S b0 b1) (Cc : TwoChain S c0 c1) : TExt S b0 c0 ∨ TExt S c0 b0 :=
  one_branch_of_key D (fun _ _ C => key_locked D hl C) Cb Cc

theorem certified_extends_locked (D : Discipline S) (hl : LockJust S) {b0 b1 : S.Blk} (C : TwoChain S b0 b1)
    (w : S.Blk) (hw : Certified S w) (hge : S.view b0 ≤ S.view w) : TExt S w b0 :=
  extends_of_key D C (key_locked D hl C) _ w rfl hw hge

end

/-! ### The table checker, with the block tree as a table, EF and the realism clauses -/

abbrev R := Fin 7
abbrev B := Fin 8

abbrev byz : Nat → Bool := FastCex.byz

/-- an aggregate QC: `(signers, view, reports of the signers that do not report genesis)` -/
abbrev Agg := List R × Nat × List (R × B)

/-- A schedule as finite tables (events of honest replicas only; the Byzantine replicas 5 and 6 vote for every
block, sign every timeout reporting the genesis QC, and make the proposals no honest leader would). -/
structure Tbl where
  /-- view of block `i` -/
  viewL : List Nat
  /-- parent of block `i` -/
  parL : List B
  /-- honest votes `(replica, block, time)` -/
  votes : List (R × B × Nat)
  /-- honest timeouts `(replica, view, time, reported block)` -/
  tmos : List (R × Nat × Nat × B)
  /-- `(replica, block, time from which the replica has the block)`; everybody has genesis -/
  hasL : List (R × B × Nat)
  aggs : List Agg
  /-- which aggregate QC (index into `aggs`) accompanies the proposal of block `b` shown to `r` -/
  aggFor : R → B → Option Nat

def repOf (l : List (R × B)) (m : R) : B := (l.lookup m).getD 0

/-- the optional aggregate QC is present and satisfies `P` -/
def OptSat (o : Option Agg) (P : Agg → Prop) : Prop := ∃ a, o = some a ∧ P a

instance (o : Option Agg) (P : Agg → Prop) [DecidablePred P] : Decidable (OptSat o P) :=
  match o with
  | none => isFalse (by rintro ⟨a, h, _⟩; cases h)
  | some a => if h : P a then isTrue ⟨a, rfl, h⟩ else isFalse (by rintro ⟨a', h', hp⟩; cases h'; exact h hp)

namespace Tbl
variable (T : Tbl)

def view (b : B) : Nat := T.viewL.getD b.val 0
def par (b : B) : B := T.parL.getD b.val 0

def hasB (r : R) (b : B) (t : Nat) : Bool :=
  b == 0 || T.hasL.any (fun e => e.1 == r && e.2.1 == b && decide (e.2.2 ≤ t))

/-- the abstract timed system of a schedule -/
def sys : TSys where
  Blk := B
  Rep := R
  gen := 0
  view := T.view
  par := T.par
  honest := fun r => byz r.val = false
  Quorum := fun Q => ∃ A : Nat → Bool, quorumSize 7 ≤ count A 7 ∧ ∀ r : Fin 7, A r.val = true → Q r
  votedAt := fun r b t => (r, b, t) ∈ T.votes
  timedOutAt := fun r u t Rb => (r, u, t, Rb) ∈ T.tmos
  hasAt := fun r b t => T.hasB r b t = true

def voterB (b : B) (t : Nat) (i : Nat) : Bool :=
  byz i || T.votes.any (fun e => e.1.val == i && e.2.1 == b && decide (e.2.2 < t))

def certB (b : B) (t : Nat) : Bool := decide (quorumSize 7 ≤ count (T.voterB b t) 7)

def gcB (b : B) (t : Nat) : Bool := b == 0 || T.certB b t

theorem certB_sound {b : B} {t : Nat} (h : T.certB b t = true) : CertBefore T.sys b t := by
  refine ⟨fun r => T.voterB b t r.val = true, ⟨T.voterB b t, of_decide_eq_true h, fun r hr => hr⟩, ?_⟩
  intro r hr hh
  have hh' : byz r.val = false := hh
  simp only [voterB, hh', Bool.false_or, List.any_eq_true, Bool.and_eq_true, beq_iff_eq, decide_eq_true_eq] at hr
  obtain ⟨⟨r', b', t'⟩, hmem, ⟨hr', hb'⟩, ht'⟩ := hr
  have : r' = r := Fin.ext hr'
  subst this
  subst hb'
  exact ⟨t', ht', hmem⟩

theorem gcB_sound {b : B} {t : Nat} (h : T.gcB b t = true) : GCBefore T.sys b t := by
  simp only [gcB, Bool.or_eq_true, beq_iff_eq] at h
  rcases h with h | h
  · exact Or.inl h
  · exact Or.inr (T.certB_sound h)

/-- who signed a timeout of view `u` before `t` (Byzantine replicas sign everything) -/
def signerB (u t : Nat) (i : Nat) : Bool :=
  byz i || T.tmos.any (fun e => e.1.val == i && e.2.1 == u && decide (e.2.2.1 < t))

def tcB (u t : Nat) : Bool := decide (quorumSize 7 ≤ count (T.signerB u t) 7)

theorem tcB_sound {u t : Nat} (h : T.tcB u t = true) : TCBefore T.sys u t := by
  refine ⟨fun r => T.signerB u t r.val = true, ⟨T.signerB u t, of_decide_eq_true h, fun r hr => hr⟩, ?_⟩
  intro r hr hh
  have hh' : byz r.val = false := hh
  simp only [signerB, hh', Bool.false_or, List.any_eq_true, Bool.and_eq_true, beq_iff_eq, decide_eq_true_eq] at hr
  obtain ⟨⟨r', u', t', R'⟩, hmem, ⟨hr', hu'⟩, ht'⟩ := hr
  have : r' = r := Fin.ext hr'
  subst this
  subst hu'
  exact ⟨t', R', ht', hmem⟩

/-- the aggregate vote rule as a decidable statement about the tables -/
def AggOK (r : R) (w : B) (t : Nat) (a : Agg) : Prop :=
  quorumSize 7 ≤ count (fun i => a.1.any (fun m => m.val == i)) 7 ∧
  T.view w ≤ a.2.1 + 1 ∧
  (∀ m ∈ a.1, byz m.val = false → ∃ e ∈ T.tmos, e.1 = m ∧ e.2.1 = a.2.1 ∧ e.2.2.2 = repOf a.2.2 m ∧ e.2.2.1 < t) ∧
  (∀ m ∈ a.1, T.hasB r (repOf a.2.2 m) t = true → T.view (repOf a.2.2 m) ≤ T.view (T.par w)) ∧
  (∃ m ∈ a.1, repOf a.2.2 m = T.par w)

instance (r : R) (w : B) (t : Nat) (a : Agg) : Decidable (T.AggOK r w t a) := by
  unfold AggOK; exact inferInstance

theorem aggOK_sound {r : R} {w : B} {t : Nat} {a : Agg} (h : T.AggOK r w t a) :
    AggJ T.sys r w t (fun m => m ∈ a.1) a.2.1 (repOf a.2.2) := by
  obtain ⟨hq, hf, hr, hm, hx⟩ := h
  refine ⟨⟨_, hq, ?_⟩, hf, ?_, ?_, ?_⟩
  · intro m hm'
    simp only [List.any_eq_true, beq_iff_eq] at hm'
    obtain ⟨m', hmem, heq⟩ := hm'
    have : m' = m := Fin.ext heq
    subst this; exact hmem
  · intro m hmT hh
    obtain ⟨⟨m', u', t', R'⟩, hmem, h1, h2, h3, h4⟩ := hr m hmT hh
    simp only at h1 h2 h3 h4
    subst h1; subst h2; subst h3
    exact ⟨t', h4, hmem⟩
  · intro m hmT hhas _
    exact hm m hmT hhas
  · obtain ⟨m, hmT, heq⟩ := hx
    exact ⟨m, hmT, heq⟩

/-- the aggregate QC shown to `r` with block `b` -/
def aggOf (r : R) (b : B) : Option Agg := (T.aggFor r b).bind (fun i => T.aggs[i]?)

/-- **All clauses of `FastSafety.Discipline` and `ExactFresh`, as decidable statements about the tables.**
`just` is the EF form: the aggregate QC shown to the voter is of the view right before the block's. -/
structure OK : Prop where
  gen_view : T.view 0 = 0
  par_gen : T.par 0 = 0
  one_per_view : ∀ e1 ∈ T.votes, ∀ e2 ∈ T.votes, e1.1 = e2.1 → T.view e1.2.1 = T.view e2.2.1 → e1.2.1 = e2.2.1
  vote_order : ∀ e1 ∈ T.votes, ∀ e2 ∈ T.votes, e1.1 = e2.1 → T.view e1.2.1 < T.view e2.2.1 → e1.2.2 < e2.2.2
  wf : ∀ e ∈ T.votes, T.gcB (T.par e.2.1) e.2.2 = true ∧ T.view (T.par e.2.1) < T.view e.2.1 ∧
    T.hasB e.1 e.2.1 e.2.2 = true ∧ T.hasB e.1 (T.par e.2.1) e.2.2 = true
  just : ∀ e ∈ T.votes, T.view e.2.1 = T.view (T.par e.2.1) + 1 ∨
    OptSat (T.aggOf e.1 e.2.1) (fun a => T.AggOK e.1 e.2.1 e.2.2 a ∧ a.2.1 + 1 = T.view e.2.1)
  tmo_once : ∀ e1 ∈ T.tmos, ∀ e2 ∈ T.tmos, e1.1 = e2.1 → e1.2.1 = e2.2.1 →
    e1.2.2.1 = e2.2.2.1 ∧ e1.2.2.2 = e2.2.2.2
  report : ∀ e ∈ T.tmos, T.gcB e.2.2.2 e.2.2.1 = true ∧ T.hasB e.1 e.2.2.2 e.2.2.1 = true ∧
    (∀ v ∈ T.votes, v.1 = e.1 → v.2.2 < e.2.2.1 → T.view (T.par v.2.1) ≤ T.view e.2.2.2 ∧ T.view v.2.1 ≤ e.2.1) ∧
    (∀ v ∈ T.votes, v.1 = e.1 → e.2.2.1 ≤ v.2.2 → e.2.1 < T.view v.2.1)
  report_mono : ∀ e1 ∈ T.tmos, ∀ e2 ∈ T.tmos, e1.1 = e2.1 → e1.2.2.1 ≤ e2.2.2.1 →
    e1.2.1 ≤ e2.2.1 ∧ T.view e1.2.2.2 ≤ T.view e2.2.2.2

/-- the realism clauses of `Discipline'` -/
structure RealOK : Prop where
  report_below : ∀ e ∈ T.tmos, T.view e.2.2.2 < e.2.1
  vote_after_tc : ∀ e ∈ T.votes, T.view e.2.1 ≤ 1 ∨ T.tcB (T.view e.2.1 - 1) e.2.2 = true
  tmo_after_tc : ∀ e ∈ T.tmos, e.2.1 ≤ 1 ∨ T.tcB (e.2.1 - 1) e.2.2.1 = true

theorem has_mono (r : R) (b : B) (t t' : Nat) (h : T.hasB r b t = true) (hle : t ≤ t') : T.hasB r b t' = true := by
  simp only [hasB, Bool.or_eq_true, beq_iff_eq, List.any_eq_true, Bool.and_eq_true, decide_eq_true_eq] at h ⊢
  rcases h with h | ⟨e, hmem, hc, ht⟩
  · exact Or.inl h
  · exact Or.inr ⟨e, hmem, hc, Nat.le_trans ht hle⟩

/-- **A schedule that passes the checks satisfies exact freshness ...** -/
theorem exact (h : T.OK) : ExactFresh T.sys := by
  intro r w t _ hv
  rcases h.just (r, w, t) hv with hp | ⟨a, _, ha, hef⟩
  · exact Or.inl hp
  · exact Or.inr ⟨_, _, _, T.aggOK_sound ha, hef⟩

/-- **... and is an instance of the discipline.** -/
theorem discipline (h : T.OK) : Discipline T.sys where
  gen_view := h.gen_view
  par_gen := h.par_gen
  inter := fun Q1 Q2 h1 h2 => by
    obtain ⟨r, h1', h2', hb⟩ := countQuorum_inter 7 (by decide) byz (by decide) Q1 Q2 h1 h2
    exact ⟨r, h1', h2', hb⟩
  has_mono := T.has_mono
  one_per_view := fun r x y t1 t2 _ h1 h2 hv => h.one_per_view (r, x, t1) h1 (r, y, t2) h2 rfl hv
  vote_order := fun r x y t1 t2 _ h1 h2 hv => h.vote_order (r, x, t1) h1 (r, y, t2) h2 rfl hv
  wf := fun r w t _ hv => by
    obtain ⟨h1, h2, h3, h4⟩ := h.wf (r, w, t) hv
    exact ⟨T.gcB_sound h1, h2, h3, h4⟩
  just := (T.exact h).just
  tmo_once := fun m u t1 t2 R1 R2 _ h1 h2 => h.tmo_once (m, u, t1, R1) h1 (m, u, t2, R2) h2 rfl rfl
  report := fun m u t' Rb _ hm => by
    obtain ⟨h1, h2, h3, h4⟩ := h.report (m, u, t', Rb) hm
    exact ⟨T.gcB_sound h1, h2, fun x tx hx hlt => h3 (m, x, tx) hx rfl hlt, fun x tx hx hle => h4 (m, x, tx) hx rfl hle⟩
  report_mono := fun m u1 u2 t1 t2 R1 R2 _ h1 h2 hle =>
    h.report_mono (m, u1, t1, R1) h1 (m, u2, t2, R2) h2 rfl hle

theorem discipline' (h : T.OK) (hr : T.RealOK) : Discipline' T.sys where
  base := T.discipline h
  report_below := fun m u t Rb _ hm => hr.report_below (m, u, t, Rb) hm
  vote_after_tc := fun r w t _ hv => by
    rcases hr.vote_after_tc (r, w, t) hv with h1 | h1
    · exact Or.inl h1
    · by_cases hle : T.view w ≤ 1
      · exact Or.inl hle
      · exact Or.inr ⟨T.view w - 1, by show T.view w - 1 + 1 = T.view w; omega, T.tcB_sound h1⟩
  tmo_after_tc := fun m u t Rb _ hm => by
    rcases hr.tmo_after_tc (m, u, t, Rb) hm with h1 | h1
    · exact Or.inl h1
    · by_cases hle : u ≤ 1
      · exact Or.inl hle
      · exact Or.inr ⟨u - 1, by omega, T.tcB_sound h1⟩

end Tbl

/-! ### The counterexample -/

/-- view 3: a:b1 b:b1 c:b0 z1 z2 -/
def A3 : Agg := ([0, 1, 2, 5, 6], 3, [(0, 2), (1, 2), (2, 1)])
/-- view 5, shown to c (and e): a:P d:P e:gen z1 z2 -/
def A5c : Agg := ([0, 3, 4, 5, 6], 5, [(0, 3), (3, 3)])
/-- view 5, shown to d: b:Q c:Q e:gen z1 z2 -/
def A5d : Agg := ([1, 2, 4, 5, 6], 5, [(1, 4), (2, 4)])

def efull : Tbl where
  --        gen b0 b1 P  Q  w  w1 w2
  viewL := [0,  1, 2, 3, 4, 6, 7, 8]
  parL  := [0,  0, 1, 2, 2, 0, 5, 6]
  votes :=
    [(0, 1, 1), (1, 1, 2), (2, 1, 3),
     (0, 2, 7), (1, 2, 8), (2, 2, 9),
     (0, 3, 13), (1, 3, 14), (3, 3, 15),
     (0, 4, 19), (1, 4, 20), (2, 4, 21),
     (2, 5, 30), (3, 5, 31), (4, 5, 32),
     (2, 6, 36), (3, 6, 37), (4, 6, 38),
     (2, 7, 42)]
  tmos :=
    [(0, 1, 4, 0), (1, 1, 5, 0), (2, 1, 6, 0),
     (2, 2, 10, 1), (3, 2, 11, 0), (4, 2, 12, 0),
     (0, 3, 16, 2), (1, 3, 17, 2), (2, 3, 18, 1),
     (0, 4, 22, 2), (1, 4, 23, 2), (2, 4, 24, 2),
     (0, 5, 25, 3), (1, 5, 26, 4), (2, 5, 27, 4), (3, 5, 28, 3), (4, 5, 29, 0),
     (2, 6, 33, 4), (3, 6, 34, 3), (4, 6, 35, 0),
     (2, 7, 39, 5), (3, 7, 40, 5), (4, 7, 41, 5)]
  hasL :=
    [(0, 1, 1), (0, 2, 7), (0, 3, 13), (0, 4, 19),
     (1, 1, 2), (1, 2, 8), (1, 3, 14), (1, 4, 20),
     (2, 1, 3), (2, 2, 9), (2, 4, 21), (2, 5, 30), (2, 6, 36), (2, 7, 42),
     (3, 2, 15), (3, 3, 15), (3, 5, 31), (3, 6, 37),
     (4, 5, 32), (4, 6, 38)]
  aggs := [A3, A5c, A5d]
  aggFor := fun r b =>
    if b = 4 then some 0
    else if b = 5 then (if r = 3 then some 2 else some 1)
    else none

/-- the counterexample system -/
def ecex : TSys := efull.sys

theorem efull_ok : efull.OK where
  gen_view := by decide
  par_gen := by decide
  one_per_view := by decide +kernel
  vote_order := by decide +kernel
  wf := by decide +kernel
  just := by decide +kernel
  tmo_once := by decide +kernel
  report := by decide +kernel
  report_mono := by decide +kernel

theorem efull_real : efull.RealOK where
  report_below := by decide +kernel
  vote_after_tc := by decide +kernel
  tmo_after_tc := by decide +kernel

/-- **The instance satisfies the whole discipline of Fast-HotStuff as implemented, and the pacemaker facts ...** -/
theorem ecex_discipline' : Discipline' ecex := efull.discipline' efull_ok efull_real

theorem ecex_discipline : Discipline ecex := ecex_discipline'.base

/-- **... and exact freshness.** -/
theorem ecex_exact : ExactFresh ecex := efull.exact efull_ok

/-- realism, beyond `Discipline'`: all events happen at distinct times -/
theorem efull_times_distinct :
    ((efull.votes.map (fun e => e.2.2)) ++ (efull.tmos.map (fun e => e.2.2.1))).Nodup := by
  decide +kernel

/-! #### the two conflicting commits -/

theorem echain_b : TwoChain ecex (1 : B) (2 : B) where
  p := by show efull.par (2 : B) = (1 : B); decide
  v := by show efull.view (2 : B) = efull.view (1 : B) + 1; decide
  cert := (efull.certB_sound (b := 2) (t := 10) (by decide +kernel)).certified

theorem echain_w : TwoChain ecex (5 : B) (6 : B) where
  p := by show efull.par (6 : B) = (5 : B); decide
  v := by show efull.view (6 : B) = efull.view (5 : B) + 1; decide
  cert := (efull.certB_sound (b := 6) (t := 39) (by decide +kernel)).certified

theorem up_zero (k : Nat) : up ecex.toSys k (0 : B) = (0 : B) :=
  up_gen (S := ecex.toSys) (by show efull.par (0 : B) = (0 : B); decide) k

theorem not_ext_b_w : ¬ TExt ecex (1 : B) (5 : B) := by
  rintro ⟨k, hk⟩
  match k with
  | 0 =>
    have hk' : (1 : B) = (5 : B) := hk
    exact absurd hk' (by decide)
  | k + 1 =>
    have : up ecex.toSys (k + 1) (1 : B) = up ecex.toSys k (0 : B) := rfl
    rw [this, up_zero k] at hk
    have hk' : (0 : B) = (5 : B) := hk
    exact absurd hk' (by decide)

theorem not_ext_w_b : ¬ TExt ecex (5 : B) (1 : B) := by
  rintro ⟨k, hk⟩
  match k with
  | 0 =>
    have hk' : (5 : B) = (1 : B) := hk
    exact absurd hk' (by decide)
  | k + 1 =>
    have : up ecex.toSys (k + 1) (5 : B) = up ecex.toSys k (0 : B) := rfl
    rw [this, up_zero k] at hk
    have hk' : (0 : B) = (1 : B) := hk
    exact absurd hk' (by decide)

/-- **Two committed blocks that are not on one branch.** -/
theorem ecex_conflict : ¬ (TExt ecex (1 : B) (5 : B) ∨ TExt ecex (5 : B) (1 : B)) := by
  rintro (h | h)
  · exact not_ext_b_w h
  · exact not_ext_w_b h

/-- the instance violates the three extra hypotheses (it must, by the three safety theorems) -/
theorem ecex_not_strict : ¬ StrictJust ecex := fun hs =>
  ecex_conflict (fast_committed_on_one_branch_strict ecex_discipline hs echain_b echain_w)

theorem ecex_not_uniform : ¬ UniformJust ecex := fun hu =>
  ecex_conflict (fast_committed_on_one_branch_uniform ecex_discipline hu echain_b echain_w)

theorem ecex_not_locked : ¬ LockJust ecex := fun hl =>
  ecex_conflict (fast_committed_on_one_branch_locked ecex_discipline hl echain_b echain_w)

/-! #### where exactly the argument breaks -/

/-- the fork above the committed pair: `P` (block 3, view 3) and `Q` (block 4, view 4) are both children of `b1`
and both certified before the view 5 timeouts; c (replica 2) never has `P`, d (replica 3) never has `Q` -/
theorem fork_above_b1 :
    efull.par (3 : B) = 2 ∧ efull.par (4 : B) = 2 ∧ efull.certB 3 25 = true ∧ efull.certB 4 25 = true ∧
    efull.hasB 2 3 42 = false ∧ efull.hasB 3 4 42 = false := by
  decide +kernel

/-- c (replica 2), an honest voter of `b1` whose own high QC is `Q` (it reports it at time 27), votes at time 30 for
`w` (block 5, view 6, parent genesis): the aggregate QC A5c it is shown is of view 5 = 6 - 1 and contains the timeout
of a (replica 0, an honest voter of `b1`) reporting `P` (view 3 ≥ view b0) -- c does not have `P`: skipped. -/
theorem c_skips_report :
    (2, 5, 30) ∈ efull.votes ∧ efull.aggOf 2 5 = some A5c ∧ A5c.2.1 + 1 = efull.view 5 ∧
    (2, 2, 9) ∈ efull.votes ∧ (2, 5, 27, 4) ∈ efull.tmos ∧
    (0, 2, 7) ∈ efull.votes ∧ (0, 5, 25, 3) ∈ efull.tmos ∧ efull.view 1 ≤ efull.view 3 ∧
    efull.hasB 2 3 30 = false ∧ efull.par 5 = 0 :=
  ⟨by decide, rfl, by decide, by decide, by decide, by decide, by decide, by decide, by decide +kernel, by decide⟩

/-- d (replica 3), whose own high QC is `P`, votes for `w` at time 31 against A5d (view 5): the reports of b and c
(honest voters of `b1`) are for `Q`, which d does not have: skipped. -/
theorem d_skips_report :
    (3, 5, 31) ∈ efull.votes ∧ efull.aggOf 3 5 = some A5d ∧ A5d.2.1 + 1 = efull.view 5 ∧
    (3, 5, 28, 3) ∈ efull.tmos ∧
    (1, 2, 8) ∈ efull.votes ∧ (1, 5, 26, 4) ∈ efull.tmos ∧ (2, 5, 27, 4) ∈ efull.tmos ∧
    efull.view 1 ≤ efull.view 4 ∧ efull.hasB 3 4 31 = false :=
  ⟨by decide, rfl, by decide, by decide, by decide, by decide, by decide, by decide, by decide +kernel⟩

/-- the direct witness against `LockJust`: c voted for `b1` (QC for `b0`, view 1) at 9 and for `w` (QC for genesis) at 30 -/
theorem c_lowers_qc :
    (2, 2, 9) ∈ efull.votes ∧ (2, 5, 30) ∈ efull.votes ∧ efull.view (efull.par 5) < efull.view (efull.par 2) := by
  decide +kernel

/-- the quorum system is the implementation's: n = 7, `numFaulty 7 = 2` Byzantine replicas, `quorumSize 7 = 5` -/
theorem ecex_sizes : numFaulty 7 = 2 ∧ quorumSize 7 = 5 ∧ count byz 7 = 2 := by decide

/-! ### Non-vacuity of the theorem under `LockJust`: the honest branch of F1's schedule (`FastCex.good`) -/

/-- decidable form of `LockJust` on the tables of `Proofs/FastCex.lean` -/
def LockOK (T : FastCex.Tbl) : Prop := ∀ e1 ∈ T.votes, ∀ e2 ∈ T.votes, e1.1 = e2.1 → e1.2.2 < e2.2.2 →
  FastCex.view (FastCex.par e1.2.1) ≤ FastCex.view (FastCex.par e2.2.1)

instance (T : FastCex.Tbl) : Decidable (LockOK T) := by
  unfold LockOK; exact inferInstance

theorem lock_of {T : FastCex.Tbl} (h : LockOK T) : LockJust T.sys :=
  fun r x w tx t _ h1 h2 hlt => h (r, x, tx) h1 (r, w, t) h2 rfl hlt

theorem good_locked : LockJust FastCex.good.sys := lock_of (by decide +kernel)

/-- the honest branch of F1's schedule also satisfies EF: its only aggregate QC (A3, view 3) justifies X (view 4) -/
theorem good_exact : ExactFresh FastCex.good.sys := by
  intro r w t hh hv
  rcases FastCex.good_ok.just (r, w, t) hv with hp | ⟨a, ha, hok⟩
  · exact Or.inl hp
  · refine Or.inr ⟨_, _, _, FastCex.Tbl.aggOK_sound _ hok, ?_⟩
    have hall : ∀ e ∈ FastCex.good.votes, ∀ a, FastCex.good.aggOf e.1 e.2.1 = some a → a.2.1 + 1 = FastCex.view e.2.1 := by
      decide +kernel
    exact hall (r, w, t) hv a ha

end HsVerif.FastExact
