import HsVerif.Proofs.ReplicaProgress
import HsVerif.Proofs.SysInv
import Std.Data.String.ToNat
/-!
The fault-free synchronous run (C05, Stage 2), generic in the number `n` of replicas and in the
number of rounds.

* The synchronous network over the system of replica models: `syncRound` delivers every message in
  flight to its addressee (in order) and collects what the addressees send; the run
  `syncRun k C r` (`Synchronizer.Start` everywhere, then `r` rounds) is a run of the system
  (`syncRun_reach`: every delivery is a `sysStep`, so all theorems about `Reach` apply to it).
* The committer over a store that cannot fetch (`fetchable = []`): pure mirrors `commitRuleL`,
  `commitInnerL`, `tcL` of `commitRule`, `commitInner`, `tryCommit` (`tcS_eq_tcL`).
* The blocks of the happy path: `hb w sg m` (block of view `m`, proposed by `w.cfg m`, certificate
  `hqc sg (m-1)` with combined signature `sg (m-1)`), the store `chainOf w sg j`; what `tryCommit`
  does on it (`tcL_happy`: lock to block `j-1`, commit block `j-2`).
* One replica on the happy path: `Base w sg j s` (view, high QC, last vote, lock, committed block,
  stored chain — everything the protocol reads) and the exact steps `nl_propose_step` (a
  non-leader receives the next proposal), `leader_start`, `leader_propose`, `leader_vote_add`,
  `leader_vote_quorum`, `newview_noop`, `late_vote_noop`.
* The system with a FIXED leader: the phases `SyncedB j` (block `j+1` proposed, in flight) and
  `SyncedA j` (everybody has it, votes in flight), the round lemmas `round_BA`, `round_AB`
  (`deliver_proposals`, `deliver_votes`: folds over the messages of a round), `start_synced`, and
  `sync_phases`: the run alternates between the phases for ever.  Round-robin leaders:
  Proofs/SysProgressRR.lean.
-/
open Std.Do
set_option mvcgen.warning false
set_option linter.unusedSimpArgs false
set_option linter.unusedVariables false
namespace HsVerif.Model
open HsVerif.Proofs

/-- messages in flight: addressee and event -/
abbrev Msgs := List (Nat × Ev)

/-- where the effects of replica `i` go: a proposal and a timeout message to every other honest
replica (in the order of `C.honest`), a vote and a new-view message to their addressee -/
def route (C : SysCfg) (i : Nat) : List Out → Msgs
  | [] => []
  | .sendPropose b agg :: rest => ((C.honest.filter (· != i)).map fun j => (j, Ev.propose i b agg)) ++ route C i rest
  | .sendVote to sig h :: rest => (to, Ev.vote i (some sig) h false) :: route C i rest
  | .sendNewView to si :: rest => (to, Ev.newview i si) :: route C i rest
  | .sendTimeout t :: rest => ((C.honest.filter (· != i)).map fun j => (j, Ev.timeout t)) ++ route C i rest
  | _ :: rest => route C i rest

/-- `SysState.run` that also returns the effects -/
def SysState.runOut (σ : SysState) (i : Nat) (f : RState → RState × List Out) : SysState × List Out :=
  match σ.reps.lookup i with
  | none => (σ, [])
  | some s =>
    let r := f { s with truth := σ.truth, nextBytes := σ.nextBytes }
    ({ reps := setKV i r.1 σ.reps, truth := r.1.truth, nextBytes := r.1.nextBytes }, r.2)

theorem SysState.runOut_fst (σ : SysState) (i : Nat) (f : RState → RState × List Out) :
    (σ.runOut i f).1 = σ.run i f := by
  cases h : σ.reps.lookup i <;> simp [SysState.runOut, SysState.run, h]

/-- deliver the messages one after the other, collecting what the addressees send -/
def deliverAll (k : Keys) (C : SysCfg) : SysState × Msgs → Msgs → SysState × Msgs
  | acc, [] => acc
  | (σ, out), (i, e) :: rest =>
    let r := σ.runOut i (fun s => step k (C.rcfg i) s e)
    deliverAll k C (r.1, out ++ route C i r.2) rest

/-- one synchronous round: every message in flight reaches its addressee, in order -/
def syncRound (k : Keys) (C : SysCfg) (x : SysState × Msgs) : SysState × Msgs :=
  deliverAll k C (x.1, []) x.2

/-- `Synchronizer.Start` at every replica, in the order of `C.honest` -/
def startAll (k : Keys) (C : SysCfg) : SysState × Msgs → List Nat → SysState × Msgs
  | acc, [] => acc
  | (σ, out), i :: rest =>
    let r := σ.runOut i (start k (C.rcfg i))
    startAll k C (r.1, out ++ route C i r.2) rest

def syncStart (k : Keys) (C : SysCfg) : SysState × Msgs := startAll k C (sysInit k C, []) C.honest

def syncRun (k : Keys) (C : SysCfg) : Nat → SysState × Msgs
  | 0 => syncStart k C
  | r + 1 => syncRound k C (syncRun k C r)

theorem deliverAll_reach (k : Keys) (C : SysCfg) : ∀ (ms : Msgs) (x : SysState × Msgs),
    Reach k C x.1 → Reach k C (deliverAll k C x ms).1 := by
  intro ms
  induction ms with
  | nil => intro x h; exact h
  | cons m rest ih =>
    intro x h
    obtain ⟨σ, out⟩ := x
    obtain ⟨i, e⟩ := m
    unfold deliverAll
    apply ih
    show Reach k C (σ.runOut i _).1
    rw [SysState.runOut_fst]
    exact Reach.step σ (.deliver i e) h

theorem startAll_reach (k : Keys) (C : SysCfg) : ∀ (l : List Nat) (x : SysState × Msgs),
    Reach k C x.1 → Reach k C (startAll k C x l).1 := by
  intro l
  induction l with
  | nil => intro x h; exact h
  | cons i rest ih =>
    intro x h
    obtain ⟨σ, out⟩ := x
    unfold startAll
    apply ih
    show Reach k C (σ.runOut i _).1
    rw [SysState.runOut_fst]
    exact Reach.step σ (.start i) h

/-- **the synchronous run is a run of the system** (`Reach`: every delivery is a `sysStep`) -/
theorem syncRun_reach (k : Keys) (C : SysCfg) (r : Nat) : Reach k C (syncRun k C r).1 := by
  induction r with
  | zero => exact startAll_reach k C C.honest _ Reach.init
  | succ r ih => exact deliverAll_reach k C _ _ ih

/-! ## the committer over a store that cannot fetch (`fetchable = []`) -/

theorem getBlock_nofetch (h : Hash) (s : RState) (hf : s.chain.fetchable = []) :
    (getBlock h).run s = pure (s.chain.blocks.lookup h, s) := by
  cases hl : s.chain.blocks.lookup h with
  | some b => exact getBlock_local h b s hl
  | none => simp [getBlock, RChain.get, hl, hf]

theorem getBlock_nofetch' (h : Hash) (s : RState) (hf : s.chain.fetchable = []) :
    ∀ s' : RState, s'.chain = s.chain → (getBlock h).run s' = pure (s.chain.blocks.lookup h, s') := by
  intro s' hc
  rw [← hc]; exact getBlock_nofetch h s' (by rw [hc]; exact hf)

def qcRefL (st : List (Hash × Block)) (q : QC) : Option Block := if q.hash == "" then none else st.lookup q.hash

theorem qcRef_nofetch (q : QC) (s : RState) (hf : s.chain.fetchable = []) :
    ∀ s' : RState, s'.chain = s.chain → (qcRef q).run s' = pure (qcRefL s.chain.blocks q, s') := by
  intro s' hc
  unfold qcRef qcRefL
  split
  · rfl
  · exact getBlock_nofetch' q.hash s hf s' hc

/-- `commitRule` (chained and simplified HotStuff) over a local store: the new lock and the block to commit -/
def commitRuleL (r : Rules) (st : List (Hash × Block)) (lock : Block) (b : Block) : Block × Option Block :=
  match r with
  | .chained =>
    match qcRefL st b.qc with
    | none => (lock, none)
    | some b1 =>
    match qcRefL st b1.qc with
    | none => (lock, none)
    | some b2 =>
    let lock' := if b2.view > lock.view then b2 else lock
    match qcRefL st b2.qc with
    | none => (lock', none)
    | some b3 =>
    if b1.parent == b2.hash && b1.view == b2.view + 1 && b2.parent == b3.hash && b2.view == b3.view + 1 then
      (lock', some b3)
    else (lock', none)
  | .simple =>
    match st.lookup b.qc.hash with
    | none => (lock, none)
    | some p =>
    match st.lookup p.qc.hash with
    | none => (lock, none)
    | some gp =>
    let lock' := if gp.view > lock.view then gp else lock
    match st.lookup gp.qc.hash with
    | none => (lock', none)
    | some ggp =>
    if ggp.view + 2 == p.view && gp.view == ggp.view + 1 then (lock', some ggp) else (lock', none)
  | .fast => (lock, none)

theorem commitRule_nofetch (c : RCfg) (hr : c.rules ≠ .fast) (b : Block) (s : RState) (hf : s.chain.fetchable = []) :
    (commitRule c b).run s =
      pure ((commitRuleL c.rules s.chain.blocks s.lock b).2, { s with lock := (commitRuleL c.rules s.chain.blocks s.lock b).1 }) := by
  have hq := qcRef_nofetch
  have hg := getBlock_nofetch'
  cases hc : c.rules with
  | fast => exact absurd hc hr
  | chained =>
    unfold commitRuleL
    simp only [commitRule, hc]
    cases h1 : qcRefL s.chain.blocks b.qc with
    | none => simp [hq b.qc s hf s rfl, h1]
    | some b1 =>
      cases h2 : qcRefL s.chain.blocks b1.qc with
      | none => simp [hq b.qc s hf s rfl, h1, hq b1.qc s hf s rfl, h2]
      | some b2 =>
        cases h3 : qcRefL s.chain.blocks b2.qc with
        | none => simp [hq b.qc s hf s rfl, h1, hq b1.qc s hf s rfl, h2, hq b2.qc s hf, h3]
        | some b3 =>
          simp [hq b.qc s hf s rfl, h1, hq b1.qc s hf s rfl, h2, hq b2.qc s hf, h3]
          split <;> simp_all
  | simple =>
    unfold commitRuleL
    simp only [commitRule, hc]
    cases h1 : s.chain.blocks.lookup b.qc.hash with
    | none => simp [hg b.qc.hash s hf s rfl, h1]
    | some b1 =>
      cases h2 : s.chain.blocks.lookup b1.qc.hash with
      | none => simp [hg b.qc.hash s hf s rfl, h1, hg b1.qc.hash s hf s rfl, h2]
      | some b2 =>
        cases h3 : s.chain.blocks.lookup b2.qc.hash with
        | none => simp [hg b.qc.hash s hf s rfl, h1, hg b1.qc.hash s hf s rfl, h2, hg b2.qc.hash s hf, h3]
        | some b3 =>
          simp [hg b.qc.hash s hf s rfl, h1, hg b1.qc.hash s hf s rfl, h2, hg b2.qc.hash s hf, h3]
          split <;> simp_all


/-- `commitInner` over a local store: success, the new committed block, the queued events -/
def commitInnerL : Nat → List (Hash × Block) → Block → Block → Bool × Block × List Ev
  | 0, _, cm, _ => (false, cm, [])
  | f + 1, st, cm, b =>
    if cm.view ≥ b.view then (true, cm, [])
    else match st.lookup b.parent with
      | none => (false, cm, [])
      | some p =>
        let r := commitInnerL f st cm p
        if !r.1 then (false, r.2.1, r.2.2) else (true, b, r.2.2 ++ [.commit b, .exec b])

theorem commitInner_nofetch : ∀ (fuel : Nat) (b : Block) (s : RState), s.chain.fetchable = [] →
    (commitInner fuel b).run s =
      pure ((commitInnerL fuel s.chain.blocks s.committed b).1,
        { s with committed := (commitInnerL fuel s.chain.blocks s.committed b).2.1,
                 queue := s.queue ++ (commitInnerL fuel s.chain.blocks s.committed b).2.2 }) := by
  intro fuel
  induction fuel with
  | zero => intro b s hf; simp [commitInner, commitInnerL]
  | succ n ih =>
    intro b s hf
    unfold commitInnerL
    by_cases hv : s.committed.view ≥ b.view
    · simp [commitInner, hv]
    · cases hl : s.chain.blocks.lookup b.parent with
      | none => simp [commitInner, hv, getBlock_nofetch _ s hf, hl]
      | some p =>
        have := ih p s hf
        cases hr : (commitInnerL n s.chain.blocks s.committed p).1 with
        | false => simp [commitInner, hv, getBlock_nofetch _ s hf, hl, this, hr]
        | true => simp [commitInner, hv, getBlock_nofetch _ s hf, hl, this, hr, addEvent]

theorem abortFold_run (forked : List Block) (s : RState) :
    (List.foldlM (fun (_ : PUnit) a => addEvent (Ev.abort a)) PUnit.unit forked : M PUnit).run s =
      pure (PUnit.unit, { s with queue := s.queue ++ forked.map Ev.abort }) := by
  induction forked generalizing s with
  | nil => simp
  | cons f rest ih => simp [addEvent] at ih ⊢; rw [ih]; simp

theorem store_fetchable (ch : RChain) (b : Block) : (ch.store b).fetchable = ch.fetchable := by
  unfold RChain.store; split <;> rfl

/-- the state after `tryCommit c b` when nothing can be fetched -/
def tcL (c : RCfg) (b : Block) (s : RState) : RState :=
  let ch := s.chain.store b
  let r := commitRuleL c.rules ch.blocks s.lock b
  match r.2 with
  | none => { s with chain := ch, lock := r.1 }
  | some t =>
    let ci := commitInnerL (ch.fuel + 1) ch.blocks s.committed t
    if !ci.1 then { s with chain := ch, lock := r.1, committed := ci.2.1, queue := s.queue ++ ci.2.2 }
    else
      let pr := ch.pruneToHeight ci.2.1 t.view
      { s with chain := pr.1, lock := r.1, committed := ci.2.1, queue := s.queue ++ ci.2.2 ++ pr.2.map Ev.abort }

theorem tcS_eq_tcL (c : RCfg) (hr : c.rules ≠ .fast) (b : Block) (s : RState) (hf : s.chain.fetchable = []) :
    tcS c b s = tcL c b s := by
  have hf1 : ({ s with chain := s.chain.store b } : RState).chain.fetchable = [] := by
    show (s.chain.store b).fetchable = []
    rw [store_fetchable]; exact hf
  have h1 := commitRule_nofetch c hr b { s with chain := s.chain.store b } hf1
  dsimp only at h1
  unfold tcS tcL
  cases hcr : (commitRuleL c.rules (s.chain.store b).blocks s.lock b).2 with
  | none =>
    simp [tryCommit, h1, hcr]
    rfl
  | some t =>
    have h2 := commitInner_nofetch ((s.chain.store b).fuel + 1) t
      { s with chain := s.chain.store b, lock := (commitRuleL c.rules (s.chain.store b).blocks s.lock b).1 } hf1
    dsimp only at h2
    cases hci : (commitInnerL ((s.chain.store b).fuel + 1) (s.chain.store b).blocks s.committed t).1 with
    | false => simp [tryCommit, h1, hcr, h2, hci]; rfl
    | true =>
      simp [tryCommit, h1, hcr, h2, hci, abortFold_run]
      rfl


/-! ## the blocks of the happy path -/

/-- the name of the block proposed in view `v` -/
def pname (v : Nat) : Hash := s!"P{v}"
theorem pname_eq (v : Nat) : pname v = "P" ++ Nat.repr v := by
  simp [pname, toString]
theorem pname_inj {a b : Nat} (h : pname a = pname b) : a = b := by
  rw [pname_eq, pname_eq] at h
  exact Nat.repr_inj.mp ((String.append_right_inj "P").mp h)
theorem pname_ne_genesis (a : Nat) : pname a ≠ genesisHash := by
  rw [pname_eq]; unfold genesisHash
  intro e
  have := congrArg (fun s => s.toList.head?) e
  simp at this
theorem pname_ne_empty (a : Nat) : pname a ≠ "" := by
  rw [pname_eq]
  intro e
  have := congrArg (fun s => s.toList.head?) e
  simp at this
theorem mkBlock_hash (c : RCfg) (v n : Nat) (q : QC) : (mkBlock c v n q).hash = pname v := rfl
/-- hash of the `m`-th block of the happy path (`0`: genesis) -/
def hname : Nat → Hash
  | 0 => genesisHash
  | m + 1 => pname (m + 1)

/-- the certificate for the `m`-th block, made of the combined signature `sg m` -/
def hqc (sg : Nat → Sig) : Nat → QC
  | 0 => genesisQC
  | m + 1 => ⟨some (sg (m + 1)), m + 1, pname (m + 1)⟩

/-- who proposes the block of view `v` (`cfg v`: the proposer's configuration) and which of its
commands goes into it (`cnt v`: the proposer's command counter at that time) -/
structure Who where
  cfg : Nat → RCfg
  cnt : Nat → Nat

/-- one replica `c` proposes every block; its command counter is the view -/
def fixedWho (c : RCfg) : Who := ⟨fun _ => c, fun m => m⟩

/-- the `m`-th block of the happy path: proposed by `(c.cfg m).id` in view `m` on the certificate for block `m - 1` -/
def hb (c : Who) (sg : Nat → Sig) : Nat → Block
  | 0 => genesisBlock
  | m + 1 => mkBlock (c.cfg (m + 1)) (m + 1) (c.cnt (m + 1)) (hqc sg m)

/-- the block store after the first `j` blocks -/
def chainOf (c : Who) (sg : Nat → Sig) : Nat → List (Hash × Block)
  | 0 => [(genesisHash, genesisBlock)]
  | j + 1 => (pname (j + 1), hb c sg (j + 1)) :: chainOf c sg j

theorem hname_inj {a b : Nat} (h : hname a = hname b) : a = b := by
  cases a <;> cases b
  · rfl
  · exact absurd h.symm (pname_ne_genesis _)
  · exact absurd h (pname_ne_genesis _)
  · exact pname_inj h

theorem hname_ne_empty (a : Nat) : hname a ≠ "" := by
  cases a
  · unfold hname genesisHash; decide
  · exact pname_ne_empty _

theorem hb_hash (c : Who) (sg : Nat → Sig) (m : Nat) : (hb c sg m).hash = hname m := by
  cases m <;> rfl
theorem hb_view (c : Who) (sg : Nat → Sig) (m : Nat) : (hb c sg m).view = m := by
  cases m <;> rfl
theorem hqc_hash (sg : Nat → Sig) (m : Nat) : (hqc sg m).hash = hname m := by
  cases m <;> rfl
theorem hqc_view (sg : Nat → Sig) (m : Nat) : (hqc sg m).view = m := by
  cases m <;> rfl
theorem hb_qc (c : Who) (sg : Nat → Sig) (m : Nat) : (hb c sg (m + 1)).qc = hqc sg m := rfl
theorem hb_parent (c : Who) (sg : Nat → Sig) (m : Nat) : (hb c sg (m + 1)).parent = hname m := by
  show (hqc sg m).hash = _; exact hqc_hash sg m
theorem hb_zero_qc (c : Who) (sg : Nat → Sig) : (hb c sg 0).qc.hash = "" := rfl

theorem lookup_chainOf (c : Who) (sg : Nat → Sig) (j m : Nat) :
    (chainOf c sg j).lookup (hname m) = if m ≤ j then some (hb c sg m) else none := by
  induction j with
  | zero =>
    cases m with
    | zero => simp [chainOf, hname, hb]
    | succ m =>
      have : (hname (m + 1) == genesisHash) = false := by
        simp [hname]; exact pname_ne_genesis _
      simp [chainOf, List.lookup, this]
  | succ j ih =>
    unfold chainOf
    rw [List.lookup_cons]
    by_cases hm : m = j + 1
    · subst hm
      simp [hname]
    · have : (hname m == pname (j + 1)) = false := by
        rw [beq_eq_false_iff_ne]
        intro e
        exact hm (hname_inj (b := j + 1) e)
      rw [this, ih]
      by_cases h1 : m ≤ j
      · simp [h1, Nat.le_succ_of_le h1]
      · have : ¬ m ≤ j + 1 := by omega
        simp [h1, this]

theorem lookup_chainOf_empty (c : Who) (sg : Nat → Sig) (j : Nat) : (chainOf c sg j).lookup "" = none := by
  induction j with
  | zero => simp [chainOf, List.lookup, genesisHash]
  | succ j ih =>
    unfold chainOf
    rw [List.lookup_cons]
    have : (("" : Hash) == pname (j + 1)) = false := by
      rw [beq_eq_false_iff_ne]; exact (pname_ne_empty _).symm
    rw [this, ih]

theorem chainOf_length (c : Who) (sg : Nat → Sig) (j : Nat) : (chainOf c sg j).length = j + 1 := by
  induction j with
  | zero => rfl
  | succ j ih => simp [chainOf, ih]

/-- `hb` below `m + 1` looks at `sg` below `m + 1` only -/
theorem hqc_congr (sg sg' : Nat → Sig) (m : Nat) (h : ∀ i, i ≤ m → sg i = sg' i) : hqc sg m = hqc sg' m := by
  cases m with
  | zero => rfl
  | succ m => simp [hqc, h (m + 1) (Nat.le_refl _)]

theorem hb_congr (c : Who) (sg sg' : Nat → Sig) (m : Nat) (h : ∀ i, i < m → sg i = sg' i) : hb c sg m = hb c sg' m := by
  cases m with
  | zero => rfl
  | succ m => simp [hb, hqc_congr sg sg' m (fun i hi => h i (by omega))]

theorem chainOf_congr (c : Who) (sg sg' : Nat → Sig) (j : Nat) (h : ∀ i, i < j → sg i = sg' i) :
    chainOf c sg j = chainOf c sg' j := by
  induction j with
  | zero => rfl
  | succ j ih =>
    simp [chainOf, hb_congr c sg sg' (j + 1) h, ih (fun i hi => h i (by omega))]

theorem pruneAux_fetchable (ch : List Hash) : ∀ (fuel h : Nat) (c : RChain) (acc : List Block),
    (RChain.pruneAux ch fuel h c acc).1.fetchable = c.fetchable ∧
    (RChain.pruneAux ch fuel h c acc).1.pruneHeight = c.pruneHeight ∧
    (RChain.pruneAux ch fuel h c acc).2.length ≤ acc.length + (h - c.pruneHeight) := by
  intro fuel
  induction fuel with
  | zero => intro h c acc; exact ⟨rfl, rfl, Nat.le_add_right _ _⟩
  | succ n ih =>
    intro h c acc
    unfold RChain.pruneAux
    split
    · rename_i hgt
      simp only
      obtain ⟨h1, h2, h3⟩ := ih (h - 1) { c with atHeight := c.atHeight.filter (fun p => p.1 != h) }
        (match (match (c.atHeight.lookup h).bind (fun x => c.blocks.lookup x) with
            | some b => if ch.contains b.hash then none else some b
            | none => none) with
          | some b => acc ++ [b]
          | none => acc)
      refine ⟨h1, h2, Nat.le_trans h3 ?_⟩
      simp only
      split <;> simp <;> omega
    · exact ⟨rfl, rfl, Nat.le_add_right _ _⟩

theorem pruneToHeight_facts (c : RChain) (cm : Block) (h : Nat) :
    (c.pruneToHeight cm h).1.blocks = c.blocks ∧ (c.pruneToHeight cm h).1.fetchable = c.fetchable ∧
    (c.pruneToHeight cm h).1.pruneHeight = h ∧ (c.pruneToHeight cm h).2.length ≤ h - c.pruneHeight := by
  refine ⟨pruneToHeight_blocks c cm h, ?_, ?_, ?_⟩
  · unfold RChain.pruneToHeight
    simp only
    exact (pruneAux_fetchable _ _ _ _ _).1
  · unfold RChain.pruneToHeight
    rfl
  · unfold RChain.pruneToHeight
    simp only
    have := (pruneAux_fetchable (RChain.committedHashesAux (c.fuel + 2) c cm [cm.hash]) (h + 1) h c []).2.2
    simpa using this


theorem qcRefL_chain (c : Who) (sg : Nat → Sig) (J m : Nat) (h : m ≤ J) :
    qcRefL (chainOf c sg J) (hqc sg m) = some (hb c sg m) := by
  unfold qcRefL
  rw [hqc_hash]
  have : (hname m == "") = false := by rw [beq_eq_false_iff_ne]; exact hname_ne_empty m
  rw [this, lookup_chainOf]
  simp [h]

theorem lookup_hqc (c : Who) (sg : Nat → Sig) (J m : Nat) (h : m ≤ J) :
    (chainOf c sg J).lookup (hqc sg m).hash = some (hb c sg m) := by
  rw [hqc_hash, lookup_chainOf]; simp [h]

theorem store_happy (cL : Who) (sg : Nat → Sig) (j : Nat) (ch : RChain) (hb' : ch.blocks = chainOf cL sg j) :
    (ch.store (hb cL sg (j + 1))).blocks = chainOf cL sg (j + 1) ∧
    (ch.store (hb cL sg (j + 1))).fetchable = ch.fetchable ∧
    (ch.store (hb cL sg (j + 1))).pruneHeight = ch.pruneHeight := by
  have hl : ch.blocks.lookup (hb cL sg (j + 1)).hash = none := by
    rw [hb', hb_hash, lookup_chainOf]; simp
  unfold RChain.store
  rw [hl]
  refine ⟨?_, rfl, rfl⟩
  show (_ :: ch.blocks) = _
  rw [hb']; rfl

/-- what `commitRule` answers on the happy chain `chainOf (j+1)` for its newest block, with the lock
on block `j - 2`: the lock moves to block `j - 1`, and block `j - 2` is to be committed (`j ≥ 2`) -/
theorem commitRuleL_happy (cL : Who) (sg : Nat → Sig) (r : Rules) (hr : r = .chained ∨ r = .simple) (j : Nat) :
    commitRuleL r (chainOf cL sg (j + 1)) (hb cL sg (j - 2)) (hb cL sg (j + 1)) =
      (hb cL sg (j - 1), if 2 ≤ j then some (hb cL sg (j - 2)) else none) := by
  rcases hr with rfl | rfl
  · -- chained
    unfold commitRuleL
    simp only [hb_qc]
    rw [qcRefL_chain cL sg (j + 1) j (by omega)]
    simp only
    match j with
    | 0 => simp [hb, qcRefL, genesisBlock]
    | 1 =>
      simp only [hb_qc]
      rw [qcRefL_chain cL sg 2 0 (by omega)]
      simp [hb, qcRefL, genesisBlock]
    | k + 2 =>
      simp only [hb_qc]
      rw [qcRefL_chain cL sg (k + 3) (k + 1) (by omega)]
      simp only [hb_qc]
      rw [qcRefL_chain cL sg (k + 3) k (by omega)]
      simp [hb_view, hb_parent, hb_hash]
  · -- simple
    unfold commitRuleL
    simp only [hb_qc]
    rw [lookup_hqc cL sg (j + 1) j (by omega)]
    simp only
    match j with
    | 0 => simp [hb, genesisBlock, lookup_chainOf_empty]
    | 1 =>
      simp only [hb_qc]
      rw [lookup_hqc cL sg 2 0 (by omega)]
      simp [hb, genesisBlock, lookup_chainOf_empty]
    | k + 2 =>
      simp only [hb_qc]
      rw [lookup_hqc cL sg (k + 3) (k + 1) (by omega)]
      simp only [hb_qc]
      rw [lookup_hqc cL sg (k + 3) k (by omega)]
      simp [hb_view]


theorem commitInnerL_happy (cL : Who) (sg : Nat → Sig) (J k f : Nat) (hk : k ≤ J) :
    commitInnerL (f + 2) (chainOf cL sg J) (hb cL sg (k - 1)) (hb cL sg k) =
      (true, hb cL sg k, if 1 ≤ k then [.commit (hb cL sg k), .exec (hb cL sg k)] else []) := by
  match k with
  | 0 => simp [commitInnerL, hb_view]
  | i + 1 =>
    have h1 : ¬ (hb cL sg i).view ≥ (hb cL sg (i + 1)).view := by simp [hb_view]
    have h2 : (chainOf cL sg J).lookup (hb cL sg (i + 1)).parent = some (hb cL sg i) := by
      rw [hb_parent, lookup_chainOf]; simp; omega
    have h3 : commitInnerL (f + 1) (chainOf cL sg J) (hb cL sg i) (hb cL sg i) = (true, hb cL sg i, []) := by
      simp [commitInnerL]
    show commitInnerL (f + 1 + 1) (chainOf cL sg J) (hb cL sg i) (hb cL sg (i + 1)) = _
    rw [commitInnerL]
    simp only [h1, h2, h3]
    simp

/-- **`tryCommit` of the next block on the happy path**: the replica holds blocks `0 … j`, is locked
on block `j - 2`, has committed block `j - 3` (and pruned to that height), cannot fetch, and gets
block `j + 1`: it stores it, moves the lock to block `j - 1`, commits block `j - 2`, and queues at
most three events, all passive. -/
theorem tcL_happy (c : RCfg) (cL : Who) (sg : Nat → Sig) (hr : c.rules = .chained ∨ c.rules = .simple) (j : Nat) (s : RState)
    (hbl : s.chain.blocks = chainOf cL sg j) (hf : s.chain.fetchable = [])
    (hlock : s.lock = hb cL sg (j - 2)) (hcm : s.committed = hb cL sg (j - 3)) (hph : s.chain.pruneHeight = j - 3) :
    ∃ (ch' : RChain) (evs : List Ev),
      tcL c (hb cL sg (j + 1)) s =
        { s with chain := ch', lock := hb cL sg (j - 1), committed := hb cL sg (j - 2), queue := s.queue ++ evs } ∧
      ch'.blocks = chainOf cL sg (j + 1) ∧ ch'.fetchable = [] ∧ ch'.pruneHeight = j - 2 ∧
      (∀ e ∈ evs, e.passive = true) ∧ evs.length ≤ 3 := by
  obtain ⟨hs1, hs2, hs3⟩ := store_happy cL sg j s.chain hbl
  have hcr := commitRuleL_happy cL sg c.rules hr j
  unfold tcL
  simp only [hs1, hlock, hcr]
  by_cases h2 : 2 ≤ j
  · simp only [h2, if_true]
    have hfuel : (s.chain.store (hb cL sg (j + 1))).fuel + 1 = ((chainOf cL sg (j + 1)).length + (s.chain.store (hb cL sg (j + 1))).fetchable.length + 1) + 2 := by
      unfold RChain.fuel; rw [hs1]
    have hci := commitInnerL_happy cL sg (j + 1) (j - 2) ((chainOf cL sg (j + 1)).length + (s.chain.store (hb cL sg (j + 1))).fetchable.length + 1) (by omega)
    rw [show j - 2 - 1 = j - 3 by omega] at hci
    rw [hcm, hfuel, hci]
    simp only [Bool.not_true, Bool.false_eq_true, if_false]
    obtain ⟨p1, p2, p3, p4⟩ := pruneToHeight_facts (s.chain.store (hb cL sg (j + 1))) (hb cL sg (j - 2)) (hb cL sg (j - 2)).view
    refine ⟨_, (if 1 ≤ j - 2 then [Ev.commit (hb cL sg (j - 2)), Ev.exec (hb cL sg (j - 2))] else []) ++
        List.map Ev.abort
          ((s.chain.store (hb cL sg (j + 1))).pruneToHeight (hb cL sg (j - 2)) (hb cL sg (j - 2)).view).2,
      by rw [List.append_assoc], by rw [p1, hs1], by rw [p2, hs2, hf], by rw [p3, hb_view], ?_, ?_⟩
    · intro e he
      simp only [List.mem_append, List.mem_map] at he
      rcases he with he | ⟨b, _, rfl⟩
      · split at he
        · simp at he; rcases he with rfl | rfl <;> rfl
        · simp at he
      · rfl
    · have : ((s.chain.store (hb cL sg (j + 1))).pruneToHeight (hb cL sg (j - 2)) (hb cL sg (j - 2)).view).2.length ≤ 1 := by
        refine Nat.le_trans p4 ?_
        rw [hb_view, hs3, hph]; omega
      simp only [List.length_append, List.length_map]
      split <;> simp <;> omega
  · simp only [h2, if_false]
    have hj : j - 1 = 0 ∧ j - 2 = 0 ∧ j - 3 = 0 := by omega
    refine ⟨s.chain.store (hb cL sg (j + 1)), [], ?_, hs1, by rw [hs2, hf], by rw [hs3, hph]; omega, by simp, by simp⟩
    rw [hcm, hj.1, hj.2.1, hj.2.2]
    simp

/-! ## queues that only emit -/

/-- events whose handling only emits when no event waits for a view change -/
def Ev.quiet : Ev → Bool
  | .commit _ | .exec _ | .abort _ | .viewChange _ _ => true
  | _ => false

theorem quiet_of_passive (e : Ev) (h : e.passive = true) : e.quiet = true := by
  cases e <;> simp [Ev.passive] at h <;> rfl

theorem tick_quiet (k : Keys) (c : RCfg) (s : RState) (e : Ev) (rest : List Ev) (he : e.quiet = true)
    (hw : s.waitingVC = []) (hq : s.queue = e :: rest) :
    (tick k c).run s = pure (true, { s with queue := rest, out := s.out ++ [e.toOut] }) := by
  cases e <;> simp [Ev.quiet] at he <;> simp [tick, hq, emit, Ev.toOut, hw]

/-- a queue of quiet events is drained (enough fuel): each event is emitted, nothing else changes -/
theorem runLoop_quiet (k : Keys) (c : RCfg) : ∀ (q : List Ev) (fuel : Nat) (s : RState),
    (∀ e ∈ q, e.quiet = true) → s.waitingVC = [] → q.length < fuel →
    (runLoop k c fuel).run { s with queue := q } =
      pure ((), { s with queue := [], out := s.out ++ q.map Ev.toOut }) := by
  intro q
  induction q with
  | nil =>
    intro fuel s _ _ hf
    cases fuel with
    | zero => simp at hf
    | succ n => simp [runLoop, tick_empty k c { s with queue := [] } rfl]
  | cons e rest ih =>
    intro fuel s hp hw hf
    cases fuel with
    | zero => simp at hf
    | succ n =>
      have he := hp e (by simp)
      have hr : ∀ e' ∈ rest, e'.quiet = true := fun e' h => hp e' (by simp [h])
      have := ih n { s with out := s.out ++ [e.toOut] } hr hw (by simp at hf; omega)
      simp [runLoop, tick_quiet k c { s with queue := e :: rest } e rest he hw rfl, this]

/-! ## one replica on the happy path -/

/-- what every replica of the happy path looks like after block `j` (`j = 0`: initially): view,
high QC, last vote, lock, committed block, the stored chain `0 … j`, nothing queued or waiting -/
structure Base (cL : Who) (sg : Nat → Sig) (j : Nat) (s : RState) : Prop where
  view : s.view = max j 1
  highQC : s.highQC = hqc sg (j - 1)
  lastVoted : s.lastVoted = j
  lock : s.lock = hb cL sg (j - 2)
  committed : s.committed = hb cL sg (j - 3)
  blocks : s.chain.blocks = chainOf cL sg j
  fetchable : s.chain.fetchable = []
  prune : s.chain.pruneHeight = j - 3
  queue : s.queue = []
  wprop : s.waitingProp = []
  wvc : s.waitingVC = []

/-- the certificate for block `m` is valid against table `T`: genesis, or a verifying quorum signature -/
def QCok (T : Truth) (cfg : Cfg) (sg : Nat → Sig) (m : Nat) : Prop :=
  m = 0 ∨ (verify T cfg (sg m) (blkMsg (pname m)) = true ∧ cfg.quorum ≤ (sg m).len)

theorem verifyQC_happy (k : Keys) (c : RCfg) (cL : Who) (sg : Nat → Sig) (s : RState) (J m : Nat) (hm : m ≤ J)
    (hbl : s.chain.blocks = chainOf cL sg J) (hok : QCok (fun b => s.truth.lookup b) c.cfg sg m) :
    verifyQC (env k c s) (hqc sg m) = true := by
  cases m with
  | zero => simp [hqc, verifyQC, genesisQC]
  | succ m =>
    rcases hok with h | ⟨h1, h2⟩
    · omega
    · have hl : s.chain.blocks.lookup (pname (m + 1)) = some (hb cL sg (m + 1)) := by
        rw [hbl]; have := lookup_chainOf cL sg J (m + 1); simp [hname, hm] at this; exact this
      exact verifyQC_of_votes k c s (pname (m + 1)) (hb cL sg (m + 1)) (sg (m + 1)) hl rfl (pname_ne_genesis _) h1 h2

theorem votedS_tc (c : RCfg) (b : Block) (id : Nat) (s : RState) :
    (votedS c b id s).lock = (tcS c b s).lock ∧ (votedS c b id s).committed = (tcS c b s).committed ∧
    (votedS c b id s).chain = (tcS c b s).chain ∧ (votedS c b id s).queue = (tcS c b s).queue := by
  unfold votedS voteS signState; split <;> exact ⟨rfl, rfl, rfl, rfl⟩

/-- `onPropose` once `advanceView` on the proposal's certificate has been run (to `s1`) -/
theorem onPropose_run_after (k : Keys) (c : RCfg) (s s1 : RState) (ld : Nat) (b : Block)
    (hs : c.scheme ≠ .bls12)
    (h1 : (advanceView k c { qc := some b.qc }).run s = pure ((), s1))
    (hv : b.view = s1.view) (hlv : s1.lastVoted < b.view) (hld : ld = c.leader b.view)
    (hpar : b.parent = b.qc.hash) (hqv : b.qc.view < b.view)
    (hqc : verifyQC (env k c s1) b.qc = true)
    (hrule : (voteRule c b.view b none).run s1 = pure (true, s1))
    (hl : c.leader (b.view + 1) ≠ c.id) :
    (onPropose k c ld b none).run s = pure ((), votedS c b ld s1) := by
  have h2 : ¬ b.view > s1.view + 10 := by omega
  have h3 : ¬ b.view > s1.view := by omega
  have h4 := voterVerify_ok k c s1 ld b hlv hrule hqc hpar hqv hld
  simp [onPropose, h1, h2, h3, h4, onValidPropose_run k c ld b _ hs hl]


theorem route_append (C : SysCfg) (i : Nat) (a b : List Out) : route C i (a ++ b) = route C i a ++ route C i b := by
  induction a with
  | nil => rfl
  | cons o rest ih =>
    cases o <;> simp [route, ih]

/-- effects that are not messages -/
def Out.silent : Out → Bool
  | .sendPropose _ _ | .sendVote _ _ _ | .sendNewView _ _ | .sendTimeout _ => false
  | _ => true

theorem route_silent (C : SysCfg) (i : Nat) (l : List Out) (h : ∀ o ∈ l, o.silent = true) : route C i l = [] := by
  induction l with
  | nil => rfl
  | cons o rest ih =>
    have ho := h o (by simp)
    have hr := ih (fun o' h' => h o' (by simp [h']))
    cases o <;> simp [Out.silent] at ho <;> simp [route, hr]

theorem toOut_silent (e : Ev) (h : e.quiet = true) : e.toOut.silent = true := by
  cases e <;> simp [Ev.quiet] at h <;> rfl

/-- the state of a non-leader after `advanceView` on the certificate of block `j` -/
def nlAdvS (s : RState) (sg : Nat → Sig) (j L : Nat) (lt : Option TimeoutMsg) (g : List GRec) : RState :=
  { s with view := j + 1, highQC := hqc sg j, lastTimeout := lt, ghost := g,
           out := s.out ++ (if 1 ≤ j then [.sendNewView L { qc := some (hqc sg j) }] else []),
           queue := if 1 ≤ j then [.viewChange (j + 1) false] else [] }

/-- `advanceView` of a non-leader on the certificate of block `j` carried by the proposal `j + 1` -/
theorem nl_advance (k : Keys) (c : RCfg) (cL : Who) (sg : Nat → Sig) (j L : Nat) (s : RState)
    (ha : c.agg = false) (hlead : c.leader (j + 1) = L) (hne : c.id ≠ L)
    (hbase : Base cL sg j s) (hver : verifyQC (env k c s) (hqc sg j) = true) :
    ∃ lt g, (advanceView k c { qc := some (hqc sg j) }).run s = pure ((), nlAdvS s sg j L lt g) := by
  unfold nlAdvS
  have hl : s.chain.blocks.lookup (hqc sg j).hash = some (hb cL sg j) := by
    rw [hbase.blocks]; exact lookup_hqc cL sg j j (Nat.le_refl _)
  cases j with
  | zero =>
    refine ⟨s.lastTimeout, s.ghost, ?_⟩
    rw [advanceView_stay k c s _ _ ha hver hl (by rw [hbase.view, hqc_view]; simp)]
    have h1 : s.view = 1 := by rw [hbase.view]; rfl
    have h2 : s.highQC = hqc sg 0 := hbase.highQC
    have h3 : s.queue = [] := hbase.queue
    simp [updHighQC, hb_view, h1, h2, h3]
  | succ j =>
    refine ⟨none, s.ghost ++ [.adv s.view (hqc sg (j + 1)).view false], ?_⟩
    have hv : s.view = j + 1 := by rw [hbase.view]; omega
    rw [advanceView_move k c s _ _ ha hver hl (by rw [hv, hqc_view])]
    have hnl : ¬ c.leader (s.view + 1) = c.id := by rw [hv, hlead]; exact fun e => hne e.symm
    rw [if_neg hnl]
    have hhq : ¬ (hb cL sg (j + 1)).view ≤ s.highQC.view := by
      rw [hb_view, hbase.highQC, hqc_view]; omega
    have h3 : s.queue = [] := hbase.queue
    simp [emit, movedS, updHighQC, hhq, hv, hlead, h3]


/-- **A non-leader receives the next proposal of the happy path**: from `Base j` to `Base (j+1)`;
it reports its new view to the leader (from the second proposal on) and sends its vote. -/
theorem nl_propose_step (k : Keys) (c : RCfg) (cL : Who) (sg : Nat → Sig) (j L L2 : Nat) (s : RState)
    (hs : c.scheme ≠ .bls12) (ha : c.agg = false) (hr : c.rules = .chained ∨ c.rules = .simple)
    (hlead : c.leader (j + 1) = L) (hlead2 : c.leader (j + 2) = L2) (hne : c.id ≠ L) (hne2 : c.id ≠ L2)
    (hbase : Base cL sg j s) (hf : FreshS s)
    (hok : QCok (fun b => s.truth.lookup b) c.cfg sg j) :
    Base cL sg (j + 1) (step k c s (.propose L (hb cL sg (j + 1)) none)).1 ∧
    FreshS (step k c s (.propose L (hb cL sg (j + 1)) none)).1 ∧
    Ext s (step k c s (.propose L (hb cL sg (j + 1)) none)).1 ∧
    ∃ bytes, (step k c s (.propose L (hb cL sg (j + 1)) none)).1.truth.lookup bytes = some ⟨c.id, blkMsg (pname (j + 1))⟩ ∧
      (∀ C : SysCfg, route C c.id (step k c s (.propose L (hb cL sg (j + 1)) none)).2 =
        (if 1 ≤ j then [(L, Ev.newview c.id { qc := some (hqc sg j) })] else []) ++
        [(L2, Ev.vote c.id (some (.multi c.scheme [⟨c.id, bytes⟩])) (pname (j + 1)) false)]) ∧
      (step k c s (.propose L (hb cL sg (j + 1)) none)).1.votes = s.votes ∧
      (step k c s (.propose L (hb cL sg (j + 1)) none)).1.lastProposed = s.lastProposed ∧
      (step k c s (.propose L (hb cL sg (j + 1)) none)).1.nextCmd = s.nextCmd := by
  let b := hb cL sg (j + 1)
  let s0 : RState := { s with out := [], queue := s.queue ++ [.propose L b none] }
  let sA : RState := { s0 with queue := [] }
  have hbaseA : Base cL sg j sA := ⟨hbase.view, hbase.highQC, hbase.lastVoted, hbase.lock, hbase.committed, hbase.blocks,
    hbase.fetchable, hbase.prune, rfl, hbase.wprop, hbase.wvc⟩
  have hver : verifyQC (env k c sA) (hqc sg j) = true :=
    verifyQC_happy k c cL sg sA j j (Nat.le_refl _) hbase.blocks hok
  obtain ⟨lt, g, hadv⟩ := nl_advance k c cL sg j L sA ha hlead hne hbaseA hver
  let s1 : RState := nlAdvS sA sg j L lt g
  have hl1 : s1.chain.blocks.lookup b.qc.hash = some (hb cL sg j) := by
    show s.chain.blocks.lookup (hqc sg j).hash = _
    rw [hbase.blocks]; exact lookup_hqc cL sg j j (Nat.le_refl _)
  -- the vote rule
  have hrule : (voteRule c b.view b none).run s1 = pure (true, s1) := by
    have h2 : (hb cL sg j).qc.hash = "" ∨ ∃ gb, s1.chain.blocks.lookup (hb cL sg j).qc.hash = some gb := by
      cases j with
      | zero => exact Or.inl rfl
      | succ i =>
        refine Or.inr ⟨hb cL sg i, ?_⟩
        show s.chain.blocks.lookup (hqc sg i).hash = _
        rw [hbase.blocks]; exact lookup_hqc cL sg (i + 1) i (by omega)
    have hlk : s1.lock.view = j - 2 := by show s.lock.view = _; rw [hbase.lock, hb_view]
    rcases hr with hr | hr
    · by_cases hj : 1 ≤ j
      · exact voteRule_chained_above c hr s1 b (hb cL sg j) _ hl1 h2 (by rw [hlk, hb_view]; omega)
      · have hj0 : j = 0 := by omega
        subst hj0
        refine voteRule_chained_extends c hr s1 b (hb cL sg 0) _ hl1 h2 rfl (by rw [hlk]; show 0 < 1; omega) ?_
        have hfuel : s1.chain.fuel - 1 = s1.chain.blocks.length + s1.chain.fetchable.length + 0 + 1 := by
          unfold RChain.fuel; omega
        rw [hfuel]
        show extWalk _ _ (hb cL sg 0) s.lock = true
        rw [hbase.lock]
        simp [extWalk]
    · exact voteRule_simple_ok c hr s1 b (hb cL sg j) _ (Nat.le_refl _) hl1 h2 (by rw [hlk, hb_view]; omega)
  have hon : (onPropose k c L b none).run sA = pure ((), votedS c b L s1) :=
    onPropose_run_after k c sA s1 L b hs hadv rfl (by show s.lastVoted < j + 1; rw [hbase.lastVoted]; omega)
      hlead.symm rfl (by show (hqc sg j).view < j + 1; rw [hqc_view]; omega)
      (verifyQC_happy k c cL sg s1 j j (Nat.le_refl _) hbase.blocks hok) hrule
      (by show c.leader (j + 1 + 1) ≠ c.id; rw [hlead2]; exact fun e => hne2 e.symm)
  -- tryCommit
  have hfe1 : s1.chain.fetchable = [] := hbase.fetchable
  have htc : tcS c b s1 = tcL c b s1 := tcS_eq_tcL c (by rcases hr with h | h <;> rw [h] <;> decide) b s1 hfe1
  obtain ⟨ch', evs, htl, hch1, hch2, hch3, hevp, hevl⟩ := tcL_happy c cL sg hr j s1 hbase.blocks hfe1 hbase.lock
    hbase.committed hbase.prune
  rw [← htc] at htl
  let A : RState := votedS c b L s1
  obtain ⟨hA1, hA2, hA3, hA4, hA5, hA10, _, hA11, _, _, hA12⟩ := votedS_tcp c b L s1
  obtain ⟨hA6, hA7, hA8, hA9⟩ := votedS_tc c b L s1
  let q : List Ev := (if 1 ≤ j then [Ev.viewChange (j + 1) false] else []) ++ evs
  have hAq : A.queue = q := by
    show (votedS c b L s1).queue = _
    rw [hA9, htl]; rfl
  have hAw : A.waitingProp = [] := by
    show (votedS c b L s1).waitingProp = _
    rw [hA3]; exact hbase.wprop
  have hquiet : ∀ e ∈ q, e.quiet = true := by
    intro e he
    simp only [q, List.mem_append] at he
    rcases he with he | he
    · split at he
      · simp at he; subst he; rfl
      · simp at he
    · exact quiet_of_passive e (hevp e he)
  have hqlen : q.length < 99999 := by
    simp only [q, List.length_append]
    split <;> simp <;> omega
  have htick := tick_propose k c s0 A L b none [] (by show s.queue ++ _ = _; rw [hbase.queue]; rfl) hon
  have hX : ({ A with waitingProp := [], queue := A.queue ++ A.waitingProp } : RState) =
      { ({ A with waitingProp := [] } : RState) with queue := q } := by
    simp only [hAw, hAq, List.append_nil]
  rw [hX] at htick
  have hrest := runLoop_quiet k c q 99999 { A with waitingProp := [] } hquiet
    (by show (votedS c b L s1).waitingVC = []; rw [hA4]; exact hbase.wvc) hqlen
  have hstep : step k c s (.propose L b none) =
      ({ A with waitingProp := [], queue := [], out := [] }, A.out ++ q.map Ev.toOut) := by
    rw [step_run_eq k c s _ (99999 + 1) rfl, runLoop_succ k c _ s0 _ htick, hrest]
    rfl
  have hfA : FreshS s1 := hf
  have hft := tcS_fresh c b s1 hfA
  obtain ⟨ho3, hl3, hf3, hc3⟩ := voteS_facts c b L (tcS c b s1) hft
  have hAout : A.out = (if 1 ≤ j then [Out.sendNewView L { qc := some (hqc sg j) }] else []) ++
      [.sign (blkMsg b.hash), .sendVote L2 (voteSig c b (tcS c b s1)) b.hash] := by
    show (voteS c b L (tcS c b s1)).out ++ _ = _
    rw [ho3, tcS_out, show c.leader (b.view + 1) = L2 from hlead2]
    show ([] ++ _) ++ _ ++ _ = _
    simp
  show Base cL sg (j + 1) (step k c s (.propose L b none)).1 ∧ FreshS (step k c s (.propose L b none)).1 ∧
    Ext s (step k c s (.propose L b none)).1 ∧ ∃ bytes, (step k c s (.propose L b none)).1.truth.lookup bytes = _ ∧
      (∀ C : SysCfg, route C c.id (step k c s (.propose L b none)).2 = _) ∧
      (step k c s (.propose L b none)).1.votes = s.votes ∧ (step k c s (.propose L b none)).1.lastProposed = s.lastProposed ∧
      (step k c s (.propose L b none)).1.nextCmd = s.nextCmd
  rw [hstep]
  refine ⟨⟨?_, ?_, ?_, ?_, ?_, ?_, ?_, ?_, rfl, rfl, ?_⟩, hf3, ?_, signBytes c (blkMsg b.hash) (tcS c b s1), hl3, ?_,
    hA10, hA11, hA12⟩
  · show A.view = _
    rw [show A.view = s1.view from hA1]; show j + 1 = max (j + 1) 1; omega
  · show A.highQC = _
    rw [show A.highQC = s1.highQC from hA2]; rfl
  · show A.lastVoted = _
    rw [show A.lastVoted = b.view from hA5]; rfl
  · show A.lock = _
    rw [show A.lock = (tcS c b s1).lock from hA6, htl]; show hb cL sg (j - 1) = hb cL sg (j + 1 - 2); rfl
  · show A.committed = _
    rw [show A.committed = (tcS c b s1).committed from hA7, htl]; show hb cL sg (j - 2) = hb cL sg (j + 1 - 3); rfl
  · show A.chain.blocks = _
    rw [show A.chain = (tcS c b s1).chain from hA8, htl]; exact hch1
  · show A.chain.fetchable = _
    rw [show A.chain = (tcS c b s1).chain from hA8, htl]; exact hch2
  · show A.chain.pruneHeight = _
    rw [show A.chain = (tcS c b s1).chain from hA8, htl]; rw [show ({ s1 with chain := ch', lock := hb cL sg (j - 1), committed := hb cL sg (j - 2), queue := s1.queue ++ evs } : RState).chain.pruneHeight = ch'.pruneHeight from rfl, hch3]; omega
  · show A.waitingVC = _
    rw [show A.waitingVC = s1.waitingVC from hA4]; exact hbase.wvc
  · have e1 : Ext s s1 := ext_of_eq s s1 hf.2 rfl rfl rfl
    have e2 := tcS_ext c b s1 hfA.2
    have e3 := voteS_ext c b L (tcS c b s1) hs hft.2
    have e4 : Ext (voteS c b L (tcS c b s1)) { A with waitingProp := [], queue := [], out := [] } :=
      ext_of_eq _ _ hf3.2 rfl rfl rfl
    exact ((e1.trans e2).trans e3).trans e4
  · intro C
    rw [route_append, hAout, route_append]
    rw [route_silent C c.id (q.map Ev.toOut) (by
      intro o ho
      obtain ⟨e, he, rfl⟩ := List.mem_map.mp ho
      exact toOut_silent e (hquiet e he))]
    by_cases hj : 1 ≤ j
    · simp [hj, route, voteSig]; rfl
    · simp [hj, route, voteSig]; rfl

/-- the state after `collectVote` has kept the vote `sg` of signer `i` for `hash` -/
def addVoteS (s : RState) (hash : Hash) (i : Nat) (sg : Sig) : RState :=
  { s with votes := cleanVotes s ((hash, (s.votes.lookup hash).getD [] ++ [(i, sg)]) :: s.votes.filter (fun p => p.1 != hash)) }

/-- `collectVote` on a valid vote of a new signer that does not complete a quorum: the vote is kept -/
theorem collectVote_add_run (k : Keys) (c : RCfg) (s : RState) (id i bytes : Nat) (hash : Hash) (blk : Block) (d : Bool)
    (hblk : s.chain.blocks.lookup hash = some blk) (hh : blk.hash = hash)
    (hhi : s.highQC.view < blk.view)
    (hver : verify (fun b => s.truth.lookup b) c.cfg (.multi c.scheme [⟨i, bytes⟩]) (blkMsg hash) = true)
    (hnew : ∀ v ∈ (s.votes.lookup hash).getD [], v.1 ≠ i)
    (hq : ((s.votes.lookup hash).getD []).length + 1 < c.cfg.quorum) :
    (collectVote k c id (some (.multi c.scheme [⟨i, bytes⟩])) hash d).run s =
      pure ((), addVoteS s hash i (.multi c.scheme [⟨i, bytes⟩])) := by
  subst hh
  unfold addVoteS
  have h1 : ¬ blk.view ≤ s.highQC.view := by omega
  have hany : ((s.votes.lookup blk.hash).getD []).any (fun v => v.1 == i) = false := by
    rw [Bool.eq_false_iff]; intro h
    rw [List.any_eq_true] at h
    obtain ⟨v, hv, he⟩ := h
    exact hnew v hv (by simpa using he)
  cases d <;>
  simp [collectVote, Sig.len, RChain.localGet, hblk, getBlock_local _ _ _ hblk, h1, verifyPC, CertEnv.get, env, hver,
    Sig.first, Sig.participants, hany, hq, votesCleanup, cleanVotes] <;> rfl

/-- `collectVote` on a vote for a block that is already certified: nothing happens -/
theorem collectVote_late_run (k : Keys) (c : RCfg) (s : RState) (id i bytes : Nat) (hash : Hash) (blk : Block)
    (hblk : s.chain.blocks.lookup hash = some blk) (hhi : blk.view ≤ s.highQC.view) :
    (collectVote k c id (some (.multi c.scheme [⟨i, bytes⟩])) hash false).run s = pure ((), s) := by
  simp [collectVote, Sig.len, RChain.localGet, hblk, hhi]


theorem voteS_fields (c : RCfg) (b : Block) (id : Nat) (s : RState) :
    (voteS c b id s).view = s.view ∧ (voteS c b id s).highQC = s.highQC ∧ (voteS c b id s).lastProposed = s.lastProposed ∧
    (voteS c b id s).nextCmd = s.nextCmd ∧ (voteS c b id s).lock = s.lock ∧ (voteS c b id s).committed = s.committed ∧
    (voteS c b id s).votes = s.votes ∧ (voteS c b id s).queue = s.queue ∧ (voteS c b id s).waitingProp = s.waitingProp ∧
    (voteS c b id s).waitingVC = s.waitingVC ∧ (voteS c b id s).lastVoted = b.view := by
  unfold voteS signState; split <;> exact ⟨rfl, rfl, rfl, rfl, rfl, rfl, rfl, rfl, rfl, rfl, rfl⟩

theorem aggregateVote_self (k : Keys) (c : RCfg) (b : Block) (sg : Sig) (s : RState) (hl : c.leader (b.view + 1) = c.id) :
    (aggregateVote k c b sg).run s = (collectVote k c c.id (some sg) b.hash false).run s := by
  simp [aggregateVote, hl]

/-- what the leader's state looks like right after `createAndPropose` for block `j + 1` -/
structure Proposed (c : RCfg) (w : Who) (sg : Nat → Sig) (j : Nat) (m F : RState) (bytes : Nat) (evs : List Ev) : Prop where
  view : F.view = j + 1
  highQC : F.highQC = hqc sg j
  lastVoted : F.lastVoted = j + 1
  lastProposed : F.lastProposed = j + 1
  nextCmd : F.nextCmd = w.cnt (j + 1) + 1
  lock : F.lock = hb w sg (j - 1)
  committed : F.committed = hb w sg (j - 2)
  blocks : F.chain.blocks = chainOf w sg (j + 1)
  fetchable : F.chain.fetchable = []
  prune : F.chain.pruneHeight = j - 2
  votes : F.votes = [(pname (j + 1), [(c.id, .multi c.scheme [⟨c.id, bytes⟩])])]
  table : F.truth.lookup bytes = some ⟨c.id, blkMsg (pname (j + 1))⟩
  queue : F.queue = m.queue ++ evs
  passive : ∀ e ∈ evs, e.passive = true
  short : evs.length ≤ 3
  out : F.out = m.out ++ [.sign (blkMsg (pname (j + 1))), .sendPropose (hb w sg (j + 1)) none]
  wprop : F.waitingProp = m.waitingProp
  wvc : F.waitingVC = m.waitingVC
  fresh : FreshS F
  ext : Ext m F

/-- **the leader proposes the next block of the happy path** (`createAndPropose` in view `j + 1` on
the certificate of block `j`) and keeps its own vote for it -/
theorem leader_propose (k : Keys) (c : RCfg) (w : Who) (sg : Nat → Sig) (j : Nat) (m : RState) (tc : Option TC)
    (hw : w.cfg (j + 1) = c)
    (hs : c.scheme ≠ .bls12) (hr : c.rules = .chained ∨ c.rules = .simple)
    (hid : c.cfg.has c.id = true) (hlead : ∀ v, c.leader v = c.id) (hq2 : 2 ≤ c.cfg.quorum)
    (hview : m.view = j + 1) (hhq : m.highQC = hqc sg j) (hlv : m.lastVoted ≤ j)
    (hlp : m.lastProposed = j) (hnc : m.nextCmd = w.cnt (j + 1))
    (hlock : m.lock = hb w sg (j - 2)) (hcm : m.committed = hb w sg (j - 3))
    (hbl : m.chain.blocks = chainOf w sg j) (hfe : m.chain.fetchable = []) (hph : m.chain.pruneHeight = j - 3)
    (hvotes : m.votes = []) (hf : FreshS m)
    (hok : QCok (fun b => m.truth.lookup b) c.cfg sg j) :
    ∃ bytes evs F, (createAndPropose k c { qc := some (hqc sg j), tc := tc }).run m = pure ((), F) ∧
      Proposed c w sg j m F bytes evs := by
  have hbeq : newBlock c m (hqc sg j) = hb w sg (j + 1) := by
    unfold newBlock; rw [hview, hnc, ← hw]; rfl
  have hlk : m.chain.blocks.lookup (hqc sg j).hash = some (hb w sg j) := by
    rw [hbl]; exact lookup_hqc w sg j j (Nat.le_refl _)
  have hver : verifyQC (env k c m) (hqc sg j) = true := verifyQC_happy k c w sg m j j (Nat.le_refl _) hbl hok
  -- markProposed: the certified block is not above what was proposed last
  have hmark : (markProposed (m.chain.fuel + 1) (hb w sg j)).run m = pure (true, m) :=
    markProposed_walk _ _ m (by unfold markWalk; simp [hb_view, hlp])
  -- the vote rule on the new block
  have hrule : ∀ s' : RState, s'.chain = m.chain → s'.lock = m.lock →
      (voteRule c m.view (newBlock c m (hqc sg j)) none).run s' = pure (true, s') := by
    intro s' hc hl
    rw [hbeq]
    have hl1 : s'.chain.blocks.lookup (hb w sg (j + 1)).qc.hash = some (hb w sg j) := by rw [hc]; exact hlk
    have h2 : (hb w sg j).qc.hash = "" ∨ ∃ gb, s'.chain.blocks.lookup (hb w sg j).qc.hash = some gb := by
      cases j with
      | zero => exact Or.inl rfl
      | succ i =>
        refine Or.inr ⟨hb w sg i, ?_⟩
        rw [hc, hbl]; exact lookup_hqc w sg (i + 1) i (by omega)
    have hlkv : s'.lock.view = j - 2 := by rw [hl, hlock, hb_view]
    rcases hr with hr | hr
    · by_cases hj : 1 ≤ j
      · exact voteRule_chained_above c hr s' _ (hb w sg j) _ hl1 h2 (by rw [hlkv, hb_view]; omega)
      · have hj0 : j = 0 := by omega
        subst hj0
        refine voteRule_chained_extends c hr s' _ (hb w sg 0) _ hl1 h2 rfl (by rw [hlkv]; show 0 < 1; omega) ?_
        have hfuel : s'.chain.fuel - 1 = s'.chain.blocks.length + s'.chain.fetchable.length + 0 + 1 := by
          unfold RChain.fuel; omega
        rw [hfuel, hl, hlock]
        simp [extWalk]
    · exact voteRule_simple_ok c hr s' _ (hb w sg j) _ (by rw [hview, hb_view]; exact Nat.le_refl _) hl1 h2 (by rw [hlkv, hb_view]; omega)
  have hrun := createAndPropose_run k c m (hqc sg j) (hb w sg j) tc hs (by rcases hr with h | h <;> rw [h] <;> decide)
    (by rw [hhq]; exact hlk) hmark (by rw [hview]; omega) hrule hver (by rw [hqc_view, hview]; omega)
    (by rw [hlead])
  rw [hbeq] at hrun
  let b := hb w sg (j + 1)
  let v3 := voteS c b c.id (propS m)
  have hfm : FreshS (propS m) := hf
  obtain ⟨ho3, hl3, hf3, hc3⟩ := voteS_facts c b c.id (propS m) hfm
  have hfe3 : v3.chain.fetchable = [] := by rw [show v3.chain = (propS m).chain from hc3]; exact hfe
  have htc : tcS c b v3 = tcL c b v3 := tcS_eq_tcL c (by rcases hr with h | h <;> rw [h] <;> decide) b v3 hfe3
  have hv3lock : v3.lock = hb w sg (j - 2) := by
    have : v3.lock = m.lock := by show (voteS c b c.id (propS m)).lock = _; unfold voteS signState; split <;> rfl
    rw [this, hlock]
  have hv3cm : v3.committed = hb w sg (j - 3) := by
    have : v3.committed = m.committed := by show (voteS c b c.id (propS m)).committed = _; unfold voteS signState; split <;> rfl
    rw [this, hcm]
  obtain ⟨ch', evs, htl, hch1, hch2, hch3, hevp, hevl⟩ := tcL_happy c w sg hr j v3
    (by rw [show v3.chain = (propS m).chain from hc3]; exact hbl) hfe3 hv3lock hv3cm
    (by rw [show v3.chain = (propS m).chain from hc3]; exact hph)
  rw [← htc] at htl
  let s6 : RState := { tcS c b v3 with out := (tcS c b v3).out ++ [.sendPropose b none] }
  have hft := tcS_fresh c b v3 hf3
  have hs6truth : s6.truth = v3.truth := by
    have := tcS_tcp c b v3
    simp only [TCP, Prod.mk.injEq] at this
    exact this.2.2.2.2.2.2.2.2.2.2.2.1
  have hs6blocks : s6.chain.blocks = chainOf w sg (j + 1) := by
    show (tcS c b v3).chain.blocks = _; rw [htl]; exact hch1
  have hs6hq : s6.highQC = hqc sg j := by
    show (tcS c b v3).highQC = _; rw [htl]
    show (voteS c b c.id (propS m)).highQC = _
    have : (voteS c b c.id (propS m)).highQC = m.highQC := by unfold voteS signState; split <;> rfl
    rw [this, hhq]
  have hs6votes : s6.votes = [] := by
    show (tcS c b v3).votes = _; rw [htl]
    show (voteS c b c.id (propS m)).votes = _
    have : (voteS c b c.id (propS m)).votes = m.votes := by unfold voteS signState; split <;> rfl
    rw [this, hvotes]
  have hcv := collectVote_add_run k c s6 c.id c.id (signBytes c (blkMsg b.hash) (propS m)) b.hash b false
    (by rw [hs6blocks, show b.hash = hname (j + 1) from hb_hash w sg (j + 1), lookup_chainOf, if_pos (Nat.le_refl _)])
    rfl (by rw [hs6hq, hqc_view, hb_view]; omega)
    (verify_single _ c.cfg c.id _ _ hs hid (by rw [hs6truth]; exact hl3))
    (by rw [hs6votes]; simp) (by rw [hs6votes]; simp; omega)
  refine ⟨signBytes c (blkMsg b.hash) (propS m), evs, addVoteS s6 b.hash c.id (voteSig c b (propS m)), ?_, ?_⟩
  · rw [hrun, aggregateVote_self k c b _ _ (by rw [hlead])]
    exact hcv
  · obtain ⟨w1, w2, w3, w4, w5, w6, w7, w8, w9, w10, w11⟩ := voteS_fields c b c.id (propS m)
    refine ⟨?_, ?_, ?_, ?_, ?_, ?_, ?_, ?_, ?_, ?_, ?_, ?_, ?_, hevp, hevl, ?_, ?_, ?_, ?_, ?_⟩
    · show (tcS c b v3).view = _; rw [htl]; show v3.view = _; rw [show v3.view = (propS m).view from w1]; exact hview
    · exact hs6hq
    · show (tcS c b v3).lastVoted = _; rw [htl]; show v3.lastVoted = _; rw [show v3.lastVoted = b.view from w11]; exact hb_view w sg (j + 1)
    · show (tcS c b v3).lastProposed = _; rw [htl]; show v3.lastProposed = _; rw [show v3.lastProposed = (propS m).lastProposed from w3]; exact hview
    · show (tcS c b v3).nextCmd = _; rw [htl]; show v3.nextCmd = _; rw [show v3.nextCmd = (propS m).nextCmd from w4]; show m.nextCmd + 1 = _; rw [hnc]
    · show (tcS c b v3).lock = _; rw [htl]
    · show (tcS c b v3).committed = _; rw [htl]
    · exact hs6blocks
    · show (tcS c b v3).chain.fetchable = _; rw [htl]; exact hch2
    · show (tcS c b v3).chain.pruneHeight = _; rw [htl]; exact hch3
    · show cleanVotes s6 _ = _
      rw [hs6votes]
      have hlg : s6.chain.localGet b.hash = some b := by
        show s6.chain.blocks.lookup b.hash = _
        rw [hs6blocks, show b.hash = hname (j + 1) from hb_hash w sg (j + 1), lookup_chainOf, if_pos (Nat.le_refl _)]
      have hnv : ¬ b.view ≤ s6.highQC.view := by rw [hs6hq, hqc_view]; show ¬ (hb w sg (j + 1)).view ≤ j; rw [hb_view]; omega
      simp [cleanVotes, hlg, hnv, voteSig]
      rfl
    · show s6.truth.lookup _ = _
      rw [hs6truth]; exact hl3
    · show (tcS c b v3).queue = _; rw [htl]; show v3.queue ++ evs = _; rw [show v3.queue = (propS m).queue from w8]; rfl
    · show (tcS c b v3).out ++ _ = _
      rw [tcS_out, show v3.out = _ from ho3, List.append_assoc]; rfl
    · show (tcS c b v3).waitingProp = _; rw [htl]; exact w9
    · show (tcS c b v3).waitingVC = _; rw [htl]; exact w10
    · exact hft
    · have e1 : Ext m (propS m) := ext_of_eq m _ hf.2 rfl rfl rfl
      have e2 := voteS_ext c b c.id (propS m) hs hfm.2
      have e3 := tcS_ext c b v3 hf3.2
      have e4 : Ext (tcS c b v3) (addVoteS s6 b.hash c.id (voteSig c b (propS m))) := ext_of_eq _ _ hft.2 rfl rfl rfl
      exact ((e1.trans e2).trans e3).trans e4

/-- the leader after proposing block `j ≥ 1`, holding the votes `vs` for it -/
structure LD (w : Who) (sg : Nat → Sig) (j : Nat) (vs : List (Nat × Sig)) (s : RState) : Prop where
  base : Base w sg j s
  lastProposed : s.lastProposed = j
  nextCmd : s.nextCmd = w.cnt j + 1
  votes : s.votes = [(pname j, vs)]

/-- valid votes of pairwise different replicas for block `j` -/
structure VotesOK (T : Truth) (cfg : Cfg) (j : Nat) (vs : List (Nat × Sig)) : Prop where
  valid : ∀ v ∈ vs, cfg.has v.1 = true ∧ HonestSig T cfg v.1 (blkMsg (pname j)) v.2
  nodup : (vs.map (·.1)).Nodup

theorem start_run_eq (k : Keys) (c : RCfg) (s : RState) :
    start k c s =
      ({ ((do let s ← get
              if s.view == 1 && c.leader 1 == c.id then
                createAndPropose k c { qc := some s.highQC, tc := some s.highTC }
              runLoop k c 100000 : M Unit).run { s with out := [] }).2 with out := [] },
       ((do let s ← get
            if s.view == 1 && c.leader 1 == c.id then
              createAndPropose k c { qc := some s.highQC, tc := some s.highTC }
            runLoop k c 100000 : M Unit).run { s with out := [] }).2.out) := rfl

theorem runLoop_idle (k : Keys) (c : RCfg) (s : RState) (n : Nat) (hq : s.queue = []) :
    (runLoop k c (n + 1)).run s = pure ((), s) := by
  simp [runLoop, tick_empty k c s hq]

/-- `Start` at a replica that is not the leader of view 1: nothing happens -/
theorem start_nonleader (k : Keys) (c : RCfg) (s : RState) (hq : s.queue = []) (hl : c.leader 1 ≠ c.id) :
    start k c s = ({ s with out := [] }, []) := by
  rw [start_run_eq]
  have hidle := runLoop_idle k c { s with out := [] } 99999 hq
  have : (do let s ← get
             if s.view == 1 && c.leader 1 == c.id then
               createAndPropose k c { qc := some s.highQC, tc := some s.highTC }
             runLoop k c 100000 : M Unit).run { s with out := [] } = pure ((), { s with out := [] }) := by
    simp [hl]
    exact hidle
  rw [this]
  rfl


theorem start_leader_run (k : Keys) (c : RCfg) (s F : RState) (hv : s.view = 1) (hl : c.leader 1 = c.id)
    (h : (createAndPropose k c { qc := some s.highQC, tc := some s.highTC }).run { s with out := [] } = pure ((), F)) :
    start k c s = ({ ((runLoop k c 100000).run F).2 with out := [] }, ((runLoop k c 100000).run F).2.out) := by
  rw [start_run_eq]
  have : (do let s ← get
             if s.view == 1 && c.leader 1 == c.id then
               createAndPropose k c { qc := some s.highQC, tc := some s.highTC }
             runLoop k c 100000 : M Unit).run { s with out := [] } = (runLoop k c 100000).run F := by
    have hc : (s.view == 1 && c.leader 1 == c.id) = true := by simp [hv, hl]
    simp only [StateT.run_bind, StateT.run_get, pure_bind]
    rw [show (({ s with out := [] } : RState).view == 1 && c.leader 1 == c.id) = true from hc]
    simp [h]
  rw [this]

/-- **`Start` at the leader**: it proposes block 1 and keeps its own vote for it -/
theorem leader_start (k : Keys) (c : RCfg) (w : Who) (sg : Nat → Sig) (s : RState) (hw : w.cfg 1 = c)
    (hs : c.scheme ≠ .bls12) (hr : c.rules = .chained ∨ c.rules = .simple)
    (hid : c.cfg.has c.id = true) (hlead : ∀ v, c.leader v = c.id) (hq2 : 2 ≤ c.cfg.quorum)
    (hbase : Base w sg 0 s) (hlp : s.lastProposed = 0) (hnc : s.nextCmd = w.cnt 1) (hvotes : s.votes = []) (hf : FreshS s) :
    ∃ bytes, LD w sg 1 [(c.id, .multi c.scheme [⟨c.id, bytes⟩])] (start k c s).1 ∧
      (start k c s).1.truth.lookup bytes = some ⟨c.id, blkMsg (pname 1)⟩ ∧
      FreshS (start k c s).1 ∧ Ext s (start k c s).1 ∧
      ∀ C : SysCfg, route C c.id (start k c s).2 =
        (C.honest.filter (· != c.id)).map (fun i => (i, Ev.propose c.id (hb w sg 1) none)) := by
  let m : RState := { s with out := [] }
  obtain ⟨bytes, evs, F, hrun, hP⟩ := leader_propose k c w sg 0 m (some s.highTC) hw hs hr hid hlead hq2
    (by show s.view = 1; rw [hbase.view]; rfl) hbase.highQC (by show s.lastVoted ≤ 0; rw [hbase.lastVoted]; exact Nat.le_refl _)
    hlp hnc hbase.lock hbase.committed hbase.blocks hbase.fetchable hbase.prune hvotes hf (Or.inl rfl)
  have hhq : s.highQC = hqc sg 0 := hbase.highQC
  rw [← hhq] at hrun
  have hst := start_leader_run k c s F (by rw [hbase.view]; rfl) (hlead 1) hrun
  have hFq : F.queue = evs := by rw [hP.queue]; show s.queue ++ evs = evs; rw [hbase.queue]; rfl
  have hquiet : ∀ e ∈ evs, e.quiet = true := fun e he => quiet_of_passive e (hP.passive e he)
  have hrest := runLoop_quiet k c evs 100000 F hquiet (by rw [hP.wvc]; exact hbase.wvc) (by have := hP.short; omega)
  have hFF : F = { F with queue := evs } := by rw [← hFq]
  rw [hFF, hrest] at hst
  rw [hst]
  refine ⟨bytes, ⟨⟨?_, ?_, ?_, ?_, ?_, ?_, ?_, ?_, rfl, ?_, ?_⟩, ?_, ?_, ?_⟩, hP.table, hP.fresh, ?_, ?_⟩
  · show F.view = _; rw [hP.view]; rfl
  · show F.highQC = _; rw [hP.highQC]
  · show F.lastVoted = _; rw [hP.lastVoted]
  · show F.lock = _; rw [hP.lock]
  · show F.committed = _; rw [hP.committed]
  · show F.chain.blocks = _; rw [hP.blocks]
  · show F.chain.fetchable = _; rw [hP.fetchable]
  · show F.chain.pruneHeight = _; rw [hP.prune]
  · show F.waitingProp = _; rw [hP.wprop]; exact hbase.wprop
  · show F.waitingVC = _; rw [hP.wvc]; exact hbase.wvc
  · show F.lastProposed = _; rw [hP.lastProposed]
  · show F.nextCmd = _; rw [hP.nextCmd]
  · show F.votes = _; rw [hP.votes]
  · have e1 : Ext s m := ext_of_eq s m hf.2 rfl rfl rfl
    have e2 : Ext F { F with queue := [], out := [] } := ext_of_eq _ _ hP.fresh.2 rfl rfl rfl
    exact (e1.trans hP.ext).trans e2
  · intro C
    show route C c.id (F.out ++ evs.map Ev.toOut) = _
    rw [route_append, hP.out, route_silent C c.id (evs.map Ev.toOut) (by
      intro o ho
      obtain ⟨e, he, rfl⟩ := List.mem_map.mp ho
      exact toOut_silent e (hquiet e he))]
    show route C c.id ([] ++ _) ++ [] = _
    simp [route]


/-- a new-view message with the certificate of an old block changes nothing -/
theorem newview_noop (k : Keys) (c : RCfg) (cL : Who) (sg : Nat → Sig) (J m i : Nat) (s : RState) (ha : c.agg = false)
    (hbase : Base cL sg J s) (hm : m ≤ J - 1)
    (hok : QCok (fun b => s.truth.lookup b) c.cfg sg m) :
    step k c s (.newview i { qc := some (hqc sg m) }) = ({ s with out := [] }, []) := by
  let s0 : RState := { s with out := [], queue := s.queue ++ [.newview i { qc := some (hqc sg m) }] }
  let sA : RState := { s0 with queue := [] }
  have hmJ : m ≤ J := by omega
  have hver : verifyQC (env k c sA) (hqc sg m) = true := verifyQC_happy k c cL sg sA J m hmJ hbase.blocks hok
  have hl : sA.chain.blocks.lookup (hqc sg m).hash = some (hb cL sg m) := by
    show s.chain.blocks.lookup _ = _
    rw [hbase.blocks]; exact lookup_hqc cL sg J m hmJ
  have hadv := advanceView_stay k c sA (hqc sg m) (hb cL sg m) ha hver hl
    (by show (hqc sg m).view < s.view; rw [hqc_view, hbase.view]; omega)
  have hsame : updHighQC sA (hqc sg m) (hb cL sg m) = sA := by
    unfold updHighQC
    rw [if_pos (by show (hb cL sg m).view ≤ s.highQC.view; rw [hb_view, hbase.highQC, hqc_view]; exact hm)]
  rw [hsame] at hadv
  have ht := tick_newview k c s0 sA i _ [] (by show s.queue ++ _ = _; rw [hbase.queue]; rfl) hadv
  rw [step_run_eq k c s _ (99998 + 1 + 1) rfl, runLoop_succ k c _ s0 sA ht, runLoop_idle k c sA 99998 rfl]
  show (({ s with out := [], queue := [] } : RState), ([] : List Out)) = _
  rw [← hbase.queue]

/-- a vote for a block that is already certified changes nothing -/
theorem late_vote_noop (k : Keys) (c : RCfg) (cL : Who) (sg : Nat → Sig) (J m i id bytes : Nat) (s : RState)
    (hbase : Base cL sg J s) (hm : m ≤ J - 1) :
    step k c s (.vote id (some (.multi c.scheme [⟨i, bytes⟩])) (hname m) false) = ({ s with out := [] }, []) := by
  let s0 : RState := { s with out := [], queue := s.queue ++ [.vote id (some (.multi c.scheme [⟨i, bytes⟩])) (hname m) false] }
  let sA : RState := { s0 with queue := [] }
  have hl : sA.chain.blocks.lookup (hname m) = some (hb cL sg m) := by
    show s.chain.blocks.lookup _ = _
    rw [hbase.blocks, lookup_chainOf, if_pos (by omega)]
  have hcv := collectVote_late_run k c sA id i bytes (hname m) (hb cL sg m) hl
    (by show _ ≤ s.highQC.view; rw [hb_view, hbase.highQC, hqc_view]; exact hm)
  have ht := tick_vote k c s0 sA id _ _ false [] (by show s.queue ++ _ = _; rw [hbase.queue]; rfl) hcv
  rw [step_run_eq k c s _ (99998 + 1 + 1) rfl, runLoop_succ k c _ s0 sA ht, runLoop_idle k c sA 99998 rfl]
  show (({ s with out := [], queue := [] } : RState), ([] : List Out)) = _
  rw [← hbase.queue]


/-- **the leader keeps a vote that does not yet complete the quorum** -/
theorem leader_vote_add (k : Keys) (c : RCfg) (w : Who) (sg : Nat → Sig) (j i id bytes : Nat) (vs : List (Nat × Sig)) (s : RState)
    (hs : c.scheme ≠ .bls12)
    (hld : LD w sg (j + 1) vs s) (hi : c.cfg.has i = true)
    (hbytes : s.truth.lookup bytes = some ⟨i, blkMsg (pname (j + 1))⟩)
    (hnew : ∀ v ∈ vs, v.1 ≠ i) (hlen : vs.length + 1 < c.cfg.quorum) :
    (step k c s (.vote id (some (.multi c.scheme [⟨i, bytes⟩])) (pname (j + 1)) false)).2 = [] ∧
    LD w sg (j + 1) (vs ++ [(i, .multi c.scheme [⟨i, bytes⟩])])
      (step k c s (.vote id (some (.multi c.scheme [⟨i, bytes⟩])) (pname (j + 1)) false)).1 ∧
    (step k c s (.vote id (some (.multi c.scheme [⟨i, bytes⟩])) (pname (j + 1)) false)).1.truth = s.truth ∧
    (step k c s (.vote id (some (.multi c.scheme [⟨i, bytes⟩])) (pname (j + 1)) false)).1.nextBytes = s.nextBytes := by
  let sg1 : Sig := .multi c.scheme [⟨i, bytes⟩]
  let s0 : RState := { s with out := [], queue := s.queue ++ [.vote id (some sg1) (pname (j + 1)) false] }
  let sA : RState := { s0 with queue := [] }
  have hbase := hld.base
  have hl : sA.chain.blocks.lookup (pname (j + 1)) = some (hb w sg (j + 1)) := by
    show s.chain.blocks.lookup (hname (j + 1)) = _
    rw [hbase.blocks, lookup_chainOf, if_pos (Nat.le_refl _)]
  have hvl : (sA.votes.lookup (pname (j + 1))).getD [] = vs := by
    show (s.votes.lookup (pname (j + 1))).getD [] = vs
    rw [hld.votes]; simp [List.lookup]
  have hcv := collectVote_add_run k c sA id i bytes (pname (j + 1)) (hb w sg (j + 1)) false hl rfl
    (by show s.highQC.view < _; rw [hbase.highQC, hqc_view, hb_view]; omega)
    (verify_single _ c.cfg i bytes _ hs hi hbytes) (by rw [hvl]; exact hnew) (by rw [hvl]; exact hlen)
  let sB : RState := addVoteS sA (pname (j + 1)) i sg1
  have hsBq : sB.queue = [] := rfl
  have ht := tick_vote k c s0 sB id _ _ false [] (by show s.queue ++ _ = _; rw [hbase.queue]; rfl) hcv
  have hstep : step k c s (.vote id (some sg1) (pname (j + 1)) false) = ({ sB with out := [] }, []) := by
    rw [step_run_eq k c s _ (99998 + 1 + 1) rfl, runLoop_succ k c _ s0 sB ht, runLoop_idle k c sB 99998 hsBq]
    rfl
  have hvotes : sB.votes = [(pname (j + 1), vs ++ [(i, sg1)])] := by
    show cleanVotes sA _ = _
    rw [hvl]
    have hfil : sA.votes.filter (fun p => p.1 != pname (j + 1)) = [] := by
      show s.votes.filter _ = []
      rw [hld.votes]; simp
    rw [hfil]
    have hlg : sA.chain.localGet (pname (j + 1)) = some (hb w sg (j + 1)) := hl
    have hnv : ¬ (hb w sg (j + 1)).view ≤ sA.highQC.view := by
      show ¬ _ ≤ s.highQC.view; rw [hb_view, hbase.highQC, hqc_view]; omega
    simp [cleanVotes, hlg, hnv]
  show (step k c s (.vote id (some sg1) (pname (j + 1)) false)).2 = [] ∧ LD w sg (j + 1) _ (step k c s (.vote id (some sg1) (pname (j + 1)) false)).1 ∧
    (step k c s (.vote id (some sg1) (pname (j + 1)) false)).1.truth = s.truth ∧
    (step k c s (.vote id (some sg1) (pname (j + 1)) false)).1.nextBytes = s.nextBytes
  rw [hstep]
  refine ⟨rfl, ⟨⟨hbase.view, hbase.highQC, hbase.lastVoted, hbase.lock, hbase.committed, hbase.blocks, hbase.fetchable,
    hbase.prune, rfl, hbase.wprop, hbase.wvc⟩, hld.lastProposed, hld.nextCmd, hvotes⟩, rfl, rfl⟩


theorem base_congr (w : Who) (sg sg' : Nat → Sig) (j : Nat) (s : RState) (h : ∀ i, i < j → sg i = sg' i)
    (hb' : Base w sg j s) : Base w sg' j s := by
  have h1 : hqc sg (j - 1) = hqc sg' (j - 1) := by
    cases j with
    | zero => rfl
    | succ j => exact hqc_congr sg sg' j (fun i hi => h i (by omega))
  have h2 : hb w sg (j - 2) = hb w sg' (j - 2) := hb_congr w sg sg' _ (fun i hi => h i (by omega))
  have h3 : hb w sg (j - 3) = hb w sg' (j - 3) := hb_congr w sg sg' _ (fun i hi => h i (by omega))
  have h4 : chainOf w sg j = chainOf w sg' j := chainOf_congr w sg sg' j h
  exact ⟨hb'.view, h1 ▸ hb'.highQC, hb'.lastVoted, h2 ▸ hb'.lock, h3 ▸ hb'.committed, h4 ▸ hb'.blocks, hb'.fetchable,
    hb'.prune, hb'.queue, hb'.wprop, hb'.wvc⟩

/-- **the vote that completes the quorum**: the leader certifies block `j + 1` (the combined
signature becomes `sg' (j + 1)`), enters view `j + 2`, proposes block `j + 2` and keeps its own
vote for it -/
theorem leader_vote_quorum (k : Keys) (c : RCfg) (w : Who) (sg : Nat → Sig) (j i id bytes : Nat) (vs : List (Nat × Sig)) (s : RState)
    (hw : w.cfg (j + 2) = c) (hcnt : w.cnt (j + 2) = w.cnt (j + 1) + 1)
    (hs : c.scheme ≠ .bls12) (ha : c.agg = false) (hr : c.rules = .chained ∨ c.rules = .simple)
    (hid : c.cfg.has c.id = true) (hlead : ∀ v, c.leader v = c.id) (hq2 : 2 ≤ c.cfg.quorum)
    (hld : LD w sg (j + 1) vs s) (hvok : VotesOK (fun b => s.truth.lookup b) c.cfg (j + 1) vs)
    (hi : c.cfg.has i = true) (hbytes : s.truth.lookup bytes = some ⟨i, blkMsg (pname (j + 1))⟩)
    (hnew : ∀ v ∈ vs, v.1 ≠ i) (hlen : c.cfg.quorum ≤ vs.length + 1) (hf : FreshS s) :
    ∃ (sgq : Sig) (bytes' : Nat),
      LD w (fun m => if m = j + 1 then sgq else sg m) (j + 2) [(c.id, .multi c.scheme [⟨c.id, bytes'⟩])]
        (step k c s (.vote id (some (.multi c.scheme [⟨i, bytes⟩])) (pname (j + 1)) false)).1 ∧
      QCok (fun b => (step k c s (.vote id (some (.multi c.scheme [⟨i, bytes⟩])) (pname (j + 1)) false)).1.truth.lookup b)
        c.cfg (fun m => if m = j + 1 then sgq else sg m) (j + 1) ∧
      (step k c s (.vote id (some (.multi c.scheme [⟨i, bytes⟩])) (pname (j + 1)) false)).1.truth.lookup bytes' =
        some ⟨c.id, blkMsg (pname (j + 2))⟩ ∧
      FreshS (step k c s (.vote id (some (.multi c.scheme [⟨i, bytes⟩])) (pname (j + 1)) false)).1 ∧
      Ext s (step k c s (.vote id (some (.multi c.scheme [⟨i, bytes⟩])) (pname (j + 1)) false)).1 ∧
      ∀ C : SysCfg, route C c.id (step k c s (.vote id (some (.multi c.scheme [⟨i, bytes⟩])) (pname (j + 1)) false)).2 =
        (C.honest.filter (· != c.id)).map
          (fun x => (x, Ev.propose c.id (hb w (fun m => if m = j + 1 then sgq else sg m) (j + 2)) none)) := by
  let sg1 : Sig := .multi c.scheme [⟨i, bytes⟩]
  let hash := pname (j + 1)
  let blk := hb w sg (j + 1)
  have hbase := hld.base
  have hsgv : verify (fun b => s.truth.lookup b) c.cfg sg1 (blkMsg hash) = true :=
    verify_single _ c.cfg i bytes _ hs hi hbytes
  obtain ⟨sgq, hcomb, hverq, hlenq⟩ := combine_votes_verifies (fun b => s.truth.lookup b) c.cfg (blkMsg hash)
    (vs ++ [(i, sg1)])
    (by simp only [List.map_append, List.map_cons, List.map_nil]
        rw [List.nodup_append]
        refine ⟨hvok.nodup, by simp, ?_⟩
        intro a ha' b hb'
        simp at hb'; subst hb'
        obtain ⟨x, hx, hxe⟩ := List.mem_map.mp ha'
        intro e; exact hnew x hx (by rw [hxe, e]))
    (by simp; omega)
    (by intro v hv
        simp only [List.mem_append, List.mem_singleton] at hv
        rcases hv with hv | rfl
        · exact hvok.valid v hv
        · exact ⟨hi, Or.inl ⟨hs, bytes, rfl, hbytes⟩⟩)
  have hcomb' : combine c.cfg (vs.map (fun x => x.2) ++ [sg1]) = .ok sgq := by simpa using hcomb
  refine ⟨sgq, ?_⟩
  let sg' : Nat → Sig := fun m => if m = j + 1 then sgq else sg m
  have hsg' : ∀ m, m < j + 1 → sg m = sg' m := by
    intro m hm; show sg m = if m = j + 1 then sgq else sg m; rw [if_neg (by omega)]
  have hqceq : (⟨some sgq, blk.view, hash⟩ : QC) = hqc sg' (j + 1) := by
    show (⟨some sgq, (hb w sg (j + 1)).view, pname (j + 1)⟩ : QC) = ⟨some (sg' (j + 1)), j + 1, pname (j + 1)⟩
    rw [hb_view]; show _ = (⟨some (if j + 1 = j + 1 then sgq else sg (j + 1)), j + 1, pname (j + 1)⟩ : QC); rw [if_pos rfl]
  let qc : QC := hqc sg' (j + 1)
  let s0 : RState := { s with out := [], queue := s.queue ++ [.vote id (some sg1) hash false] }
  let sA : RState := { s0 with queue := [] }
  have hblk : sA.chain.blocks.lookup hash = some blk := by
    show s.chain.blocks.lookup (hname (j + 1)) = _
    rw [hbase.blocks, lookup_chainOf, if_pos (Nat.le_refl _)]
  have hvl : (sA.votes.lookup hash).getD [] = vs := by
    show (s.votes.lookup (pname (j + 1))).getD [] = vs
    rw [hld.votes]; simp [List.lookup]
  have hqcok : QCok (fun b => s.truth.lookup b) c.cfg sg' (j + 1) :=
    Or.inr ⟨by show verify _ _ (if j + 1 = j + 1 then sgq else sg (j + 1)) _ = true; rw [if_pos rfl]; exact hverq,
      by show _ ≤ (if j + 1 = j + 1 then sgq else sg (j + 1)).len; rw [if_pos rfl, hlenq]; simpa using hlen⟩
  have hbase' : Base w sg' (j + 1) s := base_congr w sg sg' (j + 1) s hsg' hbase
  have hcv : (collectVote k c id (some sg1) hash false).run sA = pure ((), qcFormedS c sA hash qc) := by
    have := collectVote_quorum_run k c sA id i bytes hash blk false sgq hblk (hb_hash w sg (j + 1)) (pname_ne_genesis _)
      (by show s.highQC.view < _; rw [hbase.highQC, hqc_view, hb_view]; omega) hsgv (by rw [hvl]; exact hnew)
      (by rw [hvl]; exact hlen) (by rw [hvl]; exact hcomb')
    rw [hqceq] at this; exact this
  let sB : RState := qcFormedS c sA hash qc
  have ht1 : (tick k c).run s0 = pure (true, sB) :=
    tick_vote k c s0 sB id (some sg1) hash false [] (by show s.queue ++ _ = _; rw [hbase.queue]; rfl) hcv
  let sC : RState := { sB with queue := [] }
  have hsCvotes : sC.votes = [] := by
    show cleanVotes sA (sA.votes.filter _) = []
    have : sA.votes.filter (fun p => p.1 != hash) = [] := by
      show s.votes.filter _ = []; rw [hld.votes]; simp [hash]
    rw [this]; rfl
  have hver : verifyQC (env k c sC) qc = true :=
    verifyQC_happy k c w sg' sC (j + 1) (j + 1) (Nat.le_refl _) hbase'.blocks hqcok
  have hlk' : sC.chain.blocks.lookup qc.hash = some (hb w sg' (j + 1)) := by
    show s.chain.blocks.lookup _ = _
    rw [hbase'.blocks]; exact lookup_hqc w sg' (j + 1) (j + 1) (Nat.le_refl _)
  have hsCview : sC.view = j + 1 := by show s.view = _; rw [hbase.view]; omega
  let m : RState := movedS sC qc (hb w sg' (j + 1))
  have hmhq : (updHighQC sC qc (hb w sg' (j + 1))).highQC = qc := by
    unfold updHighQC
    rw [if_neg (by show ¬ (hb w sg' (j + 1)).view ≤ s.highQC.view; rw [hb_view, hbase.highQC, hqc_view]; omega)]
  obtain ⟨bytes', evs, F, hrun, hP⟩ := leader_propose k c w sg' (j + 1) m none hw hs hr hid hlead hq2
    (by show sC.view + 1 = _; rw [hsCview]) hmhq (by show s.lastVoted ≤ _; rw [hbase.lastVoted]; exact Nat.le_refl _)
    hld.lastProposed (by show s.nextCmd = _; rw [hld.nextCmd]; exact hcnt.symm) hbase'.lock hbase'.committed hbase'.blocks hbase'.fetchable hbase'.prune hsCvotes hf hqcok
  have hadv : (advanceView k c { qc := some qc }).run sC = pure ((), F) := by
    rw [advanceView_move k c sC qc (hb w sg' (j + 1)) ha hver hlk' (by rw [hsCview]; show j + 1 = (hqc sg' (j + 1)).view; rw [hqc_view])]
    rw [if_pos (hlead _), hmhq]
    exact hrun
  have ht2 : (tick k c).run sB = pure (true, F) :=
    tick_newview k c sB F c.id { qc := some qc } [] rfl hadv
  let q : List Ev := [Ev.viewChange (j + 2) false] ++ evs
  have hFq : F.queue = q := by
    rw [hP.queue]; show (sC.queue ++ [Ev.viewChange (sC.view + 1) false]) ++ evs = _
    rw [hsCview]; rfl
  have hquiet : ∀ e ∈ q, e.quiet = true := by
    intro e he
    simp only [q, List.mem_append, List.mem_singleton] at he
    rcases he with rfl | he
    · rfl
    · exact quiet_of_passive e (hP.passive e he)
  have hrest := runLoop_quiet k c q 99998 F hquiet (by rw [hP.wvc]; exact hbase.wvc)
    (by simp only [q, List.length_append, List.length_singleton]; have := hP.short; omega)
  have hFF : F = { F with queue := q } := by rw [← hFq]
  have hstep : step k c s (.vote id (some sg1) hash false) =
      ({ F with queue := [], out := [] }, F.out ++ q.map Ev.toOut) := by
    rw [step_run_eq k c s _ (99998 + 1 + 1) rfl, runLoop_succ k c _ s0 sB ht1, runLoop_succ k c _ sB F ht2, hFF, hrest]
    rfl
  refine ⟨bytes', ?_⟩
  show LD w sg' (j + 2) _ (step k c s (.vote id (some sg1) hash false)).1 ∧
    QCok (fun b => (step k c s (.vote id (some sg1) hash false)).1.truth.lookup b) c.cfg sg' (j + 1) ∧
    (step k c s (.vote id (some sg1) hash false)).1.truth.lookup bytes' = _ ∧
    FreshS (step k c s (.vote id (some sg1) hash false)).1 ∧ Ext s (step k c s (.vote id (some sg1) hash false)).1 ∧
    ∀ C : SysCfg, route C c.id (step k c s (.vote id (some sg1) hash false)).2 = _
  rw [hstep]
  have hextF : Ext s { F with queue := [], out := [] } := by
    have e1 : Ext s m := ext_of_eq s m hf.2 rfl rfl rfl
    have e2 : Ext F { F with queue := [], out := [] } := ext_of_eq _ _ hP.fresh.2 rfl rfl rfl
    exact (e1.trans hP.ext).trans e2
  refine ⟨⟨⟨?_, ?_, ?_, ?_, ?_, ?_, ?_, ?_, rfl, ?_, ?_⟩, ?_, ?_, ?_⟩, ?_, hP.table, hP.fresh, hextF, ?_⟩
  · show F.view = _; rw [hP.view]; show j + 1 + 1 = max (j + 2) 1; omega
  · show F.highQC = _; rw [hP.highQC]; rfl
  · show F.lastVoted = _; rw [hP.lastVoted]
  · show F.lock = _; rw [hP.lock]; rfl
  · show F.committed = _; rw [hP.committed]; rfl
  · show F.chain.blocks = _; rw [hP.blocks]
  · show F.chain.fetchable = _; rw [hP.fetchable]
  · show F.chain.pruneHeight = _; rw [hP.prune]; rfl
  · show F.waitingProp = _; rw [hP.wprop]; exact hbase.wprop
  · show F.waitingVC = _; rw [hP.wvc]; exact hbase.wvc
  · show F.lastProposed = _; rw [hP.lastProposed]
  · show F.nextCmd = _; rw [hP.nextCmd]
  · show F.votes = _; rw [hP.votes]
  · rcases hqcok with h | ⟨h1, h2⟩
    · omega
    · exact Or.inr ⟨verify_mono _ _ _ _ _ (fun b a hb' => hextF.truth b a hb') h1, h2⟩
  · intro C
    show route C c.id (F.out ++ q.map Ev.toOut) = _
    rw [route_append, hP.out, route_silent C c.id (q.map Ev.toOut) (by
      intro o ho
      obtain ⟨e, he, rfl⟩ := List.mem_map.mp ho
      exact toOut_silent e (hquiet e he))]
    show route C c.id ([] ++ _) ++ [] = _
    simp [route]
    intro _ _ _; rfl

/-! ## the system on the happy path -/

theorem lookup_setKV_same {α} (l : List (Nat × α)) (i : Nat) (v : α) : (setKV i v l).lookup i = some v := by
  induction l with
  | nil => simp [setKV, List.lookup]
  | cons p rest ih =>
    obtain ⟨k', v'⟩ := p
    unfold setKV
    by_cases h : k' = i
    · subst h; simp [List.lookup]
    · have h1 : (k' == i) = false := by simpa using h
      have h2 : (i == k') = false := by simpa using fun e => h e.symm
      simp [h1, List.lookup, h2, ih]

theorem lookup_setKV_other {α} (l : List (Nat × α)) (i i' : Nat) (v : α) (h : i' ≠ i) :
    (setKV i v l).lookup i' = l.lookup i' := by
  induction l with
  | nil =>
    have : (i' == i) = false := by simpa using h
    simp [setKV, List.lookup, this]
  | cons p rest ih =>
    obtain ⟨k', v'⟩ := p
    unfold setKV
    by_cases hk : k' = i
    · subst hk
      have : (i' == k') = false := by simpa using h
      simp [List.lookup, this]
    · have h1 : (k' == i) = false := by simpa using hk
      simp only [h1, Bool.false_eq_true, if_false, List.lookup]
      split
      · rfl
      · exact ih

theorem keys_setKV {α} (l : List (Nat × α)) (i : Nat) (v : α) (h : i ∈ l.map (·.1)) :
    (setKV i v l).map (·.1) = l.map (·.1) := by
  induction l with
  | nil => simp at h
  | cons p rest ih =>
    obtain ⟨k', v'⟩ := p
    unfold setKV
    by_cases hk : k' = i
    · subst hk; simp
    · have h1 : (k' == i) = false := by simpa using hk
      simp only [h1, Bool.false_eq_true, if_false, List.map_cons]
      simp only [List.map_cons, List.mem_cons] at h
      rcases h with h | h
      · exact absurd h.symm hk
      · rw [ih h]

/-- one delivery, seen from the system -/
theorem runOut_spec (σ : SysState) (i : Nat) (f : RState → RState × List Out) (s : RState) (hl : σ.reps.lookup i = some s) :
    (σ.runOut i f).1.reps = setKV i (f { s with truth := σ.truth, nextBytes := σ.nextBytes }).1 σ.reps ∧
    (σ.runOut i f).1.truth = (f { s with truth := σ.truth, nextBytes := σ.nextBytes }).1.truth ∧
    (σ.runOut i f).1.nextBytes = (f { s with truth := σ.truth, nextBytes := σ.nextBytes }).1.nextBytes ∧
    (σ.runOut i f).2 = (f { s with truth := σ.truth, nextBytes := σ.nextBytes }).2 := by
  unfold SysState.runOut
  rw [hl]
  exact ⟨rfl, rfl, rfl, rfl⟩

theorem base_with_table (c : Who) (sg : Nat → Sig) (j : Nat) (s : RState) (T : List (Nat × Atom)) (nb : Nat)
    (h : Base c sg j s) : Base c sg j { s with truth := T, nextBytes := nb } :=
  ⟨h.view, h.highQC, h.lastVoted, h.lock, h.committed, h.blocks, h.fetchable, h.prune, h.queue, h.wprop, h.wvc⟩

theorem base_of_with_table (c : Who) (sg : Nat → Sig) (j : Nat) (s : RState) (T : List (Nat × Atom)) (nb : Nat)
    (h : Base c sg j { s with truth := T, nextBytes := nb }) : Base c sg j s :=
  ⟨h.view, h.highQC, h.lastVoted, h.lock, h.committed, h.blocks, h.fetchable, h.prune, h.queue, h.wprop, h.wvc⟩

theorem ld_with_table (c : Who) (sg : Nat → Sig) (j : Nat) (vs : List (Nat × Sig)) (s : RState) (T : List (Nat × Atom)) (nb : Nat)
    (h : LD c sg j vs s) : LD c sg j vs { s with truth := T, nextBytes := nb } :=
  ⟨base_with_table c sg j s T nb h.base, h.lastProposed, h.nextCmd, h.votes⟩


/-- the fault-free configuration: all `n ≥ 2` replicas run the model, leader `L` is fixed, chained or
simplified HotStuff, plain timeout rule, ECDSA / EdDSA -/
structure HappyCfg (C : SysCfg) (L : Nat) : Prop where
  scheme : C.scheme ≠ .bls12
  agg : C.agg = false
  rules : C.rules = .chained ∨ C.rules = .simple
  leaders : C.leaders = .fixed L
  nodup : C.honest.Nodup
  range : ∀ i ∈ C.honest, 1 ≤ i ∧ i ≤ C.n
  all : C.honest.length = C.n
  leader : L ∈ C.honest
  two : 2 ≤ C.n

theorem HappyCfg.lead {C : SysCfg} {L : Nat} (h : HappyCfg C L) (i v : Nat) : (C.rcfg i).leader v = L := by
  unfold RCfg.leader SysCfg.rcfg
  simp [h.leaders]

theorem HappyCfg.has {C : SysCfg} {L : Nat} (h : HappyCfg C L) (i j : Nat) (hi : i ∈ C.honest) : (C.rcfg j).cfg.has i = true := by
  have := h.range i hi
  simp [Cfg.has, RCfg.cfg, SysCfg.rcfg, this.1, this.2]

theorem quorum_bounds (n : Nat) (h : 2 ≤ n) : 2 ≤ quorumSize n ∧ quorumSize n ≤ n := by
  unfold quorumSize numFaulty
  omega

theorem HappyCfg.quorum {C : SysCfg} {L : Nat} (h : HappyCfg C L) (i : Nat) :
    2 ≤ (C.rcfg i).cfg.quorum ∧ (C.rcfg i).cfg.quorum ≤ C.n := by
  show 2 ≤ quorumSize C.n ∧ quorumSize C.n ≤ C.n
  exact quorum_bounds C.n h.two

/-- the replicas other than the leader, in the order of `C.honest` -/
def othersOf (C : SysCfg) (L : Nat) : List Nat := C.honest.filter (· != L)

theorem QCok.mono {T T' : Truth} {cfg : Cfg} {sg : Nat → Sig} {m : Nat} (h : QCok T cfg sg m) (hT : TruthLe T T') :
    QCok T' cfg sg m := by
  rcases h with h | ⟨h1, h2⟩
  · exact Or.inl h
  · exact Or.inr ⟨verify_mono T T' cfg _ _ hT h1, h2⟩

/-- the leader has proposed block `J ≥ 1` and holds its own vote (bytes `bL`) for it; the
certificates of the blocks below `J` verify against the global table -/
structure LeaderAt (C : SysCfg) (L : Nat) (sg : Nat → Sig) (J bL : Nat) (σ : SysState) : Prop where
  fresh : FreshL σ.truth σ.nextBytes
  keys : σ.reps.map (·.1) = C.honest
  qcs : ∀ m, m + 1 ≤ J → QCok (fun b => σ.truth.lookup b) (C.rcfg L).cfg sg m
  leader : ∃ sL, σ.reps.lookup L = some sL ∧ LD (fixedWho (C.rcfg L)) sg J [(L, .multi C.scheme [⟨L, bL⟩])] sL
  own : σ.truth.lookup bL = some ⟨L, blkMsg (pname J)⟩

/-- what non-leader `i` sends to the leader after the proposal of block `j + 1`: its new view (from
the second proposal on) and its vote (signature bytes `bytes i`) -/
def voteMsgs (C : SysCfg) (sg : Nat → Sig) (L j : Nat) (bytes : Nat → Nat) (i : Nat) : Msgs :=
  (if 1 ≤ j then [(L, Ev.newview i { qc := some (hqc sg j) })] else []) ++
  [(L, Ev.vote i (some (.multi C.scheme [⟨i, bytes i⟩])) (pname (j + 1)) false)]


theorem flatMap_congr' {α β} (l : List α) (f g : α → List β) (h : ∀ x ∈ l, f x = g x) : l.flatMap f = l.flatMap g := by
  induction l with
  | nil => rfl
  | cons a rest ih =>
    simp only [List.flatMap_cons]
    rw [h a (by simp), ih (fun x hx => h x (by simp [hx]))]

/-- **the proposal round**: the proposal of block `j + 1` reaches the non-leaders `todo` one after
the other; each moves from `Base j` to `Base (j + 1)` and answers with `voteMsgs` -/
theorem deliver_proposals (k : Keys) (C : SysCfg) (L : Nat) (hC : HappyCfg C L) (sg : Nat → Sig) (j bL : Nat) :
    ∀ (todo done : List Nat) (σ : SysState) (bytes : Nat → Nat),
      (todo.Nodup) → (∀ i ∈ todo, i ∈ C.honest ∧ i ≠ L ∧ i ∉ done) →
      LeaderAt C L sg (j + 1) bL σ →
      (∀ i ∈ todo, ∃ si, σ.reps.lookup i = some si ∧ Base (fixedWho (C.rcfg L)) sg j si) →
      (∀ i ∈ done, (∃ si, σ.reps.lookup i = some si ∧ Base (fixedWho (C.rcfg L)) sg (j + 1) si) ∧
        σ.truth.lookup (bytes i) = some ⟨i, blkMsg (pname (j + 1))⟩) →
      ∃ bytes' : Nat → Nat,
        LeaderAt C L sg (j + 1) bL
          (deliverAll k C (σ, done.flatMap (voteMsgs C sg L j bytes)) (todo.map fun i => (i, Ev.propose L (hb (fixedWho (C.rcfg L)) sg (j + 1)) none))).1 ∧
        (∀ i ∈ done ++ todo,
          (∃ si, (deliverAll k C (σ, done.flatMap (voteMsgs C sg L j bytes)) (todo.map fun i => (i, Ev.propose L (hb (fixedWho (C.rcfg L)) sg (j + 1)) none))).1.reps.lookup i = some si ∧
            Base (fixedWho (C.rcfg L)) sg (j + 1) si) ∧
          (deliverAll k C (σ, done.flatMap (voteMsgs C sg L j bytes)) (todo.map fun i => (i, Ev.propose L (hb (fixedWho (C.rcfg L)) sg (j + 1)) none))).1.truth.lookup (bytes' i) =
            some ⟨i, blkMsg (pname (j + 1))⟩) ∧
        (deliverAll k C (σ, done.flatMap (voteMsgs C sg L j bytes)) (todo.map fun i => (i, Ev.propose L (hb (fixedWho (C.rcfg L)) sg (j + 1)) none))).2 =
          (done ++ todo).flatMap (voteMsgs C sg L j bytes') := by
  intro todo
  induction todo with
  | nil =>
    intro done σ bytes _ _ hL _ hdone
    refine ⟨bytes, hL, ?_, by simp [deliverAll]⟩
    intro i hi
    simp only [List.append_nil] at hi
    exact hdone i hi
  | cons i rest ih =>
    intro done σ bytes hnd hmem hL htodo hdone
    obtain ⟨si, hli, hbi⟩ := htodo i (by simp)
    obtain ⟨hih, hiL, hid⟩ := hmem i (by simp)
    let s : RState := { si with truth := σ.truth, nextBytes := σ.nextBytes }
    have hstepfacts := nl_propose_step k (C.rcfg i) (fixedWho (C.rcfg L)) sg j L L s hC.scheme hC.agg hC.rules (hC.lead i _) (hC.lead i _) hiL hiL
      (base_with_table _ _ _ _ _ _ hbi) hL.fresh (hL.qcs j (Nat.le_refl _))
    obtain ⟨hb1, hf1, hext, b, hbt, hroute, _, _, _⟩ := hstepfacts
    obtain ⟨hr1, hr2, hr3, hr4⟩ := runOut_spec σ i (fun s => step k (C.rcfg i) s (.propose L (hb (fixedWho (C.rcfg L)) sg (j + 1)) none)) si hli
    let r := σ.runOut i (fun s => step k (C.rcfg i) s (.propose L (hb (fixedWho (C.rcfg L)) sg (j + 1)) none))
    let bytes1 : Nat → Nat := fun x => if x = i then b else bytes x
    have hTle : ∀ x a, σ.truth.lookup x = some a → r.1.truth.lookup x = some a := by
      intro x a hx
      rw [show r.1.truth = _ from hr2]
      exact hext.truth x a hx
    have hL' : LeaderAt C L sg (j + 1) bL r.1 := by
      refine ⟨?_, ?_, ?_, ?_, hTle _ _ hL.own⟩
      · rw [show r.1.truth = _ from hr2, show r.1.nextBytes = _ from hr3]; exact hf1
      · rw [show r.1.reps = _ from hr1, keys_setKV _ _ _ (by rw [hL.keys]; exact hih)]; exact hL.keys
      · intro m hm; exact (hL.qcs m hm).mono (fun x a hx => hTle x a hx)
      · obtain ⟨sL, h1, h2⟩ := hL.leader
        exact ⟨sL, by rw [show r.1.reps = _ from hr1, lookup_setKV_other _ _ _ _ (fun e => hiL e.symm)]; exact h1, h2⟩
    have hrest : ∀ x ∈ rest, ∃ sx, r.1.reps.lookup x = some sx ∧ Base (fixedWho (C.rcfg L)) sg j sx := by
      intro x hx
      obtain ⟨sx, h1, h2⟩ := htodo x (by simp [hx])
      have hxi : x ≠ i := by
        intro e; subst e
        exact (List.nodup_cons.mp hnd).1 hx
      exact ⟨sx, by rw [show r.1.reps = _ from hr1, lookup_setKV_other _ _ _ _ hxi]; exact h1, h2⟩
    have hdone' : ∀ x ∈ done ++ [i], (∃ sx, r.1.reps.lookup x = some sx ∧ Base (fixedWho (C.rcfg L)) sg (j + 1) sx) ∧
        r.1.truth.lookup (bytes1 x) = some ⟨x, blkMsg (pname (j + 1))⟩ := by
      intro x hx
      simp only [List.mem_append, List.mem_singleton] at hx
      rcases hx with hx | rfl
      · obtain ⟨⟨sx, h1, h2⟩, h3⟩ := hdone x hx
        have hxi : x ≠ i := fun e => hid (e ▸ hx)
        refine ⟨⟨sx, by rw [show r.1.reps = _ from hr1, lookup_setKV_other _ _ _ _ hxi]; exact h1, h2⟩, ?_⟩
        show r.1.truth.lookup (if x = i then b else bytes x) = _
        rw [if_neg hxi]; exact hTle _ _ h3
      · refine ⟨⟨_, by rw [show r.1.reps = _ from hr1]; exact lookup_setKV_same _ _ _, hb1⟩, ?_⟩
        show r.1.truth.lookup (if x = x then b else bytes x) = _
        rw [if_pos rfl, show r.1.truth = _ from hr2]; exact hbt
    have hacc : done.flatMap (voteMsgs C sg L j bytes) ++ route C i r.2 = (done ++ [i]).flatMap (voteMsgs C sg L j bytes1) := by
      rw [List.flatMap_append]
      congr 1
      · apply flatMap_congr'
        intro x hx
        have hxi : x ≠ i := fun e => hid (e ▸ hx)
        unfold voteMsgs
        show _ = _ ++ [(L, Ev.vote x (some (.multi C.scheme [⟨x, if x = i then b else bytes x⟩])) _ false)]
        rw [if_neg hxi]
      · rw [show r.2 = _ from hr4]
        have := hroute C
        simp only [List.flatMap_cons, List.flatMap_nil, List.append_nil]
        unfold voteMsgs
        show _ = _ ++ [(L, Ev.vote i (some (.multi C.scheme [⟨i, if i = i then b else bytes i⟩])) _ false)]
        rw [if_pos rfl]
        exact this
    have hmem' : ∀ x ∈ rest, x ∈ C.honest ∧ x ≠ L ∧ x ∉ done ++ [i] := by
      intro x hx
      obtain ⟨h1, h2, h3⟩ := hmem x (by simp [hx])
      refine ⟨h1, h2, ?_⟩
      simp only [List.mem_append, List.mem_singleton, not_or]
      exact ⟨h3, fun e => (List.nodup_cons.mp hnd).1 (e ▸ hx)⟩
    obtain ⟨bytes', h1, h2, h3⟩ := ih (done ++ [i]) r.1 bytes1 (List.nodup_cons.mp hnd).2 hmem' hL' hrest hdone'
    refine ⟨bytes', ?_, ?_, ?_⟩
    · simp only [List.map_cons, deliverAll]
      rw [hacc]; exact h1
    · intro x hx
      simp only [List.map_cons, deliverAll]
      rw [hacc]
      exact h2 x (by simpa using hx)
    · simp only [List.map_cons, deliverAll]
      rw [hacc, h3]
      simp

theorem deliverAll_append (k : Keys) (C : SysCfg) (a b : Msgs) (x : SysState × Msgs) :
    deliverAll k C x (a ++ b) = deliverAll k C (deliverAll k C x a) b := by
  induction a generalizing x with
  | nil => rfl
  | cons m rest ih =>
    obtain ⟨σ, out⟩ := x
    obtain ⟨i, e⟩ := m
    simp only [List.cons_append, deliverAll]
    exact ih _

theorem deliverAll_one (k : Keys) (C : SysCfg) (σ : SysState) (acc : Msgs) (i : Nat) (e : Ev) :
    deliverAll k C (σ, acc) [(i, e)] =
      ((σ.runOut i (fun s => step k (C.rcfg i) s e)).1, acc ++ route C i (σ.runOut i (fun s => step k (C.rcfg i) s e)).2) := rfl

/-- the system after a delivery to `L` that left `L`'s state alone (up to the effects) and emitted nothing -/
theorem runOut_noop (σ : SysState) (L : Nat) (f : RState → RState × List Out) (sL : RState)
    (hl : σ.reps.lookup L = some sL)
    (hf : f { sL with truth := σ.truth, nextBytes := σ.nextBytes } =
      ({ ({ sL with truth := σ.truth, nextBytes := σ.nextBytes } : RState) with out := [] }, [])) :
    (σ.runOut L f).1.reps = setKV L { ({ sL with truth := σ.truth, nextBytes := σ.nextBytes } : RState) with out := [] } σ.reps ∧
    (σ.runOut L f).1.truth = σ.truth ∧ (σ.runOut L f).1.nextBytes = σ.nextBytes ∧ (σ.runOut L f).2 = [] := by
  obtain ⟨h1, h2, h3, h4⟩ := runOut_spec σ L f sL hl
  rw [hf] at h1 h2 h3 h4
  exact ⟨h1, h2, h3, h4⟩

/-- the leader holds the votes `vs` (its own and those of `done`) for block `j + 1`, fewer than a quorum -/
structure LeaderVotes (C : SysCfg) (L : Nat) (sg : Nat → Sig) (j : Nat) (done : List Nat) (vs : List (Nat × Sig))
    (σ : SysState) : Prop where
  fresh : FreshL σ.truth σ.nextBytes
  keys : σ.reps.map (·.1) = C.honest
  qcs : ∀ m, m ≤ j → QCok (fun b => σ.truth.lookup b) (C.rcfg L).cfg sg m
  leader : ∃ sL, σ.reps.lookup L = some sL ∧ LD (fixedWho (C.rcfg L)) sg (j + 1) vs sL
  votes : VotesOK (fun b => σ.truth.lookup b) (C.rcfg L).cfg (j + 1) vs
  count : vs.length = done.length + 1
  from_ : ∀ v ∈ vs, v.1 = L ∨ v.1 ∈ done

/-- the state of the vote round after the votes of `done` have reached the leader: either the
leader is still collecting (no message sent), or it has certified block `j + 1` with a combined
signature `sg' (j + 1)`, proposed block `j + 2` to everybody else, and ignores what follows -/
def VPhase (C : SysCfg) (L : Nat) (sg : Nat → Sig) (j : Nat) (done : List Nat) (x : SysState × Msgs) : Prop :=
  (done.length + 1 < (C.rcfg L).cfg.quorum ∧ x.2 = [] ∧ ∃ vs, LeaderVotes C L sg j done vs x.1) ∨
  ((C.rcfg L).cfg.quorum ≤ done.length + 1 ∧ ∃ (sg' : Nat → Sig) (bL' : Nat),
    (∀ m, m ≠ j + 1 → sg' m = sg m) ∧ LeaderAt C L sg' (j + 2) bL' x.1 ∧
    x.2 = (othersOf C L).map (fun i => (i, Ev.propose L (hb (fixedWho (C.rcfg L)) sg' (j + 2)) none)))


theorem ld_noop (c : Who) (sg : Nat → Sig) (j : Nat) (vs : List (Nat × Sig)) (s : RState) (T : List (Nat × Atom)) (nb : Nat)
    (h : LD c sg j vs s) : LD c sg j vs { ({ s with truth := T, nextBytes := nb } : RState) with out := [] } :=
  ⟨⟨h.base.view, h.base.highQC, h.base.lastVoted, h.base.lock, h.base.committed, h.base.blocks, h.base.fetchable,
    h.base.prune, h.base.queue, h.base.wprop, h.base.wvc⟩, h.lastProposed, h.nextCmd, h.votes⟩

/-- a delivery to the leader only touches the leader's state and extends the table -/
structure StepL (L : Nat) (σ σ' : SysState) : Prop where
  table : ∀ b a, σ.truth.lookup b = some a → σ'.truth.lookup b = some a
  others : ∀ i, i ≠ L → σ'.reps.lookup i = σ.reps.lookup i

theorem StepL.refl (L : Nat) (σ : SysState) : StepL L σ σ := ⟨fun _ _ h => h, fun _ _ => rfl⟩
theorem StepL.trans {L : Nat} {a b c : SysState} (h1 : StepL L a b) (h2 : StepL L b c) : StepL L a c :=
  ⟨fun x y h => h2.table x y (h1.table x y h), fun i hi => (h2.others i hi).trans (h1.others i hi)⟩

theorem leaderVotes_noop (C : SysCfg) (L : Nat) (hL : L ∈ C.honest) (sg : Nat → Sig) (j : Nat) (done : List Nat) (vs : List (Nat × Sig))
    (σ σ' : SysState) (sL : RState) (hl : σ.reps.lookup L = some sL)
    (hr : σ'.reps = setKV L { ({ sL with truth := σ.truth, nextBytes := σ.nextBytes } : RState) with out := [] } σ.reps)
    (ht : σ'.truth = σ.truth) (hn : σ'.nextBytes = σ.nextBytes) (h : LeaderVotes C L sg j done vs σ) :
    LeaderVotes C L sg j done vs σ' ∧ StepL L σ σ' := by
  obtain ⟨sL', h1, h2⟩ := h.leader
  rw [hl] at h1; cases h1
  refine ⟨⟨by rw [ht, hn]; exact h.fresh, by rw [hr, keys_setKV _ _ _ (by rw [h.keys]; exact hL)]; exact h.keys,
    by rw [ht]; exact h.qcs, ⟨_, by rw [hr]; exact lookup_setKV_same _ _ _, ld_noop _ _ _ _ _ _ _ h2⟩,
    by rw [ht]; exact h.votes, h.count, h.from_⟩, ⟨by rw [ht]; exact fun _ _ h => h, ?_⟩⟩
  intro i hi
  rw [hr, lookup_setKV_other _ _ _ _ hi]

theorem leaderAt_noop (C : SysCfg) (L : Nat) (hL : L ∈ C.honest) (sg : Nat → Sig) (J bL : Nat)
    (σ σ' : SysState) (sL : RState) (hl : σ.reps.lookup L = some sL)
    (hr : σ'.reps = setKV L { ({ sL with truth := σ.truth, nextBytes := σ.nextBytes } : RState) with out := [] } σ.reps)
    (ht : σ'.truth = σ.truth) (hn : σ'.nextBytes = σ.nextBytes) (h : LeaderAt C L sg J bL σ) :
    LeaderAt C L sg J bL σ' ∧ StepL L σ σ' := by
  obtain ⟨sL', h1, h2⟩ := h.leader
  rw [hl] at h1; cases h1
  refine ⟨⟨by rw [ht, hn]; exact h.fresh, by rw [hr, keys_setKV _ _ _ (by rw [h.keys]; exact hL)]; exact h.keys,
    by rw [ht]; exact h.qcs, ⟨_, by rw [hr]; exact lookup_setKV_same _ _ _, ld_noop _ _ _ _ _ _ _ h2⟩,
    by rw [ht]; exact h.own⟩, ⟨by rw [ht]; exact fun _ _ h => h, ?_⟩⟩
  intro i hi
  rw [hr, lookup_setKV_other _ _ _ _ hi]

/-- a new-view message of the vote round reaches the leader: nothing changes -/
theorem vphase_newview (k : Keys) (C : SysCfg) (L : Nat) (hC : HappyCfg C L) (sg : Nat → Sig) (j i : Nat) (done : List Nat)
    (x : SysState × Msgs) (h : VPhase C L sg j done x) :
    VPhase C L sg j done (deliverAll k C x [(L, Ev.newview i { qc := some (hqc sg j) })]) ∧
    StepL L x.1 (deliverAll k C x [(L, Ev.newview i { qc := some (hqc sg j) })]).1 := by
  obtain ⟨σ, acc⟩ := x
  rw [deliverAll_one]
  rcases h with ⟨hlt, hacc, vs, hv⟩ | ⟨hge, sg', bL', hagree, hla, hacc⟩
  · obtain ⟨sL, hl, hld⟩ := hv.leader
    have hno := newview_noop k (C.rcfg L) (fixedWho (C.rcfg L)) sg (j + 1) j i { sL with truth := σ.truth, nextBytes := σ.nextBytes }
      hC.agg (base_with_table _ _ _ _ _ _ hld.base) (by omega) (hv.qcs j (Nat.le_refl _))
    obtain ⟨r1, r2, r3, r4⟩ := runOut_noop σ L (fun s => step k (C.rcfg L) s (.newview i { qc := some (hqc sg j) })) sL hl hno
    obtain ⟨hv', hst⟩ := leaderVotes_noop C L hC.leader sg j done vs σ _ sL hl r1 r2 r3 hv
    refine ⟨Or.inl ⟨hlt, ?_, vs, hv'⟩, hst⟩
    show acc ++ route C L _ = []
    rw [r4]; simpa [route] using hacc
  · obtain ⟨sL, hl, hld⟩ := hla.leader
    have hq : hqc sg j = hqc sg' j := hqc_congr sg sg' j (fun m hm => (hagree m (by omega)).symm)
    rw [hq]
    have hno := newview_noop k (C.rcfg L) (fixedWho (C.rcfg L)) sg' (j + 2) j i { sL with truth := σ.truth, nextBytes := σ.nextBytes }
      hC.agg (base_with_table _ _ _ _ _ _ hld.base) (by omega) (hla.qcs j (by omega))
    obtain ⟨r1, r2, r3, r4⟩ := runOut_noop σ L (fun s => step k (C.rcfg L) s (.newview i { qc := some (hqc sg' j) })) sL hl hno
    obtain ⟨hv', hst⟩ := leaderAt_noop C L hC.leader sg' (j + 2) bL' σ _ sL hl r1 r2 r3 hla
    refine ⟨Or.inr ⟨hge, sg', bL', hagree, hv', ?_⟩, hst⟩
    show acc ++ route C L _ = _
    rw [r4]; simpa [route] using hacc


theorem qcok_agree (T : Truth) (cfg : Cfg) (sg sg' : Nat → Sig) (m : Nat) (h : sg' m = sg m) (hq : QCok T cfg sg m) :
    QCok T cfg sg' m := by
  unfold QCok at *
  rw [h]; exact hq

/-- a vote of the vote round reaches the leader -/
theorem vphase_vote (k : Keys) (C : SysCfg) (L : Nat) (hC : HappyCfg C L) (sg : Nat → Sig) (j i b : Nat) (done : List Nat)
    (x : SysState × Msgs) (h : VPhase C L sg j done x)
    (hih : i ∈ C.honest) (hiL : i ≠ L) (hid : i ∉ done)
    (hb' : x.1.truth.lookup b = some ⟨i, blkMsg (pname (j + 1))⟩) :
    VPhase C L sg j (done ++ [i]) (deliverAll k C x [(L, Ev.vote i (some (.multi C.scheme [⟨i, b⟩])) (pname (j + 1)) false)]) ∧
    StepL L x.1 (deliverAll k C x [(L, Ev.vote i (some (.multi C.scheme [⟨i, b⟩])) (pname (j + 1)) false)]).1 := by
  obtain ⟨σ, acc⟩ := x
  rw [deliverAll_one]
  have hq := hC.quorum L
  rcases h with ⟨hlt, hacc, vs, hv⟩ | ⟨hge, sg', bL', hagree, hla, hacc⟩
  · obtain ⟨sL, hl, hld⟩ := hv.leader
    have hsch : (C.rcfg L).scheme = C.scheme := rfl
    have hnew : ∀ v ∈ vs, v.1 ≠ i := by
      intro v hv' e
      rcases hv.from_ v hv' with h1 | h1
      · exact hiL (e ▸ h1)
      · exact hid (e ▸ h1)
    obtain ⟨r1, r2, r3, r4⟩ := runOut_spec σ L (fun s => step k (C.rcfg L) s (.vote i (some (.multi C.scheme [⟨i, b⟩])) (pname (j + 1)) false)) sL hl
    by_cases hcase : vs.length + 1 < (C.rcfg L).cfg.quorum
    · -- the vote is kept
      obtain ⟨a1, a2, a3, a4⟩ := leader_vote_add k (C.rcfg L) (fixedWho (C.rcfg L)) sg j i i b vs { sL with truth := σ.truth, nextBytes := σ.nextBytes } hC.scheme (ld_with_table _ _ _ _ _ _ _ hld)
        (hC.has i L hih) hb' hnew hcase
      rw [hsch] at a1 a2 a3 a4
      refine ⟨Or.inl ⟨by simp only [List.length_append, List.length_singleton]; rw [← hv.count]; exact hcase, ?_,
        vs ++ [(i, .multi C.scheme [⟨i, b⟩])], ?_⟩, ?_⟩
      · show acc ++ route C L _ = []
        rw [r4, a1]; simpa [route] using hacc
      · refine ⟨?_, ?_, ?_, ⟨_, by rw [r1]; exact lookup_setKV_same _ _ _, a2⟩, ?_, ?_, ?_⟩
        · rw [r2, r3, a3, a4]; exact hv.fresh
        · rw [r1, keys_setKV _ _ _ (by rw [hv.keys]; exact hC.leader)]; exact hv.keys
        · rw [r2, a3]; exact hv.qcs
        · rw [r2, a3]
          refine ⟨?_, ?_⟩
          · intro v hv'
            simp only [List.mem_append, List.mem_singleton] at hv'
            rcases hv' with hv' | rfl
            · exact hv.votes.valid v hv'
            · exact ⟨hC.has i L hih, Or.inl ⟨hC.scheme, b, rfl, hb'⟩⟩
          · simp only [List.map_append, List.map_cons, List.map_nil]
            rw [List.nodup_append]
            refine ⟨hv.votes.nodup, by simp, ?_⟩
            intro a ha' b' hb''
            simp at hb''; subst hb''
            obtain ⟨v, hv', hve⟩ := List.mem_map.mp ha'
            intro e; exact hnew v hv' (by rw [hve, e])
        · simp only [List.length_append, List.length_singleton]; rw [hv.count]
        · intro v hv'
          simp only [List.mem_append, List.mem_singleton] at hv' ⊢
          rcases hv' with hv' | rfl
          · rcases hv.from_ v hv' with h1 | h1
            · exact Or.inl h1
            · exact Or.inr (Or.inl h1)
          · exact Or.inr (Or.inr rfl)
      · refine ⟨?_, ?_⟩
        · rw [r2, a3]; exact fun _ _ h => h
        · intro i' hi'; rw [r1, lookup_setKV_other _ _ _ _ hi']
    · -- the vote completes the quorum
      obtain ⟨sgq, bytes', q1, q2, q3, q4, q5, q6⟩ := leader_vote_quorum k (C.rcfg L) (fixedWho (C.rcfg L)) sg j i i b vs { sL with truth := σ.truth, nextBytes := σ.nextBytes } rfl rfl hC.scheme hC.agg hC.rules
        (hC.has L L hC.leader) (fun v => hC.lead L v) hq.1 (ld_with_table _ _ _ _ _ _ _ hld) hv.votes (hC.has i L hih) hb' hnew
        (by omega) hv.fresh
      rw [hsch] at q1 q2 q3 q4 q5 q6
      let sg' : Nat → Sig := fun m => if m = j + 1 then sgq else sg m
      have hT : ∀ x a, σ.truth.lookup x = some a → (σ.runOut L (fun s => step k (C.rcfg L) s (.vote i (some (.multi C.scheme [⟨i, b⟩])) (pname (j + 1)) false))).1.truth.lookup x = some a := by
        intro x a hx; rw [r2]; exact q5.truth x a hx
      refine ⟨Or.inr ⟨by simp only [List.length_append, List.length_singleton]; rw [← hv.count]; omega, sg', bytes', ?_, ?_, ?_⟩, ?_⟩
      · intro m hm; show (if m = j + 1 then sgq else sg m) = sg m; rw [if_neg hm]
      · refine ⟨by rw [r2, r3]; exact q4, by rw [r1, keys_setKV _ _ _ (by rw [hv.keys]; exact hC.leader)]; exact hv.keys, ?_,
          ⟨_, by rw [r1]; exact lookup_setKV_same _ _ _, q1⟩, by rw [r2]; exact q3⟩
        intro m hm
        by_cases hmj : m = j + 1
        · subst hmj; rw [r2]; exact q2
        · have : QCok (fun b => σ.truth.lookup b) (C.rcfg L).cfg sg' m :=
            qcok_agree _ _ sg sg' m (by show (if m = j + 1 then sgq else sg m) = sg m; rw [if_neg hmj]) (hv.qcs m (by omega))
          exact this.mono (fun x a hx => hT x a hx)
      · show acc ++ route C L _ = _
        have hacc' : acc = [] := hacc
        have q6' := q6 C
        rw [show (C.rcfg L).id = L from rfl] at q6'
        rw [r4, hacc', q6']
        rfl
      · exact ⟨hT, fun i' hi' => by rw [r1, lookup_setKV_other _ _ _ _ hi']⟩
  · -- the block is already certified
    obtain ⟨sL, hl, hld⟩ := hla.leader
    have hno := late_vote_noop k (C.rcfg L) (fixedWho (C.rcfg L)) sg' (j + 2) (j + 1) i i b { sL with truth := σ.truth, nextBytes := σ.nextBytes }
      (base_with_table _ _ _ _ _ _ hld.base) (by omega)
    obtain ⟨r1, r2, r3, r4⟩ := runOut_noop σ L (fun s => step k (C.rcfg L) s (.vote i (some (.multi C.scheme [⟨i, b⟩])) (pname (j + 1)) false)) sL hl hno
    obtain ⟨hv', hst⟩ := leaderAt_noop C L hC.leader sg' (j + 2) bL' σ _ sL hl r1 r2 r3 hla
    refine ⟨Or.inr ⟨by simp only [List.length_append, List.length_singleton]; omega, sg', bL', hagree, hv', ?_⟩, hst⟩
    show acc ++ route C L _ = _
    rw [r4]; simpa [route] using hacc


/-- **the vote round**: the messages of the non-leaders `todo` reach the leader one after the other -/
theorem deliver_votes (k : Keys) (C : SysCfg) (L : Nat) (hC : HappyCfg C L) (sg : Nat → Sig) (j : Nat) (bytes : Nat → Nat) :
    ∀ (todo done : List Nat) (x : SysState × Msgs),
      todo.Nodup → (∀ i ∈ todo, i ∈ C.honest ∧ i ≠ L ∧ i ∉ done) → VPhase C L sg j done x →
      (∀ i ∈ todo, x.1.truth.lookup (bytes i) = some ⟨i, blkMsg (pname (j + 1))⟩) →
      VPhase C L sg j (done ++ todo) (deliverAll k C x (todo.flatMap (voteMsgs C sg L j bytes))) ∧
      StepL L x.1 (deliverAll k C x (todo.flatMap (voteMsgs C sg L j bytes))).1 := by
  intro todo
  induction todo with
  | nil =>
    intro done x _ _ h _
    simp only [List.flatMap_nil, List.append_nil]
    exact ⟨h, StepL.refl L _⟩
  | cons i rest ih =>
    intro done x hnd hmem h htab
    obtain ⟨hih, hiL, hid⟩ := hmem i (by simp)
    simp only [List.flatMap_cons]
    rw [deliverAll_append]
    -- the messages of `i`
    have hone : VPhase C L sg j (done ++ [i]) (deliverAll k C x (voteMsgs C sg L j bytes i)) ∧
        StepL L x.1 (deliverAll k C x (voteMsgs C sg L j bytes i)).1 := by
      unfold voteMsgs
      by_cases hj : 1 ≤ j
      · rw [if_pos hj, deliverAll_append]
        obtain ⟨h1, s1⟩ := vphase_newview k C L hC sg j i done x h
        obtain ⟨h2, s2⟩ := vphase_vote k C L hC sg j i (bytes i) done _ h1 hih hiL hid
          (s1.table _ _ (htab i (by simp)))
        exact ⟨h2, s1.trans s2⟩
      · rw [if_neg hj]
        exact vphase_vote k C L hC sg j i (bytes i) done x h hih hiL hid (htab i (by simp))
    obtain ⟨h1, s1⟩ := hone
    have hmem' : ∀ a ∈ rest, a ∈ C.honest ∧ a ≠ L ∧ a ∉ done ++ [i] := by
      intro a ha
      obtain ⟨q1, q2, q3⟩ := hmem a (by simp [ha])
      refine ⟨q1, q2, ?_⟩
      simp only [List.mem_append, List.mem_singleton, not_or]
      exact ⟨q3, fun e => (List.nodup_cons.mp hnd).1 (e ▸ ha)⟩
    obtain ⟨h2, s2⟩ := ih (done ++ [i]) _ (List.nodup_cons.mp hnd).2 hmem' h1
      (fun a ha => s1.table _ _ (htab a (by simp [ha])))
    refine ⟨?_, s1.trans s2⟩
    rw [show done ++ i :: rest = done ++ [i] ++ rest by simp]
    exact h2

/-- **after the leader has proposed block `j + 1`** (`j = 0`: after `Start`): the leader holds the
chain `0 … j + 1` and its own vote, every other replica is at block `j`, and the proposal is in
flight to every other replica -/
def SyncedB (C : SysCfg) (L j : Nat) (x : SysState × Msgs) : Prop :=
  ∃ (sg : Nat → Sig) (bL : Nat), LeaderAt C L sg (j + 1) bL x.1 ∧
    (∀ i ∈ othersOf C L, ∃ si, x.1.reps.lookup i = some si ∧ Base (fixedWho (C.rcfg L)) sg j si) ∧
    x.2 = (othersOf C L).map (fun i => (i, Ev.propose L (hb (fixedWho (C.rcfg L)) sg (j + 1)) none))

/-- **after every replica has received block `j + 1`**: everybody is at block `j + 1`, and the
votes (and new-view messages) of the non-leaders are in flight to the leader -/
def SyncedA (C : SysCfg) (L j : Nat) (x : SysState × Msgs) : Prop :=
  ∃ (sg : Nat → Sig) (bL : Nat) (bytes : Nat → Nat), LeaderAt C L sg (j + 1) bL x.1 ∧
    (∀ i ∈ othersOf C L, (∃ si, x.1.reps.lookup i = some si ∧ Base (fixedWho (C.rcfg L)) sg (j + 1) si) ∧
      x.1.truth.lookup (bytes i) = some ⟨i, blkMsg (pname (j + 1))⟩) ∧
    x.2 = (othersOf C L).flatMap (voteMsgs C sg L j bytes)

theorem others_facts (C : SysCfg) (L : Nat) (hC : HappyCfg C L) :
    (othersOf C L).Nodup ∧ (∀ i ∈ othersOf C L, i ∈ C.honest ∧ i ≠ L) ∧ (othersOf C L).length + 1 = C.n := by
  refine ⟨hC.nodup.filter _, ?_, ?_⟩
  · intro i hi
    simp only [othersOf, List.mem_filter, bne_iff_ne, ne_eq] at hi
    exact hi
  · have : ∀ (l : List Nat), l.Nodup → L ∈ l → (l.filter (· != L)).length + 1 = l.length := by
      intro l
      induction l with
      | nil => intro _ h; simp at h
      | cons a rest ih =>
        intro hn hm
        rw [List.nodup_cons] at hn
        by_cases ha : a = L
        · subst ha
          have : rest.filter (· != a) = rest := by
            apply List.filter_eq_self.mpr
            intro x hx
            simp only [bne_iff_ne, ne_eq]
            exact fun e => hn.1 (e ▸ hx)
          simp [this]
        · have hm' : L ∈ rest := by
            simp only [List.mem_cons] at hm
            rcases hm with h | h
            · exact absurd h.symm ha
            · exact h
          have := ih hn.2 hm'
          simp [List.filter_cons, ha, this]
    rw [← hC.all]
    exact this C.honest hC.nodup hC.leader

/-- the proposal round: `SyncedB j` to `SyncedA j` -/
theorem round_BA (k : Keys) (C : SysCfg) (L : Nat) (hC : HappyCfg C L) (j : Nat) (x : SysState × Msgs)
    (h : SyncedB C L j x) : SyncedA C L j (syncRound k C x) := by
  obtain ⟨sg, bL, hL, hoth, hms⟩ := h
  obtain ⟨hnd, hmem, _⟩ := others_facts C L hC
  unfold syncRound
  rw [hms]
  obtain ⟨bytes', h1, h2, h3⟩ := deliver_proposals k C L hC sg j bL (othersOf C L) [] x.1 (fun _ => 0) hnd
    (fun i hi => ⟨(hmem i hi).1, (hmem i hi).2, by simp⟩) hL hoth (by simp)
  simp only [List.flatMap_nil, List.nil_append] at h1 h2 h3
  exact ⟨sg, bL, bytes', h1, h2, h3⟩


/-- the vote round: `SyncedA j` to `SyncedB (j + 1)` -/
theorem round_AB (k : Keys) (C : SysCfg) (L : Nat) (hC : HappyCfg C L) (j : Nat) (x : SysState × Msgs)
    (h : SyncedA C L j x) : SyncedB C L (j + 1) (syncRound k C x) := by
  obtain ⟨sg, bL, bytes, hL, hoth, hms⟩ := h
  obtain ⟨hnd, hmem, hlen⟩ := others_facts C L hC
  have hq := hC.quorum L
  unfold syncRound
  rw [hms]
  obtain ⟨sL, hl, hld⟩ := hL.leader
  have hinit : VPhase C L sg j [] (x.1, []) := by
    refine Or.inl ⟨by simp; omega, rfl, [(L, .multi C.scheme [⟨L, bL⟩])], ?_⟩
    refine ⟨hL.fresh, hL.keys, fun m hm => hL.qcs m (by omega), ⟨sL, hl, hld⟩, ⟨?_, by simp⟩, by simp, ?_⟩
    · intro v hv
      simp only [List.mem_singleton] at hv
      subst hv
      exact ⟨hC.has L L hC.leader, Or.inl ⟨hC.scheme, bL, rfl, hL.own⟩⟩
    · intro v hv
      simp only [List.mem_singleton] at hv
      subst hv
      exact Or.inl rfl
  obtain ⟨hfin, hstep⟩ := deliver_votes k C L hC sg j bytes (othersOf C L) [] (x.1, []) hnd
    (fun i hi => ⟨(hmem i hi).1, (hmem i hi).2, by simp⟩) hinit (fun i hi => (hoth i hi).2)
  simp only [List.nil_append] at hfin
  rcases hfin with ⟨hlt, _⟩ | ⟨_, sg', bL', hagree, hla, hacc⟩
  · omega
  · refine ⟨sg', bL', hla, ?_, hacc⟩
    intro i hi
    obtain ⟨⟨si, h1, h2⟩, _⟩ := hoth i hi
    refine ⟨si, by rw [hstep.others i (hmem i hi).2]; exact h1, ?_⟩
    exact base_congr (fixedWho (C.rcfg L)) sg sg' (j + 1) si (fun m hm => (hagree m (by omega)).symm) h2


theorem base_noop (c : Who) (sg : Nat → Sig) (j : Nat) (s : RState) (T : List (Nat × Atom)) (nb : Nat)
    (h : Base c sg j s) : Base c sg j { ({ s with truth := T, nextBytes := nb } : RState) with out := [] } :=
  ⟨h.view, h.highQC, h.lastVoted, h.lock, h.committed, h.blocks, h.fetchable, h.prune, h.queue, h.wprop, h.wvc⟩

/-- before the leader has started: every replica is in its initial state, nothing is signed -/
def StartPre (C : SysCfg) (L : Nat) (sg : Nat → Sig) (σ : SysState) : Prop :=
  FreshL σ.truth σ.nextBytes ∧ σ.reps.map (·.1) = C.honest ∧
  ∀ i ∈ C.honest, ∃ si, σ.reps.lookup i = some si ∧ Base (fixedWho (C.rcfg L)) sg 0 si ∧
    si.lastProposed = 0 ∧ si.nextCmd = 1 ∧ si.votes = []

/-- after the leader has started -/
def StartPost (C : SysCfg) (L : Nat) (sg : Nat → Sig) (x : SysState × Msgs) : Prop :=
  ∃ bL, LeaderAt C L sg 1 bL x.1 ∧
    (∀ i ∈ othersOf C L, ∃ si, x.1.reps.lookup i = some si ∧ Base (fixedWho (C.rcfg L)) sg 0 si) ∧
    x.2 = (othersOf C L).map (fun i => (i, Ev.propose L (hb (fixedWho (C.rcfg L)) sg 1) none))

theorem startAll_spec (k : Keys) (C : SysCfg) (L : Nat) (hC : HappyCfg C L) (sg : Nat → Sig) :
    ∀ (todo : List Nat) (x : SysState × Msgs), todo.Nodup → (∀ i ∈ todo, i ∈ C.honest) →
      (L ∈ todo → StartPre C L sg x.1 ∧ x.2 = []) → (L ∉ todo → StartPost C L sg x) →
      StartPost C L sg (startAll k C x todo) := by
  intro todo
  induction todo with
  | nil => intro x _ _ _ h2; exact h2 (by simp)
  | cons i rest ih =>
    intro x hnd hmem hpre hpost
    obtain ⟨σ, acc⟩ := x
    have hih := hmem i (by simp)
    have hirest : i ∉ rest := (List.nodup_cons.mp hnd).1
    unfold startAll
    apply ih _ (List.nodup_cons.mp hnd).2 (fun a ha => hmem a (by simp [ha]))
    · -- the leader is still to come: `i` is not the leader
      intro hLr
      have hiL : i ≠ L := fun e => hirest (e ▸ hLr)
      obtain ⟨⟨hfr, hkeys, hall⟩, hacc⟩ := hpre (by simp [hLr])
      obtain ⟨si, hl, hb0, h1, h2, h3⟩ := hall i hih
      have hno := start_nonleader k (C.rcfg i) { si with truth := σ.truth, nextBytes := σ.nextBytes } hb0.queue
        (by rw [hC.lead]; exact fun e => hiL e.symm)
      obtain ⟨r1, r2, r3, r4⟩ := runOut_noop σ i (start k (C.rcfg i)) si hl hno
      refine ⟨⟨by rw [r2, r3]; exact hfr, by rw [r1, keys_setKV _ _ _ (by rw [hkeys]; exact hih)]; exact hkeys, ?_⟩, ?_⟩
      · intro a ha
        by_cases hai : a = i
        · subst hai
          exact ⟨_, by rw [r1]; exact lookup_setKV_same _ _ _, base_noop _ _ _ _ _ _ hb0, h1, h2, h3⟩
        · obtain ⟨sa, q1, q2⟩ := hall a ha
          exact ⟨sa, by rw [r1, lookup_setKV_other _ _ _ _ hai]; exact q1, q2⟩
      · show acc ++ route C i _ = []
        rw [r4]; simpa [route] using hacc
    · intro hLr
      by_cases hiL : i = L
      · -- the leader starts
        subst hiL
        obtain ⟨⟨hfr, hkeys, hall⟩, hacc⟩ := hpre (by simp)
        obtain ⟨si, hl, hb0, h1, h2, h3⟩ := hall i hih
        obtain ⟨bL, q1, q2, q3, q4, q5⟩ := leader_start k (C.rcfg i) (fixedWho (C.rcfg i)) sg { si with truth := σ.truth, nextBytes := σ.nextBytes } rfl
          hC.scheme hC.rules (hC.has i i hih) (fun v => hC.lead i v) (hC.quorum i).1 (base_with_table _ _ _ _ _ _ hb0) h1 h2 h3 hfr
        obtain ⟨r1, r2, r3, r4⟩ := runOut_spec σ i (start k (C.rcfg i)) si hl
        refine ⟨bL, ⟨by rw [r2, r3]; exact q3, by rw [r1, keys_setKV _ _ _ (by rw [hkeys]; exact hih)]; exact hkeys, ?_,
          ⟨_, by rw [r1]; exact lookup_setKV_same _ _ _, q1⟩, by rw [r2]; exact q2⟩, ?_, ?_⟩
        · intro m hm
          have : m = 0 := by omega
          subst this; exact Or.inl rfl
        · intro a ha
          obtain ⟨haH, haL⟩ := (others_facts C i hC).2.1 a ha
          obtain ⟨sa, p1, p2, _⟩ := hall a haH
          exact ⟨sa, by rw [r1, lookup_setKV_other _ _ _ _ haL]; exact p1, p2⟩
        · show acc ++ route C i _ = _
          have hacc' : acc = [] := hacc
          have q5' := q5 C
          rw [show (C.rcfg i).id = i from rfl] at q5'
          rw [r4, hacc', q5']
          rfl
      · -- the leader has started already: `i` does nothing
        obtain ⟨bL, hla, hoth, hacc⟩ := hpost (by simp only [List.mem_cons, not_or]; exact ⟨fun e => hiL e.symm, hLr⟩)
        have hio : i ∈ othersOf C L := by
          simp only [othersOf, List.mem_filter, bne_iff_ne, ne_eq]; exact ⟨hih, hiL⟩
        obtain ⟨si, hl, hb0⟩ := hoth i hio
        have hno := start_nonleader k (C.rcfg i) { si with truth := σ.truth, nextBytes := σ.nextBytes } hb0.queue
          (by rw [hC.lead]; exact fun e => hiL e.symm)
        obtain ⟨r1, r2, r3, r4⟩ := runOut_noop σ i (start k (C.rcfg i)) si hl hno
        refine ⟨bL, ⟨by rw [r2, r3]; exact hla.fresh, by rw [r1, keys_setKV _ _ _ (by rw [hla.keys]; exact hih)]; exact hla.keys,
          by rw [r2]; exact hla.qcs, ?_, by rw [r2]; exact hla.own⟩, ?_, ?_⟩
        · obtain ⟨sL, p1, p2⟩ := hla.leader
          exact ⟨sL, by rw [r1, lookup_setKV_other _ _ _ _ (fun e => hiL e.symm)]; exact p1, p2⟩
        · intro a ha
          by_cases hai : a = i
          · subst hai
            exact ⟨_, by rw [r1]; exact lookup_setKV_same _ _ _, base_noop _ _ _ _ _ _ hb0⟩
          · obtain ⟨sa, p1, p2⟩ := hoth a ha
            exact ⟨sa, by rw [r1, lookup_setKV_other _ _ _ _ hai]; exact p1, p2⟩
        · show acc ++ route C i _ = _
          rw [r4]; simpa [route] using hacc


/-- after `Start` everywhere the leader has proposed block 1 -/
theorem start_synced (k : Keys) (C : SysCfg) (L : Nat) (hC : HappyCfg C L) : SyncedB C L 0 (syncStart k C) := by
  let sg : Nat → Sig := fun _ => .multi .ecdsa []
  have hpre : StartPre C L sg (sysInit k C) := by
    refine ⟨FreshL.nil 1, by simp [sysInit, List.map_map, Function.comp_def], ?_⟩
    intro i hi
    refine ⟨{}, (by show (C.honest.map (fun i => (i, ({} : RState)))).lookup i = _; rw [lookup_init, if_pos hi]), ⟨rfl, rfl, rfl, rfl, rfl, rfl, rfl, rfl, rfl, rfl, rfl⟩, rfl, rfl, rfl⟩
  obtain ⟨bL, h1, h2, h3⟩ := startAll_spec k C L hC sg C.honest (sysInit k C, []) hC.nodup (fun _ h => h)
    (fun _ => ⟨hpre, rfl⟩) (fun h => absurd hC.leader h)
  exact ⟨sg, bL, h1, h2, h3⟩

/-- **the synchronous run stays on the happy path**: after `2 j` rounds the leader has proposed
block `j + 1`, after `2 j + 1` rounds every replica has received it -/
theorem sync_phases (k : Keys) (C : SysCfg) (L : Nat) (hC : HappyCfg C L) (j : Nat) :
    SyncedB C L j (syncRun k C (2 * j)) ∧ SyncedA C L j (syncRun k C (2 * j + 1)) := by
  induction j with
  | zero =>
    have h0 : SyncedB C L 0 (syncRun k C 0) := start_synced k C L hC
    exact ⟨h0, round_BA k C L hC 0 _ h0⟩
  | succ j ih =>
    have hB : SyncedB C L (j + 1) (syncRun k C (2 * (j + 1))) := by
      rw [show 2 * (j + 1) = (2 * j + 1) + 1 by omega]
      exact round_AB k C L hC j _ ih.2
    exact ⟨hB, round_BA k C L hC (j + 1) _ hB⟩


theorem base_values {c : Who} {sg : Nat → Sig} {j : Nat} {s : RState} (h : Base c sg j s) :
    s.view = max j 1 ∧ s.highQC.view = j - 1 ∧ s.lock.view = j - 2 ∧ s.committed.view = j - 3 ∧ s.lastVoted = j ∧
    s.queue = [] :=
  ⟨h.view, by rw [h.highQC, hqc_view], by rw [h.lock, hb_view], by rw [h.committed, hb_view], h.lastVoted, h.queue⟩

/-- **the state of every non-leader after `r` rounds**, exactly -/
theorem happy_nonleader (k : Keys) (C : SysCfg) (L : Nat) (hC : HappyCfg C L) (r i : Nat) (hi : i ∈ C.honest) (hiL : i ≠ L) :
    ∃ s, (syncRun k C r).1.reps.lookup i = some s ∧
      s.view = max ((r + 1) / 2) 1 ∧ s.highQC.view = (r + 1) / 2 - 1 ∧ s.lock.view = (r + 1) / 2 - 2 ∧
      s.committed.view = (r + 1) / 2 - 3 ∧ s.lastVoted = (r + 1) / 2 ∧ s.queue = [] := by
  have hio : i ∈ othersOf C L := by
    simp only [othersOf, List.mem_filter, bne_iff_ne, ne_eq]; exact ⟨hi, hiL⟩
  obtain ⟨hB, hA⟩ := sync_phases k C L hC (r / 2)
  rcases Nat.mod_two_eq_zero_or_one r with h | h
  · have hr : r = 2 * (r / 2) := by omega
    have hj : (r + 1) / 2 = r / 2 := by omega
    rw [← hr] at hB
    obtain ⟨sg, bL, _, hoth, _⟩ := hB
    obtain ⟨s, h1, h2⟩ := hoth i hio
    rw [hj]
    exact ⟨s, h1, base_values h2⟩
  · have hr : r = 2 * (r / 2) + 1 := by omega
    have hj : (r + 1) / 2 = r / 2 + 1 := by omega
    rw [← hr] at hA
    obtain ⟨sg, bL, bytes, _, hoth, _⟩ := hA
    obtain ⟨⟨s, h1, h2⟩, _⟩ := hoth i hio
    rw [hj]
    exact ⟨s, h1, base_values h2⟩

/-- **the state of the leader after `r` rounds**, exactly -/
theorem happy_leader (k : Keys) (C : SysCfg) (L : Nat) (hC : HappyCfg C L) (r : Nat) :
    ∃ s, (syncRun k C r).1.reps.lookup L = some s ∧
      s.view = r / 2 + 1 ∧ s.highQC.view = r / 2 ∧ s.lock.view = r / 2 - 1 ∧
      s.committed.view = r / 2 - 2 ∧ s.lastVoted = r / 2 + 1 ∧ s.queue = [] := by
  obtain ⟨hB, hA⟩ := sync_phases k C L hC (r / 2)
  have key : ∀ x : SysState × Msgs, (∃ sg bL, LeaderAt C L sg (r / 2 + 1) bL x.1) →
      ∃ s, x.1.reps.lookup L = some s ∧ s.view = r / 2 + 1 ∧ s.highQC.view = r / 2 ∧ s.lock.view = r / 2 - 1 ∧
        s.committed.view = r / 2 - 2 ∧ s.lastVoted = r / 2 + 1 ∧ s.queue = [] := by
    rintro x ⟨sg, bL, hla⟩
    obtain ⟨s, h1, h2⟩ := hla.leader
    obtain ⟨v1, v2, v3, v4, v5, v6⟩ := base_values h2.base
    exact ⟨s, h1, by rw [v1]; omega, by rw [v2]; omega, by rw [v3]; omega, by rw [v4]; omega, v5, v6⟩
  rcases Nat.mod_two_eq_zero_or_one r with h | h
  · have hr : r = 2 * (r / 2) := by omega
    rw [← hr] at hB
    obtain ⟨sg, bL, hla, _⟩ := hB
    exact key _ ⟨sg, bL, hla⟩
  · have hr : r = 2 * (r / 2) + 1 := by omega
    rw [← hr] at hA
    obtain ⟨sg, bL, bytes, hla, _⟩ := hA
    exact key _ ⟨sg, bL, hla⟩

end HsVerif.Model
