import HsVerif.Proofs.SysLiveQuorum
/-!
Liveness with a SILENT MINORITY (task S12c), part 2: the rounds of the chain (Proofs/SysChain.lean) and the link from the
recovery round to phase A (Proofs/SysChainGlue.lean) with `HappyLive` / `RecSetupLive` / `RecPreLive` in place of `HappyCfg` /
`RecSetup` / `RecPre`.  The proofs are those of the originals (the hypothesis `all` is used there only for "everybody's
messages make a quorum": `OthersOrder.quorum`, the count at the end of the recovery round); the predicates (`PhaseA`,
`SyncR`, `RecInv`, `RecX`, `SyncPre` …) are shared with the originals.
-/
open Std.Do
set_option mvcgen.warning false
set_option linter.unusedSimpArgs false
set_option linter.unusedVariables false
namespace HsVerif.Model
open HsVerif.Proofs HsVerif.Props.C08 HsVerif.Props.C01Sys HsVerif.Props.C01SysWF HsVerif.Props.C03 HsVerif.SysSafety
open HsVerif.Props.C05Cover

theorem OthersOrder.quorum_lv {C : SysCfg} {L : Nat} {ord : List Nat} (h : OthersOrder C L ord) (hC : HappyLive C L) :
    (C.rcfg L).cfg.quorum ≤ ord.length + 1 := by
  have h1 : C.honest.length ≤ (L :: ord).length := by
    apply nodup_length_le _ _ hC.nodup
    intro x hx
    by_cases hxl : x = L
    · simp [hxl]
    · exact List.mem_cons_of_mem _ (h.full x hx hxl)
  have := hC.qh
  have hq : (C.rcfg L).cfg.quorum = (C.rcfg 0).cfg.quorum := rfl
  simp only [List.length_cons] at h1
  omega

/-- **one vote reaches the leader** -/
theorem ab_step_lv (k : Keys) (C : SysCfg) (L w N : Nat) (hC : HappyLive C L) (B P : Block) (bt : Nat → Nat)
    (σ0 : SysState) (sL0 : RState) (hN : N + 12 ≤ 99999)
    (hbt : ∀ j ∈ C.honest, j ≠ L → σ0.truth.lookup (bt j) = some ⟨j, blkMsg B.hash⟩)
    (done : List Nat) (σ : SysState) (acc : Msgs) (j : Nat)
    (hinv : ABInv C L w N B P σ0 sL0 done (σ, acc)) (hj : j ∈ C.honest) (hjL : j ≠ L) (hnew : j ∉ done) :
    ABInv C L w N B P σ0 sL0 (done ++ [j]) (deliverAll k C (σ, acc) [voteMsg C L B.hash bt j]) := by
  have hq := hC.quorum L
  have hLmem := hC.leader
  have hbj : σ.truth.lookup (bt j) = some ⟨j, blkMsg B.hash⟩ := hinv.table _ _ (hbt j hj hjL)
  have hhasj : (C.rcfg L).cfg.has j = true := hC.has j L hj
  have hsch : (C.rcfg L).scheme = C.scheme := rfl
  by_cases hlt : done.length + 1 < (C.rcfg L).cfg.quorum
  · obtain ⟨hacc, sL, vs, hl, hS, hvs, hch, hcm⟩ := hinv.coll hlt
    obtain ⟨σ', hd, r1, r2, r3⟩ := deliver_effect k C σ acc L (Ev.vote j (some (.multi C.scheme [⟨j, bt j⟩])) B.hash false) sL hl
    have hvlen : vs.length = done.length + 1 := by
      have := congrArg List.length hvs; simpa using this
    have hnewv : ∀ v ∈ vs, v.1 ≠ j := by
      intro v hv e
      have : v.1 ∈ vs.map (·.1) := List.mem_map_of_mem hv
      rw [hvs, e] at this
      simp only [List.mem_cons] at this
      rcases this with h | h
      · exact hjL h
      · exact hnew h
    show ABInv C L w N B P σ0 sL0 (done ++ [j]) (deliverAll k C (σ, acc) [(L, _)])
    rw [hd]
    by_cases hlt2 : done.length + 2 < (C.rcfg L).cfg.quorum
    · -- the vote is kept
      obtain ⟨V, hstep, hS'⟩ := ld_vote_add k (C.rcfg L) w N j j (bt j) B P vs
        { sL with truth := σ.truth, nextBytes := σ.nextBytes } hC.scheme hS hhasj hbj hnewv (by rw [hvlen]; exact hlt2)
      rw [hsch] at hstep
      rw [hstep] at r1 r2 r3 ⊢
      dsimp only at r1 r2 r3 ⊢
      have hacc' : acc = [] := hacc
      refine ⟨by rw [r2, r3]; exact hinv.fresh, by rw [r1, keys_setKV _ _ _ (by rw [hinv.keys]; exact hLmem)]; exact hinv.keys,
        by rw [r2]; exact hinv.table, ?_, ?_, ?_⟩
      · intro i hi
        rw [r1, lookup_setKV_other _ _ _ _ hi]; exact hinv.others i hi
      · intro _
        refine ⟨by simp [route, hacc'], ({ sL with truth := σ.truth, nextBytes := σ.nextBytes, votes := V, out := [] } : RState),
          vs ++ [(j, Sig.multi C.scheme [⟨j, bt j⟩])],
          by rw [r1]; exact lookup_setKV_same _ _ _, ?_, ?_, hch, hcm⟩
        · rw [r2, r3]; exact syncL_proj rfl hS'
        · simp [hvs]
      · intro hge
        simp only [List.length_append, List.length_singleton] at hge
        omega
    · -- the quorum
      obtain ⟨sgq, bytes', B', q1, q2, q3, q4, q5, q6, q7, q8, q9, q10, q11, q12⟩ := ld_vote_quorum k (C.rcfg L) w N j j (bt j) B P vs
        { sL with truth := σ.truth, nextBytes := σ.nextBytes } hC.scheme hC.agg hC.rules (hC.has L L hLmem)
        (fun v => hC.lead L v) hq.1 hS hinv.fresh hN hhasj hbj hnewv (by rw [hvlen]; omega)
      rw [hsch] at q5 q7 q8 q9 q10 q11 q12
      refine ⟨by rw [r2, r3]; exact q9, by rw [r1, keys_setKV _ _ _ (by rw [hinv.keys]; exact hLmem)]; exact hinv.keys,
        ?_, ?_, ?_, ?_⟩
      · intro b a hb
        rw [r2]; exact q10.truth b a (hinv.table b a hb)
      · intro i hi
        rw [r1, lookup_setKV_other _ _ _ _ hi]; exact hinv.others i hi
      · intro hlt'
        simp only [List.length_append, List.length_singleton] at hlt'
        omega
      · intro _
        refine ⟨B', _, Sig.multi C.scheme [⟨L, bytes'⟩], sgq, by rw [r1]; exact lookup_setKV_same _ _ _, ?_, q1, q2, q3, q4, by rw [r2]; exact q5, q6, ?_, ?_⟩
        · rw [r2, r3]; exact syncL_proj rfl q7
        · have hacc' : acc = [] := hacc
          rw [hacc']
          have := q11 C
          rw [rcfg_id] at this
          rw [List.nil_append, this]; rfl
        · have hZ' : ∀ Z, WalkZ Z sL0 → WalkZ Z { sL with truth := σ.truth, nextBytes := σ.nextBytes } := fun Z hZ =>
            ⟨by show cmWalk (sL.chain.blocks.length + 2) sL.chain.blocks sL.committed.view Z = true
                rw [hch, hcm]; exact hZ.walk,
             by show sL.committed.view < _; rw [hcm]; exact hZ.below⟩
          refine ⟨?_, fun Z hZ => (q12 Z (hZ' Z hZ)).1, fun Z hZ l1 l2 l3 =>
            ((q12 Z (hZ' Z hZ)).2 l1 l2 (by show sL.chain.blocks.lookup _ = _; rw [hch]; exact l3)).1⟩
          intro h b hb
          exact q10.store h b (by show sL.chain.blocks.lookup h = some b; rw [hch]; exact hb)
  · -- the leader has moved on: the vote is late
    obtain ⟨B', sL, sgL, sgq, hl, hS, b1, b2, b3, b4, b5, b6, hacc, hcs⟩ := hinv.moved (by omega)
    obtain ⟨σ', hd, r1, r2, r3⟩ := deliver_effect k C σ acc L (Ev.vote j (some (.multi C.scheme [⟨j, bt j⟩])) B.hash false) sL hl
    have hlate := vote_late_noop k (C.rcfg L) { sL with truth := σ.truth, nextBytes := σ.nextBytes } j j (bt j) B.hash B
      hS.core.queue (by have := hS.core.hasP; rw [b4] at this; exact this) hS.hqge
    rw [hsch] at hlate
    show ABInv C L w N B P σ0 sL0 (done ++ [j]) (deliverAll k C (σ, acc) [(L, _)])
    rw [hd, hlate]
    rw [hlate] at r1 r2 r3
    dsimp only at r1 r2 r3 ⊢
    have hacc' : acc = [] ∨ True := Or.inr trivial
    refine ⟨by rw [r2, r3]; exact hinv.fresh, by rw [r1, keys_setKV _ _ _ (by rw [hinv.keys]; exact hLmem)]; exact hinv.keys,
      by rw [r2]; exact hinv.table, ?_, ?_, ?_⟩
    · intro i hi
      rw [r1, lookup_setKV_other _ _ _ _ hi]; exact hinv.others i hi
    · intro hlt'
      simp only [List.length_append, List.length_singleton] at hlt'
      omega
    · intro _
      refine ⟨B', ({ sL with truth := σ.truth, nextBytes := σ.nextBytes, out := [] } : RState), sgL, sgq,
        by rw [r1]; exact lookup_setKV_same _ _ _, ?_, b1, b2, b3, b4, by rw [r2]; exact b5, b6,
        by simp [route]; exact hacc, ?_⟩
      · rw [r2, r3]; refine syncL_proj ?_ hS; rfl
      · exact ⟨hcs.store, fun Z hZ h => ⟨(hcs.walk Z hZ h).walk, (hcs.walk Z hZ h).below⟩, hcs.commit⟩

/-- **the votes of `ord` reach the leader one after the other** (any order) -/
theorem ab_deliver_lv (k : Keys) (C : SysCfg) (L w N : Nat) (hC : HappyLive C L) (B P : Block) (bt : Nat → Nat)
    (σ0 : SysState) (sL0 : RState) (hN : N + 12 ≤ 99999)
    (hbt : ∀ j ∈ C.honest, j ≠ L → σ0.truth.lookup (bt j) = some ⟨j, blkMsg B.hash⟩) :
    ∀ (ord done : List Nat) (x : SysState × Msgs), ABInv C L w N B P σ0 sL0 done x → ord.Nodup →
      (∀ j ∈ ord, j ∈ C.honest ∧ j ≠ L ∧ j ∉ done) →
      ABInv C L w N B P σ0 sL0 (done ++ ord) (deliverAll k C x (ord.map (voteMsg C L B.hash bt))) := by
  intro ord
  induction ord with
  | nil => intro done x h _ _; rw [List.append_nil]; exact h
  | cons j rest ih =>
    intro done x h hnd hall
    obtain ⟨σ, acc⟩ := x
    obtain ⟨h1, h2, h3⟩ := hall j (by simp)
    have hstep := ab_step_lv k C L w N hC B P bt σ0 sL0 hN hbt done σ acc j h h1 h2 h3
    simp only [List.map_cons]
    rw [show (voteMsg C L B.hash bt j :: rest.map (voteMsg C L B.hash bt)) =
      [voteMsg C L B.hash bt j] ++ rest.map (voteMsg C L B.hash bt) from rfl, deliverAll_append]
    have := ih (done ++ [j]) _ hstep (List.nodup_cons.mp hnd).2 (by
      intro i hi
      obtain ⟨q1, q2, q3⟩ := hall i (by simp [hi])
      refine ⟨q1, q2, ?_⟩
      simp only [List.mem_append, List.mem_singleton, not_or]
      exact ⟨q3, fun e => (List.nodup_cons.mp hnd).1 (e ▸ hi)⟩)
    rw [List.append_assoc] at this
    exact this

/-- **Round A ⟶ B**: from phase A at `(w, B)`, deliver the votes of the replicas `ord` — pairwise different
replicas other than the leader, enough of them to complete a quorum with the leader's own vote — in ANY
order.  Then the leader has certified `B`, entered view `w + 1` and proposed `B'` (phase B), the proposals to
all other replicas are exactly the messages in flight, nobody else has changed, and the leader's committer
has made its step (`CommitStep`). -/
theorem chain_round_AB_lv (k : Keys) (C : SysCfg) (L w N : Nat) (hC : HappyLive C L) (B P : Block) (bt : Nat → Nat)
    (σ : SysState) (hN : N + 12 ≤ 99999) (hA : PhaseA C L w N B P bt σ)
    (ord : List Nat) (hnd : ord.Nodup) (hord : ∀ j ∈ ord, j ∈ C.honest ∧ j ≠ L)
    (hlen : (C.rcfg L).cfg.quorum ≤ ord.length + 1) :
    ∃ B' : Block,
      PhaseB C L w N B' B P (deliverAll k C (σ, []) (ord.map (voteMsg C L B.hash bt))).1 ∧
      (deliverAll k C (σ, []) (ord.map (voteMsg C L B.hash bt))).2 = (othersOf C L).map (propMsg L B') ∧
      (∀ j, j ≠ L → (deliverAll k C (σ, []) (ord.map (voteMsg C L B.hash bt))).1.reps.lookup j = σ.reps.lookup j) ∧
      (∀ b a, σ.truth.lookup b = some a →
        (deliverAll k C (σ, []) (ord.map (voteMsg C L B.hash bt))).1.truth.lookup b = some a) ∧
      ∃ sL0 sL, σ.reps.lookup L = some sL0 ∧
        (deliverAll k C (σ, []) (ord.map (voteMsg C L B.hash bt))).1.reps.lookup L = some sL ∧
        CommitStep w B P sL0 sL := by
  obtain ⟨sL0, sgL, hl0, hS0⟩ := hA.leader
  have hinit : ABInv C L w N B P σ sL0 [] (σ, []) := by
    refine ⟨hA.fresh, hA.keys, fun _ _ h => h, fun _ _ => rfl, ?_, ?_⟩
    · intro _
      exact ⟨rfl, sL0, [(L, sgL)], hl0, hS0, rfl, rfl, rfl⟩
    · intro h
      have := (hC.quorum L).1
      simp at h; omega
  have hfin := ab_deliver_lv k C L w N hC B P bt σ sL0 hN hA.bytes ord [] (σ, []) hinit hnd
    (fun j hj => ⟨(hord j hj).1, (hord j hj).2, by simp⟩)
  rw [List.nil_append] at hfin
  obtain ⟨B', sL, sgL', sgq, m1, m2, m3, m4, m5, m6, m7, m8, m9, m10⟩ := hfin.moved hlen
  refine ⟨B', ⟨hfin.fresh, hfin.keys, ?_, ⟨sL, sgL', m1, m2⟩, ⟨m3, m4, m5⟩, ⟨sgq, m6, m7, m8⟩⟩, m9, hfin.others, hfin.table,
    sL0, sL, hl0, m1, m10⟩
  intro j hj hjL
  rw [hfin.others j hjL]
  exact hA.others j hj hjL

/-- **the proposal reaches one more replica** -/
theorem ba_step_lv (k : Keys) (C : SysCfg) (L w N : Nat) (hC : HappyLive C L) (B' B P : Block) (σ0 : SysState)
    (hN : N + 12 ≤ 99999) (hB : PhaseB C L w N B' B P σ0)
    (bt' : Nat → Nat) (done : List Nat) (σ : SysState) (acc : Msgs) (j : Nat)
    (hinv : BAInv C L w N B' B P σ0 bt' done (σ, acc)) (hj : j ∈ C.honest) (hjL : j ≠ L) (hnew : j ∉ done) :
    ∃ bt'', BAInv C L w N B' B P σ0 bt'' (done ++ [j]) (deliverAll k C (σ, acc) [propMsg L B' j]) := by
  obtain ⟨s0, hl0, hS0⟩ := hB.others j hj hjL
  have hl : σ.reps.lookup j = some s0 := by rw [hinv.undone j hjL hnew]; exact hl0
  obtain ⟨sgq, g1, g2, g3⟩ := hB.qc
  obtain ⟨σ', hd, r1, r2, r3⟩ := deliver_effect k C σ acc j (Ev.propose L B' none) s0 hl
  obtain ⟨n1, n2, n3, n4, n5, n6, ⟨bytes, n7, n8⟩, n9⟩ := nl_step k (C.rcfg j) L w N B P B' sgq
    { s0 with truth := σ.truth, nextBytes := σ.nextBytes } hC.scheme hC.agg hC.rules (fun v => hC.lead j v) hjL
    (syncR_with_table hS0 _ _) hinv.fresh hN hB.blk.1 hB.blk.2.1 hB.blk.2.2 g1
    (verify_mono _ _ _ _ _ (fun b a hb => hinv.table b a hb) g2) g3
  have hjmem : j ∈ σ.reps.map (·.1) := by rw [hinv.keys]; exact hj
  show ∃ bt'', BAInv C L w N B' B P σ0 bt'' (done ++ [j]) (deliverAll k C (σ, acc) [(j, Ev.propose L B' none)])
  rw [hd]
  refine ⟨fun i => if i = j then bytes else bt' i, by rw [r2, r3]; exact n2, by rw [r1, keys_setKV _ _ _ hjmem]; exact hinv.keys,
    ?_, ?_, ?_, ?_, ?_⟩
  · intro b a hb
    rw [r2]; exact n3.truth b a (hinv.table b a hb)
  · rw [r1, lookup_setKV_other _ _ _ _ (fun e => hjL e.symm)]; exact hinv.leader
  · intro i hi hin
    simp only [List.mem_append, List.mem_singleton, not_or] at hin
    rw [r1, lookup_setKV_other _ _ _ _ hin.2]; exact hinv.undone i hi hin.1
  · intro i hi
    simp only [List.mem_append, List.mem_singleton] at hi
    by_cases hij : i = j
    · subst hij
      refine ⟨s0, _, hl0, by rw [r1]; exact lookup_setKV_same _ _ _, n1, ?_, ?_⟩
      · rw [r2, if_pos rfl]; exact n7
      · exact ⟨fun h b hb => n3.store h b hb, fun Z hZ => (n9 Z (walkZ_with_table hZ _ _)).1,
          fun Z hZ l1 l2 l3 => ((n9 Z (walkZ_with_table hZ _ _)).2 l1 l2 l3).1⟩
    · rcases hi with hi | hi
      · obtain ⟨t0, t, d1, d2, d3, d4, d5⟩ := hinv.did i hi
        refine ⟨t0, t, d1, by rw [r1, lookup_setKV_other _ _ _ _ hij]; exact d2, d3, ?_, d5⟩
        rw [r2, if_neg hij]; exact n3.truth _ _ d4
      · exact absurd hi hij
  · show acc ++ route C j _ = _
    have := n8 C
    rw [rcfg_id] at this
    have hpool : acc = done.flatMap (ackMsgs C L B' bt') := hinv.pool
    rw [this, hpool, List.flatMap_append]
    congr 1
    · apply flatMap_congr'
      intro i hi
      have hij : i ≠ j := fun e => hnew (e ▸ hi)
      simp [ackMsgs, voteMsg, hij]
    · simp [ackMsgs, voteMsg]; rfl

theorem ba_deliver_lv (k : Keys) (C : SysCfg) (L w N : Nat) (hC : HappyLive C L) (B' B P : Block) (σ0 : SysState)
    (hN : N + 12 ≤ 99999) (hB : PhaseB C L w N B' B P σ0) :
    ∀ (ord done : List Nat) (bt' : Nat → Nat) (x : SysState × Msgs), BAInv C L w N B' B P σ0 bt' done x → ord.Nodup →
      (∀ j ∈ ord, j ∈ C.honest ∧ j ≠ L ∧ j ∉ done) →
      ∃ bt'', BAInv C L w N B' B P σ0 bt'' (done ++ ord) (deliverAll k C x (ord.map (propMsg L B'))) := by
  intro ord
  induction ord with
  | nil => intro done bt' x h _ _; exact ⟨bt', by rw [List.append_nil]; exact h⟩
  | cons j rest ih =>
    intro done bt' x h hnd hall
    obtain ⟨σ, acc⟩ := x
    obtain ⟨h1, h2, h3⟩ := hall j (by simp)
    obtain ⟨bt1, hstep⟩ := ba_step_lv k C L w N hC B' B P σ0 hN hB bt' done σ acc j h h1 h2 h3
    simp only [List.map_cons]
    rw [show (propMsg L B' j :: rest.map (propMsg L B')) = [propMsg L B' j] ++ rest.map (propMsg L B') from rfl,
      deliverAll_append]
    obtain ⟨bt2, this⟩ := ih (done ++ [j]) bt1 _ hstep (List.nodup_cons.mp hnd).2 (by
      intro i hi
      obtain ⟨q1, q2, q3⟩ := hall i (by simp [hi])
      refine ⟨q1, q2, ?_⟩
      simp only [List.mem_append, List.mem_singleton, not_or]
      exact ⟨q3, fun e => (List.nodup_cons.mp hnd).1 (e ▸ hi)⟩)
    rw [List.append_assoc] at this
    exact ⟨bt2, this⟩

/-- **Round B ⟶ A**: from phase B at `(w + 1, B')`, deliver the proposal to every other replica, in ANY order
`ord`.  Then every replica is synchronised at `(w + 1, B')` (phase A), the messages in flight are exactly the
new-view messages and the votes for `B'` (signature bytes `bt'`), the leader has not changed, and every other
replica's committer has made its step. -/
theorem chain_round_BA_lv (k : Keys) (C : SysCfg) (L w N : Nat) (hC : HappyLive C L) (B' B P : Block) (σ : SysState)
    (hN : N + 12 ≤ 99999) (hB : PhaseB C L w N B' B P σ)
    (ord : List Nat) (hnd : ord.Nodup) (hord : ∀ j ∈ ord, j ∈ C.honest ∧ j ≠ L)
    (hfull : ∀ j ∈ C.honest, j ≠ L → j ∈ ord) :
    ∃ bt' : Nat → Nat,
      PhaseA C L (w + 1) (N + 3) B' B bt' (deliverAll k C (σ, []) (ord.map (propMsg L B'))).1 ∧
      (deliverAll k C (σ, []) (ord.map (propMsg L B'))).2 = ord.flatMap (ackMsgs C L B' bt') ∧
      (deliverAll k C (σ, []) (ord.map (propMsg L B'))).1.reps.lookup L = σ.reps.lookup L ∧
      (∀ b a, σ.truth.lookup b = some a →
        (deliverAll k C (σ, []) (ord.map (propMsg L B'))).1.truth.lookup b = some a) ∧
      ∀ j ∈ C.honest, j ≠ L → ∃ s0 s, σ.reps.lookup j = some s0 ∧
        (deliverAll k C (σ, []) (ord.map (propMsg L B'))).1.reps.lookup j = some s ∧ CommitStep w B P s0 s := by
  have hinit : BAInv C L w N B' B P σ (fun _ => 0) [] (σ, []) :=
    ⟨hB.fresh, hB.keys, fun _ _ h => h, rfl, fun _ _ _ => rfl, by simp, rfl⟩
  obtain ⟨bt', hfin⟩ := ba_deliver_lv k C L w N hC B' B P σ hN hB ord [] (fun _ => 0) (σ, []) hinit hnd
    (fun j hj => ⟨(hord j hj).1, (hord j hj).2, by simp⟩)
  rw [List.nil_append] at hfin
  obtain ⟨sL, sgL, hlL, hSL⟩ := hB.leader
  refine ⟨bt', ⟨hfin.fresh, hfin.keys, ?_, ⟨sL, sgL, by rw [hfin.leader]; exact hlL, ?_⟩, ?_⟩, hfin.pool, hfin.leader,
    hfin.table, ?_⟩
  · intro j hj hjL
    obtain ⟨s0, s, d1, d2, d3, _, _⟩ := hfin.did j (hfull j hj hjL)
    exact ⟨s, d2, d3⟩
  · have := syncL_with_table hSL (deliverAll k C (σ, []) (ord.map (propMsg L B'))).1.truth
      (deliverAll k C (σ, []) (ord.map (propMsg L B'))).1.nextBytes (fun b a hb => hfin.table b a hb)
    exact this
  · intro j hj hjL
    obtain ⟨s0, s, d1, d2, d3, d4, _⟩ := hfin.did j (hfull j hj hjL)
    exact d4
  · intro j hj hjL
    obtain ⟨s0, s, d1, d2, d3, d4, d5⟩ := hfin.did j (hfull j hj hjL)
    exact ⟨s0, s, d1, d2, d5⟩

/-- **One view of the chain** `A(w, B) ⟶ B(w + 1, B') ⟶ A(w + 1, B')`: in phase A at `(w, B)` with the votes in
flight, the votes are delivered in ANY order `ordV`, then the leader's proposals in ANY order `ordP`.
Afterwards the system is in phase A at `(w + 1, B')` for a block `B'` that links to `B`, the votes for `B'` are in
flight, and every replica's committer has made its step. -/
theorem chain_view_lv (k : Keys) (C : SysCfg) (L w N : Nat) (hC : HappyLive C L) (B P : Block) (bt : Nat → Nat)
    (x : SysState × Msgs) (hN : N + 12 ≤ 99999) (hA : PhaseA C L w N B P bt x.1) (hfly : VotesFly C L B.hash bt x.2)
    (ordV ordP : List Nat) (hV : OthersOrder C L ordV) (hP : OthersOrder C L ordP) :
    ∃ (B' : Block) (bt' : Nat → Nat),
      PhaseA C L (w + 1) (N + 3) B' B bt' (chainView k C ordV ordP x).1 ∧
      VotesFly C L B'.hash bt' (chainView k C ordV ordP x).2 ∧ Link B' B ∧
      ∀ j ∈ C.honest, ∃ s0 s, x.1.reps.lookup j = some s0 ∧ (chainView k C ordV ordP x).1.reps.lookup j = some s ∧
        CommitStep w B P s0 s := by
  obtain ⟨B', a1, a2, a3, a4, sL0, sL, a5, a6, a7⟩ := chain_round_AB_lv k C L w N hC B P bt x.1 hN hA ordV hV.nodup hV.mem
    (hV.quorum_lv hC)
  have hvi := votesIn_eq C L B.hash bt x.2 hfly ordV hV.mem
  obtain ⟨bt', b1, b2, b3, b4, b5⟩ := chain_round_BA_lv k C L w N hC B' B P _ hN a1 ordP hP.nodup hP.mem hP.full
  have hpi := propsIn_eq C L B' ordP hP.mem
  have hcv : chainView k C ordV ordP x =
      deliverAll k C ((deliverAll k C (x.1, []) (ordV.map (voteMsg C L B.hash bt))).1, []) (ordP.map (propMsg L B')) := by
    unfold chainView
    rw [hvi, a2, hpi]
  rw [hcv]
  obtain ⟨sgq, g1, _, _⟩ := a1.qc
  obtain ⟨sLx, _, _, hSL⟩ := hA.leader
  refine ⟨B', bt', b1, by rw [b2]; exact votesFly_acks C L B' bt' ordP hP.full,
    ⟨a1.blk.2.1, by rw [g1], by rw [a1.blk.2.2, hSL.core.bview], by rw [hSL.core.bhash]; exact pname_ne_empty _⟩, ?_⟩
  intro j hj
  by_cases hjL : j = L
  · subst hjL
    exact ⟨sL0, sL, a5, by rw [b3]; exact a6, a7⟩
  · obtain ⟨s0, s, c1, c2, c3⟩ := b5 j hj hjL
    exact ⟨s0, s, by rw [← a3 j hjL]; exact c1, c2, c3⟩

/-- **From a synchronised view to a commit** (fixed leader, chained or simplified HotStuff: THREE further views —
the commit rule of either rule set commits the block three certified consecutive views below the proposal).
In phase A at `(w, B)` with the votes for `B` in flight, and with the ancestors of `B` that the committer walks
over stored at every replica (`WalkZ B`: down to the committed block, which is older than `B`), run three views
of the chain, each with the votes and the proposals delivered in ANY order.  Then the system is in phase A at
`(w + 3, B3)` for blocks `B ← B1 ← B2 ← B3` of consecutive views, and EVERY replica has committed `B`:
`committed = B`, a block newer than what it had committed before. -/
theorem synced_commits_fixed_lv (k : Keys) (C : SysCfg) (L w N : Nat) (hC : HappyLive C L) (B P : Block) (bt : Nat → Nat)
    (x : SysState × Msgs) (hN : N + 18 ≤ 99999) (hA : PhaseA C L w N B P bt x.1) (hfly : VotesFly C L B.hash bt x.2)
    (hwalk : ∀ j ∈ C.honest, ∃ s, x.1.reps.lookup j = some s ∧ WalkZ B s)
    (v1 p1 v2 p2 v3 p3 : List Nat) (hv1 : OthersOrder C L v1) (hp1 : OthersOrder C L p1) (hv2 : OthersOrder C L v2)
    (hp2 : OthersOrder C L p2) (hv3 : OthersOrder C L v3) (hp3 : OthersOrder C L p3) :
    ∃ (B1 B2 B3 : Block) (bt3 : Nat → Nat),
      Link B1 B ∧ Link B2 B1 ∧ Link B3 B2 ∧
      PhaseA C L (w + 3) (N + 9) B3 B2 bt3 (chainView k C v3 p3 (chainView k C v2 p2 (chainView k C v1 p1 x))).1 ∧
      VotesFly C L B3.hash bt3 (chainView k C v3 p3 (chainView k C v2 p2 (chainView k C v1 p1 x))).2 ∧
      ∀ j ∈ C.honest, ∃ s0 s, x.1.reps.lookup j = some s0 ∧
        (chainView k C v3 p3 (chainView k C v2 p2 (chainView k C v1 p1 x))).1.reps.lookup j = some s ∧
        s.committed = B ∧ s0.committed.view < s.committed.view := by
  obtain ⟨B1, bt1, a1, a2, a3, a4⟩ := chain_view_lv k C L w N hC B P bt x (by omega) hA hfly v1 p1 hv1 hp1
  obtain ⟨B2, bt2, b1, b2, b3, b4⟩ := chain_view_lv k C L (w + 1) (N + 3) hC B1 B bt1 _ (by omega) a1 a2 v2 p2 hv2 hp2
  obtain ⟨B3, bt3, c1, c2, c3, c4⟩ := chain_view_lv k C L (w + 1 + 1) (N + 3 + 3) hC B2 B1 bt2 _ (by omega) b1 b2 v3 p3 hv3 hp3
  refine ⟨B1, B2, B3, bt3, a3, b3, c3, c1, c2, ?_⟩
  intro j hj
  obtain ⟨s0, s1, d1, d2, d3⟩ := a4 j hj
  obtain ⟨s1', s2, e1, e2, e3⟩ := b4 j hj
  obtain ⟨s2', s3, f1, f2, f3⟩ := c4 j hj
  rw [d2] at e1; cases e1
  rw [e2] at f1; cases f1
  obtain ⟨s0', g1, g2⟩ := hwalk j hj
  rw [d1] at g1; cases g1
  obtain ⟨hB0, hBv⟩ := hA.hasB j hj s0 d1
  have w1 := d3.walk B g2 (by omega)
  have w2 := e3.walk B w1 (by omega)
  have hB2 : s2.chain.blocks.lookup B.hash = some B := e3.store _ _ (d3.store _ _ hB0)
  have hcm := f3.commit B w2 b3 a3 hB2
  exact ⟨s0, s3, d1, f2, hcm, by rw [hcm]; exact g2.below⟩

/-- **one timeout message is delivered** (the sharpened invariant) -/
theorem recx_step_lv (k : Keys) (C : SysCfg) (L N : Nat) (D : RecData) (s0 : Nat → RState) (T0 : List (Nat × Atom))
    (hC : HappyLive C L) (hS : RecSetupLive k C D s0 L T0) (hY : SyncPre C D s0 N)
    (hlockv : ∀ j ∈ C.honest, ∀ i ∈ C.honest, Top C D i → (s0 j).lock.view ≤ (D.hb i).view)
    (rec : Nat → List Nat) (σ : SysState) (acc : Msgs) (j i : Nat)
    (hinv : RecInv k C D s0 L T0 rec (σ, acc)) (hx : RecX C L D s0 N rec (σ, acc))
    (hj : j ∈ C.honest) (hi : i ∈ C.honest) (hij : i ≠ j) (hnew : i ∉ rec j) :
    RecX C L D s0 N (recUpd rec j i) (deliverAll k C (σ, acc) [(j, Ev.timeout (D.tmsg C i))]) := by
  have hq : 2 ≤ (C.rcfg 0).cfg.quorum ∧ (C.rcfg 0).cfg.quorum ≤ C.n := quorum_bounds C.n hS.two
  have hqj : ∀ x, (C.rcfg x).cfg.quorum = (C.rcfg 0).cfg.quorum := fun _ => rfl
  obtain ⟨hrnd, hrmem⟩ := hinv.recs j hj
  have hnew' : i ∉ j :: rec j := by
    simp only [List.mem_cons, not_or]; exact ⟨hij, hnew⟩
  have hknow : ∀ (s : RState), Frame (s0 j) s → KnowsAll k C D j { s with truth := σ.truth, nextBytes := σ.nextBytes } := by
    intro s hf
    exact (hS.init j hj).2.2.2.mono (by show s.chain = (s0 j).chain; exact hf.chain) (fun b a hb => hinv.table b a hb)
  have hLmem := hC.leader
  by_cases hjl : j = L
  · subst hjl
    by_cases hlt : (rec j).length + 1 < (C.rcfg 0).cfg.quorum
    · obtain ⟨s, hl, hc⟩ := hinv.leaderC hlt
      obtain ⟨σ', hd, r1, r2, r3⟩ := deliver_effect k C σ acc j (Ev.timeout (D.tmsg C i)) s hl
      rw [hd]
      by_cases hlt2 : (rec j).length + 2 < (C.rcfg 0).cfg.quorum
      · -- still collecting
        obtain ⟨s', hstep, hc', ht, hn⟩ := rcoll_add k C D (s0 j) s j i (rec j) σ.truth σ.nextBytes hS.agg hj hrmem hi hnew' hc
          (hknow s hc.frame) (by rw [hqj]; exact hlt2)
        rw [hstep]
        refine ⟨?_, ?_⟩
        · intro _ m hm
          simp only [route, List.append_nil] at hm
          exact hx.before hlt m hm
        · intro hge
          rw [recUpd_same] at hge
          simp only [List.length_append, List.length_singleton] at hge
          omega
      · -- the quorum
        let sT : RState := { s with truth := σ.truth, nextBytes := σ.nextBytes }
        have hk := hknow s hc.frame
        obtain ⟨q1, q2, q3, q4⟩ := hk.qc i hi
        obtain ⟨t1, t2⟩ := hk.tc i hi
        have hmi : absI D.bv j (rec j ++ [i]) ∈ C.honest := by
          have := absI_mem D.bv (rec j ++ [i]) j
          simp only [List.mem_cons, List.mem_append, List.mem_singleton, List.not_mem_nil, or_false] at this
          rcases this with h | h | h
          · rw [h]; exact hj
          · exact hrmem _ h
          · rw [h]; exact hi
        have hmem : absI D.bv j (rec j) ∈ C.honest := by
          have := absI_mem D.bv (rec j) j
          simp only [List.mem_cons] at this
          rcases this with h | h
          · rw [h]; exact hj
          · exact hrmem _ h
        have hnd' : (j :: (rec j ++ [i])).Nodup := by
          rw [List.nodup_cons] at hrnd ⊢
          refine ⟨?_, ?_⟩
          · simp only [List.mem_append, List.mem_singleton, not_or]
            exact ⟨hrnd.1, fun e => hij e.symm⟩
          · rw [List.nodup_append]
            exact ⟨hrnd.2, by simp, by intro a ha b hb; simp at hb; subst hb; exact fun e => hnew (e ▸ ha)⟩
        have htop : Top C D (absI D.bv j (rec j ++ [i])) := by
          refine ⟨j :: (rec j ++ [i]), hnd', ?_, ?_, absI_mem D.bv _ j, ?_⟩
          · intro x hx'
            simp only [List.mem_cons, List.mem_append, List.mem_singleton, List.not_mem_nil, or_false] at hx'
            rcases hx' with rfl | hx' | rfl
            · exact hj
            · exact hrmem x hx'
            · exact hi
          · simp only [List.length_cons, List.length_append, List.length_singleton]; omega
          · intro x hx'
            obtain ⟨h1, h2⟩ := absI_max D.bv (rec j ++ [i]) j
            simp only [List.mem_cons] at hx'
            rcases hx' with rfl | hx'
            · exact h1
            · exact h2 x hx'
        have habs := absorb_hq C D sT j i (rec j) (D.htc i) hc.hqc (hk.qc _ hmem).2.2.1
        obtain ⟨a1, a2, a3, a4⟩ := hk.qc _ hmi
        have htouts : sT.timeouts = D.tmsg C j :: (rec j).map (D.tmsg C) := hc.touts
        obtain ⟨P, hP1, hP2⟩ := hY.par j hj _ hmi htop
        have hch : sT.chain = (s0 j).chain := hc.frame.chain
        obtain ⟨bytes', b', e1, e2, e3, e4, e5, e6, e7, e8, e9, e10, e11⟩ := ld_timeout_quorum k (C.rcfg j) D.v N sT (D.tmsg C i)
          (D.hq i) (D.hb i) (D.hb (absI D.bv j (rec j ++ [i]))) P (D.htc i) hS.scheme hS.agg hC.rules (hC.has j j hj)
          (fun v => hC.lead j v) (by rw [hqj]; exact hq.1) hinv.fresh hc.queue
          (by show s.waitingVC = []; rw [hc.frame.wvc]; exact (hS.init j hj).2.1)
          (by show s.waitingProp = []; rw [hc.frame.wprop]; exact hY.wprop j hj)
          (by rw [hch]; exact hY.fetch j hj)
          (hk.acc i hi) rfl t1 q1 q2 (by show _ < s.view; rw [hc.view]; exact t2) (by show _ < s.view; rw [hc.view]; exact q4)
          (by show D.v = s.view; rw [hc.view]) (by show s.view ≠ 0; rw [hc.view]; exact hS.v0) hc.view
          (by rw [htouts]
              intro x hx'
              simp only [List.mem_cons, List.mem_map] at hx'
              rcases hx' with rfl | ⟨y, _, rfl⟩ <;> rfl)
          (by rw [htouts]
              have : (D.tmsg C j :: (rec j).map (D.tmsg C) ++ [D.tmsg C i]).map (·.id) = (j :: rec j) ++ [i] := by
                have := tmsg_ids C D ((j :: rec j) ++ [i])
                simpa using this
              rw [this, List.nodup_append]
              refine ⟨hrnd, by simp, ?_⟩
              intro a ha' b hb'
              simp at hb'; subst hb'
              exact fun e => hnew' (e ▸ ha'))
          (by rw [htouts]; simp; rw [hqj]; omega) (by rw [htouts]; simp)
          (by rw [htouts]
              intro x hx'
              simp only [List.mem_cons, List.mem_map] at hx'
              rcases hx' with rfl | ⟨y, hy, rfl⟩
              · exact hk.acc j hj
              · exact hk.acc y (hrmem y hy))
          (by rw [habs]; exact a1) (by rw [habs]; exact a2) (by rw [habs]; show _ < s.view; rw [hc.view]; exact a4)
          (by rw [habs, a3]; exact Nat.le_refl _)
          (by show s.lastVoted ≤ _; rw [hc.frame.lastVoted]; exact (hS.init j hj).2.2.1)
          (ruleReady_congr (C.rcfg j) (s0 j) sT _ _ hc.frame.chain hc.frame.lock (hS.cover j hj _ hmi htop))
          (by show markWalk (s.chain.fuel + 1) s.chain.blocks s.lastProposed _ = true
              rw [hc.frame.chain, hc.frame.lastProposed]; exact hS.mark _ hmi)
          (by rw [hch]; exact hP1) hP2
          (by show s.lock.view ≤ _; rw [hc.frame.lock]
              have := hlockv j hj _ hmi htop
              have h3 : (D.hb (absI D.bv j (rec j ++ [i]))).view < D.v := by rw [← a3]; exact a4
              omega)
          (by show s.committed.view ≤ _; rw [hc.frame.committed]; exact hY.committed j hj)
          (by intro u hu
              show s.chain.blocks.lookup _ = none ∧ s.votes.lookup _ = none
              rw [hc.frame.chain, hc.frame.votes]; exact hY.names j hj u hu)
          (by show 2 * s.chain.blocks.length + _ ≤ N; rw [hc.frame.chain]; exact hY.small j hj)
          (by have := hY.bound; omega)
          (by show cmWalk (s.chain.blocks.length + 2) s.chain.blocks s.committed.view _ = true
              rw [hc.frame.chain, hc.frame.committed]; exact hY.walk j hj _ hmi htop)
        refine ⟨?_, ?_⟩
        · intro hlt'
          rw [recUpd_same] at hlt'
          simp only [List.length_append, List.length_singleton] at hlt'
          omega
        · intro _
          have hroute := e11 C
          rw [rcfg_id] at hroute
          refine ⟨absI D.bv j (rec j ++ [i]), b', _, Sig.multi C.scheme [⟨j, bytes'⟩], hmi, htop, e1, e2, e3,
            by rw [e4, habs], e5, by rw [r1]; exact lookup_setKV_same _ _ _, ?_, e7, e8, ?_, ?_, ?_⟩
          · rw [r2, r3]; refine syncL_proj ?_ e6; rfl
          · intro h b hb
            exact e10.store h b (by show s.chain.blocks.lookup h = some b; rw [hc.frame.chain]; exact hb)
          · intro m hm hp
            simp only [List.mem_append] at hm
            rcases hm with hm | hm
            · rw [hx.before hlt m hm] at hp; cases hp
            · rw [hroute] at hm
              obtain ⟨x, _, rfl⟩ := List.mem_map.mp hm
              exact ⟨x, rfl⟩
          · intro x hx' hxl
            apply List.mem_append_right
            rw [hroute]
            exact List.mem_map.mpr ⟨x, by simp [hx', hxl], rfl⟩
    · -- the leader has moved on: the message only refreshes the high certificates
      obtain ⟨i0, b', sL, sgL, f1, f2, f3, f4, f5, f6, f7, f8, f9, f10, f11, f12, f13, f14⟩ := hx.after (by omega)
      obtain ⟨σ', hd, r1, r2, r3⟩ := deliver_effect k C σ acc j (Ev.timeout (D.tmsg C i)) sL f8
      let sT : RState := { sL with truth := σ.truth, nextBytes := σ.nextBytes }
      have hk0 := (hS.init j hj).2.2.2
      obtain ⟨q1, q2, q3, q4⟩ := hk0.qc i hi
      obtain ⟨t1, t2⟩ := hk0.tc i hi
      have hTle : ∀ b a, ({ s0 j with truth := T0 } : RState).truth.lookup b = some a → sT.truth.lookup b = some a :=
        fun b a hb => hinv.table b a hb
      have hstep := step_timeout_stale k (C.rcfg j) sT (D.tmsg C i) (D.hq i) (D.hb i) (D.htc i) hS.agg (by rw [hqj]; exact hq.1)
        f9.core.queue (accepted_mono _ _ _ _ (fun b a hb => hinv.table b a hb) (hk0.acc i hi)) rfl
        (verifyTC_mono k _ _ sT _ hTle t1)
        (verifyQC_mono (fun b => List.lookup b T0) (fun b => σ.truth.lookup b) (C.rcfg j).cfg (s0 j).chain.blocks sL.chain.blocks _ _
          (fun b a hb => hinv.table b a hb) f12 q1)
        (f12 _ _ q2) (by show _ < sL.view; rw [show sL.view = D.v + 1 from f9.core.view]; omega)
        (by show _ < sL.view; rw [show sL.view = D.v + 1 from f9.core.view]; omega)
        (by show D.v < sL.view; rw [show sL.view = D.v + 1 from f9.core.view]; omega) f11
      rw [hd, hstep]
      rw [hstep] at r1 r2 r3
      dsimp only at r1 r2 r3
      refine ⟨?_, ?_⟩
      · intro hlt'
        rw [recUpd_same] at hlt'
        simp only [List.length_append, List.length_singleton] at hlt'
        omega
      · intro _
        have hSL' := syncL_absorb f9 (D.hq i) (D.hb i) (D.htc i) (by omega) q3
        refine ⟨i0, b', ({ absorbS sT (D.hq i) (D.hb i) (D.htc i) with out := [] } : RState), sgL, f1, f2, f3, f4, f5, f6, f7,
          by rw [r1]; exact lookup_setKV_same _ _ _, ?_, ⟨f10.walk, f10.below⟩, f11, f12, ?_, ?_⟩
        · rw [r2, r3]; refine syncL_proj ?_ hSL'; rfl
        · intro m hm hp
          simp only [route, List.append_nil] at hm
          exact f13 m hm hp
        · intro x hx' hxl
          simp only [route, List.append_nil]
          exact f14 x hx' hxl
  · -- a replica that is not the leader: it sends no proposal
    obtain ⟨s, hl, hCo, hMo⟩ := hinv.others j hj hjl
    obtain ⟨σ', hd, r1, r2, r3⟩ := deliver_effect k C σ acc j (Ev.timeout (D.tmsg C i)) s hl
    rw [hd]
    have hnp : NoProp (step k (C.rcfg j) { s with truth := σ.truth, nextBytes := σ.nextBytes } (.timeout (D.tmsg C i))).2 := by
      by_cases hlt : (rec j).length + 1 < (C.rcfg 0).cfg.quorum
      · have hc := hCo hlt
        by_cases hlt2 : (rec j).length + 2 < (C.rcfg 0).cfg.quorum
        · obtain ⟨s', hstep, _⟩ := rcoll_add k C D (s0 j) s j i (rec j) σ.truth σ.nextBytes hS.agg hj hrmem hi hnew' hc
            (hknow s hc.frame) (by rw [hqj]; exact hlt2)
          rw [hstep]; intro b agg hm; simp at hm
        · exact rcoll_quorum_outs k C D (s0 j) s j i (rec j) σ.truth σ.nextBytes hS.agg hS.v0
            (by rw [hqj]; exact hq.1) hj hrmem hi hrnd hnew' (hS.init j hj).2.1 hc (hknow s hc.frame) (by rw [hqj]; omega)
            (by rw [hS.leader j hj]; exact fun e => hjl e.symm)
      · have hc := hMo (by omega)
        obtain ⟨s', hstep, _⟩ := rmoved_add k C D (s0 j) s j i (rec j) σ.truth σ.nextBytes hS.agg (by rw [hqj]; exact hq.1)
          hj hrmem hi hc (hknow s hc.frame)
        rw [hstep]; intro b agg hm; simp at hm
    have hrp := route_noprop C j _ hnp
    have hext := step_ext k (C.rcfg j) { s with truth := σ.truth, nextBytes := σ.nextBytes } (Ev.timeout (D.tmsg C i)) hinv.fresh.2
    have hL : recUpd rec j i L = rec L := recUpd_other _ _ _ _ (fun e => hjl e.symm)
    refine ⟨?_, ?_⟩
    · intro hlt m hm
      rw [hL] at hlt
      simp only [List.mem_append] at hm
      rcases hm with hm | hm
      · exact hx.before hlt m hm
      · exact hrp m hm
    · intro hge
      rw [hL] at hge
      obtain ⟨i0, b', sL, sgL, f1, f2, f3, f4, f5, f6, f7, f8, f9, f10, f11, f12, f13, f14⟩ := hx.after hge
      refine ⟨i0, b', sL, sgL, f1, f2, f3, f4, f5, f6, f7,
        by rw [r1, lookup_setKV_other _ _ _ _ (fun e => hjl e.symm)]; exact f8, ?_, f10, f11, f12, ?_, ?_⟩
      · refine syncL_proj ?_ (syncL_with_table f9 σ'.truth σ'.nextBytes (fun b a hb => by rw [r2]; exact hext.truth b a hb)); rfl
      · intro m hm hp
        simp only [List.mem_append] at hm
        rcases hm with hm | hm
        · exact f13 m hm hp
        · rw [hrp m hm] at hp; cases hp
      · intro x hx' hxl
        exact List.mem_append_left _ (f14 x hx' hxl)

/-- **the timeout messages `msgs` are delivered one after the other** (any order): both invariants -/
theorem recx_deliver_lv (k : Keys) (C : SysCfg) (L N : Nat) (D : RecData) (s0 : Nat → RState) (T0 : List (Nat × Atom))
    (hC : HappyLive C L) (hS : RecSetupLive k C D s0 L T0) (hY : SyncPre C D s0 N)
    (hlockv : ∀ j ∈ C.honest, ∀ i ∈ C.honest, Top C D i → (s0 j).lock.view ≤ (D.hb i).view) :
    ∀ (msgs : List (Nat × Nat)) (rec : Nat → List Nat) (x : SysState × Msgs),
      RecInv k C D s0 L T0 rec x → RecX C L D s0 N rec x → msgs.Nodup →
      (∀ p ∈ msgs, p.1 ∈ C.honest ∧ p.2 ∈ C.honest ∧ p.2 ≠ p.1 ∧ p.2 ∉ rec p.1) →
      RecInv k C D s0 L T0 (recAll rec msgs) (deliverAll k C x (msgs.map fun p => (p.1, Ev.timeout (D.tmsg C p.2)))) ∧
      RecX C L D s0 N (recAll rec msgs) (deliverAll k C x (msgs.map fun p => (p.1, Ev.timeout (D.tmsg C p.2)))) := by
  intro msgs
  induction msgs with
  | nil => intro rec x h h' _ _; exact ⟨h, h'⟩
  | cons p rest ih =>
    intro rec x h h' hnd hall
    obtain ⟨j, i⟩ := p
    obtain ⟨σ, acc⟩ := x
    obtain ⟨h1, h2, h3, h4⟩ := hall (j, i) (by simp)
    have hstep := rec_step_lv k C D s0 L T0 hS rec σ acc j i h h1 h2 h3 h4
    have hstep' := recx_step_lv k C L N D s0 T0 hC hS hY hlockv rec σ acc j i h h' h1 h2 h3 h4
    simp only [List.map_cons]
    rw [show ((j, Ev.timeout (D.tmsg C i)) :: rest.map fun p => (p.1, Ev.timeout (D.tmsg C p.2))) =
      [(j, Ev.timeout (D.tmsg C i))] ++ rest.map fun p => (p.1, Ev.timeout (D.tmsg C p.2)) from rfl, deliverAll_append]
    unfold recAll
    apply ih _ _ hstep hstep' (List.nodup_cons.mp hnd).2
    intro p hp
    obtain ⟨q1, q2, q3, q4⟩ := hall p (by simp [hp])
    refine ⟨q1, q2, q3, ?_⟩
    by_cases hpj : p.1 = j
    · rw [hpj, recUpd_same]
      simp only [List.mem_append, List.mem_singleton, not_or]
      refine ⟨by rw [← hpj]; exact q4, ?_⟩
      intro e
      have : p = (j, i) := by
        obtain ⟨a, b⟩ := p
        simp only at hpj e
        rw [hpj, e]
      exact (List.nodup_cons.mp hnd).1 (this ▸ hp)
    · rw [recUpd_other _ _ _ _ hpj]; exact q4

theorem pa_step_lv (k : Keys) (C : SysCfg) (L : Nat) (hC : HappyLive C L) (D : RecData) (N i : Nat) (b' : Block) (σ1 : SysState)
    (hN : N + 12 ≤ 99999) (hR : RecDone k C L D N i b' σ1)
    (bt' : Nat → Nat) (done : List Nat) (σ : SysState) (acc : Msgs) (j : Nat)
    (hinv : PAInv C L D N i b' σ1 bt' done (σ, acc)) (hj : j ∈ C.honest) (hjL : j ≠ L) (hnew : j ∉ done) :
    ∃ bt'', PAInv C L D N i b' σ1 bt'' (done ++ [j]) (deliverAll k C (σ, acc) [propMsg L b' j]) := by
  obtain ⟨s0, hl0, hS0⟩ := hR.others j hj hjL
  have hl : σ.reps.lookup j = some s0 := by rw [hinv.undone j hjL hnew]; exact hl0
  obtain ⟨σ', hd, r1, r2, r3⟩ := deliver_effect k C σ acc j (Ev.propose L b' none) s0 hl
  have hS1 := hS0.table σ.truth σ.nextBytes (fun b a hb => hinv.table b a hb)
  obtain ⟨P, hP1, hP2⟩ := hS1.par
  obtain ⟨n1, n2, n3, n4, ⟨bytes, n5, n6⟩⟩ := nl_step_cur k (C.rcfg j) L D.v N (D.hb i) P b'
    { s0 with truth := σ.truth, nextBytes := σ.nextBytes } hC.scheme hC.agg hC.rules (fun v => hC.lead j v) hjL
    hS1.view hS1.lastVoted hS1.queue hS1.wvc hS1.wprop hS1.fetch hinv.fresh hN hR.blk.1 hR.blk.2.1 hR.blk.2.2
    (by have h1 := verifyQC_parts
        have := hS1.hbv
        -- the certificate's view is the view of the certified block (or 0 for genesis)
        by_cases hg : b'.qc.hash = genesisHash
        · have hv := hS1.ver
          unfold verifyQC at hv
          rw [if_pos (by simpa using hg)] at hv
          have : b'.qc.view = 0 := by simpa using hv
          omega
        · obtain ⟨sg, b, _, _, hb, hv, _⟩ := verifyQC_parts k (C.rcfg j) _ b'.qc hS1.ver hg
          rw [hS1.hasHb] at hb; cases hb
          omega)
    hS1.ver hS1.hasHb hS1.hbv hP1 hP2 hS1.ready hS1.hq hS1.lock hS1.committed hS1.names hS1.small hS1.walk
  have hjmem : j ∈ σ.reps.map (·.1) := by rw [hinv.keys]; exact hj
  show ∃ bt'', PAInv C L D N i b' σ1 bt'' (done ++ [j]) (deliverAll k C (σ, acc) [(j, Ev.propose L b' none)])
  rw [hd]
  refine ⟨fun x => if x = j then bytes else bt' x, by rw [r2, r3]; exact n3, by rw [r1, keys_setKV _ _ _ hjmem]; exact hinv.keys,
    ?_, ?_, ?_, ?_, ?_⟩
  · intro b a hb
    rw [r2]; exact n4.truth b a (hinv.table b a hb)
  · rw [r1, lookup_setKV_other _ _ _ _ (fun e => hjL e.symm)]; exact hinv.leader
  · intro x hx hin
    simp only [List.mem_append, List.mem_singleton, not_or] at hin
    rw [r1, lookup_setKV_other _ _ _ _ hin.2]; exact hinv.undone x hx hin.1
  · intro x hx
    simp only [List.mem_append, List.mem_singleton] at hx
    by_cases hxj : x = j
    · subst hxj
      refine ⟨_, by rw [r1]; exact lookup_setKV_same _ _ _, n1, n2, ?_⟩
      rw [r2, if_pos rfl]; exact n5
    · rcases hx with hx | hx
      · obtain ⟨t, d2, d3, d4, d5⟩ := hinv.did x hx
        refine ⟨t, by rw [r1, lookup_setKV_other _ _ _ _ hxj]; exact d2, d3, d4, ?_⟩
        rw [r2, if_neg hxj]; exact n4.truth _ _ d5
      · exact absurd hx hxj
  · show acc ++ route C j _ = _
    have := n6 C
    rw [rcfg_id] at this
    have hpool : acc = done.map (voteMsg C L b'.hash bt') := hinv.pool
    rw [this, hpool, List.map_append]
    congr 1
    · apply List.map_congr_left
      intro x hx
      have hxj : x ≠ j := fun e => hnew (e ▸ hx)
      simp [voteMsg, hxj]
    · simp [voteMsg]; rfl

theorem pa_deliver_lv (k : Keys) (C : SysCfg) (L : Nat) (hC : HappyLive C L) (D : RecData) (N i : Nat) (b' : Block) (σ1 : SysState)
    (hN : N + 12 ≤ 99999) (hR : RecDone k C L D N i b' σ1) :
    ∀ (ord done : List Nat) (bt' : Nat → Nat) (x : SysState × Msgs), PAInv C L D N i b' σ1 bt' done x → ord.Nodup →
      (∀ j ∈ ord, j ∈ C.honest ∧ j ≠ L ∧ j ∉ done) →
      ∃ bt'', PAInv C L D N i b' σ1 bt'' (done ++ ord) (deliverAll k C x (ord.map (propMsg L b'))) := by
  intro ord
  induction ord with
  | nil => intro done bt' x h _ _; exact ⟨bt', by rw [List.append_nil]; exact h⟩
  | cons j rest ih =>
    intro done bt' x h hnd hall
    obtain ⟨σ, acc⟩ := x
    obtain ⟨h1, h2, h3⟩ := hall j (by simp)
    obtain ⟨bt1, hstep⟩ := pa_step_lv k C L hC D N i b' σ1 hN hR bt' done σ acc j h h1 h2 h3
    simp only [List.map_cons]
    rw [show (propMsg L b' j :: rest.map (propMsg L b')) = [propMsg L b' j] ++ rest.map (propMsg L b') from rfl,
      deliverAll_append]
    obtain ⟨bt2, this⟩ := ih (done ++ [j]) bt1 _ hstep (List.nodup_cons.mp hnd).2 (by
      intro x hx
      obtain ⟨q1, q2, q3⟩ := hall x (by simp [hx])
      refine ⟨q1, q2, ?_⟩
      simp only [List.mem_append, List.mem_singleton, not_or]
      exact ⟨q3, fun e => (List.nodup_cons.mp hnd).1 (e ▸ hx)⟩)
    rw [List.append_assoc] at this
    exact ⟨bt2, this⟩

/-- **from the state after the recovery round to phase A**: the proposals reach everybody else, in any order -/
theorem recDone_phaseA_lv (k : Keys) (C : SysCfg) (L : Nat) (hC : HappyLive C L) (D : RecData) (N i : Nat) (b' : Block)
    (σ1 : SysState) (hN : N + 12 ≤ 99999) (hR : RecDone k C L D N i b' σ1) (ord : List Nat) (hord : OthersOrder C L ord) :
    ∃ bt : Nat → Nat,
      PhaseA C L (D.v + 1) (N + 2) b' (D.hb i) bt (deliverAll k C (σ1, []) (ord.map (propMsg L b'))).1 ∧
      VotesFly C L b'.hash bt (deliverAll k C (σ1, []) (ord.map (propMsg L b'))).2 ∧
      ∀ j ∈ C.honest, ∃ s, (deliverAll k C (σ1, []) (ord.map (propMsg L b'))).1.reps.lookup j = some s ∧ WalkZ b' s := by
  have hinit : PAInv C L D N i b' σ1 (fun _ => 0) [] (σ1, []) :=
    ⟨hR.fresh, hR.keys, fun _ _ h => h, rfl, fun _ _ _ => rfl, by simp, rfl⟩
  obtain ⟨bt', hfin⟩ := pa_deliver_lv k C L hC D N i b' σ1 hN hR ord [] (fun _ => 0) (σ1, []) hinit hord.nodup
    (fun j hj => ⟨(hord.mem j hj).1, (hord.mem j hj).2, by simp⟩)
  rw [List.nil_append] at hfin
  obtain ⟨sL, sgL, hlL, hSL, hWL⟩ := hR.leader
  refine ⟨bt', ⟨hfin.fresh, hfin.keys, ?_, ⟨sL, sgL, by rw [hfin.leader]; exact hlL, ?_⟩, ?_⟩, ?_, ?_⟩
  · intro j hj hjL
    obtain ⟨s, d2, d3, _, _⟩ := hfin.did j (hord.full j hj hjL)
    exact ⟨s, d2, d3⟩
  · exact syncL_with_table hSL _ _ (fun b a hb => hfin.table b a hb)
  · intro j hj hjL
    obtain ⟨s, d2, d3, d4, d5⟩ := hfin.did j (hord.full j hj hjL)
    exact d5
  · rw [hfin.pool]; exact votesFly_map C L b'.hash bt' ord hord.full
  · intro j hj
    by_cases hjL : j = L
    · subst hjL
      exact ⟨sL, by rw [hfin.leader]; exact hlL, hWL⟩
    · obtain ⟨s, d2, d3, d4, d5⟩ := hfin.did j (hord.full j hj hjL)
      exact ⟨s, d2, d4⟩

/-- **the recovery round, exactly**: all timeout messages delivered (any order) — the leader has proposed `b'` on the
highest high QC `D.hq i` of a quorum and is synchronised at `(v + 1, b')`, everybody else has entered view `v + 1` and is
ready to vote for `b'`, and the proposals in flight are exactly those of `b'` -/
theorem recovery_round_done_lv (k : Keys) (C : SysCfg) (L N : Nat) (D : RecData) (s0 : Nat → RState) (T0 : List (Nat × Atom))
    (hC : HappyLive C L) (hS : RecSetupLive k C D s0 L T0) (hY : SyncPre C D s0 N)
    (hlockv : ∀ j ∈ C.honest, ∀ i ∈ C.honest, Top C D i → (s0 j).lock.view ≤ (D.hb i).view)
    (σ0 : SysState) (h0 : RecStart C s0 T0 σ0) (msgs : List (Nat × Nat)) (hm : FullOrder C msgs) :
    ∃ (i : Nat) (b' : Block), i ∈ C.honest ∧ Top C D i ∧ b'.view = D.v + 1 ∧ b'.qc = D.hq i ∧ b'.proposer = L ∧
      RecDone k C L D N i b' (recoveryRound k C D σ0 msgs).1 ∧
      (∀ m ∈ (recoveryRound k C D σ0 msgs).2, isProp m = true → ∃ j, m = propMsg L b' j) ∧
      (∀ j ∈ C.honest, j ≠ L → propMsg L b' j ∈ (recoveryRound k C D σ0 msgs).2) := by
  have hq : 2 ≤ (C.rcfg 0).cfg.quorum ∧ (C.rcfg 0).cfg.quorum ≤ C.n := quorum_bounds C.n hS.two
  have hinit : RecInv k C D s0 L T0 (fun _ => []) (σ0, []) := by
    refine ⟨h0.fresh, h0.keys, by intro b a hb; rw [h0.truth]; exact hb, by intro j _; simp, ?_, ?_, ?_⟩
    · intro j hj _
      exact ⟨s0 j, h0.reps j hj, fun _ => (hS.init j hj).1, fun h => by simp at h; omega⟩
    · intro _
      exact ⟨s0 L, h0.reps L hS.lmem, (hS.init L hS.lmem).1⟩
    · intro h; simp at h; omega
  have hinitX : RecX C L D s0 N (fun _ => []) (σ0, []) := by
    refine ⟨fun _ m hm => by simp at hm, fun h => ?_⟩
    simp at h; omega
  obtain ⟨hfin, hfinX⟩ := recx_deliver_lv k C L N D s0 T0 hC hS hY hlockv msgs (fun _ => []) (σ0, []) hinit hinitX hm.nodup
    (fun p hp => ⟨(hm.valid p hp).1, (hm.valid p hp).2.1, (hm.valid p hp).2.2, by simp⟩)
  have hlen : ∀ j ∈ C.honest, (C.rcfg 0).cfg.quorum ≤ (recAll (fun _ => []) msgs j).length + 1 := by
    intro j hj
    obtain ⟨hnd, hmem⟩ := hfin.recs j hj
    have : C.honest.length ≤ (j :: recAll (fun _ => []) msgs j).length := by
      apply nodup_length_le _ _ hS.nodup
      intro x hx
      by_cases hxj : x = j
      · simp [hxj]
      · exact List.mem_cons_of_mem _ (recAll_mem msgs _ j x (Or.inr (hm.full j hj x hx hxj)))
    simp only [List.length_cons] at this
    have := hS.qh
    omega
  obtain ⟨i, b', sL, sgL, f1, f2, f3, f4, f5, f6, f7, f8, f9, f10, f11, f12, f13, f14⟩ := hfinX.after (hlen L hS.lmem)
  refine ⟨i, b', f1, f2, f5, f6, f7, ⟨hfin.fresh, hfin.keys, ⟨f3, f4, f5⟩, ⟨sL, sgL, f8, f9, f10⟩, ?_⟩, f13, f14⟩
  intro j hj hjL
  obtain ⟨s, q1, _, q3⟩ := hfin.others j hj hjL
  have hmv := q3 (hlen j hj)
  refine ⟨s, q1, ?_⟩
  let σ1 := (recoveryRound k C D σ0 msgs).1
  let sT : RState := { s with truth := σ1.truth, nextBytes := σ1.nextBytes }
  have hknow : KnowsAll k C D j sT :=
    (hS.init j hj).2.2.2.mono (by show s.chain = (s0 j).chain; exact hmv.frame.chain) (fun b a hb => hfin.table b a hb)
  obtain ⟨a1, a2, a3, a4⟩ := hknow.qc i f1
  have hidx : absI D.bv j (recAll (fun _ => []) msgs j) ∈ C.honest := by
    have := absI_mem D.bv (recAll (fun _ => []) msgs j) j
    simp only [List.mem_cons] at this
    rcases this with h | h
    · rw [h]; exact hj
    · exact (hfin.recs j hj).2 _ h
  obtain ⟨c1, c2, c3, c4⟩ := hknow.qc _ hidx
  obtain ⟨P, hP1, hP2⟩ := hY.par j hj i f1 f2
  have hlk := hlockv j hj i f1 f2
  exact ⟨hmv.view, by show s.lastVoted ≤ _; rw [hmv.frame.lastVoted]; exact (hS.init j hj).2.2.1, hmv.queue,
    by show s.waitingVC = []; rw [hmv.frame.wvc]; exact (hS.init j hj).2.1,
    by show s.waitingProp = []; rw [hmv.frame.wprop]; exact hY.wprop j hj,
    by show s.chain.fetchable = []; rw [hmv.frame.chain]; exact hY.fetch j hj,
    by rw [f6]; exact a1, by rw [f6]; exact a2, by rw [← a3]; exact Nat.le_of_lt a4,
    ⟨P, by show s.chain.blocks.lookup _ = _; rw [hmv.frame.chain]; exact hP1, hP2⟩,
    ruleReady_congr (C.rcfg j) (s0 j) sT _ _ hmv.frame.chain hmv.frame.lock (hS.cover j hj i f1 f2),
    by show s.highQC.view ≤ _; rw [hmv.hqc]; exact Nat.le_of_lt c4,
    by show s.lock.view ≤ _; rw [hmv.frame.lock]; have : (D.hb i).view < D.v := by rw [← a3]; exact a4
       omega,
    by show s.committed.view ≤ _; rw [hmv.frame.committed]; exact hY.committed j hj,
    by intro u hu
       show s.chain.blocks.lookup _ = none ∧ s.votes.lookup _ = none
       rw [hmv.frame.chain, hmv.frame.votes]; exact hY.names j hj u hu,
    by show 2 * s.chain.blocks.length + _ ≤ N; rw [hmv.frame.chain]; exact hY.small j hj,
    by show cmWalk (s.chain.blocks.length + 2) s.chain.blocks s.committed.view _ = true
       rw [hmv.frame.chain, hmv.frame.committed]; exact hY.walk j hj i f1 f2⟩

/-- **Recovery reaches phase A** (`recovery_reaches_synced`, fixed leader): under the hypotheses of
`recovery_from_reachable` (with `ℓ = L`), `HappyLive C L` and `SyncPre`, after the timeout messages (any order `msgs`)
and then the proposals in flight (any order `ordP`) have been delivered, the system is in phase A at `(v + 1, b')` for
the block `b'` the leader proposed on the highest high QC `D.hq i` of a quorum, the votes for `b'` are in flight, and the
committer of every replica can walk from `b'` down to its committed block. -/
theorem recovery_reaches_phaseA_lv (k : Keys) (C : SysCfg) (L : Nat) (hC : HappyLive C L) (D : RecData) (s0 : Nat → RState)
    (σ0 : SysState) (blk : Hash → Block) (hk : KeysOK k) (hr : Reach k C σ0) (hca : CA' σ0 blk)
    (hP : RecPreLive k C D s0 L σ0.truth) (h0 : RecStart C s0 σ0.truth σ0)
    (msgs : List (Nat × Nat)) (hm : FullOrder C msgs) (N : Nat) (hY : SyncPre C D s0 N)
    (ordP : List Nat) (hordP : OthersOrder C L ordP) :
    ∃ (i : Nat) (b' : Block) (bt : Nat → Nat),
      i ∈ C.honest ∧ Top C D i ∧ b'.view = D.v + 1 ∧ b'.qc = D.hq i ∧ b'.proposer = L ∧
      PhaseA C L (D.v + 1) (N + 2) b' (D.hb i) bt (proposalRound k C ordP (recoveryRound k C D σ0 msgs)).1 ∧
      VotesFly C L b'.hash bt (proposalRound k C ordP (recoveryRound k C D σ0 msgs)).2 ∧
      ∀ j ∈ C.honest, ∃ s, (proposalRound k C ordP (recoveryRound k C D σ0 msgs)).1.reps.lookup j = some s ∧ WalkZ b' s := by
  have hS := recSetup_of_reach_lv k C D s0 L σ0 blk hk hr hca hP h0.reps
  have hlockv : ∀ j ∈ C.honest, ∀ i ∈ C.honest, Top C D i → (s0 j).lock.view ≤ (D.hb i).view :=
    fun j hj i hi ht => (top_block_covers_lock_lv k C D s0 L σ0 blk hk hr hca hP h0.reps j i hj hi ht).1
  obtain ⟨i, b', g1, g2, g3, g4, g5, g6, g7, g8⟩ := recovery_round_done_lv k C L N D s0 σ0.truth hC hS hY hlockv σ0 h0 msgs hm
  have hpi := propsIn_of_pool L b' (recoveryRound k C D σ0 msgs).2 ordP g7 (fun j hj => g8 j (hordP.mem j hj).1 (hordP.mem j hj).2)
  obtain ⟨bt, p1, p2, p3⟩ := recDone_phaseA_lv k C L hC D N i b' _ (by have := hY.bound; omega) g6 ordP hordP
  refine ⟨i, b', bt, g1, g2, g3, g4, g5, ?_, ?_, ?_⟩
  · unfold proposalRound; rw [hpi]; exact p1
  · unfold proposalRound; rw [hpi]; exact p2
  · unfold proposalRound; rw [hpi]; exact p3

/-! ### every message of a round delivered (copies of Proofs/SysChainAll.lean) -/

/-- **a new-view message of the round reaches the leader**: nothing changes -/
theorem ab_nv_step_lv (k : Keys) (C : SysCfg) (L w N : Nat) (hC : HappyLive C L) (B P : Block)
    (σ0 : SysState) (sL0 : RState)
    (hver : verifyQC (env k (C.rcfg L) { sL0 with truth := σ0.truth, nextBytes := σ0.nextBytes }) B.qc = true)
    (hqv : B.qc.view < w) (hP0 : sL0.chain.blocks.lookup B.qc.hash = some P) (hPv : P.view < w) (hBv : B.view = w)
    (done : List Nat) (σ : SysState) (acc : Msgs) (i : Nat)
    (hinv : ABInv C L w N B P σ0 sL0 done (σ, acc)) :
    ABInv C L w N B P σ0 sL0 done (deliverAll k C (σ, acc) [nvMsg L B.qc i]) := by
  have hLmem := hC.leader
  have hnoop : ∀ sL : RState, σ.reps.lookup L = some sL → sL.queue = [] → StoreLe sL0.chain.blocks sL.chain.blocks →
      B.qc.view < sL.view → P.view ≤ sL.highQC.view →
      ∃ σ', deliverAll k C (σ, acc) [nvMsg L B.qc i] = (σ', acc) ∧
        σ'.reps = setKV L ({ sL with truth := σ.truth, nextBytes := σ.nextBytes, out := [] } : RState) σ.reps ∧
        σ'.truth = σ.truth ∧ σ'.nextBytes = σ.nextBytes := by
    intro sL hl hq hst hv hhi
    obtain ⟨σ', hd, r1, r2, r3⟩ := deliver_effect k C σ acc L (Ev.newview i { qc := some B.qc }) sL hl
    have hstep := newview_old_noop k (C.rcfg L) { sL with truth := σ.truth, nextBytes := σ.nextBytes } i B.qc P hC.agg hq
      (verifyQC_mono (fun b => σ0.truth.lookup b) (fun b => σ.truth.lookup b) (C.rcfg L).cfg sL0.chain.blocks sL.chain.blocks _ _
        (fun b a hb => hinv.table b a hb) hst hver)
      (hst _ _ hP0) hv hhi
    rw [hstep] at hd r1 r2 r3
    dsimp only at r1 r2 r3
    refine ⟨σ', ?_, r1, r2, r3⟩
    show deliverAll k C (σ, acc) [(L, _)] = _
    rw [hd]; simp [route]
  by_cases hlt : done.length + 1 < (C.rcfg L).cfg.quorum
  · obtain ⟨hacc, sL, vs, hl, hS, hvs, hch, hcm⟩ := hinv.coll hlt
    obtain ⟨σ', hd, r1, r2, r3⟩ := hnoop sL hl hS.core.queue (by rw [hch]; exact fun _ _ h => h)
      (by show B.qc.view < sL.view; rw [show sL.view = w from hS.core.view]; exact hqv) hS.hqge
    rw [hd]
    refine ⟨by rw [r2, r3]; exact hinv.fresh, by rw [r1, keys_setKV _ _ _ (by rw [hinv.keys]; exact hLmem)]; exact hinv.keys,
      by rw [r2]; exact hinv.table, ?_, ?_, ?_⟩
    · intro x hx
      rw [r1, lookup_setKV_other _ _ _ _ hx]; exact hinv.others x hx
    · intro _
      refine ⟨hacc, ({ sL with truth := σ.truth, nextBytes := σ.nextBytes, out := [] } : RState), vs,
        by rw [r1]; exact lookup_setKV_same _ _ _, ?_, hvs, hch, hcm⟩
      rw [r2, r3]; refine syncL_proj ?_ hS; rfl
    · intro h; omega
  · obtain ⟨B', sL, sgL, sgq, hl, hS, b1, b2, b3, b4, b5, b6, hacc, hcs⟩ := hinv.moved (by omega)
    obtain ⟨σ', hd, r1, r2, r3⟩ := hnoop sL hl hS.core.queue hcs.store
      (by show B.qc.view < sL.view; rw [show sL.view = w + 1 from hS.core.view]; omega)
      (by have h1 : B.view ≤ sL.highQC.view := hS.hqge
          omega)
    rw [hd]
    refine ⟨by rw [r2, r3]; exact hinv.fresh, by rw [r1, keys_setKV _ _ _ (by rw [hinv.keys]; exact hLmem)]; exact hinv.keys,
      by rw [r2]; exact hinv.table, ?_, ?_, ?_⟩
    · intro x hx
      rw [r1, lookup_setKV_other _ _ _ _ hx]; exact hinv.others x hx
    · intro h; omega
    · intro _
      refine ⟨B', ({ sL with truth := σ.truth, nextBytes := σ.nextBytes, out := [] } : RState), sgL, sgq,
        by rw [r1]; exact lookup_setKV_same _ _ _, ?_, b1, b2, b3, b4, by rw [r2]; exact b5, b6, hacc, ?_⟩
      · rw [r2, r3]; refine syncL_proj ?_ hS; rfl
      · exact ⟨hcs.store, fun Z hZ h => ⟨(hcs.walk Z hZ h).walk, (hcs.walk Z hZ h).below⟩, hcs.commit⟩

/-- **all messages of the votes round reach the leader one after the other** (votes and new-view messages, any order) -/
theorem ab_deliver_all_lv (k : Keys) (C : SysCfg) (L w N : Nat) (hC : HappyLive C L) (B P : Block) (bt : Nat → Nat)
    (σ0 : SysState) (sL0 : RState) (hN : N + 12 ≤ 99999)
    (hbt : ∀ j ∈ C.honest, j ≠ L → σ0.truth.lookup (bt j) = some ⟨j, blkMsg B.hash⟩)
    (hP0 : sL0.chain.blocks.lookup B.qc.hash = some P) (hPv : P.view < w) (hBv : B.view = w) :
    ∀ (items : List (Bool × Nat)) (done : List Nat) (x : SysState × Msgs), ABInv C L w N B P σ0 sL0 done x →
      (voteIds items).Nodup → (∀ j ∈ voteIds items, j ∈ C.honest ∧ j ≠ L ∧ j ∉ done) →
      ((∃ p ∈ items, p.1 = false) →
        verifyQC (env k (C.rcfg L) { sL0 with truth := σ0.truth, nextBytes := σ0.nextBytes }) B.qc = true ∧ B.qc.view < w) →
      ABInv C L w N B P σ0 sL0 (done ++ voteIds items) (deliverAll k C x (items.map (abMsg C L B bt))) := by
  intro items
  induction items with
  | nil => intro done x h _ _ _; simp only [voteIds, List.filter_nil, List.map_nil, List.append_nil]; exact h
  | cons p rest ih =>
    intro done x h hnd hall hnv
    obtain ⟨σ, acc⟩ := x
    obtain ⟨b, j⟩ := p
    simp only [List.map_cons]
    rw [show (abMsg C L B bt (b, j) :: rest.map (abMsg C L B bt)) = [abMsg C L B bt (b, j)] ++ rest.map (abMsg C L B bt) from rfl,
      deliverAll_append]
    cases b with
    | true =>
      rw [voteIds_cons_true] at hnd hall ⊢
      obtain ⟨h1, h2, h3⟩ := hall j (by simp)
      have hstep := ab_step_lv k C L w N hC B P bt σ0 sL0 hN hbt done σ acc j h h1 h2 h3
      have := ih (done ++ [j]) _ hstep (List.nodup_cons.mp hnd).2 (by
        intro i hi
        obtain ⟨q1, q2, q3⟩ := hall i (by simp [hi])
        refine ⟨q1, q2, ?_⟩
        simp only [List.mem_append, List.mem_singleton, not_or]
        exact ⟨q3, fun e => (List.nodup_cons.mp hnd).1 (e ▸ hi)⟩)
        (fun ⟨p, hp, hf⟩ => hnv ⟨p, by simp [hp], hf⟩)
      rw [List.append_assoc] at this
      exact this
    | false =>
      rw [voteIds_cons_false] at hnd hall ⊢
      obtain ⟨hv1, hv2⟩ := hnv ⟨(false, j), by simp, rfl⟩
      have hstep := ab_nv_step_lv k C L w N hC B P σ0 sL0 hv1 hv2 hP0 hPv hBv done σ acc j h
      exact ih done _ hstep hnd hall (fun ⟨p, hp, hf⟩ => hnv ⟨p, by simp [hp], hf⟩)

/-- **Round A ⟶ B with ALL messages**: the votes and the new-view messages in flight reach the leader in ANY order `items`
(`(true, j)`: the vote of `j`; `(false, i)`: the new-view message of `i`); the votes are those of pairwise different
replicas, enough for a quorum; if a new-view message is among them the leader can check its certificate (`NVok`) -/
theorem chain_round_AB_all_lv (k : Keys) (C : SysCfg) (L w N : Nat) (hC : HappyLive C L) (B P : Block) (bt : Nat → Nat)
    (σ : SysState) (hN : N + 12 ≤ 99999) (hA : PhaseA C L w N B P bt σ)
    (items : List (Bool × Nat)) (hnd : (voteIds items).Nodup) (hord : ∀ j ∈ voteIds items, j ∈ C.honest ∧ j ≠ L)
    (hlen : (C.rcfg L).cfg.quorum ≤ (voteIds items).length + 1)
    (hnv : (∃ p ∈ items, p.1 = false) → NVok k C L w B σ) :
    ∃ B' : Block,
      PhaseB C L w N B' B P (deliverAll k C (σ, []) (items.map (abMsg C L B bt))).1 ∧
      (deliverAll k C (σ, []) (items.map (abMsg C L B bt))).2 = (othersOf C L).map (propMsg L B') ∧
      (∀ j, j ≠ L → (deliverAll k C (σ, []) (items.map (abMsg C L B bt))).1.reps.lookup j = σ.reps.lookup j) ∧
      (∀ b a, σ.truth.lookup b = some a →
        (deliverAll k C (σ, []) (items.map (abMsg C L B bt))).1.truth.lookup b = some a) ∧
      ∃ sL0 sL, σ.reps.lookup L = some sL0 ∧
        (deliverAll k C (σ, []) (items.map (abMsg C L B bt))).1.reps.lookup L = some sL ∧
        CommitStep w B P sL0 sL := by
  obtain ⟨sL0, sgL, hl0, hS0⟩ := hA.leader
  have hinit : ABInv C L w N B P σ sL0 [] (σ, []) := by
    refine ⟨hA.fresh, hA.keys, fun _ _ h => h, fun _ _ => rfl, ?_, ?_⟩
    · intro _
      exact ⟨rfl, sL0, [(L, sgL)], hl0, hS0, rfl, rfl, rfl⟩
    · intro h
      have := (hC.quorum L).1
      simp at h; omega
  have hfin := ab_deliver_all_lv k C L w N hC B P bt σ sL0 hN hA.bytes hS0.core.hasP hS0.core.pview hS0.core.bview items []
    (σ, []) hinit hnd (fun j hj => ⟨(hord j hj).1, (hord j hj).2, by simp⟩)
    (by intro h
        obtain ⟨sL, e1, e2, e3⟩ := hnv h
        rw [hl0] at e1; cases e1
        exact ⟨e2, e3⟩)
  rw [List.nil_append] at hfin
  obtain ⟨B', sL, sgL', sgq, m1, m2, m3, m4, m5, m6, m7, m8, m9, m10⟩ := hfin.moved hlen
  refine ⟨B', ⟨hfin.fresh, hfin.keys, ?_, ⟨sL, sgL', m1, m2⟩, ⟨m3, m4, m5⟩, ⟨sgq, m6, m7, m8⟩⟩, m9, hfin.others, hfin.table,
    sL0, sL, hl0, m1, m10⟩
  intro j hj hjL
  rw [hfin.others j hjL]
  exact hA.others j hj hjL

/-- **One view of the chain, every message in flight delivered, in any order.**  Phase A at `(w, B)`; the messages in
flight are exactly the votes for `B` of the other replicas and (`nv = true`; not in the first view after a recovery) their
new-view messages (`x.2 = (roundItems nv ordPrev).map …`); `items` is ANY permutation of them (`msgs = items.map …` is then a
permutation of `x.2`); then the proposals are delivered in any order `ordP`.  Afterwards: phase A at `(w + 1, B')`, the
messages in flight are exactly the new-view messages and votes for `B'`, the leader can check their certificate (`NVok`),
and every replica's committer has made its step. -/
theorem chain_view_all_lv (k : Keys) (C : SysCfg) (L w N : Nat) (hC : HappyLive C L) (B P : Block) (bt : Nat → Nat)
    (x : SysState × Msgs) (hN : N + 12 ≤ 99999) (hA : PhaseA C L w N B P bt x.1)
    (nv : Bool) (ordPrev : List Nat) (hprev : OthersOrder C L ordPrev)
    (hpool : x.2 = (roundItems nv ordPrev).map (abMsg C L B bt)) (hnvok : nv = true → NVok k C L w B x.1)
    (items : List (Bool × Nat)) (hperm : items.Perm (roundItems nv ordPrev)) (ordP : List Nat) (hP : OthersOrder C L ordP) :
    (items.map (abMsg C L B bt)).Perm x.2 ∧
    ∃ (B' : Block) (bt' : Nat → Nat),
      PhaseA C L (w + 1) (N + 3) B' B bt' (chainViewAll k C (items.map (abMsg C L B bt)) ordP x).1 ∧
      (chainViewAll k C (items.map (abMsg C L B bt)) ordP x).2 = (roundItems true ordP).map (abMsg C L B' bt') ∧
      NVok k C L (w + 1) B' (chainViewAll k C (items.map (abMsg C L B bt)) ordP x).1 ∧ Link B' B ∧
      ∀ j ∈ C.honest, ∃ s0 s, x.1.reps.lookup j = some s0 ∧
        (chainViewAll k C (items.map (abMsg C L B bt)) ordP x).1.reps.lookup j = some s ∧ CommitStep w B P s0 s := by
  refine ⟨by rw [hpool]; exact hperm.map _, ?_⟩
  have hvp : (voteIds items).Perm ordPrev := by
    have := (hperm.filter (·.1)).map (·.2)
    rw [show ((roundItems nv ordPrev).filter (·.1)).map (·.2) = ordPrev from voteIds_roundItems nv ordPrev] at this
    exact this
  have hnvq : (∃ p ∈ items, p.1 = false) → NVok k C L w B x.1 := by
    intro ⟨p, hp, hf⟩
    cases nv with
    | true => exact hnvok rfl
    | false =>
      have := roundItems_false_votes ordPrev p (hperm.mem_iff.mp hp)
      rw [hf] at this; cases this
  obtain ⟨B', a1, a2, a3, a4, sL0, sL, a5, a6, a7⟩ := chain_round_AB_all_lv k C L w N hC B P bt x.1 hN hA items
    (hvp.nodup_iff.mpr hprev.nodup) (fun j hj => hprev.mem j (hvp.mem_iff.mp hj))
    (by rw [hvp.length_eq]; exact hprev.quorum_lv hC) hnvq
  obtain ⟨bt', b1, b2, b3, b4, b5⟩ := chain_round_BA_lv k C L w N hC B' B P _ hN a1 ordP hP.nodup hP.mem hP.full
  have hpi := propsIn_eq C L B' ordP hP.mem
  have hcv : chainViewAll k C (items.map (abMsg C L B bt)) ordP x =
      deliverAll k C ((deliverAll k C (x.1, []) (items.map (abMsg C L B bt))).1, []) (ordP.map (propMsg L B')) := by
    unfold chainViewAll
    rw [a2, hpi]
  rw [hcv]
  obtain ⟨sgq, g1, g2, g3⟩ := a1.qc
  obtain ⟨sLx, _, _, hSLx⟩ := hA.leader
  obtain ⟨sL', sgL', hl', hSL'⟩ := b1.leader
  refine ⟨B', bt', b1, by rw [b2]; exact acks_eq_items C L B' bt' ordP, ?_,
    ⟨a1.blk.2.1, by rw [g1], by rw [a1.blk.2.2, hSLx.core.bview], by rw [hSLx.core.bhash]; exact pname_ne_empty _⟩, ?_⟩
  · refine ⟨sL', hl', ?_, by rw [g1]; show B.view < w + 1; rw [hSLx.core.bview]; omega⟩
    have hlk : sL'.chain.blocks.lookup B.hash = some B := by
      have := hSL'.core.hasP
      rw [g1] at this; exact this
    rw [g1]
    exact verifyQC_of_votes k (C.rcfg L) _ B.hash B sgq hlk rfl
      (by rw [hSLx.core.bhash]; exact pname_ne_genesis _)
      (verify_mono _ _ _ _ _ (fun b a hb => b4 b a hb) g2) g3
  · intro j hj
    by_cases hjL : j = L
    · subst hjL
      exact ⟨sL0, sL, a5, by rw [b3]; exact a6, a7⟩
    · obtain ⟨s0, s, c1, c2, c3⟩ := b5 j hj hjL
      exact ⟨s0, s, by rw [← a3 j hjL]; exact c1, c2, c3⟩

/-- **From a synchronised view to a commit, every message delivered** (votes AND new-view messages of every view, in any
order, also chosen view by view): three views after phase A at `(w, B)` every replica has committed `B`. -/
theorem synced_commits_all_lv (k : Keys) (C : SysCfg) (L w N : Nat) (hC : HappyLive C L) (B P : Block) (bt : Nat → Nat)
    (x : SysState × Msgs) (hN : N + 18 ≤ 99999) (hA : PhaseA C L w N B P bt x.1)
    (nv : Bool) (ordPrev : List Nat) (hprev : OthersOrder C L ordPrev)
    (hpool : x.2 = (roundItems nv ordPrev).map (abMsg C L B bt)) (hnvok : nv = true → NVok k C L w B x.1)
    (hwalk : ∀ j ∈ C.honest, ∃ s, x.1.reps.lookup j = some s ∧ WalkZ B s)
    (i1 : List (Bool × Nat)) (p1 : List Nat) (h1 : i1.Perm (roundItems nv ordPrev)) (hp1 : OthersOrder C L p1) :
    ∃ (B1 : Block) (bt1 : Nat → Nat), Link B1 B ∧
      ∀ (i2 : List (Bool × Nat)) (p2 : List Nat), i2.Perm (roundItems true p1) → OthersOrder C L p2 →
      ∃ (B2 : Block) (bt2 : Nat → Nat), Link B2 B1 ∧
        ∀ (i3 : List (Bool × Nat)) (p3 : List Nat), i3.Perm (roundItems true p2) → OthersOrder C L p3 →
        ∃ (B3 : Block) (bt3 : Nat → Nat), Link B3 B2 ∧
          PhaseA C L (w + 3) (N + 9) B3 B2 bt3
            (chainViewAll k C (i3.map (abMsg C L B2 bt2)) p3 (chainViewAll k C (i2.map (abMsg C L B1 bt1)) p2
              (chainViewAll k C (i1.map (abMsg C L B bt)) p1 x))).1 ∧
          ∀ j ∈ C.honest, ∃ s0 s, x.1.reps.lookup j = some s0 ∧
            (chainViewAll k C (i3.map (abMsg C L B2 bt2)) p3 (chainViewAll k C (i2.map (abMsg C L B1 bt1)) p2
              (chainViewAll k C (i1.map (abMsg C L B bt)) p1 x))).1.reps.lookup j = some s ∧
            s.committed = B ∧ s0.committed.view < s.committed.view := by
  obtain ⟨_, B1, bt1, a1, a2, a3, a4, a5⟩ := chain_view_all_lv k C L w N hC B P bt x (by omega) hA nv ordPrev hprev hpool hnvok
    i1 h1 p1 hp1
  refine ⟨B1, bt1, a4, ?_⟩
  intro i2 p2 h2 hp2
  obtain ⟨_, B2, bt2, b1, b2, b3, b4, b5⟩ := chain_view_all_lv k C L (w + 1) (N + 3) hC B1 B bt1 _ (by omega) a1 true p1 hp1 a2
    (fun _ => a3) i2 h2 p2 hp2
  refine ⟨B2, bt2, b4, ?_⟩
  intro i3 p3 h3 hp3
  obtain ⟨_, B3, bt3, c1, c2, c3, c4, c5⟩ := chain_view_all_lv k C L (w + 1 + 1) (N + 3 + 3) hC B2 B1 bt2 _ (by omega) b1 true p2 hp2 b2
    (fun _ => b3) i3 h3 p3 hp3
  refine ⟨B3, bt3, c4, c1, ?_⟩
  intro j hj
  obtain ⟨s0, s1, d1, d2, d3⟩ := a5 j hj
  obtain ⟨s1', s2, e1, e2, e3⟩ := b5 j hj
  obtain ⟨s2', s3, f1, f2, f3⟩ := c5 j hj
  rw [d2] at e1; cases e1
  rw [e2] at f1; cases f1
  obtain ⟨s0', g1, g2⟩ := hwalk j hj
  rw [d1] at g1; cases g1
  obtain ⟨hB0, hBv⟩ := hA.hasB j hj s0 d1
  have w1 := d3.walk B g2 (by omega)
  have w2 := e3.walk B w1 (by omega)
  have hB2 : s2.chain.blocks.lookup B.hash = some B := e3.store _ _ (d3.store _ _ hB0)
  have hcm := f3.commit B w2 b4 a4 hB2
  exact ⟨s0, s3, d1, f2, hcm, by rw [hcm]; exact g2.below⟩

/-- `recDone_phaseA_lv` with the exact pool: the messages in flight are exactly the votes for `b'` -/
theorem recDone_phaseA_pool_lv (k : Keys) (C : SysCfg) (L : Nat) (hC : HappyLive C L) (D : RecData) (N i : Nat) (b' : Block)
    (σ1 : SysState) (hN : N + 12 ≤ 99999) (hR : RecDone k C L D N i b' σ1) (ord : List Nat) (hord : OthersOrder C L ord) :
    ∃ bt : Nat → Nat,
      PhaseA C L (D.v + 1) (N + 2) b' (D.hb i) bt (deliverAll k C (σ1, []) (ord.map (propMsg L b'))).1 ∧
      (deliverAll k C (σ1, []) (ord.map (propMsg L b'))).2 = ord.map (voteMsg C L b'.hash bt) ∧
      ∀ j ∈ C.honest, ∃ s, (deliverAll k C (σ1, []) (ord.map (propMsg L b'))).1.reps.lookup j = some s ∧ WalkZ b' s := by
  have hinit : PAInv C L D N i b' σ1 (fun _ => 0) [] (σ1, []) :=
    ⟨hR.fresh, hR.keys, fun _ _ h => h, rfl, fun _ _ _ => rfl, by simp, rfl⟩
  obtain ⟨bt', hfin⟩ := pa_deliver_lv k C L hC D N i b' σ1 hN hR ord [] (fun _ => 0) (σ1, []) hinit hord.nodup
    (fun j hj => ⟨(hord.mem j hj).1, (hord.mem j hj).2, by simp⟩)
  rw [List.nil_append] at hfin
  obtain ⟨sL, sgL, hlL, hSL, hWL⟩ := hR.leader
  refine ⟨bt', ⟨hfin.fresh, hfin.keys, ?_, ⟨sL, sgL, by rw [hfin.leader]; exact hlL, ?_⟩, ?_⟩, hfin.pool, ?_⟩
  · intro j hj hjL
    obtain ⟨s, d2, d3, _, _⟩ := hfin.did j (hord.full j hj hjL)
    exact ⟨s, d2, d3⟩
  · exact syncL_with_table hSL _ _ (fun b a hb => hfin.table b a hb)
  · intro j hj hjL
    obtain ⟨s, d2, d3, d4, d5⟩ := hfin.did j (hord.full j hj hjL)
    exact d5
  · intro j hj
    by_cases hjL : j = L
    · subst hjL
      exact ⟨sL, by rw [hfin.leader]; exact hlL, hWL⟩
    · obtain ⟨s, d2, d3, d4, d5⟩ := hfin.did j (hord.full j hj hjL)
      exact ⟨s, d2, d4⟩

/-- **Commit after recovery, every message of the three chain views delivered** (votes and new-view messages, any order,
also chosen view by view).  Hypotheses as `commit_after_recovery`.  (The new-view messages of the TIMEOUT round — they
carry timeout certificates — are not delivered: `proposalRound` takes the proposals only.) -/
theorem commit_after_recovery_all_core_lv (k : Keys) (C : SysCfg) (L : Nat) (hC : HappyLive C L) (D : RecData) (s0 : Nat → RState)
    (σ0 : SysState) (blk : Hash → Block) (hk : KeysOK k) (hr : Reach k C σ0) (hca : CA' σ0 blk)
    (hP : RecPreLive k C D s0 L σ0.truth) (h0 : RecStart C s0 σ0.truth σ0)
    (msgs : List (Nat × Nat)) (hm : FullOrder C msgs) (N : Nat) (hY : SyncPre C D s0 N)
    (ordP : List Nat) (hordP : OthersOrder C L ordP)
    (i1 : List (Bool × Nat)) (p1 : List Nat) (h1 : i1.Perm (roundItems false ordP)) (hp1 : OthersOrder C L p1) :
    ∃ (i : Nat) (b' : Block) (bt : Nat → Nat), i ∈ C.honest ∧ Top C D i ∧ b'.view = D.v + 1 ∧ b'.qc = D.hq i ∧ b'.proposer = L ∧
      (i1.map (abMsg C L b' bt)).Perm (proposalRound k C ordP (recoveryRound k C D σ0 msgs)).2 ∧
      ∃ (B1 : Block) (bt1 : Nat → Nat),
      ∀ (i2 : List (Bool × Nat)) (p2 : List Nat), i2.Perm (roundItems true p1) → OthersOrder C L p2 →
      ∃ (B2 : Block) (bt2 : Nat → Nat),
        ∀ (i3 : List (Bool × Nat)) (p3 : List Nat), i3.Perm (roundItems true p2) → OthersOrder C L p3 →
        ∀ j ∈ C.honest, ∃ s,
          (chainViewAll k C (i3.map (abMsg C L B2 bt2)) p3 (chainViewAll k C (i2.map (abMsg C L B1 bt1)) p2
            (chainViewAll k C (i1.map (abMsg C L b' bt)) p1
              (proposalRound k C ordP (recoveryRound k C D σ0 msgs))))).1.reps.lookup j = some s ∧
          s.committed = b' ∧ s.committed.view = D.v + 1 ∧ (s0 j).committed.view < s.committed.view := by
  have hS := recSetup_of_reach_lv k C D s0 L σ0 blk hk hr hca hP h0.reps
  have hlockv : ∀ j ∈ C.honest, ∀ i ∈ C.honest, Top C D i → (s0 j).lock.view ≤ (D.hb i).view :=
    fun j hj i hi ht => (top_block_covers_lock_lv k C D s0 L σ0 blk hk hr hca hP h0.reps j i hj hi ht).1
  obtain ⟨i, b', g1, g2, g3, g4, g5, g6, g7, g8⟩ := recovery_round_done_lv k C L N D s0 σ0.truth hC hS hY hlockv σ0 h0 msgs hm
  have hpi := propsIn_of_pool L b' (recoveryRound k C D σ0 msgs).2 ordP g7 (fun j hj => g8 j (hordP.mem j hj).1 (hordP.mem j hj).2)
  obtain ⟨bt, q1, q2, q3⟩ := recDone_phaseA_pool_lv k C L hC D N i b' _ (by have := hY.bound; omega) g6 ordP hordP
  have hy : proposalRound k C ordP (recoveryRound k C D σ0 msgs) =
      deliverAll k C ((recoveryRound k C D σ0 msgs).1, []) (ordP.map (propMsg L b')) := by
    unfold proposalRound; rw [hpi]
  rw [hy]
  have hpool : (deliverAll k C ((recoveryRound k C D σ0 msgs).1, []) (ordP.map (propMsg L b'))).2 =
      (roundItems false ordP).map (abMsg C L b' bt) := by
    rw [q2]; exact votes_eq_items C L b' bt ordP
  refine ⟨i, b', bt, g1, g2, g3, g4, g5, by rw [hpool]; exact h1.map _, ?_⟩
  obtain ⟨B1, bt1, _, c2⟩ := synced_commits_all_lv k C L (D.v + 1) (N + 2) hC b' (D.hb i) bt _ (by have := hY.bound; omega) q1
    false ordP hordP hpool (fun h => by cases h) q3 i1 p1 h1 hp1
  refine ⟨B1, bt1, ?_⟩
  intro i2 p2 h2 hp2
  obtain ⟨B2, bt2, _, c4⟩ := c2 i2 p2 h2 hp2
  refine ⟨B2, bt2, ?_⟩
  intro i3 p3 h3 hp3 j hj
  obtain ⟨B3, bt3, _, _, c6⟩ := c4 i3 p3 h3 hp3
  obtain ⟨_, s, _, d2, d3, _⟩ := c6 j hj
  have hv : s.committed.view = D.v + 1 := by rw [d3]; exact g3
  exact ⟨s, d2, d3, hv, by rw [hv]; have := hY.committed j hj; omega⟩

end HsVerif.Model
