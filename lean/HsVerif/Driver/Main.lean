import HsVerif.Drv.Core
import HsVerif.Drv.Quorum
import HsVerif.Drv.IDSet
open HsVerif.Drv

def families : List (String × Fam) := [
  ("quorum", quorumFam),
  ("quorum.oracle", quorumOracle),
  ("idset", idsetFam),
  ("idset.oracle", idsetOracle)
]

def main (args : List String) : IO UInt32 := do
  match args with
  | [name] =>
    match families.lookup name with
    | some f =>
      let stdin ← IO.getStdin
      let stdout ← IO.getStdout
      loop stdin stdout f f.init
      return 0
    | none => IO.eprintln s!"unknown family {name}"; return 2
  | _ => IO.eprintln "usage: hsmodel <family>"; return 2
