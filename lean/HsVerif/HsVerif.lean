import HsVerif.Props.C20
import HsVerif.Props.C19
import HsVerif.Drv.Quorum
import HsVerif.Drv.IDSet
