import HsVerif.Props.C20
