"""Family `twins` (C18): scenario generator, JSON codec and checkCommits of package twins.

Scripts (see harness/driver/fam_twins.go for the vocabulary):
  * corpus/twins/*.ops (hand written: last scenario, empty alphabet, zero views, tricky commit logs, JSON)
  * exhaustive: every generator setting of the property's bound (nodes 1..5, twin pairs 0..2,
    partitions 1..3, views 0..4): alphabet listed and checked, the whole stream enumerated call by
    call when it is short, drained completely when it is below the tier's cap, otherwise a prefix plus
    the last scenarios (odometer put near its end with `jumpend`); the same with Shuffle(seed);
    helper functions over a grid; commit logs of <= 4 replicas exhaustively over small alphabets
  * seeded random: settings beyond the bound, random commit logs, random JSON literals.

math/rand is an oracle for the model: `shuffle <seed> perm=.. offs=..` lines carry what the real
Shuffle did with that seed in a *separate* probe run of the Go driver (a fresh generator with the same
settings); the checked run must reproduce it (same seed => same order), the Lean model applies it.
"""
import itertools, os
from . import core
from .runner import Family

BOUND = [(n, t, k) for n in range(1, 6) for t in range(0, 3) for k in range(1, 4)]


def _impl_bin():
    priv = os.path.join(core.BUILD, f"run-C18-{os.getpid()}", "hsdriver")
    return priv if os.path.exists(priv) else os.path.join(core.BIN, "hsdriver")


def _probe(scripts):
    outs, _ = core.run_driver(_impl_bin(), "twins", scripts, 300)
    return outs


def alphabet_sizes(settings):
    """len(leadersPartitions) per (n,t,k), asked from the implementation; only used to shape scripts"""
    outs = _probe([[f"gen {n} {t} {k} 1" for (n, t, k) in settings]])[0] or []
    res = {}
    for st, o in zip(settings, outs):
        res[st] = None
        for tok in o.split():
            if tok.startswith("L="):
                res[st] = int(tok[2:])
    return res


def resolve_shuffles(named):
    """replace `shuffle <seed> ?` by `shuffle <seed> perm=.. offs=..` as observed in a probe run that
    contains only the gen / shuffle lines of the script"""
    idx = [i for i, (_, ls) in enumerate(named) if any(l.startswith("shuffle ") and l.endswith(" ?") for l in ls)]
    if not idx:
        return named
    probes = []
    for i in idx:
        probes.append([l[:-2] if l.endswith(" ?") else l for l in named[i][1] if l.startswith(("gen ", "shuffle "))])
    outs = _probe(probes)
    for i, pr, o in zip(idx, probes, outs):
        o = o or []
        ans = [a for l, a in zip(pr, o) if l.startswith("shuffle ")]
        nm, ls = named[i]
        new, j = [], 0
        for l in ls:
            if l.startswith("shuffle "):
                a = ans[j] if j < len(ans) else ""
                j += 1
                if l.endswith(" ?"):
                    l = l[:-2]
                    if a.startswith("ok perm="):
                        l = l + " " + a[3:]
                    # otherwise the line stays without permutation: the implementation could not shuffle
            new.append(l)
        named[i] = (nm, new)
    return named


def seqs(alpha, maxlen):
    out = ["-"]
    for k in range(1, maxlen + 1):
        for s in itertools.product(alpha, repeat=k):
            out.append(",".join(s))
    return out


class TwinsFam(Family):
    name = "twins"
    oracle = "twins.oracle"
    timeout = 3000

    def corpus(self):
        # corpus scripts may also leave the permutation of a shuffle to the probe (`shuffle <seed> ?`)
        # (comment lines are dropped: the oracle family answers them with "#", which the runner would
        # read as a failure)
        return resolve_shuffles([(nm, [l for l in ls if not l.lstrip().startswith("#")]) for nm, ls in super().corpus()])

    # ---------------------------------------------------------------- generator streams
    def _stream(self, L, v, next_cap, drain_cap, part):
        """ops that walk through the stream of a freshly built (maybe shuffled) generator"""
        R = (L ** v) if L is not None else None
        ls = []
        if R is not None and R <= next_cap:
            ls += ["next"] * R
            if R >= 1:
                ls.insert(1, "json")
                ls.insert(2, "jsonfile")
            ls += ["next", "next", "lp"]
        elif R is not None and R <= drain_cap:
            ls += ["nextfull", "json", "next", "jsonfile", "next", f"drain {R + 7}", "next", "nextfull", "lp"]
        else:
            ls += ["next", "nextfull", "json", f"drain {part}", "next", f"jumpend {part}", "nextfull", "jsonfile",
                   f"drain {part + 7}", "next", "next", "lp"]
        return ls

    def generate(self, tier, rng):
        quick = tier == "quick"
        next_cap = 2500 if quick else 12000
        drain_cap = 120_000 if quick else 1_000_000
        part = 8000 if quick else 150_000
        named = []
        # ---- helper functions over a grid (beyond the bound)
        h = []
        for n in range(0, 9):
            for t in range(0, 9):
                h.append(f"ids {n} {t}")
        h += ["ids 255 255", "ids 255 3", "ids 200 100"]
        for k in range(0, 7):
            h.append(f"pairs {k}")
        for n in range(1, 13 if quick else 19):
            for k in range(1, 6 if quick else 7):
                for m in range(1, 4):
                    h.append(f"sizes {n} {k} {m}")
        h.append("sizes 40 5 1")
        named.append(("helpers-grid", h))
        va = []
        pairs3 = [(i, j) for i in range(3) for j in range(i, 3)]
        vecs = [z for ln in range(0, 4) for z in itertools.product(range(0, 4), repeat=ln)]
        for z in vecs:
            zs = ",".join(map(str, z)) if z else "-"
            va.append(f"valid - {zs}")
            for a in pairs3 + [(0, 3), (3, 3)]:
                va.append(f"valid {a[0]}.{a[1]} {zs}")
                for b in pairs3 if (quick is False or len(z) <= 2 or sum(z) <= 5) else pairs3[:3]:
                    va.append(f"valid {a[0]}.{a[1]},{b[0]}.{b[1]} {zs}")
        va += ["valid 1.0 1,1", "valid 0.0,0.0,0.0 6", "valid 0.0,0.0,0.0 5", "valid 0.1,1.2,0.2 2,2,2", "valid 0.1,1.2,0.2 2,2,1"]
        named.append(("valid-exhaustive", va))
        pa = []
        for n in range(1, 7):
            for t in range(0, 4):
                for k in range(1, 5):
                    if quick and n + min(n, t) >= 8 and k >= 4:
                        continue
                    pa.append(f"parts {n} {t} {k} 1")
        for n in range(2, 6):
            for t in range(0, 3):
                for m in range(2, n + 2):
                    pa.append(f"parts {n} {t} 3 {m}")
        named.append(("parts-grid", pa))
        # ---- every setting of the bound: the complete stream (or its two ends)
        Ls = alphabet_sizes(BOUND)
        for (n, t, k) in BOUND:
            L = Ls.get((n, t, k))
            for v in range(0, 5):
                named.append((f"bound-{n}-{t}-{k}-{v}", [f"gen {n} {t} {k} {v}", "lp"] + self._stream(L, v, next_cap, drain_cap, part)))
        # ---- shuffled: every (n,t,k) of the bound, all view counts, seeds from the rng
        for (n, t, k) in BOUND:
            L = Ls.get((n, t, k))
            for v in range(0, 5):
                seeds = [rng.randrange(-2**63, 2**63) if rng.random() < 0.3 else rng.randrange(0, 2**32) for _ in range(1 if quick else 3)]
                for sd in seeds:
                    named.append((f"shuffled-{n}-{t}-{k}-{v}-{sd}",
                                  [f"gen {n} {t} {k} {v}", "lp", f"shuffle {sd} ?", "lp"]
                                  + self._stream(L, v, next_cap // 2, drain_cap // (2 if quick else 4), part)))
        # determinism: the same settings (and seed) twice in one script, streams compared call by call
        for (n, t, k, v) in [(3, 1, 2, 2), (4, 0, 2, 2), (3, 2, 3, 1), (2, 1, 3, 3), (5, 2, 3, 2)]:
            sd = rng.randrange(0, 2**31)
            body = ["next"] * 40 + ["drain 500", "jumpend 20"] + ["next"] * 22
            named.append((f"twice-{n}-{t}-{k}-{v}", [f"gen {n} {t} {k} {v}", "lp"] + body + [f"gen {n} {t} {k} {v}", "lp"] + body
                          + [f"gen {n} {t} {k} {v}", f"shuffle {sd} ?"] + body + [f"gen {n} {t} {k} {v}", f"shuffle {sd} ?"] + body))
        # the same for seeds a caller might treat specially (0 = "no seed given", -1, the extremes): a shuffle
        # with the same seed yields the same order, whatever the seed
        for sd in (0, 1, -1, 2**63 - 1, -2**63):
            n, t, k, v = rng.choice([(3, 1, 2, 2), (4, 0, 2, 2), (4, 1, 2, 2)])
            body = ["next"] * 12 + ["drain 200"] + ["next"] * 6
            named.append((f"twice-seed-{sd}", [f"gen {n} {t} {k} {v}", f"shuffle {sd} ?", "lp"] + body + [f"gen {n} {t} {k} {v}", f"shuffle {sd} ?", "lp"] + body))
        # shuffle twice / shuffle in mid-stream
        for (n, t, k, v) in [(3, 1, 2, 2), (4, 1, 2, 2), (3, 0, 3, 3)]:
            s1, s2 = rng.randrange(0, 2**31), rng.randrange(0, 2**31)
            named.append((f"reshuffle-{n}-{t}-{k}-{v}", [f"gen {n} {t} {k} {v}", "lp", f"shuffle {s1} ?", "lp", "next", "next", "next",
                                                          f"shuffle {s2} ?", "lp"] + ["next"] * 12 + ["drain 100000", "next"]))
        # ---- random settings beyond the bound (kept inside the model's domain: L^V < 2^53, where
        #      int64(math.Pow(L, V)) still is the exact count)
        rs = []
        for i in range(12 if quick else 60):
            n, t, k, v = rng.randrange(1, 8), rng.randrange(0, 4), rng.randrange(1, 5), rng.randrange(0, 6)
            if n + min(n, t) >= 9 and k >= 4:
                k = 3
            rs.append((n, t, k, v))
        Lr = alphabet_sizes(sorted(set((n, t, k) for (n, t, k, _) in rs)))
        for i, (n, t, k, v) in enumerate(rs):
            L = Lr.get((n, t, k))
            while L is not None and v > 0 and L ** v >= 2 ** 53:
                v -= 1
            ls = [f"gen {n} {t} {k} {v}", "lp"]
            if rng.random() < 0.5:
                ls += [f"shuffle {rng.randrange(0, 2**40)} ?", "lp"]
            p = rng.randrange(10, 400 if quick else 20000)
            ls += ["next"] * rng.randrange(0, 30) + ["json", f"drain {p}", f"jumpend {rng.randrange(1, p + 1)}", f"drain {p + 3}", "next", "next"]
            named.append((f"random-settings-{i}-{n}-{t}-{k}-{v}", ls))
        # ---- the executor on real runs (chained HotStuff): its verdict must be checkCommits of the logs it reports
        for i in range(12 if quick else 120):
            n, t, k, v = rng.choice([(4, 0, 2, 7), (4, 1, 2, 7), (4, 1, 2, 8), (5, 1, 3, 7), (4, 0, 1, 8), (4, 2, 2, 8), (6, 1, 2, 6)])
            ls = [f"gen {n} {t} {k} {v}", f"shuffle {rng.randrange(0, 2**31)} ?"]
            for _ in range(4 if quick else 8):
                ls += ["next", f"exec {rng.choice([60, 100, 150])}"]
            ls += [f"jumpend 1", "next", "exec 80"]
            named.append((f"exec-{i}-{n}-{t}-{k}-{v}", ls))
        named = resolve_shuffles(named)
        for x in named:
            yield x
        # ---- commit logs
        for x in self._commits(quick, rng):
            yield x
        # ---- JSON literals
        yield ("json-random", self._json(quick, rng))

    # ---------------------------------------------------------------- commit logs
    def _commits(self, quick, rng):
        ab2 = seqs("ab", 3)        # 15 logs
        abc2 = seqs("abc", 2)      # 13 logs
        abc3 = seqs("abc", 3)      # 40 logs
        four = ["r1n0", "r2n0", "r3n0", "r4n0"]
        # <= 3 single replicas, all logs of length <= 3 over three blocks
        for r in (1, 2, 3):
            if r == 3 and quick:
                pool = seqs("abc", 2) + ["a,b,c", "a,b,a", "a,a,a", "b,b,c", "a,b,b", "c,b,a"]
            else:
                pool = abc3
            yield (f"commits-exhaustive-{r}x", ["commits " + " ".join(f"{four[i]}={l}" for i, l in enumerate(c))
                                                  for c in itertools.product(pool, repeat=r)])
        # 4 single replicas
        yield ("commits-exhaustive-4x-ab3", ["commits " + " ".join(f"{four[i]}={l}" for i, l in enumerate(c))
                                              for c in itertools.product(ab2, repeat=4)])
        yield ("commits-exhaustive-4x-abc2", ["commits " + " ".join(f"{four[i]}={l}" for i, l in enumerate(c))
                                               for c in itertools.product(abc2, repeat=4)])
        if not quick:
            # three replicas with every log of length <= 3 over three blocks, the fourth with length <= 2
            yield ("commits-exhaustive-4x-abc3", ["commits " + " ".join(f"{four[i]}={l}" for i, l in enumerate(c))
                                                   for c in itertools.product(abc3, abc3, abc3, abc2)])
        # twins present: their logs must not influence the verdict
        tw = ["-", "a", "b", "a,b", "b,a", "c,c,c"]
        for cfg, singles in ((["r1n1", "r1n2"], ["r2n0", "r3n0", "r4n0"]), (["r1n1", "r1n2", "r2n1", "r2n2"], ["r3n0", "r4n0"]),
                             (["r2n1", "r2n2"], ["r1n0", "r3n0"]), (["r1n1", "r1n2", "r2n1", "r2n2"], [])):
            pool = ab2 if len(singles) <= 2 or not quick else seqs("ab", 2)
            twp = tw if len(cfg) == 2 else tw[:4]
            ls = []
            for tl in itertools.product(twp, repeat=len(cfg)):
                for sl in itertools.product(pool, repeat=len(singles)):
                    ls.append("commits " + " ".join([f"{a}={b}" for a, b in zip(cfg, tl)] + [f"{a}={b}" for a, b in zip(singles, sl)]))
            yield (f"commits-twins-{len(cfg)}-{len(singles)}", ls)
        # a twin whose sibling never started (one node of the pair only) counts as a single replica in the code
        yield ("commits-half-pair", ["commits r1n1=a,b r2n0=a,c", "commits r1n2=a r2n0=a r3n0=a,b", "commits r1n1=a r1n2=a r1n0=b r2n0=c"])
        # random: longer logs, mostly agreeing, up to 7 nodes
        ls = []
        for _ in range(4000 if quick else 150000):
            nodes = []
            for rid in range(1, rng.randrange(1, 6)):
                if rng.random() < 0.25:
                    nodes += [f"r{rid}n1", f"r{rid}n2"]
                else:
                    nodes.append(f"r{rid}n0")
            rng.shuffle(nodes)
            chain = [f"b{i}" for i in range(12)]
            toks = []
            for nd in nodes:
                ln = rng.randrange(0, 10)
                log = chain[:ln]
                if rng.random() < 0.3 and ln > 0:
                    i = rng.randrange(0, ln)
                    log = log[:i] + [rng.choice(["x", "y", chain[(i + 1) % 12]])] + log[i + 1:]
                toks.append(f"{nd}={','.join(log) if log else '-'}")
            ls.append("commits " + " ".join(toks))
        yield ("commits-random", ls)

    # ---------------------------------------------------------------- JSON
    def _json(self, quick, rng):
        ls = []
        for _ in range(1500 if quick else 40000):
            views = []
            for _v in range(rng.randrange(0, 4)):
                if rng.random() < 0.05:
                    views.append(f"{rng.randrange(0, 9)}:none")
                    continue
                parts = []
                for _p in range(rng.randrange(1, 5)):
                    r = rng.random()
                    if r < 0.12:
                        parts.append("-")
                    elif r < 0.2:
                        parts.append("+")
                    else:
                        parts.append(",".join(f"r{rng.choice([1, 2, 3, 9, 10, 11, 256, 4294967295])}n{rng.choice([0, 1, 2, 2, 7, 4294967295])}"
                                              for _ in range(rng.randrange(1, 6))))
                views.append(f"{rng.choice([0, 1, 2, 3, 4, 255, 256, 4294967295])}:{'/'.join(parts)}")
            lit = "|".join(views) if views else "."
            ls.append("jsonlit " + lit)
            # two different scenarios through ONE scenario file and the JSON scenario source
            if len(ls) >= 3 and rng.random() < 0.3:
                prev = ls[-3].split(" ", 1)[1] if ls[-3].startswith("jsonlit ") else "."
                ls.append(f"jsonfilelit {prev} {lit}")
        return ls

    # ---------------------------------------------------------------- evidence
    def nontrivial_keys(self, lines, impl_out):
        keys = []
        if not lines:
            return keys
        first = lines[0].split()[0]
        if first in ("commits", "jsonlit", "valid", "ids", "parts"):
            # every distinct line is a case of its own; trivial = refused by the driver
            return [l for l, o in zip(lines, impl_out) if o != "bad-op"]
        if first == "gen":
            delivered = sum(1 for l, o in zip(lines, impl_out) if l.startswith("next") and not o.startswith(("eof", "panic", "bad-op")))
            drained = sum(int(t[6:]) for l, o in zip(lines, impl_out) if l.startswith("drain") for t in o.split() if t.startswith("count="))
            if delivered + drained > 0 or any(o.startswith("eof") for o in impl_out):
                keys.append(core.script_hash(lines))
        return keys

    def tags(self, lines, impl_out):
        t = super().tags(lines, impl_out)
        for l, o in zip(lines, impl_out):
            if l.startswith("commits"):
                k = "verdict:" + (o.split()[0] if o else "?")
                t[k] = t.get(k, 0) + 1
            elif l.startswith("next") and o.startswith("eof"):
                t["stream:end-reached"] = t.get("stream:end-reached", 0) + 1
            elif l.startswith("drain"):
                for tok in o.split():
                    if tok.startswith("count="):
                        t["stream:drained-scenarios"] = t.get("stream:drained-scenarios", 0) + int(tok[6:])
            elif l.startswith("shuffle") and o.startswith("ok"):
                t["stream:shuffled"] = t.get("stream:shuffled", 0) + 1
        return t

    def exhaustive(self, tier):
        # settings whose stream is longer than the tier's cap are covered at both ends only
        return False
