from .runner import Property
from .common import COMMON_TRUST
from .fam_tree import TreeFam
from .fam_kauri import KauriFam
from .fam_ktree import KTreeFam

PROP = Property(
    "C17", ["HsVerif.Props.C17"], [TreeFam(), KauriFam("roles"), KTreeFam("c17")],
    facts=[
        {"func": "internal/tree/tree.go:NewSimple", "order": ["panic", "Index", "panic", "treeHeight"]},
        {"func": "internal/tree/tree.go:Tree.replicaPosition", "contains": ["Index"]},
        {"func": "internal/tree/tree.go:Tree.Parent", "contains": ["replicaPosition"]},
        {"func": "internal/tree/tree.go:Tree.IsRoot", "contains": ["replicaPosition"]},
        {"func": "internal/tree/tree.go:Tree.ChildrenOf", "contains": ["replicaPosition"]},
        {"func": "internal/tree/tree.go:Tree.ReplicaChildren", "contains": ["ChildrenOf"]},
        {"func": "internal/tree/tree.go:Tree.PeersOf", "order": ["Parent", "ChildrenOf"]},
        {"func": "internal/tree/tree.go:Tree.SubTree", "order": ["ChildrenOf", "copy", "ChildrenOf", "append"]},
        {"func": "internal/tree/tree.go:Tree.ReplicaHeight", "contains": ["heightOf"]},
        {"func": "internal/tree/tree.go:Tree.heightOf", "order": ["IsRoot", "replicaPosition"]},
        {"func": "internal/tree/shuffle.go:Shuffle", "contains": ["Shuffle"]},
        # the call sites whose walk over the tree the `disseminate` / `voteup` ops reproduce
        {"func": "protocol/comm/kauri.go:Kauri.sendProposalToChildren", "order": ["ReplicaChildren", "Sub", "Propose"]},
        {"func": "protocol/comm/kauri.go:Kauri.onContributionRecv", "contains": ["SubTree", "IsSubSet"]},
        {"func": "protocol/comm/kauri/sender.go:KauriGorumsSender.SendContributionToParent", "order": ["Parent", "SendContribution"]},
        {"func": "protocol/leaderrotation/treeleader.go:TreeBased.GetLeader", "contains": ["HasKauriTree", "Root"]},
    ],
    trusted=COMMON_TRUST + [
        "math/rand/v2 Rand.Shuffle is a sequence of in-range swaps (Fisher-Yates); the random stream is a parameter of the model",
        "gorums/network delivery below kauri.go (Sub(children).Propose, SendContribution) is not modelled: the ops walk the tree with the same accessor calls",
    ],
    assumptions=["position assignments without repeated ids (a repeated id is outside the property: SubTree of the real code does not terminate there)",
                 "sizes and ids fit Go int/uint32 (no overflow of levelSize*bf for the sizes in use)"],
)

META = {
    "text": "Proof: for the model of internal/tree (NewSimple, treeHeight loop, Parent, Root, IsRoot, ChildrenOf with its early exits and clamp, PeersOf, the SubTree work-list loop, the heightOf level scan; every replica holding its own instance) Lean theorems show for EVERY duplicate-free position assignment of any length, every branch factor >= 2 and every vantage point: all replicas name one root, which alone reports 'no parent' (one_root); c is in ChildrenOf(p), whoever evaluates it, iff c's own Parent() is p (parent_child_iff, parent_mem); children lists are duplicate-free, of length <= bf, pairwise disjoint, and together list every non-root replica exactly once (children_disjoint, every_node_reached_once); SubTree() is duplicate-free and is exactly the set of replicas whose Parent() chain passes through the replica (subtree_eq_descendants), no replica is its own ancestor (acyclic); PeersOf() is the children list of the parent and consists exactly of the replicas reporting the same parent (peers_eq_children_of_parent); ReplicaHeight + depth = TreeHeight for every replica, children are one lower, TreeHeight = 1 + largest depth (height_consistent, depth_exists, depth_unique, treeHeight_levels); a proposal forwarded along ReplicaChildren from Root() reaches every replica exactly once and a contribution sent along Parent() reaches the root in depth-many hops (proposal_reaches_all_once, vote_path_up); Shuffle, for any random stream, and DefaultTreePos yield valid assignments (shuffle_valid, defaultTreePos_valid). The loop fuel of the model is shown sufficient inside these theorems; treeHeight is additionally regenerated from tree.go on every run and bridged (gen_treeHeight). Correspondence: real tree.NewSimple instances (one per replica, unexported treeHeight/heightOf via overlay export), leaderrotation.TreeBased.GetLeader, tree.Shuffle and DefaultTreePos are run against the model and against an oracle that knows only the axioms of a rooted tree: all n in 1..40 x bf 2..6 with the identity assignment from every vantage point, all permutations for n <= 6 (quick) / n <= 7 and n = 8 with bf 2 (thorough), seeded random permutations and sparse ids for every n <= 40 and some n up to 342 with bf up to 40, malformed configurations, treeHeight exhaustively for n <= 3000 (40000) x bf 1..12. The consequence clause is also run at the level of the Kauri code: the real comm.Kauri in EVERY position of every tree with n <= 13 (thorough: 21) and branch factor 2, 3, 4, 6 — also trees whose last level is incomplete — must forward the proposal to exactly its children (or, childless, hand its vote to its parent at once), merge their contributions and send one aggregate; compared with the node model (C09) line by line; and whole trees of real Kauri nodes (ktree family, n <= 10 / 13, every replica a real node): the aggregates really handed upwards along Parent() must add up, at the root, to a certificate over exactly the replicas connected to it.",
    "note": "Trusted: Lean kernel, propext/Quot.sound/Classical.choice, gofacts, correspondence harness, math/rand/v2 Shuffle being a swap sequence. The message layer of kauri.go (gorums Sub/Propose/SendContribution, timers, signature aggregation) is not modelled; the disseminate/voteup ops reproduce its walk over the tree with the same accessor calls, and gofacts checks that those call sites still use ReplicaChildren / SubTree / Parent / Root. Repeated ids in the assignment are outside the property.",
    "technique": "Lean 4 theorems (heap-layout arithmetic, work-list loop invariant, level induction) + translation of treeHeight + differential correspondence with rooted-tree oracle",
}
