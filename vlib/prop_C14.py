from .runner import Property
from .common import COMMON_TRUST
from .fam_queue import QueueFam
from .fam_evloop import EvloopFam

LOCKED = ["Lock", "defer Unlock"]

PROP = Property(
    "C14", ["HsVerif.Props.C14", "HsVerif.Props.C14Gen", "HsVerif.Props.C14GenCor"], [QueueFam(), EvloopFam()],
    facts=[
        # lock discipline the model's atomic steps rest on
        {"func": "core/eventloop/queue.go:queue.push", "order": LOCKED},
        {"func": "core/eventloop/queue.go:queue.pop", "order": LOCKED},
        {"func": "core/eventloop/queue.go:queue.len", "order": LOCKED},
        {"func": "core/eventloop/eventloop.go:Register", "order": ["Lock", "defer Unlock", "IndexFunc", "Lock", "defer Unlock"]},
        {"func": "core/eventloop/eventloop.go:DelayUntil", "order": ["Lock", "append", "Unlock"]},
        # the ring's fields are written by the constructor and the translated methods only
        {"func": "pkg:core/eventloop#writers.queue.entries", "exact": ["newQueue", "queue.push"]},
        {"func": "pkg:core/eventloop#writers.queue.head", "exact": ["newQueue", "queue.push", "queue.pop"]},
        {"func": "pkg:core/eventloop#writers.queue.tail", "exact": ["newQueue", "queue.push", "queue.pop"]},
        # shape of the dispatch: snapshot under the lock, handlers after unlocking, deferred re-dispatch
        {"func": "core/eventloop/eventloop.go:EventLoop.processEvent",
         "order": ["defer dispatchDelayedEvents", "Lock", "append", "append", "Unlock", "handler", "handler"]},
        {"func": "core/eventloop/eventloop.go:EventLoop.dispatchDelayedEvents", "order": ["Lock", "delete", "Unlock", "AddEvent"]},
        {"func": "core/eventloop/eventloop.go:EventLoop.AddEvent", "order": ["processEvent", "push", "Warnf"]},
        {"func": "core/eventloop/eventloop.go:EventLoop.Tick", "order": ["pop", "processEvent"]},
        {"func": "core/eventloop/eventloop.go:EventLoop.Run", "order": ["pop", "ready", "Done", "processEvent", "len", "pop", "processEvent"]},
        {"func": "core/eventloop/context.go:EventLoop.ViewContext", "order": ["WithCancel", "Register", "cancel", "Prioritize", "UnsafeRunInAddEvent", "unregister", "cancel"]},
        {"func": "core/eventloop/context.go:EventLoop.TimeoutContext", "order": ["ViewContext", "Register", "cancel", "Prioritize", "UnsafeRunInAddEvent", "unregister", "cancel"]},
    ],
    trusted=COMMON_TRUST + ["sync.Mutex, Go channels, the Go memory model; sync.Pool (gpool.go) returns an empty or previously emptied slice"],
    assumptions=[
        "capacity >= 1 (newQueue panics on 0; the drivers answer `panic`)",
        "each method body of queue and each el.mut critical section is one atomic step (lock discipline re-extracted by gofacts; "
        "thorough tier: -race build, concurrent producers against Run); AddEvent's two steps (handlers inside AddEvent, then push) "
        "are modelled as one step for a single caller - for concurrent producers the relevant atomic step is queue.push, covered by "
        "the queue theorems over all words",
        "handlers are the harness' recording handlers: record, then a fixed list of actions (call an unregister closure, AddEvent, "
        "DelayUntil, Register a further handler); a handler running inside AddEvent skips its AddEvent actions and a handler stops "
        "registering once 48 registrations exist (same rule in the Go driver; keeps scripts finite)",
        "event payloads and types are small naturals; Go int indices do not overflow",
    ],
    partial="Run's blocking select on the unbuffered readyChan (a push between a failed pop and the select is not signalled until the "
            "next push or cancellation: delay, not loss), tickers (time.Ticker), goroutine scheduling and handler bodies that run "
            "concurrently with other goroutines are runtime behaviour outside the model; Run is exercised only by the concurrent-"
            "producer runs (multiset + per-producer order), Tick by everything else.",
)

META = {
    "text": "Proof (Lean 4, no bound on capacity, word or script length): (1) the ring buffer of queue.go as coded (entries, head/tail "
            "with the -1 sentinel, single-step wrap; push with the repair of fixes/C14-queue-drop.diff) refines the ideal bounded deque "
            "for every capacity >= 1 and every word over push/pop/len - same reported drops, popped values and lengths "
            "(queue_refines_deque, queue_abs_refines), with the corollaries no_loss_below_capacity, "
            "overflow_drops_oldest_and_reports_it, pop_is_oldest_len_is_length; push_as_found_counterexample shows the unchanged "
            "push does not. (2) For the event loop model (handler table with free-slot reuse, Register/unregister closure with the "
            "repair of fixes/C14-unregister-idempotent.diff, AddEvent = handlers-in-AddEvent then bounded push with warning, Tick = pop, "
            "snapshot under the lock, priority list then ordinary list, then dispatchDelayedEvents; DelayUntil) and every script of "
            "add/delay/register/unregister/cancel/tick with every handler behaviour of the action language: the handler table stays "
            "consistent with the closures handed out (table_consistent); pushed events = events that left at the head (handled or "
            "reported dropped) ++ pending, in order (fifo_accounting, handled_in_add_order, no_loss_no_duplication, "
            "drop_only_when_full_and_reported); a Tick handles the oldest pending event and calls exactly the registrations of its type "
            "whose closure has not been called, once each, all prioritised before all ordinary (dispatch_once_in_order; "
            "add_dispatch_once_in_order for handlers inside AddEvent; register_registers, unregister_unregisters, "
            "unregister_idempotent; unregister_as_found_counterexample for the unchanged closure); deferred events: deferred = re-added "
            "++ waiting per awaited type for every script (deferred_accounting), re-added only by a Tick that handled an event of that "
            "type, after its handlers, in deferral order, including those deferred by these handlers "
            "(deferred_once_after_trigger_in_order, readd_only_in_tick). Concurrency: push/pop/len and the table operations are atomic "
            "under their mutex, so every schedule of producers is one of the words/scripts quantified over. Tie: the unexported queue "
            "(overlay export) and a real EventLoop with recording handlers plus ViewContext/TimeoutContext run the same scripts as the "
            "model: all words of length 8 (thorough 11) over push/pop/len for capacities 1-3 (1-4), all 9-letter-alphabet event-loop "
            "scripts of length 5 (thorough 6, capacities 1-2), seeded random scripts incl. nested registration, unregistering during "
            "dispatch, deferral during re-add, context helpers, malformed lines, hand-written corpus; an independent oracle (ideal deque, "
            "ideal handler set) judges every implementation trace; concurrent producers against Run are compared as multisets with "
            "per-producer order (thorough: also under -race). Tie by TRANSLATION as well (Props/C14Gen): queue.go's push/pop/len are "
            "regenerated into Lean from the Go source on every run (tools/gofacts/methods.go: struct methods over int fields and one "
            "slice, if/else, early return, ++, slice reads/writes; Lock/Unlock and the readyChan send skipped and named) and proved "
            "equal to the hand-written model for EVERY queue value (gen_push_eq_model, gen_pop_eq_model, gen_len_eq_model); the "
            "translation also tracks whether every slice index was in range, and queue_never_indexes_out_of_range proves it is, after "
            "any word from newQueue(c), c >= 1 (no index panic in queue.go).",
    "note": "Both defects of DESIGN section 6 were reproduced on the unchanged tree with concrete replays (queue capacity 2: push a,b,c "
            "reports b; Register/unregister/Register/unregister-again loses the second handler, reachable through TimeoutContext) and "
            "are repaired by the two diffs in fixes/; the model is of the repaired code. Trusted: Lean kernel, propext/Quot.sound/"
            "Classical.choice, gofacts, the correspondence harness, sync.Mutex/channels/sync.Pool. Partial: Run's blocking select / "
            "lost wake-up on readyChan (liveness delay only), tickers, scheduling.",
    "technique": "Lean 4 theorems (refinement of ring buffer to bounded deque; table invariant + flow equations over logs) + "
                 "Go->Lean translation of queue.go's methods with bridging theorems + lock-discipline facts + differential correspondence with exhaustive small scopes, ideal-deque/ideal-set oracle, -race support",
}
