"""Scripts for the `ktree` family (C09, C17): a WHOLE Kauri aggregation tree of real nodes.

Vocabulary: harness/driver/fam_ktree.go.  The generator writes bottom-up runs over random trees (size,
branch factor, positions, scheme): every node begins with its own vote, hears what its children REALLY
handed to SendContributionToParent (`out.<c>.last`), then its wait timer fires; and perturbations of
such runs: silent replicas (a silent inner node cuts off its sub-tree), duplicated and misdirected
deliveries, timers that fire early (a node flushes a partial aggregate and later sends a larger one),
stale aggregates (`out.<c>.1` after a re-send), a second view.
`expect-root-qc <root> <k>` states how many replicas are connected to the root by live nodes in a clean
run: the oracle wants a certificate with exactly k participants at the root when k reaches the quorum.
"""
from .runner import Family
from . import core
from .fam_kauri import TreeView, quorum


class KTreeFam(Family):
    name = "ktree"
    oracle = "ktree.oracle"
    header = 1
    timeout = 1500

    def __init__(self, tag="c09"):
        self.tag = tag

    def setup(self, scheme, n, bf, pos, cache=0, blocks=("B1",)):
        L = [f"cfg {scheme} {n} cache={cache}",
             "block B1 parent=G view=1 proposer=1 qc=genesis",
             "block B2 parent=B1 view=2 proposer=2 qc=genesis"]
        for i in range(1, n + 1):
            L.append(f"create-pc {i} B1 p{i}")
            L.append(f"create-pc {i} B2 q{i}")
        ps = f" pos={','.join(map(str, pos))}" if pos else ""
        for i in range(1, n + 1):
            L.append(f"node {i} bf={bf}{ps}")
        return L

    def bottom_up(self, t, rng, view=1, blk="B1", sigp="p", silent=(), dup=0.0, misdirect=0.0, early=0.0, stale=0.0):
        """one bottom-up run; returns (lines, number of replicas connected to the root)"""
        order = list(t.pos)
        # children before parents: by decreasing position index
        order.reverse()
        if rng.random() < 0.5:
            # any order that keeps children before parents: shuffle within levels
            lv = {}
            for x in t.pos:
                d, i = 0, t.pos.index(x)
                while i > 0:
                    i = (i - 1) // t.bf
                    d += 1
                lv.setdefault(d, []).append(x)
            order = []
            for d in sorted(lv, reverse=True):
                xs = lv[d]
                rng.shuffle(xs)
                order += xs
        L = []
        live = {}
        for x in order:
            if x in silent:
                live[x] = 0
                continue
            L.append(f"@{x} begin {blk} {sigp}{x}")
            ch = list(t.children(x))
            rng.shuffle(ch)
            cnt = 1
            for c in ch:
                if rng.random() < early:
                    L.append(f"@{x} timer {view}")
                if live.get(c, 0) > 0:
                    name = f"out.{c}.1" if rng.random() < stale else f"out.{c}.last"
                    L.append(f"@{x} contribution {view} {c} {name}")
                    cnt += live[c]
                    if rng.random() < dup:
                        L.append(f"@{x} contribution {view} {c} out.{c}.last")
                if rng.random() < misdirect:
                    # a contribution of somebody else's child, or of a replica's bare vote
                    o = rng.choice(t.pos)
                    L.append(f"@{x} contribution {view} {o} " + (f"out.{o}.last" if live.get(o, 0) > 0 and rng.random() < 0.6 else f"{sigp}{o}"))
            L.append(f"@{x} timer {view}")
            live[x] = cnt
        # a root without children hears nobody and never tests the quorum (n = 1: Props/C09Tree lonely_root_no_qc)
        return L, (live[t.pos[0]] if t.children(t.pos[0]) else 0)

    def generate(self, tier, rng):
        quick = tier == "quick"
        # ---- clean runs over every small shape
        shapes = []
        for n in range(1, 11 if quick else 14):
            for bf in (2, 3, 4):
                shapes.append((n, bf))
        for n, bf in shapes:
            for scheme in (("ecdsa",) if quick and n % 2 else ("ecdsa", "eddsa", "bls12")):
                pos = list(range(1, n + 1))
                if rng.random() < 0.5:
                    rng.shuffle(pos)
                t = TreeView(n, bf, pos)
                body, k = self.bottom_up(t, rng)
                yield (f"clean-{scheme}-{n}-{bf}", self.setup(scheme, n, bf, pos) + body + [f"expect-root-qc {pos[0]} {k}"])
        # ---- silent replicas
        for k in range(40 if quick else 400):
            n = rng.choice([4, 5, 7, 7, 8, 10, 13])
            bf = rng.choice([2, 2, 3, 4])
            scheme = rng.choice(["ecdsa", "ecdsa", "eddsa", "bls12"])
            pos = list(range(1, n + 1))
            rng.shuffle(pos)
            t = TreeView(n, bf, pos)
            silent = set(rng.sample(pos[1:], rng.randrange(0, max(1, (n - 1) // 3 + 2))))
            body, cnt = self.bottom_up(t, rng, silent=silent)
            yield (f"silent-{k}", self.setup(scheme, n, bf, pos, cache=rng.choice([0, 0, 50])) + body + [f"expect-root-qc {pos[0]} {cnt}"])
        # ---- perturbed runs (judged node by node), sometimes a second view on top
        for k in range(80 if quick else 1200):
            n = rng.choice([4, 5, 7, 7, 8, 10])
            bf = rng.choice([2, 2, 3, 4])
            scheme = rng.choice(["ecdsa", "ecdsa", "eddsa", "bls12"])
            pos = list(range(1, n + 1))
            if rng.random() < 0.6:
                rng.shuffle(pos)
            t = TreeView(n, bf, pos)
            silent = set(rng.sample(pos[1:], rng.randrange(0, 2)))
            body, _ = self.bottom_up(t, rng, silent=silent, dup=rng.choice([0, 0.2]), misdirect=rng.choice([0, 0.15, 0.3]),
                                     early=rng.choice([0, 0.15, 0.4]), stale=rng.choice([0, 0.3]))
            if rng.random() < 0.35:
                b2, k2 = self.bottom_up(t, rng, view=2, blk="B2", sigp="q")
                body += b2
                if rng.random() < 0.5:
                    # late traffic of view 1 into view 2
                    x = rng.choice(pos)
                    body.append(f"@{x} contribution 1 {rng.choice(pos)} out.{rng.choice([p for p in pos if p not in silent])}.1")
                    body.append(f"@{x} timer 1")
            yield (f"perturbed-{k}", self.setup(scheme, n, bf, pos, cache=rng.choice([0, 0, 50])) + body)

    def nontrivial_keys(self, lines, impl_out):
        return [core.script_hash(lines)] if any("qc~" in o for o in impl_out) else []

    def tags(self, lines, impl_out):
        t = super().tags(lines, impl_out)
        for l, o in zip(lines, impl_out):
            if o.startswith("fx="):
                fx = o.split()[0]
                for k in ("qc~", "send~", "propose~"):
                    if k in fx:
                        t["fx:" + k.strip("~")] = t.get("fx:" + k.strip("~"), 0) + 1
            if o.startswith("qcmax="):
                t["root:" + ("certificate" if o != "qcmax=0" else "none")] = t.get("root:" + ("certificate" if o != "qcmax=0" else "none"), 0) + 1
        return t
