from .runner import Property
from .common import COMMON_TRUST
from .fam_quorum import QuorumFam

QUORUM_SITES = [
    {"func": "core/replica.go:RuntimeConfig.QuorumSize", "contains": ["ReplicaCount", "QuorumSize"]},
    {"func": "security/cert/auth.go:Authority.VerifyQuorumCert", "contains": ["QuorumSize"]},
    {"func": "security/cert/auth.go:Authority.VerifyTimeoutCert", "contains": ["QuorumSize"]},
    {"func": "security/cert/auth.go:Authority.VerifyAggregateQC", "contains": ["QuorumSize"]},
    {"func": "protocol/synchronizer/timeout_collector.go:timeoutCollector.add", "contains": ["QuorumSize"]},
    {"func": "protocol/votingmachine/votingmachine.go:VotingMachine.verifyCert", "contains": ["QuorumSize"]},
    {"func": "protocol/comm/kauri.go:Kauri.mergeContribution", "contains": ["QuorumSize"]},
]


PROP = Property(
    "C20", ["HsVerif.Props.C20"], [QuorumFam()],
    facts=QUORUM_SITES,
    trusted=COMMON_TRUST + ["float64 arithmetic of math.Ceil for n+f+1 < 2^53 (translated as (E+1)/2; boundary inputs exercised)"],
    assumptions=["n = len(replicas) is a natural number; Go int does not overflow (n < 2^62)"],
)

META = {
        "text": "Proof: intersection (2q-n >= f+1), availability (q <= n-f), minimality of q and maximality of f are Lean theorems for every n >= 1 (omega; no bound). The Go formula is regenerated into Lean by the gofacts translator on every run and bridged to the model by lemmas re-checked by lake build; additionally hotstuff.QuorumSize/NumFaulty/RuntimeConfig.QuorumSize are compared with the model and with an executable oracle of the property for every n in 1..1,000,000 and at the 2^24/2^31/2^53 float boundaries. 'Every component uses this threshold' is a syntactic fact (call to config.QuorumSize at each certificate site) re-extracted on every run.",
        "note": "Trusted: Lean kernel, propext/Quot.sound, gofacts translator (float Ceil idiom translated as (E+1)/2, exact below 2^53), Go int overflow not modelled.",
        "technique": "Lean 4 theorem (omega) + Go->Lean translation with bridging lemmas + exhaustive differential correspondence"}
