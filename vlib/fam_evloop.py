"""evloop family (C14): a real eventloop.EventLoop with recording handlers (and the context helpers of
context.go) against the Lean model and the ideal-set/ideal-deque oracle.

Thorough tier additionally builds the Go driver with -race and runs the concurrent-producer scripts and a
sample of the sequential scripts on it (support for the atomicity assumption, never instead of a theorem);
its verdict enters the normal pipeline as the script `race-support` (`race.report <word>`)."""
import itertools, os
from . import core
from .runner import Family

TYPES = "ABC"
FLAGS = ("-", "p", "a", "pa")


# what the hand-written scripts in corpus/evloop/*.ops are for (the .ops format has no comment lines)
CORPUS_NOTES = {
    "overflow-reports-oldest": "capacity 2: the third AddEvent drops and reports A1; A2, A3 handled in order",
    "double-unregister-slot-reuse": "DESIGN 6 defect 15: r0's closure called twice, r1 took r0's slot in between; r1 must still see A1",
    "timeoutcontext-double-cancel": "the same through context.go only: TimeoutEvent -> TimeoutContext c0 calls ViewContext's cancel; "
                                    "ViewContext c1 takes the free slot; c0's CancelFunc (`defer cancel()`) calls the closure again; "
                                    "c1 must still be cancelled by the view change",
    "unregister-during-dispatch": "prioritised r1 unregisters ordinary r0 while A1 is dispatched: r0 still sees A1 (snapshot), not A2",
    "register-during-dispatch": "r0 registers a handler while A1 is dispatched: it sees A2 only and reuses the slot freed by r1",
    "deferred-order-and-overflow": "three events deferred until B, one until C; re-added in deferral order after B's handlers; the "
                                   "capacity-2 queue overflows while re-adding and reports the oldest; the C-deferred event stays",
    "defer-while-readding": "an in-AddEvent handler defers again while a deferred event is re-added: that deferral waits for the next trigger",
    "priority-with-slot-reuse": "slot order is not registration order after reuse; both prioritised handlers run before the ordinary one",
    "viewcontext-threshold": "ViewContext(view): cancelled by the first ViewChangeEvent with View >= view (nil: by any), not before",
    "handler-adds-during-dispatch": "a handler calls AddEvent from inside a dispatch (nested in-add handler), capacity 2 overflows",
}


class EvloopFam(Family):
    name = "evloop"
    oracle = "evloop.oracle"
    header = 1

    # ---- random scripts --------------------------------------------------------------------
    def _ev(self, rng, st, ty=None):
        st["n"] += 1
        return f"{ty or rng.choice(TYPES)}{st['n']}"

    def _act(self, rng, st, nprogs, nested=False, in_add=False, ty=None):
        """one handler action.  Growth control (a deferred event whose re-adding defers again multiplies the waiting
        lists at every trigger; a registered handler that registers again doubles the table at every event):
        programs never register and defer only C events; handlers running inside AddEvent defer only C events, and
        those registered for C never defer; programs are only installed in-add on types other than C."""
        while True:
            r = rng.random()
            if r < 0.30:
                return f"u:{rng.randrange(0, st['regs'] + 2)}"
            if r < 0.60:
                return f"a:{self._ev(rng, st)}"
            if r < 0.85:
                if in_add and ty == "C":
                    continue
                if nested or in_add:
                    return f"d:{rng.choice(TYPES)}:{self._ev(rng, st, 'C')}"
                return f"d:{rng.choice(TYPES)}:{self._ev(rng, st)}"
            if nested:
                continue
            fl = rng.choice(FLAGS)
            return f"r:{rng.choice('AB') if 'a' in fl else rng.choice(TYPES)}:{fl}:{rng.randrange(0, nprogs + 1)}"

    def _script(self, rng, n, ctx=False, tickers=0.0):
        st = {"n": 0, "regs": 0, "ctxs": 0}
        cap = rng.choice((1, 1, 2, 2, 3, 4, 6))
        lines = [f"el.new {cap}"]
        nprogs = rng.randrange(0, 4)
        for _ in range(nprogs):
            lines.append("prog " + " ".join(self._act(rng, st, nprogs, True) for _ in range(rng.randrange(0, 3))))
        types = TYPES + ("VO" if ctx else "")
        for _ in range(n):
            if tickers and rng.random() < tickers:
                lines.append("ticker")     # AddTicker: its start event queues up with the others (C14-r6m1)
                continue
            r = rng.random()
            if r < 0.18:
                ty, fl = rng.choice(types), rng.choice(FLAGS)
                acts = [self._act(rng, st, nprogs, in_add="a" in fl, ty=ty) for _ in range(rng.choice((0, 0, 0, 1, 1, 2, 3)))]
                lines.append(f"reg {ty} {fl} " + " ".join(acts))
                st["regs"] += 1
            elif r < 0.28:
                lines.append(f"unreg {rng.randrange(0, st['regs'] + 1)}")
            elif r < 0.52:
                lines.append(f"add {self._ev(rng, st, rng.choice(types))}")
            elif r < 0.62:
                lines.append(f"delay {rng.choice(types)} {self._ev(rng, st, rng.choice(types))}")
            elif r < 0.90:
                lines.append("tick")
            elif r < 0.93:
                lines.append("len")
            elif ctx:
                q = rng.random()
                if q < 0.3:
                    lines.append("tctx")
                    st["regs"] += 2
                    st["ctxs"] += 1
                elif q < 0.5:
                    lines.append(f"vctx {rng.choice(('nil', '0', '3', str(st['n'] + 2)))}")
                    st["regs"] += 1
                    st["ctxs"] += 1
                elif q < 0.75:
                    lines.append(f"cancel {rng.randrange(0, st['ctxs'] + 1)}")
                else:
                    lines.append(f"err {rng.randrange(0, st['ctxs'] + 1)}")
            else:
                lines.append("tick")
        lines += ["tick"] * (cap + 2) + ["len"] + [f"err {c}" for c in range(st["ctxs"])]
        return lines

    # ---- small-scope exhaustive ------------------------------------------------------------
    ALPHA = ("reg A -", "reg A p u:0", "unreg 0", "add A", "add B", "delay B A", "tick", "reg A a", "unreg 1")

    def _exh(self, length, cap):
        for word in itertools.product(range(len(self.ALPHA)), repeat=length):
            lines = [f"el.new {cap}"]
            n = 0
            for w in word:
                op = self.ALPHA[w]
                if op.startswith(("add", "delay")):
                    n += 1
                    op = op + str(n)
                lines.append(op)
            lines += ["tick", "tick", "tick", "len"]
            yield ("exh-c%d-%s" % (cap, "".join(map(str, word))), lines)

    def scope(self, tier):
        return (5, (2,)) if tier == "quick" else (6, (1, 2))

    CONC = (("conc 1 4 300", "conc 2 4 500", "conc 3 8 300", "conc 16 8 500", "conc 10000 8 1000"),
            ("conc 1 8 2000", "conc 2 8 3000", "conc 3 16 2000", "conc 4 16 2000", "conc 7 32 500", "conc 64 16 3000",
             "conc 1000 16 3000", "conc 20000 16 1200"))

    def generate(self, tier, rng):
        quick = tier == "quick"
        length, caps = self.scope(tier)
        for cap in caps:
            yield from self._exh(length, cap)
        rnd = []
        for k in range(1500 if quick else 30000):
            rnd.append((f"rand-{k}", self._script(rng, rng.randrange(5, 60))))
        for k in range(500 if quick else 10000):
            rnd.append((f"rand-ctx-{k}", self._script(rng, rng.randrange(5, 50), ctx=True)))
        yield from rnd
        # tickers added while events are pending: the start event is dropped, and reported, like any other oldest
        # event of a full queue, and takes its turn otherwise
        for k in range(250 if quick else 5000):
            yield (f"rand-ticker-{k}", self._script(rng, rng.randrange(5, 40), tickers=rng.choice((0.08, 0.15, 0.3))))
        for cap in (1, 2, 3, 4):
            for pos in range(cap + 1):
                lines = [f"el.new {cap}", "reg A -"] + [f"add A{i}" for i in range(pos)] + ["ticker"] + \
                        [f"add A{i}" for i in range(pos, pos + cap + 2)] + ["len"] + ["tick"] * (cap + 2)
                yield (f"ticker-overflow-c{cap}-p{pos}", lines)
        yield ("malformed", ["add A1", "tick", "prog a:A1", "el.new 0", "tick", "el.new x", "el.new 2", "add X1", "add A", "add 1",
                             "reg A q", "reg A - z:1", "reg A - u:", "reg D -", "tick 1", "unreg x", "unreg 9", "delay A", "delay A B",
                             "delay Z A1", "vctx x", "cancel 0", "err 0", "cancel x", "prog r:A:-:0 u:x", "reg A - r:A:-:7", "add A1",
                             "tick", "len", "conc 0 1 1", "conc 1 0 1", "frob"])
        conc = list(self.CONC[0] if quick else self.CONC[1])
        yield ("concurrent-producers", conc)
        if not quick:
            yield ("race-support", ["race.report " + self._race(conc, [l for _, l in rnd[:3000]])])

    def _race(self, conc, scripts):
        """-race build of the driver: concurrent producers + a sample of the sequential scripts; returns one word."""
        with core.Lock():
            ok, out, dt, binp = core.build_driver(race=True, out_name="hsdriver-race-C14")
        core.log(f"[C14] go build -race hsdriver-race-C14: {'ok' if ok else 'FAILED'} ({dt:.1f}s)")
        if not ok:
            core.log(out)
            return "race-build-failed"
        model = os.path.join(core.LEAN, ".lake", "build", "bin", "hsmodel")
        allscripts = [conc] * 3 + scripts
        io, err = core.run_driver(binp, self.name, allscripts, 900)
        if "DATA RACE" in (err or ""):
            core.log(err[:4000])
            return "data-race"
        mo, _ = core.run_driver(model, self.name, allscripts, 900)
        for a, b in zip(mo, io):
            if a is None or b is None or core.first_diff(a, b):
                core.log(f"[C14] -race run differs from the model: {core.first_diff(a or [], b or [])}")
                return "race-run-differs"
        core.log(f"[C14] -race support run: {len(allscripts)} scripts, no data race, outcomes equal the model's")
        return "ok"

    def nontrivial_keys(self, lines, impl_out):
        # interesting: a handler ran AND (an overflow drop was reported, or a deferred event was re-added, or a handler
        # (un)registered during dispatch); or a concurrent run
        if lines and lines[0].startswith("conc"):
            return [l for l in lines]
        ran = any(o.startswith("ran r") for o in impl_out)
        if not ran:
            return []
        drop = any("drop:" in o for o in impl_out)
        defer = any(l.startswith("delay") or " d:" in l for l in lines)
        dyn = any((" u:" in l or " r:" in l) for l in lines if l.startswith(("reg", "prog")))
        if drop or defer or dyn:
            return [core.script_hash(lines)]
        return []

    def exhaustive(self, tier):
        return True
