"""C16, history-based leader rotation (carousel, reputation) on generated committed chains.

Scripts are first written without the oracle values of math/rand (`rnd <seed>`) and without the
`claim=` of reputation queries; `_harvest` runs them once through the Go driver, copies the library's
values into the script (the model is parametric in them, DESIGN §5 C16) and the run proper then
compares model and implementation on the completed scripts (which also re-checks that a second,
fresh set of instances gives the same answers)."""
import itertools, os
from . import core
from .runner import Family

I64 = 2**63
U64 = 2**64


def wrap64(x):
    return (x + I64) % U64 - I64


def seed_for(seed, view):
    return wrap64(seed + wrap64(view))


def quorum(n):
    f = (n - 1) // 3
    return (n + f + 2) // 2


def fmt_list(l):
    return "[" + ",".join(map(str, l)) + "]"


class Script:
    """helper that writes one script and adds the `rnd` line before the first query that needs it"""

    def __init__(self, n, seed, k, scheme="ecdsa", inst=None):
        self.n, self.seed, self.k, self.scheme = n, seed, k, scheme
        inst = min(3, n) if inst is None else inst
        self.lines = [f"cfg n={n} seed={seed} k={k} scheme={scheme} inst={inst}"]
        self.rnd = set()

    def blk(self, name, parent, view, proposer, qc="none", signers=None, store=True):
        l = f"blk {name} parent={parent} view={view} proposer={proposer} qc={qc}"
        if signers is not None:
            l += " signers=" + fmt_list(signers)
        if not store:
            l += " store=no"
        self.lines.append(l)

    def verify(self, name):
        self.lines.append(f"verify {name}")

    def commit(self, name):
        self.lines.append(f"commit {name}")

    def query(self, scheme, view):
        s = seed_for(self.seed, view)
        if s not in self.rnd:
            self.rnd.add(s)
            self.lines.append(f"rnd {s}")
        self.lines.append(f"leader {scheme} {view}")


def driver_path():
    p = os.path.join(core.BUILD, f"run-C16-{os.getpid()}", "hsdriver")
    return p if os.path.exists(p) else os.path.join(core.BIN, "hsdriver")


def complete(lines, out):
    """copy the library's oracle values from the implementation's answers into the script"""
    res = []
    for l, o in zip(lines, out):
        t = l.split()
        if t and t[0] == "rnd" and len(t) == 2 and o.startswith("rnd "):
            res.append(o)
        elif len(t) == 3 and t[0] == "leader" and t[1] == "reputation" and o.startswith("leaders=["):
            first = o[len("leaders=["):].split(",")[0].rstrip("]")
            res.append(l + (" claim=" + first if first.isdigit() else ""))
        else:
            res.append(l)
    return res


class LeadhistFam(Family):
    name = "leadhist"
    oracle = "leadhist.oracle"
    header = 1

    def corpus(self):
        # comment lines document the hand-written scripts; they are not sent to the drivers
        return [(nm, [l for l in lines if not l.lstrip().startswith("#")]) for nm, lines in super().corpus()]

    # ---------------------------------------------------------------- generators (no oracle values yet)
    def _exhaustive_n4(self, seed, k):
        """n = 4 (f = 1, quorum 3): committed head b2 with every signer list of >= 3 distinct signers in
        every order, every proposer of b2; active round, neighbours, repeated query."""
        s = Script(4, seed, k)
        s.blk("b1", "g", 1, 1)
        i = 0
        for size in (3, 4):
            for sub in itertools.combinations(range(1, 5), size):
                for perm in itertools.permutations(sub):
                    for p in range(1, 5):
                        nm = f"x{i}"
                        i += 1
                        s.blk(nm, "b1", 2, p, "b1", list(perm))
                        if i % 5 == 0:
                            s.verify(nm)
                        s.commit(nm)
                        s.query("carousel", 2 + k)
                        if i % 7 == 0:
                            s.query("carousel", 3 + k)
                            s.query("carousel", 2 + k)
        return s.lines

    def _exhaustive_n7(self, seed, k, rng, sample=None):
        """n = 7 (f = 2, quorum 5): head b3 <- b2 <- b1; every proposer pair of (b2, b3), every signer
        set of size >= 5."""
        s = Script(7, seed, k)
        s.blk("b1", "g", 1, 1)
        subsets = [c for size in (5, 6, 7) for c in itertools.combinations(range(1, 8), size)]
        i = 0
        for p2 in range(1, 8):
            s.blk(f"m{p2}", "b1", 2, p2, "b1", [1, 2, 3, 4, 5])
            for p3 in range(1, 8):
                for sub in subsets:
                    if sample is not None and rng.random() > sample:
                        continue
                    nm = f"x{i}"
                    i += 1
                    l = list(sub)
                    rng.shuffle(l)
                    s.blk(nm, f"m{p2}", 3, p3, f"m{p2}", l)
                    s.commit(nm)
                    s.query("carousel", 3 + k)
        return s.lines

    def _signers(self, rng, n, scheme, malformed):
        q = quorum(n)
        ids = list(range(1, n + 1))
        if malformed:
            r = rng.random()
            if r < 0.4 and q > 1:                       # fewer than a quorum
                l = rng.sample(ids, rng.randrange(1, q))
            elif r < 0.8 and scheme != "bls12":         # repeated signers (defect 1 of DESIGN §6)
                base = rng.sample(ids, rng.randrange(1, min(n, 3) + 1))
                l = [rng.choice(base) for _ in range(rng.randrange(q, q + 3))]
            else:
                l = rng.sample(ids, rng.randrange(q, n + 1))
        else:
            size = q if rng.random() < 0.5 else rng.randrange(q, n + 1)
            l = rng.sample(ids, size)
        if scheme == "bls12":
            l = sorted(set(l))
        elif rng.random() < 0.3:
            l = sorted(l)
        return l

    def _random(self, rng, big=False, malformed=False, rep_heavy=False):
        if big:
            n = rng.randrange(13, 65)
        else:
            n = rng.choice([1, 2, 3, 4, 4, 4, 5, 6, 7, 7, 7, 8, 9, 10, 10, 11, 12, 13, 16])
        seed = rng.choice([0, 1, -1, I64 - 1, -I64, rng.randrange(-I64, I64), rng.randrange(-1000, 1000)])
        k = rng.choice([3, 3, 3, 2, 2, 1, 0, 5])
        scheme = rng.choice(["ecdsa"] * 6 + ["eddsa"] * 2 + ["bls12"])
        s = Script(n, seed, k, scheme)
        f = (n - 1) // 3
        base = rng.choice([1, 1, 1, 5, 1000, 2**32 - 3, 2**63 - 4, U64 - 12])
        depth = rng.randrange(2, 6 + 2 * f if not big else 5 + f)
        chain = []       # names on the main chain
        views = {}
        view = base
        for d in range(depth):
            name = f"b{d}"
            r = rng.random()
            if not chain:
                parent = "g"
            elif r < 0.85:
                parent = chain[-1]
            elif r < 0.93:
                parent = rng.choice(chain)      # fork
            elif r < 0.97:
                parent = "?m%d" % d             # parent unknown to the replicas
            else:
                parent = "g"
            # proposers: mostly replicas (so that they meet the signer sets), sometimes round-robin, rarely alien
            r = rng.random()
            proposer = rng.randrange(1, n + 1) if r < 0.8 else (view % n + 1 if r < 0.95 else rng.choice([0, n + 1, 2**32 - 1]))
            store = rng.random() > 0.04
            if not chain or rng.random() < 0.05:
                s.blk(name, parent, view, proposer, store=store)
            else:
                target = parent if parent in views else rng.choice(chain)
                s.blk(name, parent, view, proposer, target, self._signers(rng, n, scheme, malformed and rng.random() < 0.5), store=store)
                if malformed or rng.random() < 0.3:
                    s.verify(name)      # the real VerifyQuorumCert on the embedded certificate
            chain.append(name)
            views[name] = view
            # commit and ask
            if rng.random() < 0.85:
                head = name if rng.random() < 0.9 else rng.choice(chain)
                s.commit(head)
                hv = views[head]
                for _ in range(rng.randrange(1, 5)):
                    r = rng.random()
                    if r < 0.6:
                        v = (hv + k) % U64
                    elif r < 0.8:
                        v = (hv + k + rng.choice([-2, -1, 1, 2])) % U64
                    elif r < 0.9:
                        v = rng.choice([0, 1, 2, k, max(k - 1, 0), U64 - 1, 2**32, 2**63])
                    else:
                        v = rng.randrange(U64)
                    which = rng.random()
                    if rep_heavy:
                        if not malformed:
                            s.query("reputation", v)
                        if which < 0.3:
                            s.query("carousel", v)
                    else:
                        s.query("carousel", v)
                        if which < 0.5 and not malformed:
                            s.query("reputation", v)
            view = (view + (1 if rng.random() < 0.85 else rng.randrange(2, 5))) % U64
        return s.lines

    def _reputation_long(self, rng, n, scheme="ecdsa"):
        """a long straight chain, every head committed in turn (sometimes skipped), reputation queried
        after each commit: reputations accumulate over many heads"""
        seed = rng.randrange(-I64, I64)
        k = rng.choice([2, 3])
        s = Script(n, seed, k, scheme)
        q = quorum(n)
        ids = list(range(1, n + 1))
        s.blk("b0", "g", 1, 1)
        prev = "b0"
        for d in range(1, rng.randrange(8, 30)):
            size = rng.choice([q, q, n, rng.randrange(q, n + 1)])
            l = rng.sample(ids, size)
            if scheme == "bls12":
                l.sort()
            s.blk(f"b{d}", prev, d + 1, d % n + 1, prev, l)
            prev = f"b{d}"
            if rng.random() < 0.8:
                s.commit(prev)
                for _ in range(rng.randrange(1, 4)):
                    s.query("reputation", d + 1 + k + rng.choice([0, 0, 0, 1, 2, 7]))
                if rng.random() < 0.3:
                    s.query("reputation", rng.randrange(0, d + 2))     # old view
                if rng.random() < 0.3:
                    s.query("carousel", d + 1 + k)
        return s.lines

    def _base_scripts(self, tier, rng):
        quick = tier == "quick"
        for seed, k in ((0, 3), (12345, 2), (-7, 3)):
            yield (f"exhaustive-n4-seed{seed}-k{k}", self._exhaustive_n4(seed, k))
        yield ("exhaustive-n7", self._exhaustive_n7(rng.randrange(-I64, I64), 3, rng, sample=0.12 if quick else None))
        for i in range(250 if quick else 5000):
            yield (f"random-{i}", self._random(rng))
        for i in range(25 if quick else 400):
            yield (f"random-big-{i}", self._random(rng, big=True))
        for i in range(60 if quick else 1200):
            yield (f"random-malformed-{i}", self._random(rng, malformed=True))
        for i in range(60 if quick else 1200):
            yield (f"random-rep-{i}", self._random(rng, rep_heavy=True))
        for i in range(20 if quick else 300):
            n = rng.choice([4, 4, 7, 10, 13, 16, 5, 6, 3, 2, 1])
            yield (f"reputation-long-{i}-n{n}", self._reputation_long(rng, n, rng.choice(["ecdsa", "ecdsa", "eddsa", "bls12"])))
        for i in range(4 if quick else 40):
            n = rng.choice([17, 22, 31, 40, 64])
            yield (f"reputation-long-big-{i}-n{n}", self._reputation_long(rng, n))

    # ---------------------------------------------------------------- harvest of the library oracles
    def _harvest(self, named):
        scripts = [l for _, l in named]
        outs, err = core.run_driver(driver_path(), self.name, scripts, self.timeout)
        done = []
        for (nm, lines), out in zip(named, outs):
            if out is None:
                o1, _ = core.run_driver(driver_path(), self.name, [lines], 120)
                out = o1[0]
            done.append((nm, complete(lines, out) if out is not None else lines))
        return done

    def generate(self, tier, rng):
        return self._harvest(list(self._base_scripts(tier, rng)))

    # ---------------------------------------------------------------- evidence
    def nontrivial_keys(self, lines, impl_out):
        """a distinct non-trivial case = a leader query answered with a leader, keyed by its context"""
        keys = []
        ctx = ""
        head = ""
        for l, o in zip(lines, impl_out):
            if l.startswith("cfg"):
                ctx = l
            elif l.startswith("commit"):
                head = l
            elif l.startswith("blk"):
                ctx = core.script_hash([ctx, l])
            elif l.startswith("leader") and o.startswith("leaders="):
                keys.append(core.script_hash([ctx, head, l]))
        return keys

    def tags(self, lines, impl_out):
        t = super().tags(lines, impl_out)
        n = k = None
        head = None
        blocks = {}
        for l, o in zip(lines, impl_out):
            p = l.split()
            if p[0] == "cfg":
                kvs = dict(x.split("=", 1) for x in p[1:])
                n, k = int(kvs["n"]), int(kvs["k"])
                t["scheme:" + kvs["scheme"]] = t.get("scheme:" + kvs["scheme"], 0) + 1
                blocks = {"g": (0, None)}
                head = "g"
            elif p[0] == "blk" and o == "ok":
                kvs = dict(x.split("=", 1) for x in p[2:])
                sg = None
                if "signers" in kvs:
                    sg = [int(x) for x in kvs["signers"].strip("[]").split(",") if x]
                blocks[p[1]] = (int(kvs["view"]), sg)
            elif p[0] == "commit" and o == "ok":
                head = p[1]
            elif p[0] == "verify":
                t["verify:" + o] = t.get("verify:" + o, 0) + 1
            elif p[0] == "leader" and n:
                hv, sg = blocks.get(head, (0, None))
                v = int(p[2])
                if p[1] == "carousel":
                    if sg is None:
                        mode = "startup"
                    elif hv != (v - k) % U64:
                        mode = "fallback"
                    elif len(set(sg)) >= quorum(n):
                        mode = "active"
                    else:
                        mode = "active-outside-hypothesis"
                    key = "carousel:" + mode + (":panic" if o == "panic" else "")
                else:
                    if hv > (v - k) % U64:
                        mode = "old"
                    elif sg is None:
                        mode = "startup"
                    else:
                        mode = ("pick>12" if len(sg) > 12 else "pick") + (":zero" if o.startswith("leaders=[0") else "")
                    key = "reputation:" + mode
                t[key] = t.get(key, 0) + 1
        return t
