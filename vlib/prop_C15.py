from .runner import Property
from .common import COMMON_TRUST
from .fam_cmdcache import CmdCacheFam

CC = "internal/proto/clientpb/cmdcache.go:CommandCache."

PROP = Property(
    "C15", ["HsVerif.Props.C15"], [CmdCacheFam()],
    facts=[
        # lock discipline and order of checks the model assumes (Model/CmdCache.lean)
        {"func": CC + "Add", "order": ["Lock", "defer Unlock", "isDuplicate", "append", "hasFullBatch", "signalReady"]},
        {"func": CC + "Proposed", "order": ["Lock", "defer Unlock", "GetCommands", "isDuplicate"]},
        {"func": CC + "Get", "order": ["Done", "Err", "Lock", "hasFullBatch", "Unlock", "tryExtractBatch", "hasFullBatch",
                                        "signalReady", "Unlock", "Unlock"]},
        {"func": CC + "tryExtractBatch", "order": ["isFull", "len", "isDuplicate", "append", "isFull"],
         "absent": ["Lock", "signalReady"]},
        {"func": CC + "hasFullBatch", "contains": ["len"], "absent": ["isDuplicate", "Lock"]},
        {"func": CC + "isDuplicate", "order": ["GetClientID", "GetSequenceNumber"], "absent": ["Lock"]},
        {"func": "internal/proto/clientpb/batch.go:Batch.isFull", "contains": ["len"]},
        # the callers the property is about: the leader marks, then asks; the client server only adds
        {"func": "protocol/consensus/proposer.go:Proposer.CreateProposal", "order": ["TimeoutContext", "markProposed", "Get"]},
        {"func": "protocol/consensus/proposer.go:Proposer.markProposed", "contains": ["Proposed"]},
        {"func": "server/clientio.go:ClientIO.ExecCommand", "contains": ["Add"]},
    ],
    trusted=COMMON_TRUST + [
        "sync.Mutex, buffered channel of capacity 1 and `select` behave as the Go specification says (select with several ready cases takes any; the model has both choices)",
        "quiescence of the real Get goroutines is read from the Go runtime's goroutine states (runtime.Stack: parked in `select` inside CommandCache.Get)",
    ],
    assumptions=[
        "batch size >= 1 for the wake-up theorems and the oracle (batch size 0 hands out empty batches for ever once something was added; the model predicts it, the property does not cover it)",
        "sequence numbers start at 1: a command numbered 0 equals the zero value of the per-client mark and is never accepted (the repo's client starts at 1)",
        "each Add call is one accepted command (the harness numbers the calls in the payload); the same (client, sequence number) added twice before it is marked is handed out twice",
        "uint32/uint64 wrap-around and a cache of 2^32 or more entries are outside the model",
    ],
    partial="liveness is shown as an invariant plus enabledness (no lost wake-up under every interleaving of the atomic steps); that an enabled goroutine eventually runs (scheduler fairness, select fairness, channel implementation) is trusted. Interleavings inside Get between the receive and the lock are covered by the Lean model's scheduler only; the Go side is exercised at quiescent points and by the concurrent stress op (thorough: also under -race), which supports but does not prove atomicity.",
)

META = {
    "text": "Proof: Model/CmdCache.lean mirrors cmdcache.go as written (Add, Proposed, hasFullBatch counting stale entries, the tryExtractBatch loop with its examined-prefix cut, signalReady as a capacity-1 token, Get split at its atomic boundaries select / locked body). Lean theorems, for every operation list, every batch size and any number of clients (Props/C15.lean, 13 theorems, no sorry, axioms propext/Classical.choice/Quot.sound only): get_spec — after any operations a Get returns exactly the bs oldest pending commands (pending = added, above every mark of its client, not yet handed out; computed from the call history alone) iff there are at least bs of them, and otherwise blocks / ends with the context error; batch_is_oldest_pending (same for every returning operation, any token state, any batch size); batches_full; handed_in_arrival_order_once (all hand-outs together form a subsequence of the Add calls, so FIFO across batches and at most once); never_stale; fresh_not_lost and cache_fresh_eq_pending; seq_refines_ideal (answers equal those of an ideal queue, Spec/BatchQueue.lean). Concurrent model (getters as program counters, adversarial scheduler over add/proposed/spawn/cancel/recv/ctxDone/body): no_lost_wakeup (>= bs fresh commands cached => token in the channel or a getter between receive and locked body), blocked_getter_enabled (then a blocked getter can receive now or a woken getter's body returns a full batch), get_ends_only_by_batch_or_cancel + returned_calls, concurrent_is_atomic_run (every reachable cache content and every returned batch arise from a run of the atomic ops, so the run theorems hold under every interleaving). Correspondence on every run: real clientpb.CommandCache vs model on identical scripts with pending Gets kept across operations (answers: batches that came out, cached length, token, number of blocked getters; dump of cache and marks): 12 hand-written interleaving scripts, every word of 4 ops over 8 symbols for batch sizes 1-3 and of 5 ops over 7 symbols for batch size 2 (thorough: 4 over the full 15-symbol alphabet of 2 clients x 3 sequence numbers, 5 over 8, 6 over 6, 7 over 5), 2500 (15000) seeded random scripts with up to 4 clients and batch sizes 1-5 incl. malformed lines, concurrent producer/consumer stress lines; an ideal-queue oracle decides the property on the implementation's answers.",
    "note": "Trusted: Lean kernel, the correspondence harness, gofacts lock-discipline/order facts, Go's mutex/channel/select semantics, scheduler fairness. What rests on the correspondence only: that the Go code equals the model (no translation for this file). Partial: eventual progress needs fairness; interleavings between a getter's receive and its lock are quantified over in Lean but cannot be forced on the Go side (quiescent-point runs + stress, thorough also under -race, are support). Observation (not a violation of the statement as read per Add call): the same (client, seq) added twice before marking is handed out twice; stale entries stay cached until the next successful extraction.",
    "technique": "Lean 4 theorems over an executable model (history invariant, refinement to an ideal queue, concurrent invariant over program counters) + differential correspondence with pending goroutines and runtime-state quiescence detection + ideal-queue oracle + -race stress as support",
}
