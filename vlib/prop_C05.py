from .runner import Property
from .fam_clusterlive import ClusterLiveFam
from .prop_C03 import REPLICA_TRUST

PROP = Property(
    "C05", ["HsVerif.Props.C05"], [ClusterLiveFam()],
    facts=[
        {"func": "protocol/synchronizer/synchronizer.go:Synchronizer.advanceView", "order": ["VerifySyncInfo", "UpdateHighTC", "UpdateHighQC", "View", "NextView", "AddEvent", "GetLeader"]},
        # timers are outside the model: their placement is pinned syntactically. The timer is re-armed FIRST in
        # OnLocalTimeout (so every path, including the re-send of a stored timeout, times out again) ...
        {"func": "protocol/synchronizer/synchronizer.go:Synchronizer.OnLocalTimeout", "order": ["startTimeoutTimer", "View", "Timeout", "ViewTimeout", "LocalTimeoutRule", "SyncInfo", "StopVoting", "Timeout", "OnRemoteTimeout"]},
        # ... stopped and re-armed around the view change ...
        {"func": "protocol/synchronizer/synchronizer.go:Synchronizer.advanceView", "order": ["stopTimeoutTimer", "NextView", "ViewStarted", "startTimeoutTimer", "AddEvent"]},
        # ... armed for the current view's duration and delivering a TimeoutEvent for that view
        {"func": "protocol/synchronizer/synchronizer.go:Synchronizer.startTimeoutTimer", "order": ["View", "Duration", "AfterFunc", "AddEvent"]},
        {"func": "protocol/synchronizer/synchronizer.go:Synchronizer.Start", "order": ["startTimeoutTimer", "GetLeader", "CreateProposal", "Propose"]},
        {"func": "protocol/viewstates.go:ViewStates.SyncInfo", "contains": ["SetQC", "SetTC"]},
    ],
    trusted=REPLICA_TRUST + [
        "timing is scripted: 'a quorum exchanges all its messages before its timers fire' is realised by the script generator (pump every link among the members until idle, fire local timeouts only then); the oracle trusts the phase markers; real timers, goroutine scheduling and gRPC delays are not exercised",
        "leaders of the synchronous suffix are members: fixed member leader when a replica is faulty or crashed, round-robin when all replicas are live (carousel / reputation rotation are not wired into the cluster harness; C16 covers them in isolation)",
    ],
    assumptions=["client commands are always available (each replica's command cache is pre-loaded)"],
    partial="no Lean theorem states end-to-end liveness; proved are the synchronizer's progress step, certificate formation from a timeout quorum, and the vote rules' liveness branches; the end-to-end claim is checked on real replica clusters for generated prefixes/suffixes only. Fast-HotStuff fails the property as coded (known finding)",
)

META = {
    "text": "Proof (component lemmas, every state and input): view_moves_on_accepted_certificate (a sync info the verifier accepts with certified view >= current view always moves the replica to view+1 — Hoare-logic proof over the replica model's advanceView), timeout_quorum_completes (the message completing a quorum of timeouts of one view makes the collector release exactly that view's messages; with C08's tc_verifies the resulting certificate verifies everywhere), chained_votes_above_lock / simple_votes_at_or_above_lock / fast_votes_next_view (the vote rules accept a well-formed proposal built on a certified block above the lock once the blocks are known), aggregate_rule_plain_qc (the aggregate timeout rule accepts a verifying plain QC as high-QC candidate with certified view 0: it refreshes the high QC — since fix 4f3d40f — but cannot move the view, which is the remaining known finding). End-to-end, on real replica clusters vs the model cluster, line by line: adversarial prefix (partitions, loss, Byzantine proposals/votes/timeouts, up to f crashed) followed by a synchronous suffix among a quorum of live honest replicas led by members; the oracle demands that every member commits a new block within 3 x chain-length views of the suffix start; fault-free synchronous runs must have no timeout view changes, every view's block certified, and the committed block trailing the highest certified block by exactly chain-length-1. Found and repaired with it: highTC was never remembered, so a replica that missed one timeout quorum stalled the whole system (corpus/clusterlive/01).",
    "note": "Partial (see 'partial'). KNOWN FINDING: under the aggregate timeout rule (Fast-HotStuff) a QC never ends a view (the existing TestAdvanceView pins that behaviour, so it is recorded, not repaired): synchronous replicas whose timers do not fire make no progress. Repaired on the way: the high QC was never refreshed either (4f3d40f, a safety defect, see C01) and VerifyAnyQC's verdict depended on map iteration order (7d9bd97).",
    "technique": "Lean 4 progress lemmas (Std.Do Hoare logic) + multi-replica differential correspondence with scripted synchrony + liveness oracle",
}
