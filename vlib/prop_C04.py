from .runner import Property
from .common import COMMON_TRUST
from .fam_rules import RulesFam

R = "protocol/rules/"
PROP = Property(
    "C04", ["HsVerif.Props.C04", "HsVerif.Props.C04Gen"], [RulesFam()],
    facts=[
        # shape of the rule code the model mirrors (order of look-ups, early exits, comparisons)
        {"func": R + "chainedhotstuff.go:ChainedHotStuff.CommitRule",
         "order": ["qcRef", "qcRef", "View", "View", "qcRef", "Parent", "Hash", "View", "View", "Parent", "Hash", "View", "View"],
         "absent": ["Store", "Extends", "LocalGet"]},
        {"func": R + "chainedhotstuff.go:ChainedHotStuff.VoteRule", "order": ["Get", "View", "View", "Extends"],
         "absent": ["qcRef", "Store"]},
        {"func": R + "chainedhotstuff.go:ChainedHotStuff.qcRef", "order": ["BlockHash", "Get"]},
        {"func": R + "fasthotstuff.go:FastHotStuff.CommitRule",
         "order": ["qcRef", "qcRef", "Parent", "Hash", "View", "View", "Parent", "Hash", "View", "View"],
         "absent": ["Store", "Extends", "LocalGet"]},
        {"func": R + "fasthotstuff.go:FastHotStuff.VoteRule", "order": ["Get", "Extends", "View", "View", "View"],
         "absent": ["qcRef", "Store"]},
        {"func": R + "fasthotstuff.go:FastHotStuff.qcRef", "order": ["BlockHash", "Get"]},
        {"func": R + "simplehotstuff.go:SimpleHotStuff.CommitRule",
         "order": ["Get", "Get", "View", "View", "Get", "View", "View", "View", "View"],
         "absent": ["Store", "Extends", "Parent", "qcRef"]},
        {"func": R + "simplehotstuff.go:SimpleHotStuff.VoteRule", "order": ["View", "Get", "View", "View"],
         "absent": ["Store", "Extends"]},
        {"func": R + "chainedhotstuff.go:NewChainedHotStuff", "contains": ["GetGenesis"]},
        {"func": R + "simplehotstuff.go:NewSimpleHotStuff", "contains": ["GetGenesis"]},
        {"func": R + "factory.go:New", "order": ["NewChainedHotStuff", "NewFastHotStuff", "NewSimpleHotStuff"]},
        {"func": "security/blockchain/blockchain.go:Blockchain.Extends", "order": ["View", "View", "Get", "Parent", "Hash", "Hash"],
         "absent": ["LocalGet", "Store"]},
        {"func": "security/blockchain/blockchain.go:Blockchain.Get", "order": ["Lock", "RequestBlock", "Lock", "Unlock"]},
        {"func": "security/blockchain/blockchain.go:Blockchain.Store", "order": ["Lock", "defer Unlock", "Hash", "Hash"]},
    ],
    trusted=COMMON_TRUST + [
        "SHA-256 collision/preimage resistance: hashes are modelled as names in creation order, no block has the all-zero hash",
        "harness sender never answers RequestBlock, so Blockchain.Get is a local lookup (fetch answers: C13)",
    ],
    assumptions=[
        "uint64 wrap-around of View()+1 / View()+2 is outside the model (views < 2^32 in scripts)",
        "rules are called from the single-threaded event loop (no concurrent CommitRule/VoteRule calls)",
        "simplified HotStuff follows Jehl's model where the parent of a block is the block its certificate certifies; the rule never reads Parent(); parent = certified block is the voter's check (C03)",
        "the model is of the code with fixes/C04-simple-consecutive.diff applied",
    ],
    partial="vote rules that consult Blockchain.Extends (chained HotStuff; Fast-HotStuff with an aggregated QC) are proved sound for every forest (a vote implies the published condition) and exact only on forests whose parent links increase the view; on a branch with a view inversion Extends misses the ancestor and the rule refuses a vote the published rule allows (known finding extends-view-inversion, counterexample theorems)",
)

META = {
    "text": "Proof: Model/Rules.lean mirrors VoteRule/CommitRule of the three rulesets and Blockchain.Extends/Get as coded (qcRef zero-hash guard, order of look-ups, early exits, lock update before the third look-up); Spec/Rules.lean states the published rules from the papers (HotStuff PODC'19 Alg. 4/5, Fast-HotStuff, Jehl's simplified HotStuff) independently, relationally (ThreeChain / TwoChain / SimpleChain, safeNode with branch membership) and executably. Theorems, for every store (any forest, any views, certificate pointers equal to or different from parents, missing blocks; nothing stored under the zero hash), every lock block and every proposal: commit decision = published decide step and new lock = published lock step for all three rulesets (chained_/fast_/simple_commit_eq_spec, *_commit_iff, *_lock_eq_spec); vote decision = published condition for simplified HotStuff and Fast-HotStuff's plain rule (simple_vote_eq_spec, fast_vote_plain_eq_spec); commit_is_chain_tail: whatever any commit rule returns is the tail of a chain of blocks each certified by the next one's certificate, in consecutive views, directly linked; presentation_conforms_partial: for every list of store/vote/commit operations on any blocks in any order, the model's stores, locks, commit answers are those of the specification's replica and every positive vote is allowed by the published condition. PARTIAL: for the two vote paths that call Blockchain.Extends (chained HotStuff, Fast-HotStuff with aggregated QC) soundness (vote => published condition) holds for every forest, equality only when parent links increase the view (chained_vote_eq_spec_partial, fast_vote_agg_eq_spec_partial); *_counterexample theorems exhibit the 3-block forest where the code refuses although the block extends the lock; reproduced on the real code and recorded as known finding extends-view-inversion (conservative direction: never an unsafe vote). Defect 13 (simplified HotStuff committed through certificate views 1<-5<-3) is shown on the unpatched code by the check (VIOLATION commit-not-chain-tail) and repaired by fixes/C04-simple-consecutive.diff; simple_unrepaired_counterexample keeps the witness. Correspondence: real rules.New rulesets over a real blockchain.Blockchain with a silent sender vs the model and vs the Spec oracle: all 3-block forests (parents in genesis/earlier, certificate pointers incl. the zero hash, views 1..4) x presentation orders x one missing block, all 4-block certificate chains with all parents and views 1..5, Fast-HotStuff's plain rule on all (view, qc view, current view) in 0..5, seeded random forests of 6..30 blocks with forks, gaps, equal views, inversions, stale certificate views, missing and late blocks.",
    "note": "Trusted: Lean kernel, propext/Quot.sound/Classical.choice, gofacts, correspondence harness, SHA-256 as injective naming. Not covered here: fetch answers inside Blockchain.Get (C13), signature checks of certificates (C02), the voter's own checks around VoteRule (C03), uint64 wrap-around.",
    "technique": "Lean 4 theorems (model = independent spec for all stores/locks/proposals; chain-tail; presentation-order induction) + syntactic facts on the rule code + Go->Lean translation of qcRef/CommitRule/VoteRule of the three rulesets with bridging theorems (Props/C04Gen) + differential correspondence with Spec oracle (small-scope exhaustive + random)",
}
