"""bytes family (C12, C02, C13): the byte forms that are hashed and signed, computed by the real
ToBytes methods and by Model/Bytes.lean for objects given field by field; the oracle requires that
different objects have different bytes (a block: a different hash).

Besides random objects the generator writes, for every place where two variable-length fields meet,
the PAIRS of objects whose bytes coincide when the boundary is not written (what the code did before
2c93c32, 9a59775 and 6e1f39b): it keeps its own copy of the old and new layouts only to aim — the
verdict comes from the model and the oracle."""
import struct
from .runner import Family


def u32(x):
    return struct.pack("<I", x & 0xffffffff)


def u64(x):
    return struct.pack("<Q", x & 0xffffffffffffffff)


def hx(b):
    return b.hex() or "-"


def parts_txt(ps):
    return ",".join(f"{i}:{b.hex()}" for i, b in ps) if ps else "-"


def sig_txt(s, letter="m"):
    if s is None:
        return "nil"
    if s[0] == "multi":
        return f"{letter}=" + parts_txt(s[1])
    return "a=" + (",".join(map(str, s[1])) or "-") + "/" + (s[2].hex())


def multi_bytes(ps):
    return b"".join(u32(i) + u32(len(b)) + b for i, b in ps)


def sig_bytes(s):
    return multi_bytes(s[1]) if s[0] == "multi" else s[2]


def sig_ids(s):
    return [i for i, _ in s[1]] if s[0] == "multi" else list(s[1])


def qc_bytes(view, h, s):
    out = u64(view) + h
    if s is not None:
        ids = sig_ids(s)
        out += u32(len(ids)) + b"".join(u32(i) for i in ids) + sig_bytes(s)
    return out


def varint(n):
    out = bytearray()
    while n >= 128:
        out.append(n % 128 + 128)
        n //= 128
    out.append(n)
    return bytes(out)


def cmd_bytes(c):
    cl, sq, d = c
    return ((b"\x08" + varint(cl)) if cl else b"") + ((b"\x10" + varint(sq)) if sq else b"") + ((b"\x1a" + varint(len(d)) + d) if d else b"")


def batch_bytes(cs):
    return b"".join(b"\x0a" + varint(len(cmd_bytes(c))) + cmd_bytes(c) for c in cs)


def cmds_txt(cs):
    return ";".join(f"{cl}.{sq}.{d.hex()}" for cl, sq, d in cs) if cs else "-"


class BytesFam(Family):
    name = "bytes"
    oracle = "bytes.oracle"

    def __init__(self, tag="c12"):
        self.tag = tag

    # ---- random objects -------------------------------------------------------------------
    def rbytes(self, rng, lo, hi):
        n = rng.randrange(lo, hi + 1)
        if rng.random() < 0.3:
            return bytes(rng.choice([0, 1, 0x0a, 0x1a, 0xff, 0x08, 0x10]) for _ in range(n))
        return bytes(rng.randrange(256) for _ in range(n))

    def rid(self, rng):
        return rng.choice([0, 1, 2, 3, 4, 5, 7, 255, 256, 65536, 2 ** 32 - 1]) if rng.random() < 0.85 else rng.randrange(2 ** 32)

    def rview(self, rng):
        r = rng.random()
        if r < 0.6:
            return rng.randrange(0, 50)
        if r < 0.8:
            return rng.choice([255, 256, 2 ** 31, 2 ** 32 - 1, 2 ** 32, 2 ** 63, 2 ** 64 - 1, 0x0a, 0x1a0a, 0x141a160a])
        return rng.randrange(2 ** 64)

    def rhash(self, rng):
        return self.rbytes(rng, 32, 32)

    def rsig(self, rng, nil_ok=True):
        r = rng.random()
        if nil_ok and r < 0.15:
            return None
        if r < 0.7:
            k = rng.choice([0, 1, 1, 2, 3, 3, 4, 5])
            return ("multi", [(self.rid(rng), self.rbytes(rng, 0, rng.choice([2, 8, 64, 72]))) for _ in range(k)])
        k = rng.choice([0, 1, 2, 3, 4])
        return ("agg", [self.rid(rng) for _ in range(k)], self.rbytes(rng, 0, rng.choice([4, 48, 96])))

    def rcmds(self, rng):
        k = rng.choice([0, 0, 1, 1, 2, 3, 5])
        return [(rng.choice([0, 1, 2, 300, 2 ** 32 - 1]), rng.choice([0, 1, 127, 128, 16384, 2 ** 64 - 1]), self.rbytes(rng, 0, rng.choice([0, 1, 5, 130, 300])))
                for _ in range(k)]

    def qc_line(self, view, h, s, letter):
        return f"qc {view} {h.hex()} {sig_txt(s, letter)}"

    def block_line(self, parent, prop, view, ts, cs, qv, qh, qs, letter):
        return f"block {parent.hex()} {prop} {view} {ts} {cmds_txt(cs)} {qv} {qh.hex()} {sig_txt(qs, letter)}"

    def random_script(self, rng, n, letter):
        lines = []
        for _ in range(n):
            r = rng.random()
            if r < 0.2:
                s = self.rsig(rng, nil_ok=False)
                while s[0] != "multi":
                    s = self.rsig(rng, nil_ok=False)
                lines.append("multi " + parts_txt(s[1]))
            elif r < 0.45:
                lines.append(self.qc_line(self.rview(rng), self.rhash(rng), self.rsig(rng), letter))
            elif r < 0.55:
                lines.append(f"pc {self.rhash(rng).hex()} {sig_txt(self.rsig(rng, nil_ok=False), letter)}")
            elif r < 0.7:
                q = "-" if rng.random() < 0.3 else f"{self.rview(rng)}/{self.rhash(rng).hex()}/{sig_txt(self.rsig(rng), letter)}"
                lines.append(f"tmo {self.rid(rng)} {self.rview(rng)} {q}")
            else:
                lines.append(self.block_line(self.rhash(rng), self.rid(rng), self.rview(rng), rng.randrange(2 ** 63) if rng.random() < 0.5 else rng.choice([0, 1, 1700000000 * 10 ** 9, 2 ** 63 - 1]),
                                             self.rcmds(rng), self.rview(rng), self.rhash(rng), self.rsig(rng), letter))
        return lines

    # ---- aimed pairs ----------------------------------------------------------------------
    def multi_pairs(self, rng, letter):
        """multi-signatures (and the certificates around them) that read the same when parts are
        concatenated bare: cut elsewhere, attributed to other signers, an empty part moved"""
        out = []
        for _ in range(12):
            a, b = self.rbytes(rng, 1, 8), self.rbytes(rng, 2, 8)
            i, j, k = rng.sample([1, 2, 3, 4, 5], 3)
            cut = rng.randrange(1, len(b))
            variants = [[(i, a), (j, b)], [(i, a + b[:cut]), (j, b[cut:])], [(i, a), (k, b)], [(j, a), (i, b)],
                        [(i, a + b)], [(i, a), (j, b), (k, b"")], [(i, b""), (j, a + b)]]
            h, v = self.rhash(rng), self.rview(rng)
            for ps in variants:
                out.append("multi " + parts_txt(ps))
                out.append(self.qc_line(v, h, ("multi", ps), letter))
                out.append(f"pc {h.hex()} {sig_txt(('multi', ps), letter)}")
                out.append(f"tmo 1 {v} {v}/{h.hex()}/{sig_txt(('multi', ps), letter)}")
        return out

    def agg_pairs(self, rng, letter):
        """an aggregate attributed to different participant sets; no signature vs a signature without
        participants or bytes; participant ids that read like signature bytes"""
        out = []
        for _ in range(8):
            h, v, b = self.rhash(rng), self.rview(rng), self.rbytes(rng, 4, 96)
            sets = [[1, 2, 3], [1, 2, 4], [2, 1, 3], [1, 2], [1, 2, 3, 4], []]
            for ids in sets:
                out.append(self.qc_line(v, h, ("agg", ids, b), letter))
                out.append(f"tmo 2 {v} {v}/{h.hex()}/{sig_txt(('agg', ids, b), letter)}")
            out.append(self.qc_line(v, h, None, letter))
            out.append(self.qc_line(v, h, ("agg", [], b""), letter))
            out.append(self.qc_line(v, h, ("multi", []), letter))
            out.append(self.qc_line(v, h, ("agg", [1], u32(2) + b), letter))
            out.append(self.qc_line(v, h, ("agg", [1, 2], b), letter))
        return out

    def block_pairs(self, rng, letter):
        """two blocks whose bytes coincide when the batch is not delimited: block 1 has commands `cs`
        and a certificate whose bytes START like one more protobuf command; block 2 has that command in
        its batch and reads its certificate (no signature) from the last 40 bytes"""
        out = []
        for _ in range(10):
            q = rng.choice([1, 1, 2, 3])
            kind = rng.choice(["multi", "agg"])
            if kind == "multi":
                s = ("multi", [(i + 1, self.rbytes(rng, 4, 24)) for i in range(q)])
            else:
                s = ("agg", list(range(1, q + 1)), self.rbytes(rng, 8, 96))
            h1 = self.rhash(rng)
            clen = len(qc_bytes(0, h1, s))
            plen = clen - 40
            # P = 0a <L> 1a <M> <data>; the first 8 bytes of P are the view of certificate 1
            for lbytes in (1, 2):
                # total = 1 + lbytes + 1 + mbytes + M, payload L = 1 + mbytes + M
                done = False
                for mbytes in (1, 2):
                    M = plen - (1 + lbytes + 1 + mbytes)
                    L = 1 + mbytes + M
                    if M < 1 or len(varint(M)) != mbytes or len(varint(L)) != lbytes or 2 + lbytes + mbytes > 8:
                        continue
                    head = b"\x0a" + varint(L) + b"\x1a" + varint(M)
                    view1 = int.from_bytes(head + b"\x00" * (8 - len(head)), "little")
                    c1 = qc_bytes(view1, h1, s)
                    P, rest = c1[:plen], c1[plen:]
                    data = P[len(head):]
                    assert len(data) == M and len(rest) == 40
                    cs = self.rcmds(rng)[:2]
                    parent, prop, view, ts = self.rhash(rng), rng.randrange(1, 8), rng.randrange(1, 2 ** 40), rng.randrange(2 ** 62)
                    out.append(self.block_line(parent, prop, view, ts, cs, view1, h1, s, letter))
                    out.append(self.block_line(parent, prop, view, ts, cs + [(0, 0, data)], int.from_bytes(rest[:8], "little"), rest[8:], None, letter))
                    done = True
                    break
                if done:
                    break
        # the same boundary from the other side — what coincides when the length is written only for a
        # NON-EMPTY batch: block A without commands whose certificate C begins like "length, batch" (its view
        # is the batch length, its hash the first 32 bytes of the batch, its one-part multi-signature the rest),
        # and block B with that batch and an unsigned certificate
        for _ in range(6):
            D = 72
            data = bytearray(self.rbytes(rng, D, D))
            cs = [(0, 0, bytes(data))]
            T = len(batch_bytes(cs))                # 76: 0a 4a 1a 48 data
            off = T - D                             # data starts here
            hq, vq = self.rhash(rng), rng.randrange(0, 50)
            c2 = qc_bytes(vq, hq, None)             # 40 bytes
            # bytes 32.. of (batch ++ c2) must read: count=1, id=1, then the part (id=1, length, signature)
            data[32 - off:48 - off] = u32(1) + u32(1) + u32(1) + u32(T + len(c2) - 32 - 16)
            cs = [(0, 0, bytes(data))]
            bb = batch_bytes(cs) + c2
            sigpart = bb[48:]
            parent, prop, view, ts = self.rhash(rng), rng.randrange(1, 8), rng.randrange(100, 2 ** 40), rng.randrange(2 ** 62)
            out.append(self.block_line(parent, prop, view, ts, [], T, bb[:32], ("multi", [(1, sigpart)]), letter))
            out.append(self.block_line(parent, prop, view, ts, cs, vq, hq, None, letter))
        return out

    def generate(self, tier, rng):
        quick = tier == "quick"
        for letter in ("m", "e"):
            yield (f"pairs-multi-{letter}", self.multi_pairs(rng, letter))
            yield (f"pairs-agg-{letter}", self.agg_pairs(rng, letter))
            yield (f"pairs-block-{letter}", self.block_pairs(rng, letter))
        for k in range(40 if quick else 600):
            yield (f"random-{k}", self.random_script(rng, rng.randrange(10, 60), rng.choice("me")))
        for k in range(10 if quick else 100):
            yield (f"pairs-{k}", self.multi_pairs(rng, "m") + self.agg_pairs(rng, "m") + self.block_pairs(rng, "e"))

    def nontrivial(self, lines, impl_out):
        return any(o != "bad-op" for o in impl_out)
