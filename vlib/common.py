COMMON_TRUST = [
    "tie model<->code: differential correspondence hsdriver (real Go, built from /repo working tree with -overlay) vs hsmodel (Lean model compiled) on identical scripts",
    "tools/gofacts translator + fact extractor (go/ast)",
    "Go toolchain, go build -overlay",
]
