from .runner import Property
from .fam_replica import ReplicaFam
from .prop_C03 import REPLICA_TRUST

PROP = Property(
    "C09", ["HsVerif.Props.C09"], [ReplicaFam("c09")],
    facts=[
        {"func": "protocol/votingmachine/votingmachine.go:VotingMachine.CollectVote", "order": ["Signature", "Len", "LocalGet", "DelayUntil", "Get", "HighQC", "verifyCert"]},
        {"func": "protocol/votingmachine/votingmachine.go:VotingMachine.verifyCert", "order": ["VerifyPartialCert", "Lock", "defer Unlock", "Signer", "QuorumSize", "CreateQuorumCert", "AddEvent"]},
        {"func": "protocol/comm/clique.go:Clique.Aggregate", "contains": ["GetLeader", "CollectVote", "Vote"]},
        {"func": "protocol/comm/kauri.go:Kauri.mergeContribution", "order": ["Get", "Verify", "CanMergeContributions", "Combine", "QuorumSize"]},
    ],
    trusted=REPLICA_TRUST + ["verifyCert is atomic (vm.mut; lock discipline re-checked as a syntactic fact), so asynchronous verification is an interleaving of the atomic bodies modelled"],
    assumptions=["n >= 2 (Combine needs two signatures)", "vote signature values are well formed (bit-field size consistent: true of decoded and created signatures, C19)"],
    partial="the Kauri aggregation tree (protocol/comm/kauri.go) is not modelled in Lean and not driven by the harness yet; goroutine scheduling below the mutex and the Kauri wait timer are runtime behaviour outside any model here. That the emitted certificate verifies follows from C02 create_verify_QC for honest votes; for arbitrary valid votes it rests on combine_single_verifies plus the correspondence",
)

META = {
    "text": "Proof (all-to-one collector): over the model of VotingMachine.CollectVote + verifyCert: vote_store_invariant (per block the stored votes come from pairwise different signers, each a single-signer signature accepted by VerifyPartialCert, and fewer than a quorum are ever waiting), qc_only_from_quorum (processing a vote queues at most one event, a NewView whose QC is assembled from >= quorum such votes for that block — invalid, duplicate, multi-signer, wrong-block, non-member votes are never part of it), hostile_votes_cannot_block (with the invariant, Combine cannot fail when a fresh valid vote completes the quorum: combine_shapes_ok, all three schemes) — so the certificate forms exactly at the step that completes the quorum. Deferred votes (block unknown: DelayUntil ProposeMsg, then fetch) and the 'block too old' test are part of the model. Tie: the real replica as collector (fixed and round-robin leaders; sync verification), votes arriving before and after the block, duplicates, forged, multi-signer, stale, unknown-block, BLS point-at-infinity votes, n in {4,5,7}, three schemes. Partial: Kauri tree aggregation and the goroutine interleavings of asynchronous verification are not covered by a Lean theorem.",
    "note": "Trusted: as C03. The wedge by a multi-signer vote and the BLS empty-participant vote were genuine defects, fixed.",
    "technique": "Lean 4 invariant + emission theorems over the vote-collector model (mvcgen) + differential correspondence with the real voting machine inside a replica",
}
