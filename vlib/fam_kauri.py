"""Scripts for the `kauri` family (C09, tree aggregation): ONE node of the Kauri aggregation tree.

Vocabulary (both drivers; see harness/driver/fam_kauri.go):
  cfg <ecdsa|eddsa|bls12> <n> cache=<k>           (then the cert-family ops that build signatures:)
  block <name> parent=.. view=.. proposer=.. qc=.. [store=none] | create-pc <r> <block> <name>
  sign <r> <msg> <name> | multi <name> <claimed>:<src>.. | bls <name> pt=.. bits=.. | combine <r> <out> <sig>..
  node <id> bf=<b> [pos=<ids>]       the node under test and its view of the tree
  store <block>                      the node's block store learns a block
  begin <block> <sig> [hash=..]      own vote for a block of a view (Disseminate/Aggregate)
  contribution <view> <id> <sig|nil> a kauripb.Contribution arrives
  timer <view>                       the wait timer of that view fires

Generators: (1) exhaustive small scope — every arrival order of the honest contributions of the
node's children (up to 6 children: 720 orders), and every sequence (without repetition) of up to L
events drawn from {honest contributions, 16 kinds of hostile contributions, timers}; (2) seeded random
long runs over random trees (random positions, several views, re-begin, late blocks).
"""
import itertools
from .runner import Family
from . import core


def quorum(n):
    f = (n - 1) // 3
    return (n + f + 2) // 2


class TreeView:
    def __init__(self, n, bf, pos=None):
        self.n, self.bf = n, bf
        self.pos = pos or list(range(1, n + 1))

    def children(self, x):
        i = self.pos.index(x)
        st = i * self.bf + 1
        return self.pos[st:st + self.bf] if st < len(self.pos) else []

    def subtree(self, x):
        sub = list(self.children(x))
        i = 0
        while i < len(sub):
            sub += self.children(sub[i])
            i += 1
        return sub


class Scenario:
    """one node, one block B1 (view 1); events are (setup lines, op line) pairs"""

    def __init__(self, scheme, n, bf, node, pos=None, cache=0):
        self.scheme, self.n, self.bf, self.node = scheme, n, bf, node
        self.t = TreeView(n, bf, pos)
        self.pos = pos
        self.setup = [
            f"cfg {scheme} {n} cache={cache}",
            "block B1 parent=G view=1 proposer=1 qc=genesis",
            "block B2 parent=B1 view=2 proposer=2 qc=genesis",
            "block BX parent=G view=1 proposer=2 qc=genesis",
        ]
        for i in range(1, n + 1):
            self.setup.append(f"create-pc {i} B1 p{i}")
        self.children = self.t.children(node)
        self.subtree = self.t.subtree(node)
        self.honest = []          # (child, signature name, signer list)
        for ch in self.children:
            signers = [ch] + self.t.subtree(ch)
            if len(signers) == 1:
                self.honest.append((ch, f"p{ch}", signers))
            else:
                self.setup.append(f"combine {ch} a{ch} " + " ".join(f"p{i}" for i in signers))
                self.honest.append((ch, f"a{ch}", signers))
        self.setup.append(f"node {node} bf={bf}" + (f" pos={','.join(map(str, pos))}" if pos else ""))

    def wire(self, name, pairs):
        """setup line of a wire-level signature with entries (claimed id, source signature)"""
        if self.scheme == "bls12":
            ids = sorted(set(c for c, _ in pairs if c != 0))
            return f"bls {name} pt={'+'.join(s for _, s in pairs)} bits={','.join(map(str, ids)) if ids else '-'}"
        return f"multi {name} " + " ".join(f"{c}:{s}" for c, s in pairs)

    def hostile(self):
        """hostile events: (tag, [setup lines], op line)"""
        n, node = self.n, self.node
        ch = self.children[0] if self.children else (node % n) + 1
        ch2 = self.children[1] if len(self.children) > 1 else (ch % n) + 1
        h0 = self.honest[0][1] if self.honest else f"p{ch}"
        out = [
            ("dup", [], f"contribution 1 {ch} {h0}"),
            ("resign", [f"create-pc {ch} B1 r{ch}"], f"contribution 1 {ch} r{ch}"),
            ("forged", [self.wire("fg", [(ch, "junk1")])], f"contribution 1 {ch} fg"),
            ("misattributed", [self.wire("ma", [(ch, f"p{ch2}")])], f"contribution 1 {ch} ma"),
            ("overlap-own", [f"combine {ch} oo p{ch} p{node}"], f"contribution 1 {ch} oo"),
            ("overlap-sibling", [f"combine {ch} os p{ch} p{ch2}"], f"contribution 1 {ch} os"),
            ("stale-view", [], f"contribution 0 {ch} {h0}"),
            ("future-view", [], f"contribution 2 {ch} {h0}"),
            ("other-block", [f"create-pc {ch} BX x{ch}"], f"contribution 1 {ch} x{ch}"),
            ("other-view-block", [f"create-pc {ch} B2 q{ch}"], f"contribution 1 {ch} q{ch}"),
            ("non-member", [self.wire("nm", [(n + 1, f"p{ch}")])], f"contribution 1 {n + 1} nm"),
            ("nil", [], f"contribution 1 {ch} nil"),
            ("half-forged", [self.wire("hf", [(ch, f"p{ch}"), (ch2, "junk2")])], f"contribution 1 {ch} hf"),
            # a single contribution that carries the votes of everybody else (a quorum by itself)
            ("quorum-in-one", [f"combine {ch} qo " + " ".join(f"p{i}" for i in range(1, n + 1) if i != node)],
             f"contribution 1 {ch} qo"),
        ]
        if self.scheme != "bls12":
            out.append(("twice-inside", [self.wire("tw", [(ch, f"p{ch}"), (ch, f"p{ch}")])], f"contribution 1 {ch} tw"))
        else:
            # point of one signer under a bit-field claiming two; two points under a bit-field claiming one
            out.append(("bits-exceed", [f"bls be pt=p{ch} bits={ch},{ch2}"], f"contribution 1 {ch} be"))
            out.append(("point-exceeds", [f"bls pe pt=p{ch}+p{ch2} bits={ch}"], f"contribution 1 {ch} pe"))
        return out

    def events(self):
        ev = [("hon%d" % ch, [], f"contribution 1 {ch} {nm}") for ch, nm, _ in self.honest]
        ev += self.hostile()
        ev += [("timer", [], "timer 1"), ("timer-again", [], "timer 1"), ("timer-stale", [], "timer 0")]
        return ev

    def script(self, seq, begin=True):
        L = list(self.setup)
        body = []
        for _, su, op in seq:
            for l in su:
                if l not in L:
                    # signature material is prepared before the node starts
                    L.insert(len(L) - 1, l)
            body.append(op)
        if begin:
            L.append(f"begin B1 p{self.node}")
        return L + body


class KauriFam(Family):
    name = "kauri"
    oracle = "kauri.oracle"
    header = 1
    timeout = 1500

    def __init__(self, focus="all"):
        self.focus = focus

    def generate(self, tier, rng):
        quick = tier == "quick"
        if self.focus == "roles":
            # C17's consequence clause at the level of the Kauri code: in EVERY position of EVERY tree shape
            # (also with an incomplete last level) the node that has children forwards the proposal to exactly
            # them and waits, the childless node hands its vote to its parent at once; then the honest
            # contributions and the timer
            for n in range(1, 14 if quick else 22):
                for bf in (2, 3, 4, 6):
                    for node in range(1, n + 1):
                        sc = Scenario("ecdsa", n, bf, node)
                        hon = [e for e in sc.events() if e[0].startswith("hon")]
                        yield (f"role-{n}-{bf}-{node}", sc.script(hon + [("timer", [], "timer 1")]))
            return
        # ---- (1a) every arrival order of the honest contributions
        orders = [("ecdsa", 4, 2, 1), ("ecdsa", 4, 3, 1), ("eddsa", 4, 2, 2), ("bls12", 4, 3, 1),
                  ("ecdsa", 7, 2, 1), ("ecdsa", 7, 2, 2), ("ecdsa", 7, 3, 1), ("eddsa", 7, 6, 1),
                  ("bls12", 7, 2, 3), ("bls12", 7, 3, 1), ("ecdsa", 7, 6, 1), ("ecdsa", 7, 3, 2)]
        if not quick:
            orders += [("bls12", 7, 6, 1), ("eddsa", 7, 3, 1), ("eddsa", 7, 2, 1), ("bls12", 4, 2, 1)]
        for scheme, n, bf, node in orders:
            sc = Scenario(scheme, n, bf, node)
            hon = [e for e in sc.events() if e[0].startswith("hon")]
            perms = list(itertools.permutations(hon))
            for k, p in enumerate(perms):
                if quick and len(perms) > 24 and scheme != "ecdsa" and k % 6:
                    continue
                yield (f"order-{scheme}-{n}-{bf}-{node}-" + "".join(e[0] for e in p), sc.script(p))
                # the same order with the timer fired after every prefix
                if len(perms) <= 24:
                    for cut in range(len(p) + 1):
                        q = list(p[:cut]) + [("timer", [], "timer 1")] + list(p[cut:])
                        yield (f"order-{scheme}-{n}-{bf}-{node}-t{cut}-" + "".join(e[0] for e in p), sc.script(q))
        # ---- (1b) every sequence without repetition of <= L events (honest, hostile, timers);
        # (scheme, n, bf, node, full depth quick, full depth thorough, sampled fraction of the next depth quick/thorough)
        small = [("ecdsa", 4, 2, 1, 2, 3, 0.10, 0.10), ("ecdsa", 4, 2, 2, 2, 3, 0.10, 0.10),
                 ("bls12", 4, 2, 1, 1, 2, 0.30, 0.08), ("eddsa", 4, 3, 1, 2, 3, 0.0, 0.0),
                 ("ecdsa", 7, 2, 2, 2, 3, 0.0, 0.0), ("ecdsa", 7, 3, 1, 2, 3, 0.0, 0.0),
                 ("bls12", 7, 2, 2, 1, 2, 0.30, 0.05), ("ecdsa", 4, 2, 3, 2, 3, 0.0, 0.0)]
        for scheme, n, bf, node, Lq, Lt, fq, ft in small:
            sc = Scenario(scheme, n, bf, node)
            ev = sc.events()
            L, frac = (Lq, fq) if quick else (Lt, ft)
            for k in range(1, L + 2):
                if k == L + 1 and frac == 0.0:
                    break
                for seq in itertools.permutations(ev, k):
                    if k == L + 1 and rng.random() > frac:
                        continue
                    yield (f"seq-{scheme}-{n}-{bf}-{node}-" + ".".join(e[0] for e in seq), sc.script(seq))
        # ---- (2) random long runs
        for k in range(300 if quick else 3000):
            yield (f"rand-{k}", self.random_script(rng))

    def random_script(self, rng):
        scheme = rng.choice(["ecdsa", "ecdsa", "eddsa", "bls12"])
        n = rng.choice([4, 7, 7])
        bf = rng.choice([2, 2, 3, 6])
        pos = None
        if rng.random() < 0.4:
            pos = list(range(1, n + 1))
            rng.shuffle(pos)
        node = rng.choice(pos or list(range(1, n + 1)))
        if rng.random() < 0.6:
            # prefer inner nodes
            t = TreeView(n, bf, pos)
            inner = [x for x in (pos or range(1, n + 1)) if t.children(x)]
            node = rng.choice(inner)
        sc = Scenario(scheme, n, bf, node, pos, cache=rng.choice([0, 0, 5, 100]))
        ev = sc.events()
        hon = [e for e in ev if e[0].startswith("hon")]
        hos = [e for e in ev if not e[0].startswith("hon") and not e[0].startswith("timer")]
        L = list(sc.setup)
        pre = []
        body = []

        def add(e):
            for l in e[1]:
                if l not in L and l not in pre:
                    pre.append(l)
            body.append(e[2])
        unknown = rng.random() < 0.15
        if unknown:
            # the block of the view is not in the node's store at first
            pre.append("block BU parent=G view=1 proposer=3 qc=genesis store=none")
            for i in range(1, n + 1):
                pre.append(f"create-pc {i} BU u{i}")
            body.append(f"begin BU u{node}")
            late = rng.randrange(0, 8)
            for j in range(rng.randrange(4, 14)):
                if j == late:
                    body.append("store BU")
                i = rng.randrange(1, n + 1)
                body.append(f"contribution 1 {i} u{i}")
                if rng.random() < 0.1:
                    body.append("timer 1")
        else:
            body.append(f"begin B1 p{node}" if rng.random() < 0.93 else f"begin B1 p{(node % n) + 1}")
            order = list(hon)
            rng.shuffle(order)
            for e in order:
                while rng.random() < 0.45:
                    add(rng.choice(hos))
                if rng.random() < 0.12:
                    body.append(rng.choice(["timer 1", "timer 1", "timer 0", "timer 2"]))
                if rng.random() < 0.9:
                    add(e)
                if rng.random() < 0.05:
                    body.append(f"begin B1 p{node}")
            # votes of replicas outside the sub-tree, single votes of grandchildren, late duplicates
            for _ in range(rng.randrange(0, 5)):
                i = rng.randrange(1, n + 1)
                body.append(f"contribution 1 {rng.randrange(1, n + 2)} p{i}")
            if rng.random() < 0.5:
                body.append("timer 1")
            if rng.random() < 0.3:
                body.append("timer 1")
            if rng.random() < 0.4:
                # next view: block B2
                for i in range(1, n + 1):
                    pre.append(f"create-pc {i} B2 q{i}")
                body.append(f"begin B2 q{node}")
                for _ in range(rng.randrange(1, 8)):
                    i = rng.randrange(1, n + 1)
                    r = rng.random()
                    if r < 0.7:
                        body.append(f"contribution 2 {i} q{i}")
                    elif r < 0.85:
                        body.append(f"contribution 2 {i} p{i}")
                    else:
                        body.append(f"contribution 1 {i} p{i}")
                body.append(rng.choice(["timer 1", "timer 2", "timer 2"]))
        at = len(L) - 1
        return L[:at] + pre + L[at:] + body

    def nontrivial_keys(self, lines, impl_out):
        return [core.script_hash(lines)] if any(("qc~" in o or "send~" in o) for o in impl_out) else []

    def tags(self, lines, impl_out):
        t = super().tags(lines, impl_out)
        for o in impl_out:
            if o.startswith("fx="):
                fx = o.split()[0]
                for k in ("qc~", "send~", "propose~", "send~1~nil"):
                    if k in fx:
                        t["fx:" + k.strip("~")] = t.get("fx:" + k.strip("~"), 0) + 1
        return t

    def exhaustive(self, tier):
        return False
