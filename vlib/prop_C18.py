from .runner import Property
from .common import COMMON_TRUST
from .fam_twins import TwinsFam

PROP = Property(
    "C18", ["HsVerif.Props.C18"], [TwinsFam()],
    facts=[
        # the model's NewGenerator: ids, then partition scenarios, then the announced power
        {"func": "twins/generator.go:NewGenerator", "order": ["assignNodeIDs", "genPartitionScenarios", "Pow"]},
        {"func": "twins/generator.go:genPartitionScenarios",
         "order": ["generateTwinPartitionPairs", "cartesianProduct", "genPartitionSizes", "isValidTwinAssignment", "Add", "Add"]},
        {"func": "twins/generator.go:genPartitionSizes", "contains": ["genPartitionSizesRecursive"]},
        {"func": "twins/generator.go:genPartitionSizesRecursive", "contains": ["genPartitionSizesRecursive", "min"]},
        {"func": "twins/generator.go:Generator.Shuffle", "order": ["NewSource", "Shuffle", "Intn"]},
        # NextScenario / Remaining are atomic operations of the model: one mutex, held for the whole call
        {"func": "twins/generator.go:Generator.NextScenario", "order": ["Lock", "defer Unlock"]},
        {"func": "twins/generator.go:Generator.Remaining", "order": ["Lock", "defer Unlock"]},
        # the executor's verdict is checkCommits on the network it ran, the logs are reported by getBlocks
        {"func": "twins/scenario.go:ExecuteScenario", "order": ["assignNodeIDs", "createNodesAndTwins", "run", "checkCommits", "getBlocks"]},
        {"func": "twins/scenario.go:checkCommits", "contains": ["Hash"]},
        {"func": "twins/network.go:NodeSet.MarshalJSON", "order": ["Keys", "SortFunc", "Marshal"]},
        {"func": "twins/network.go:NodeSet.UnmarshalJSON", "order": ["Unmarshal", "Add"]},
        # the CLI bounds its loops by Remaining() and feeds every scenario from NextScenario
        {"func": "internal/cli/twins.go:twinsGenerate", "order": ["Remaining", "generateAndLogScenario"]},
        {"func": "internal/cli/twins.go:twinsRun", "order": ["Remaining", "generateAndExecuteScenario"]},
        {"func": "internal/cli/twins.go:twinsInstance.generateAndLogScenario", "order": ["NextScenario", "WriteScenario"]},
        {"func": "internal/cli/twins.go:twinsInstance.generateAndExecuteScenario", "order": ["NextScenario", "ExecuteScenario"]},
    ],
    trusted=COMMON_TRUST + [
        "math/rand (Shuffle, Intn) as an oracle seed -> (permutation, offsets): the model is parameterised by what it produced; "
        "the real stream is observed in a probe run and must be reproduced by the checked run",
        "encoding/json and math.Pow (exact for L^V < 2^53) are exercised for real on the Go side and modelled by their contract",
        "sync.Mutex: NextScenario / Remaining modelled as atomic steps (lock discipline re-extracted by gofacts)",
        "harness/export/twins/verif_export.go: wrappers of unexported functions; VerifJump puts the odometer into a state "
        "that generator_complete proves reachable (indices = digits of c, remaining = L^V - c)",
    ],
    assumptions=[
        "domain of the model: NumNodes >= 1, Partitions >= 1, minSize >= 1, NumNodes + NumTwins <= 255 (outside it Go's uint8 "
        "arithmetic wraps, indexes an empty slice, or loops forever: `sizes`/`parts`/`gen` with such arguments are refused by both drivers)",
        "L^V < 2^53 (beyond that int64(math.Pow(...)) no longer is the exact count; the model announces the natural number L^V)",
        "a block is identified by its hash (SHA-256 collision resistance)",
        "'without repetition' is read on scenario values (leader and ordered partition list per view). The generator does emit "
        "views that differ only in the order of their partitions (e.g. {t1,t2}/{n2,n3} and {n2,n3}/{t1,t2}); they are different "
        "Scenario values with the same connectivity and are not counted as a violation here",
    ],
    partial="well-formedness of the partition assignment is proved by kernel evaluation over the complete table of the property's "
            "bound (1-5 nodes, 0-2 twin pairs, 1-3 partitions), not for unbounded settings (assignNodeIDs and the leader choice are "
            "proved for all settings); ExecuteScenario's consensus run is not modelled: the verdict function is, and gofacts checks "
            "that ExecuteScenario returns checkCommits' answer",
)

META = {
    "text": "Proof: Lean theorems over an executable model of twins/generator.go (assignNodeIDs, genPartitionSizes, twin placement, "
            "genPartitionScenarios, NewGenerator, Shuffle, NextScenario as repaired by fixes/C18-generator-last.diff), NodeSet JSON and "
            "checkCommits. For every alphabet size L >= 0 and every V >= 0 (no bound): call number c of NextScenario returns the scenario "
            "selected by the base-L digits of c while c < L^V and the end marker ever after, Remaining counts L^V down to 0 "
            "(generator_complete, generator_delivers_announced); the L^V index tuples are pairwise different and are all tuples "
            "(odometer_enumerates); delivered scenarios are exactly the V-sequences over the alphabet and pairwise different when the "
            "alphabet is (delivered_iff, generator_no_repetition); the result is a function of alphabet, V and offsets "
            "(generator_deterministic); for any permutation and any offsets < L the shuffled stream is a permutation of the unshuffled one "
            "(shuffle_perm, no side condition). assignNodeIDs yields exactly the configured identities and every leader is a non-twin "
            "configured replica for all settings; every view of every setting in the bound puts each node (both twins included) in exactly "
            "one of the k partitions and the alphabet has no repeated view (kernel evaluation over the complete table; scenario_wellformed "
            "lifts it to every delivered scenario, shuffled or not). json_roundtrip: leaders, partition count and membership unchanged. "
            "checkCommits_exact, for all commit logs: unsafe iff two non-twin replicas hold different blocks at one position, commits = "
            "length of the agreed prefix. Correspondence: the real generator, encoding/json and checkCommits (through overlay exports) "
            "against the model and an independent oracle on all 225 settings of the bound (streams enumerated completely up to the tier's "
            "cap, otherwise both ends), shuffled streams with seeds checked for permutation and reproducibility, commit logs of <= 4 "
            "replicas exhaustively over small alphabets plus random ones.",
    "note": "Defect found and repaired: NextScenario dropped the last scenario (L^V-1 of L^V delivered, Remaining stuck at 1, next call "
            "panics); with an empty alphabet (every replica twinned) NextScenario and Shuffle panicked; with 0 views the stream never ended. "
            "Trusted: Lean kernel, propext/Quot.sound/Classical.choice, gofacts, the correspondence harness, math/rand as oracle.",
    "technique": "Lean 4 theorems (odometer = base-L counter, permutation argument for Shuffle, refinement of checkCommits to its "
                 "specification, kernel evaluation of the finite well-formedness table) + differential correspondence with an "
                 "independent property oracle + syntactic facts",
}
