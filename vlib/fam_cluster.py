"""Scripts for the `cluster` family (C01, C05, C06): several real replicas, one shared crypto world,
script-driven network.  The generator is ADAPTIVE: it consults the Lean model interactively
(hsmodel cluster, VERIF_FLUSH=1) while it writes a script, so that Byzantine messages can be
crafted against the state the honest replicas are really in (current views, certified blocks,
votes seen on the wire).  The finished script is then an ordinary input run through both drivers.

Threat model of the scripts: ids without a node are Byzantine (at most f of them); only their keys
are used by crafting ops.  The network is the adversary's: any queued message can be delivered
late, out of order between links, or never; partitions; fetch on/off."""
import os
import re
import subprocess

from .runner import Family
from .fam_cert import quorum
from . import core

RULES = ["chainedhotstuff", "simplehotstuff", "fasthotstuff"]


class Model:
    """interactive session with the model driver"""

    def __init__(self):
        b = os.path.join(core.LEAN, ".lake", "build", "bin", "hsmodel")
        self.p = subprocess.Popen([b, "cluster"], stdin=subprocess.PIPE, stdout=subprocess.PIPE, text=True, bufsize=1,
                                  env=dict(os.environ, VERIF_FLUSH="1"))

    def ask(self, line):
        self.p.stdin.write(line + "\n")
        self.p.stdin.flush()
        return self.p.stdout.readline().rstrip("\n")

    def close(self):
        try:
            self.p.stdin.close()
            self.p.wait(timeout=5)
        except Exception:
            self.p.kill()


class ClusterPlay:
    def __init__(self, model, rng, scheme, n, rules, nbyz, agg=None, leader=None):
        self.m, self.rng, self.scheme, self.n, self.rules = model, rng, scheme, n, rules
        self.q = quorum(n)
        self.agg = 1 if rules == "fasthotstuff" else (agg if agg is not None else 0)
        ids = list(range(1, n + 1))
        rng.shuffle(ids)
        self.byz = sorted(ids[:nbyz])
        self.nodes = sorted(ids[nbyz:])
        self.L = []
        self.k = 0
        self.view = {i: 1 for i in self.nodes}
        self.hqc = {i: "G" for i in self.nodes}
        self.committed = {i: "G" for i in self.nodes}
        self.blocks = {"G": (0, "G", 0)}      # name -> (view, parent, proposer)
        self.qcname = {"G": "genesis"}          # block -> name of a certificate for it
        self.votes = {}                         # block -> set of public vote names
        self.tmos = {}                          # view -> set of public timeout names
        self.ncommit = 0
        if leader == 0:
            leader = rng.choice(self.byz) if self.byz else None
        self.say(f"cfg {scheme} {n} cache={rng.choice([0, 0, 10])} agg={self.agg}")
        for i in self.nodes:
            self.say(f"node {i} rules={rules}" + (f" leader=fixed:{leader}" if leader else ""))
        self.fixed = leader
        for i in self.nodes:
            if rng.random() < 0.85:
                self.say(f"fetch {i} on")
        for i in self.nodes:
            self.say(f"@{i} start")

    def leader(self, v):
        return self.fixed if self.fixed else v % self.n + 1

    def fresh(self, p):
        self.k += 1
        return f"{p}{self.k}"

    # ---- talking to the model, learning from its answers ----
    def say(self, line):
        ans = self.m.ask(line)
        self.L.append(line)
        self.learn(line, ans)
        return ans

    def learn(self, line, ans):
        t = line.split()
        node = None
        if t[0].startswith("@"):
            node = int(t[0][1:])
        elif t[0] == "pump":
            node = int(t[2])
        if node is None or ans in ("bad-op", "idle", "panic") or " | " not in ans and "|" not in ans:
            return
        for part in ans.split(" || "):
            if "|" not in part:
                continue
            eff, dump = part.rsplit("|", 1)
            for m in re.finditer(r"propose\((\w+),v=(\d+),parent=(\w+),qc=qc\(v=(\d+),h=(\w+)", eff):
                b, v, par, _, qh = m.group(1), int(m.group(2)), m.group(3), m.group(4), m.group(5)
                self.blocks[b] = (v, par, node)
                if qh not in self.qcname and qh != "G":
                    nm = f"Qo_{qh}"
                    self.pending_qcof = getattr(self, "pending_qcof", []) + [(nm, b, qh)]
            for m in re.finditer(r"vote\(to=(\d+),blk=(\w+)", eff):
                self.votes.setdefault(m.group(2), set()).add(f"r{node}.vote.{m.group(2)}")
            for m in re.finditer(r"timeout\(id=(\d+),v=(\d+)", eff):
                self.tmos.setdefault(int(m.group(2)), set()).add(f"r{node}.tmo.{m.group(2)}")
            self.ncommit += len(re.findall(r"commit\(", eff))
            d = dict(kv.split("=", 1) for kv in dump.split() if "=" in kv)
            if "view" in d:
                self.view[node] = int(d["view"])
                self.hqc[node] = d["hqc"].split(":", 1)[1]
                self.committed[node] = d["committed"]

    def name_pending_qcs(self):
        for nm, b, qh in getattr(self, "pending_qcof", []):
            if qh not in self.qcname:
                if self.say(f"qcof {nm} {b}") == "ok":
                    self.qcname[qh] = nm
        self.pending_qcof = []

    # ---- network scheduling ----
    def links(self, group=None):
        g = group or self.nodes
        ls = [(a, b) for a in g for b in g if a != b]
        self.rng.shuffle(ls)
        return ls

    def pump_round(self, group=None, p=1.0, maxk=None):
        busy = False
        for a, b in self.links(group):
            if self.rng.random() > p:
                continue
            mx = f" max={maxk}" if maxk else ""
            if self.say(f"pump {a} {b}{mx}") != "idle":
                busy = True
        self.name_pending_qcs()
        return busy

    def settle(self, group=None, rounds=6):
        for _ in range(rounds):
            if not self.pump_round(group):
                break

    def timeouts(self, who=None):
        for i in (who or self.nodes):
            self.say(f"@{i} local-timeout")

    # ---- Byzantine crafting (keys of self.byz only) ----
    def qc_for(self, b):
        """name of a certificate for block b, building one from public votes plus Byzantine votes if need be"""
        if b in self.qcname:
            return self.qcname[b]
        have = sorted(self.votes.get(b, set()))
        use = list(have)
        for z in self.byz:
            nm = f"bz{z}.vote.{b}"
            if self.say(f"create-pc {z} {b} {nm}").startswith("ok"):
                use.append(nm)
        if len(use) < max(self.q, 2) or not self.byz:
            return None
        self.rng.shuffle(use)
        nm = f"Qb_{b}"
        if self.say(f"create-qc {self.byz[0]} {nm} {b} " + " ".join(use[:max(self.q, 2)])).startswith("ok"):
            self.qcname[b] = nm
            return nm
        return None

    def certified_blocks(self):
        return [b for b in self.blocks if b in self.qcname or len(self.votes.get(b, ())) + len(self.byz) >= self.q]

    def byz_propose(self, z, v, parent, targets, tag="X"):
        qn = self.qc_for(parent)
        if qn is None:
            return None
        x = self.fresh(tag)
        mism = ""
        if self.say(f"block {x} parent={parent} view={v} proposer={z} qc={qn}") != "ok":
            return None
        self.blocks[x] = (v, parent, z)
        for t in targets:
            self.say(f"@{t} deliver propose {x} from={z}")
        return x

    def byz_vote(self, z, b):
        """Byzantine vote for b to the leader of the next view (if that is a node)"""
        v = self.blocks[b][0]
        ld = self.leader(v + 1)
        nm = f"bz{z}.vote.{b}"
        self.say(f"create-pc {z} {b} {nm}")
        if ld in self.nodes:
            self.say(f"@{ld} deliver vote {nm} {b} from={z}")

    def byz_timeout(self, z, v, targets):
        hb = self.rng.choice([b for b in self.blocks if b in self.qcname] or ["G"])
        qn = self.qcname.get(hb, "genesis")
        x = self.fresh("bt")
        self.say(f"sign {z} view:{v} {x}v")
        ms = "nil"
        if self.agg:
            self.say(f"sign {z} tmo:{z}:{v}:{qn} {x}m")
            ms = f"{x}m"
        self.say(f"timeout {x} id={z} view={v} viewsig={x}v msgsig={ms} qc={qn}")
        for t in targets:
            self.say(f"@{t} deliver timeout {x}")

    def byz_act(self):
        """one adversarial action, chosen with knowledge of the honest replicas' state"""
        rng = self.rng
        if not self.byz:
            return
        z = rng.choice(self.byz)
        vmax = max(self.view.values())
        views = sorted(set(self.view.values()))
        kind = rng.choice(["vote-all", "propose", "propose", "equivocate", "fork", "fork", "timeout", "future-timeout", "stale-propose",
                           "lagging-vote", "lagging-vote", "catch-up"])
        lead_views = [v for v in range(min(views), vmax + 3) if self.leader(v) == z]
        if self.leader(vmax) in self.byz and rng.random() < 0.6:
            # everybody waits for a Byzantine leader: it usually does propose (something)
            z = self.leader(vmax)
            kind = rng.choice(["propose", "propose", "equivocate", "fork"])
            lead_views = [vmax]
        if kind == "vote-all":
            for b in list(self.blocks):
                if b != "G" and self.blocks[b][0] >= min(views) - 1:
                    self.byz_vote(z, b)
        elif kind in ("propose", "equivocate", "fork", "stale-propose") and lead_views:
            v = rng.choice(lead_views)
            cert = [b for b in self.certified_blocks() if self.blocks[b][0] < v]
            if not cert:
                return
            cert.sort(key=lambda b: self.blocks[b][0])
            if kind == "fork" and len(cert) >= 2:
                parent = rng.choice(cert[:-1])
            else:
                parent = cert[-1]
            if kind == "equivocate":
                g = list(self.nodes)
                rng.shuffle(g)
                cut = rng.randrange(1, len(g)) if len(g) > 1 else 1
                self.byz_propose(z, v, parent, g[:cut], "E")
                other = rng.choice(cert)
                self.byz_propose(z, v, other, g[cut:], "E")
            else:
                tg = [t for t in self.nodes if rng.random() < 0.8] or self.nodes[:1]
                self.byz_propose(z, v, parent, tg)
        elif kind == "lagging-vote":
            # a replica that missed the last views gets the newest proposal while it can fetch only that
            # proposal's parent (not the grandparent it would have to lock on)
            lag = min(self.nodes, key=lambda i: self.view[i])
            recent = sorted((b for b in self.blocks if b != "G"), key=lambda b: self.blocks[b][0])[-3:]
            if recent:
                b = rng.choice(recent)
                par = self.blocks[b][1]
                self.say(f"fetch {lag} off")
                if par != "G":
                    self.say(f"@{lag} fetchable {par} on")
                self.say(f"@{lag} deliver propose {b} from={self.blocks[b][2]}")
                if rng.random() < 0.5:
                    self.say(f"fetch {lag} on")
        elif kind == "catch-up":
            # bring a lagging replica forward with certificates seen on the wire (new-view messages)
            lag = min(self.nodes, key=lambda i: self.view[i])
            cert = sorted((b for b in self.blocks if b in self.qcname and b != "G"), key=lambda b: self.blocks[b][0])
            if cert:
                b = cert[-1]
                x = self.fresh("nv")
                self.say(f"si {x} qc={self.qcname[b]} tc=- agg=-")
                for _ in range(rng.randrange(1, 4)):
                    self.say(f"@{lag} deliver newview {x} from={z}")
        elif kind == "timeout":
            self.byz_timeout(z, rng.choice(views), self.nodes)
        elif kind == "future-timeout":
            self.byz_timeout(z, vmax + rng.choice([1, 2]), [t for t in self.nodes if rng.random() < 0.7])

    def gap(self):
        """one replica hears nothing for several views (the Byzantine replicas, if any, help the others
        along), then hears everything again but can fetch only the newest blocks: it sees certified
        chains whose older ancestors it lacks (commit must wait for the ancestors)"""
        rng = self.rng
        cand = [i for i in self.nodes if i != self.fixed]
        if not cand:
            return
        x = rng.choice(cand)
        g = [i for i in self.nodes if i != x]
        if len(g) + len(self.byz) < self.q or len(g) < 2:
            return
        helped = set()

        def round_(grp):
            busy = self.pump_round(grp)
            if self.byz:
                vmax = max(self.view[i] for i in grp)
                for b, (v, _, _) in list(self.blocks.items()):
                    if b != "G" and v >= vmax - 1 and b not in helped:
                        helped.add(b)
                        for z in self.byz:
                            self.byz_vote(z, b)
                        busy = True
            if not busy:
                self.timeouts(grp)
                for z in self.byz:
                    self.byz_timeout(z, min(self.view[i] for i in grp), grp)
        for _ in range(rng.randrange(6, 14)):
            round_(g)
        for a in g:
            self.say(f"drop {a} {x} max=1000")
        self.say(f"fetch {x} off")
        # only the newest blocks of the main branch can still be had from the peers
        tip = max((b for b in self.blocks if b != "G"), key=lambda b: self.blocks[b][0], default=None)
        for _ in range(rng.choice([1, 2, 3, 3, 4])):
            if tip is None or tip == "G" or tip not in self.blocks:
                break
            self.say(f"@{x} fetchable {tip} on")
            tip = self.blocks[tip][1]
        for _ in range(rng.randrange(6, 14)):
            round_(self.nodes)

    def byz_leader_run(self, rounds):
        """the fixed leader is Byzantine: it builds chains of its own blocks from the honest replicas'
        votes, shows some blocks to some replicas only, and now and then starts a new branch from an
        older certified block or from genesis (after timeouts, with an aggregate QC made of the
        honest replicas' own timeout messages where aggregate QCs are configured)"""
        rng = self.rng
        z = self.fixed
        tip = "G"
        # half of the runs follow a plan: chains long enough to commit, the block that completes a commit
        # shown to a few replicas only, then a new branch, and so on; the others improvise
        plan = None
        if rng.random() < 0.5:
            plan = []
            while len(plan) < rounds:
                k = rng.choice([3, 3, 4])
                plan += ["ext"] * (k - 1) + ["ext-few"] + ["fork"]
        for rnd in range(rounds):
            v = max(self.view.values())
            cert = [b for b in self.certified_blocks() if self.blocks[b][0] < v] + ["G"]
            intent = plan[rnd] if plan else None
            fork = (intent == "fork") if plan else rng.random() < 0.25
            parent = rng.choice(cert) if fork or tip not in cert else tip
            if fork and rng.random() < (0.6 if plan else 0.4):
                parent = "G"
            agg = None
            if self.agg:
                # without an aggregate QC a block must follow its certified parent in the very next view;
                # otherwise the leader shows an aggregate QC made of the honest replicas' own timeouts and
                # builds on the block of the highest QC they reported (or tries something else)
                follows = parent in self.blocks and parent != "G" and self.blocks[parent][0] == v - 1
                if v == 1:
                    parent = "G"
                elif fork or not follows:
                    have = sorted(self.tmos.get(v - 1, set()))
                    if len(have) >= self.q:
                        agg = self.fresh("A")
                        rng.shuffle(have)
                        if not self.say(f"create-agg {z} {agg} {v - 1} " + " ".join(have[:self.q])).startswith("ok"):
                            agg = None
                    best = max((self.hqc[i] for i in self.nodes), key=lambda b: self.blocks.get(b, (0,))[0])
                    parent = rng.choice([best, best, best, "G", rng.choice(cert)] if not (plan and fork) else [best, "G", "G", rng.choice(cert)])
                    olds = getattr(self, "old_aggs", [])
                    if agg:
                        self.old_aggs = olds + [(agg, best)]
                    if olds and fork and rng.random() < 0.6:
                        # an aggregate QC kept from an earlier view change, with the block it pointed to then
                        agg, parent = rng.choice(olds[:3] + olds)
                        if rng.random() < 0.2:
                            parent = "G"
            if intent == "ext":
                tg = list(self.nodes)
            elif intent == "ext-few":
                tg = rng.sample(self.nodes, rng.randrange(1, max(2, len(self.nodes))))
            else:
                tg = list(self.nodes) if rng.random() < 0.6 else ([t for t in self.nodes if rng.random() < 0.6] or self.nodes[:1])
            qn = self.qc_for(parent) if parent != "G" else "genesis"
            if qn is None:
                parent, qn = "G", "genesis"
            x = self.fresh("L")
            if self.say(f"block {x} parent={parent} view={v} proposer={z} qc={qn}") == "ok":
                self.blocks[x] = (v, parent, z)
                for t in tg:
                    self.say(f"@{t} deliver propose {x} from={z}" + (f" agg={agg}" if agg else ""))
                tip = x
            # the views move on by timeout (always needed under the aggregate rule), or with the next proposal
            if self.agg or rng.random() < 0.3:
                self.timeouts()
                for _ in range(2):
                    self.pump_round()

    # ---- whole runs ----
    def run(self, steps, gap=None):
        rng = self.rng
        self.settle()
        gap = rng.random() < 0.2 if gap is None else gap
        gap_at = rng.randrange(steps) if gap else -1
        for step in range(steps):
            if step == gap_at:
                self.gap()
            r = rng.random()
            if r < 0.40:
                self.pump_round(p=rng.choice([1.0, 0.7, 0.4]), maxk=rng.choice([None, None, 1, 2]))
            elif r < 0.50:
                g = [i for i in self.nodes if rng.random() < 0.6]
                if len(g) >= 2:
                    for _ in range(rng.randrange(1, 4)):
                        self.pump_round(g)
            elif r < 0.62:
                lag = min(self.view.values())
                who = [i for i in self.nodes if self.view[i] == lag or rng.random() < 0.5]
                self.timeouts(who)
            elif r < 0.67:
                a, b = rng.sample(self.nodes, 2) if len(self.nodes) >= 2 else (self.nodes[0], self.nodes[0])
                self.say(f"drop {a} {b} max={rng.choice([1, 2, 1000])}")
            elif r < 0.72:
                i = rng.choice(self.nodes)
                self.say(f"fetch {i} {rng.choice(['on', 'on', 'off'])}")
            elif r < 0.95:
                self.byz_act()
                if rng.random() < 0.5 and self.byz:
                    z = rng.choice(self.byz)
                    for b in list(self.blocks):
                        if b != "G" and self.blocks[b][0] >= max(self.view.values()) - 1:
                            self.byz_vote(z, b)
            else:
                self.settle(rounds=3)
            if r >= 0.50 and rng.random() < 0.7:
                self.pump_round()
        # end: let everything through so that lagging replicas catch up (more commits to compare)
        for i in self.nodes:
            self.say(f"fetch {i} on")
        self.settle(rounds=8)
        self.say("queues")
        for i in self.nodes:
            self.say(f"@{i} dump")
        return self.L


class ClusterFam(Family):
    name = "cluster"
    oracle = "cluster.oracle"
    header = 0
    timeout = 3000

    def __init__(self, focus="c01"):
        self.focus = focus

    def generate(self, tier, rng):
        quick = tier == "quick"
        m = Model()
        try:
            count = 150 if quick else 5000
            if self.focus == "c06":
                # C06's chain-order clause: only the runs in which a replica lags and can fetch only the
                # newest blocks (executing must wait for the missing ancestors)
                for k in range(24 if quick else 600):
                    scheme = rng.choice(["ecdsa", "eddsa", "eddsa"])
                    n = rng.choice([4, 4, 5, 7])
                    rules = rng.choice(RULES[:2])
                    m.ask("reset")
                    ld = rng.choice([None] + list(range(1, n + 1))) if n >= 5 else rng.randrange(1, n + 1)
                    p = ClusterPlay(m, rng, scheme, n, rules, 0, agg=0, leader=ld)
                    yield (f"cl-gap-{scheme}-{rules}-n{n}-{k}", p.run(rng.randrange(3, 8), gap=True))
                return
            for k in range(count):
                scheme = rng.choice(["ecdsa", "ecdsa", "eddsa", "eddsa", "eddsa"] + (["bls12"] if k % 10 == 0 else []))
                n = rng.choice([4, 4, 4, 4, 5, 7])
                f = (n - 1) // 3
                nbyz = rng.choice([f, f, f, 0, max(f - 1, 0)])
                rules = RULES[k % 3]
                m.ask("reset")
                if k % 6 == 4:
                    rules = rng.choice(RULES)
                    # a lagging replica that can fetch only the newest blocks; a fixed leader (or n >= 5)
                    # keeps the others committing while it is away
                    ld = rng.choice([None] + list(range(1, n + 1))) if n >= 5 else rng.randrange(1, n + 1)
                    p = ClusterPlay(m, rng, scheme, n, rules, 0, agg=rng.choice([0, 0, 1]), leader=ld)
                    lines = p.run(rng.randrange(3, 10), gap=True)
                    yield (f"cl-gap-{scheme}-{rules}-n{n}-{k}", lines)
                    continue
                if k % 6 == 1 and f >= 1:
                    # a Byzantine fixed leader
                    rules = rng.choice(RULES)
                    p = ClusterPlay(m, rng, scheme, n, rules, f, agg=rng.choice([0, 0, 1]), leader=0)
                    p.byz_leader_run(rng.randrange(6, 16))
                    lines = p.run(rng.randrange(0, 5), gap=False)
                    yield (f"cl-byzlead-{scheme}-{rules}-n{n}-{k}", lines)
                    continue
                p = ClusterPlay(m, rng, scheme, n, rules, nbyz, agg=rng.choice([0, 0, 1]), leader=None)
                steps = rng.randrange(8, 30 if scheme != "bls12" else 14)
                lines = p.run(steps)
                yield (f"cl-{scheme}-{rules}-n{n}-b{nbyz}-{k}", lines)
        finally:
            m.close()

    def nontrivial_keys(self, lines, impl_out):
        commits = sum(o.count("commit(") for o in impl_out)
        return [core.script_hash(lines)] if commits >= 2 else []

    def tags(self, lines, impl_out):
        t = {}
        for l in lines:
            w = l.split()
            k = w[0] if not w[0].startswith("@") else "@" + w[1] + (":" + w[2] if w[1] == "deliver" else "")
            t["op:" + k] = t.get("op:" + k, 0) + 1
        for o in impl_out:
            for key in ("commit(", "vc(", "abort(", "sign(blk:", "sign(view:"):
                c = o.count(key)
                if c:
                    t["eff:" + key.strip("(")] = t.get("eff:" + key.strip("("), 0) + c
        return t
