import itertools
from .runner import Family


class CollectorFam(Family):
    name = "collector"
    oracle = "collector.oracle"
    header = 1

    def generate(self, tier, rng):
        quick = tier == "quick"
        views, ids = [1, 2, 3], [1, 2, 3, 4]
        alpha = [(v, i) for v in views for i in ids]
        # exhaustive: all sequences of <= L messages over 3 views x 4 ids (n = 4, quorum 3)
        L = 4 if quick else 5
        for k in range(1, L + 1):
            for seq in itertools.product(alpha, repeat=k):
                if k == L and quick and rng.random() > 0.25:
                    continue
                yield ("ex-" + "".join(f"{v}{i}" for v, i in seq), ["n 4"] + [f"add {v} {i}" for v, i in seq])
        for k in range(600 if quick else 20000):
            n = rng.choice([1, 2, 3, 4, 5, 7, 10])
            lines = [f"n {n}"]
            for _ in range(rng.randrange(3, 40)):
                if rng.random() < 0.9:
                    lines.append(f"add {rng.choice([1, 2, 3, 1000, 5])} {rng.randrange(0, n + 2)}")
                else:
                    lines.append(f"delete-old {rng.choice([1, 2, 3, 4])}")
            yield (f"rand-{k}", lines)

    def nontrivial_keys(self, lines, impl_out):
        from . import core
        return [core.script_hash(lines)] if any(o.startswith("quorum") for o in impl_out) else []

    def exhaustive(self, tier):
        return False
