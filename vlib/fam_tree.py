"""Family `tree` (C17): scripts over internal/tree as used by Kauri and the tree leader.

One script = one configuration (branch factor + position assignment): every replica's own view,
the cross-replica `check`, queries about other replicas from foreign vantage points, a proposal
pushed down from the leader and a contribution sent up from every replica."""
import itertools
from . import core
from .runner import Family

MAXID = 4294967295


def fmt(ids):
    return "[" + ",".join(map(str, ids)) + "]"


def config_script(bf, pos, rng=None, pairs="some", outsiders=()):
    """all ops for one configuration; `pairs`: 'all' | 'some' foreign-vantage queries"""
    n = len(pos)
    lines = [f"cfg {bf} {fmt(pos)}"]
    order = list(pos)
    if rng is not None and rng.random() < 0.5:
        rng.shuffle(order)           # the order in which replicas report must not matter
    lines += [f"view {r}" for r in order]
    lines.append("check")
    if pairs == "all" or rng is None:
        pq = [(v, x) for v in pos for x in pos]
    else:
        pq = [(rng.choice(pos), rng.choice(pos)) for _ in range(min(2 * n, 24))]
    for v, x in pq:
        lines.append(f"childrenof {v} {x}")
    for v, x in pq[: max(4, len(pq) // 3)]:
        lines.append(f"isroot {v} {x}")
        lines.append(f"heightof {v} {x}")
    for o in outsiders:
        if pos:
            lines += [f"childrenof {pos[0]} {o}", f"isroot {pos[-1]} {o}", f"heightof {pos[0]} {o}", f"new {o}"]
    lines.append("disseminate")
    lines += [f"voteup {r}" for r in pos]
    lines.append("check")
    return lines


def random_ids(rng, n):
    kind = rng.random()
    if kind < 0.45:
        ids = list(range(1, n + 1))
    elif kind < 0.75:
        ids = rng.sample(range(1, 4 * n + 10), n)
    elif kind < 0.95:
        ids = rng.sample(range(1, 1_000_000), n)
    else:
        ids = rng.sample(range(MAXID - 5 * n, MAXID + 1), n)
    rng.shuffle(ids)
    return ids


class TreeFam(Family):
    name = "tree"
    oracle = "tree.oracle"
    header = 1

    def generate(self, tier, rng):
        quick = tier == "quick"
        # (1) exhaustive: every size 1..40 x branch factor 2..6, identity assignment, every vantage
        # point, all foreign-vantage pairs for n <= 12
        for n in range(1, 41):
            for bf in range(2, 7):
                pos = list(range(1, n + 1))
                yield (f"identity-n{n}-bf{bf}", config_script(bf, pos, rng, pairs="all" if n <= 12 else "some",
                                                              outsiders=(n + 1,)))
        # (2) exhaustive: all permutations of small n
        top = 6 if quick else 7
        for n in range(1, top + 1):
            for bf in range(2, 7):
                for perm in itertools.permutations(range(1, n + 1)):
                    yield (f"perm-bf{bf}-{'.'.join(map(str, perm))}",
                           config_script(bf, list(perm), None if n <= 4 else rng, pairs="all" if n <= 4 else "some"))
        if not quick:
            for perm in itertools.permutations(range(1, 9)):
                yield (f"perm-bf2-{'.'.join(map(str, perm))}", config_script(2, list(perm), rng, pairs="some"))
        # (3) random permutations / sparse ids for every size up to 40 (a few beyond), bf 2..6 (a few beyond)
        reps = 5 if quick else 40
        for n in range(1, 41):
            for bf in range(2, 7):
                for _ in range(reps):
                    yield (f"random-n{n}-bf{bf}", config_script(bf, random_ids(rng, n), rng,
                                                                outsiders=(rng.randrange(1, MAXID),) if rng.random() < 0.3 else ()))
        for k in range(20 if quick else 300):
            n = rng.choice([41, 57, 64, 85, 100, 121, 156, 200, 341]) + rng.randrange(-1, 2)
            bf = rng.choice([2, 3, 4, 5, 6, 7, 10, 16, 40])
            yield (f"random-large-n{n}-bf{bf}", config_script(bf, random_ids(rng, n), rng))
        # (3b) the first position of every level (where p*(bf-1)+1 is an exact power of bf) for the wider branch factors:
        #      the place where a closed form in floating point lands one level off (C17-r6m1: bf 10 from 112 replicas on)
        for bf in range(7, 17):
            p, w = 1, bf
            while p + w <= 300:
                p, w = p + w, w * bf          # p = first position of the next level
            # p is now the first position of the deepest level that starts within 300 replicas
            for n in ([p + 1, p + bf + 1] if not quick else [p + 1]):
                if n <= 320:
                    yield (f"level-start-n{n}-bf{bf}", config_script(bf, list(range(1, n + 1)), rng))
        # (4) malformed: the model must predict the panics and the first-index semantics; outside the property
        for k in range(60 if quick else 1500):
            n = rng.randrange(0, 9)
            ids = random_ids(rng, n)
            bf = rng.choice([-3, -1, 0, 1, 2, 3])
            if ids and rng.random() < 0.5:
                ids[rng.randrange(n)] = rng.choice(ids)          # repeated id
            lines = [f"cfg {bf} {fmt(ids)}"]
            cand = ids + [rng.randrange(1, 50)]
            for _ in range(10):
                v, x = rng.choice(cand), rng.choice(cand)
                lines.append(rng.choice([f"new {v}", f"view {v}", f"childrenof {v} {x}", f"isroot {v} {x}",
                                         f"heightof {v} {x}", "disseminate", f"voteup {v}", "check"]))
            yield (f"malformed-{k}", lines)
        # (5) treeHeight itself: exhaustive small, boundaries of complete trees, random large
        top = 3000 if quick else 40000
        yield ("treeheight-exhaustive", [f"treeheight {n} {bf}" for bf in range(1, 13) for n in range(0, (top if bf > 1 else 300) + 1)])
        b = []
        for bf in range(2, 41):
            full, p = 0, 1
            while full < 1_000_000:
                full += p
                p *= bf
                for d in (-1, 0, 1):
                    if 0 <= full + d <= 1_000_000:
                        b.append(f"treeheight {full + d} {bf}")
        yield ("treeheight-complete-boundaries", b)
        yield ("treeheight-random", [f"treeheight {rng.randrange(1, 1_000_001)} {rng.randrange(2, 50)}"
                                     for _ in range(500 if quick else 20000)])
        # (6) DefaultTreePos / Shuffle
        yield ("default-shuffle", [l for n in range(0, 61) for l in (f"default {n}", f"shuffle {n}", f"shuffle {n}")]
               + [f"shuffle {rng.randrange(0, 2000)}" for _ in range(50 if quick else 2000)] + ["default 1000", "shuffle 10000"])

    def nontrivial_keys(self, lines, impl_out):
        if lines and lines[0].startswith("cfg"):
            # a configuration is a non-trivial case when at least one replica reported a full view
            if any(o.startswith("root=") for o in impl_out):
                return [core.script_hash(lines[:1])]
            return []
        return [l for l, o in zip(lines, impl_out) if o and o != "bad-op" and not l.endswith(" 0")]

    def tags(self, lines, impl_out):
        t = super().tags(lines, impl_out)
        if lines and lines[0].startswith("cfg"):
            p = lines[0].split()
            ids = p[2].strip("[]").split(",") if p[2] != "[]" else []
            n = len(ids)
            t["bf:" + p[1]] = 1
            t["n:%s" % ("0" if n == 0 else "1" if n == 1 else "2-6" if n <= 6 else "7-20" if n <= 20 else "21-40" if n <= 40 else ">40")] = 1
            t["assign:" + ("identity" if ids == [str(i + 1) for i in range(n)] else "dup" if len(set(ids)) < n else "other")] = 1
        return t
