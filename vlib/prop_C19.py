from .runner import Property
from .common import COMMON_TRUST
from .fam_idset import IdsetFam

PROP = Property(
    "C19", ["HsVerif.Props.C19", "HsVerif.Props.C19Gen", "HsVerif.Props.C19GenCor"], [IdsetFam()],
    facts=[
        {"func": "security/crypto/bitfield.go:Bitfield.Add", "order": ["index", "extend", "set"]},
        {"func": "security/crypto/bitfield.go:Bitfield.Contains", "order": ["index", "isSet"]},
        {"func": "security/crypto/bitfield.go:BitfieldFromBytes", "contains": ["ForEach"]},
        {"func": "security/crypto/ecdsa.go:ECDSA.Combine", "contains": ["Contains"]},
        {"func": "security/crypto/eddsa.go:EDDSA.Combine", "contains": ["Contains"]},
        {"func": "security/crypto/bls12.go:bls12Base.Combine", "contains": ["Contains", "Add"]},
    ],
    trusted=COMMON_TRUST + ["real ECDSA/EdDSA/BLS12-381 Sign used by the harness to obtain signatures whose participant sets are then compared"],
    assumptions=["ids >= 1 (id 0 panics in Go on a negative shift; outside the property, relevant to C10)",
                 "ids fit Go int; bytes are modelled as naturals"],
)

META = {
    "text": "Proof: for the bit-field model (Add/Contains/ForEach/RangeWhile/Len/BitfieldFromBytes/Bytes as coded) Lean theorems show, for every insertion sequence over ids >= 1 without upper bound and every byte string, that membership, cached size and ascending duplicate-free iteration equal the ideal set, that reconstruction keeps the bytes and yields exactly the set bits with len = popcount, and that a reachable set rebuilt from its bytes is the original. For signer lists, Combine (ECDSA/EdDSA list version and BLS bit-field version) succeeds exactly on >= 2 pairwise disjoint inputs and its result has no repeated signer, so Len counts distinct signers. index/id are regenerated from Go and bridged. The correspondence runs crypto.Bitfield and real Sign/Combine of all three schemes against the model and an ideal-set oracle: all byte strings <= 2 bytes, all insertion sequences <= 3 over a byte-boundary alphabet, random sequences over ids 1..300, all combinations of <= 3 single signatures plus nested aggregates.",
    "note": "Trusted: Lean kernel, propext/Quot.sound/Classical.choice, gofacts, correspondence harness. Wire-decoded signer lists are not produced by Sign/Combine and are covered by C02, not here.",
    "technique": "Lean 4 theorems (refinement of bit-field to ideal set; Nodup of combined signer lists) + translation of index/id + Go->Lean translation of the Bitfield methods with bridging theorems (Props/C19Gen) + differential correspondence with ideal-set oracle",
}
