from .runner import Property
from .common import COMMON_TRUST
from .fam_replica import ReplicaFam
from .prop_C02 import CRYPTO_TRUST

REPLICA_TRUST = COMMON_TRUST + CRYPTO_TRUST + [
    "the replica under test is wired as twins/node.go wires a node; timers, goroutines and gRPC are outside the model (local timeouts are explicit events, votes are verified synchronously)",
]

PROP = Property(
    "C03", [], [ReplicaFam("c03")],
    facts=[
        {"func": "protocol/consensus/voter.go:Voter.Verify", "order": ["View", "VoteRule", "VerifyAnyQC", "QuorumCert", "Parent", "GetLeader"]},
        {"func": "protocol/consensus/voter.go:Voter.Vote", "contains": ["CreatePartialCert", "View"]},
        {"func": "protocol/consensus/voter.go:Voter.OnValidPropose", "order": ["TryCommit", "Vote", "Aggregate"]},
        {"func": "protocol/consensus/proposer.go:Proposer.Propose", "order": ["Verify", "Vote", "TryCommit", "Disseminate"]},
    ],
    trusted=REPLICA_TRUST,
    assumptions=[],
)

META = {
    "text": "placeholder",
    "note": "placeholder",
}
