from .runner import Property
from .common import COMMON_TRUST
from .fam_replica import ReplicaFam
from .prop_C02 import CRYPTO_TRUST

REPLICA_TRUST = COMMON_TRUST + CRYPTO_TRUST + [
    "the replica under test is wired as twins/node.go wires a node; timers, goroutines and gRPC are outside the model (local timeouts are explicit events, votes are verified synchronously, the event queue never overflows in the harness)",
    "Std.Do program logic / mvcgen tactic of Lean 4.33 (experimental tactic; the resulting proof terms are checked by the kernel like any other)",
]

PROP = Property(
    "C03", ["HsVerif.Props.C03", "HsVerif.Props.C03Cur", "HsVerif.Props.C03Gen"], [ReplicaFam("c03")],
    facts=[
        # Props/C03Gen: Verify / Vote / StopVoting regenerated from voter.go; the two fields they keep are written by them only,
        # and OnValidPropose (called by the proposal handler after Verify accepted) votes through Vote
        {"func": "pkg:protocol/consensus#writers.Voter.lastVotedView", "exact": ["NewVoter", "Voter.StopVoting", "Voter.Vote"]},
        {"func": "pkg:protocol/consensus#writers.Voter.lastVotedQCView", "exact": ["Voter.Vote"]},
        {"func": "protocol/consensus/voter.go:Voter.OnValidPropose", "order": ["TryCommit", "Vote", "Aggregate"]},
        {"func": "protocol/consensus/voter.go:Voter.Verify", "order": ["View", "VoteRule", "VerifyAnyQC", "QuorumCert", "Parent", "GetLeader"]},
        {"func": "protocol/consensus/voter.go:Voter.Vote", "contains": ["CreatePartialCert", "View"]},
        {"func": "protocol/consensus/voter.go:Voter.OnValidPropose", "order": ["TryCommit", "Vote", "Aggregate"]},
        {"func": "protocol/consensus/voter.go:Voter.StopVoting", "absent": ["Sign", "CreatePartialCert"]},
        {"func": "protocol/consensus/proposer.go:Proposer.Propose", "order": ["Verify", "Vote", "TryCommit", "Disseminate"]},
        {"func": "protocol/synchronizer/synchronizer.go:Synchronizer.OnLocalTimeout", "order": ["LocalTimeoutRule", "StopVoting", "Timeout", "OnRemoteTimeout"]},
    ],
    trusted=REPLICA_TRUST,
    assumptions=["round-robin or fixed leader rotation (the schemes the harness wires); C16 covers the rotation schemes themselves",
                 "'signs a vote' is the ghost record appended by voteFor together with the Sign request (theorem voteFor_signs); the Go harness observes the real Sign calls through a wrapped crypto.Base"],
)

META = {
    "text": "Proof: over the executable replica model (all synchronizer/voter/proposer/committer/rules/voting-machine/block-store handlers and the event loop's queue and DelayUntil discipline, ~600 lines of Lean mirroring the Go code) the invariant Inv3 is preserved by every handler and hence holds after Start and ANY sequence of delivered events with arbitrary (Byzantine) content: votes_increasing (views of signed blocks strictly increase, so at most one vote per view), no_vote_after_timeout (a vote signed after a timeout for view v has view > v), vote_wellformed (sender is the leader of the block's view, parent = block certified by its QC, QC view < block view, QC accepted by the certificate verifier; with C02's soundness theorem: a quorum of distinct genuine signatures). Proved with Lean's Std.Do Hoare logic (mvcgen), all three rulesets at once. Strengthened (Props/C03Cur): votes_verify_now / vote_wellformed_now — the certificate of EVERY block the replica ever voted for verifies against the replica's CURRENT truth table and block store (truth table and store only grow: truth_grows_run, verifyQC_monotone; a certificate that verified once verifies for ever: verifyQC_stable_run), voted_blocks_stored, and external_extension_cur (the invariant survives outside additions to the signature table, which is what the system model needs). Tie: a real replica wired like twins/node.go (real synchronizer, voter, rules, voting machine, block store, authority; recording sender; wrapped signing primitive) is driven with the same scripts as the model — mostly honest runs around the replica plus injected crafted proposals (wrong leader, stale/future/far-future view, equivocation, forged/relabelled/nil QC, parent != certified block, view <= QC view), votes, timeouts, new-views — and every effect (each Sign request, each send, each event) and the state dump are compared line by line; an oracle re-checks the vote discipline on the implementation's signing log against ground truth.",
    "note": "Trusted: Lean kernel; model<->code tie by differential correspondence (generator quality bounds what it sees; distribution in the evidence); symbolic crypto assumptions; Go runtime. Models the code with all fix: commits applied (notably 'vote only for a block that directly extends the block certified by its QC').",
    "technique": "Lean 4 invariant proof (Std.Do/mvcgen Hoare logic) over an executable replica model + differential correspondence with a real replica + signing-log oracle + Go->Lean translation of Voter.Verify/Vote/StopVoting with C03's statements proved on the regenerated code (Props/C03Gen)",
}
