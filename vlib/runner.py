import json, os, random, re, sys, time
from . import core
from .core import log


class Family:
    """One line-protocol vocabulary. Subclasses override generate()/nontrivial()."""
    name = None          # family name understood by hsdriver and hsmodel
    oracle = None        # hsmodel family deciding the property on "<op> => <impl answer>" lines
    header = 0           # number of leading lines of a script that shrinking must keep
    timeout = 900

    def corpus(self):
        d = os.path.join(core.VERIF, "corpus", self.name)
        out = []
        if os.path.isdir(d):
            for f in sorted(os.listdir(d)):
                if f.endswith(".ops"):
                    lines = [l.rstrip("\n") for l in open(os.path.join(d, f)) if l.strip()]
                    out.append(("corpus/" + f, lines))
        return out

    def generate(self, tier, rng):
        return []

    def nontrivial(self, lines, impl_out):
        return True

    def nontrivial_keys(self, lines, impl_out):
        """keys of the distinct non-trivial cases in this script (default: the script itself)"""
        return [core.script_hash(lines)] if self.nontrivial(lines, impl_out) else []

    def tags(self, lines, impl_out):
        """distribution tags for the evidence (op kinds, outcomes hit)"""
        t = {}
        for l, o in zip(lines, impl_out):
            k = l.split()[0] if l.split() else "#"
            t["op:" + k] = t.get("op:" + k, 0) + 1
            ok = o.split()[0] if o.split() else ""
            if ok.startswith("reject") or ok.startswith("panic") or ok in ("bad-op",):
                t["out:" + ok] = t.get("out:" + ok, 0) + 1
        return t

    def exhaustive(self, tier):
        return False


class Property:
    def __init__(self, pid, modules, families, facts=(), trusted=(), assumptions=(), level="proof",
                 partial=None):
        self.pid = pid
        self.modules = list(modules)
        self.families = list(families)
        self.facts = list(facts)
        self.trusted = list(trusted)
        self.assumptions = list(assumptions)
        self.level = level
        self.partial = partial


def load_known():
    p = os.path.join(core.VERIF, "known_findings.json")
    if not os.path.exists(p):
        return []
    return json.load(open(p)).get("findings", [])


def write_replay(pid, fam, lines, model_out, impl_out, oracle_out, note):
    os.makedirs(os.path.join(core.VERIF, "replays"), exist_ok=True)
    path = os.path.join(core.VERIF, "replays", f"{pid}-{fam}-{core.script_hash(lines + [note])}.ops")
    with open(path, "w") as f:
        f.write(f"# property={pid} family={fam}\n# {note}\n")
        f.write("# replay: ./check %s --replay %s\n" % (pid, path))
        for i, l in enumerate(lines):
            f.write(l + "\n")
            mo = model_out[i] if model_out and i < len(model_out) else None
            io = impl_out[i] if impl_out and i < len(impl_out) else None
            oo = oracle_out[i] if oracle_out and i < len(oracle_out) else None
            if io is not None:
                f.write(f"#   impl : {io}\n")
            if mo is not None and mo != io:
                f.write(f"#   model: {mo}\n")
            if oo is not None and oo not in ("pass", "#"):
                f.write(f"#   oracle: {oo}\n")
    return path


def parse_replay(path):
    fam = None
    lines = []
    for l in open(path):
        l = l.rstrip("\n")
        if l.startswith("# property="):
            for kv in l[2:].split():
                if kv.startswith("family="):
                    fam = kv.split("=", 1)[1]
        elif l.startswith("#") or not l.strip():
            continue
        else:
            lines.append(l)
    return fam, lines


def oracle_lines(lines, impl_out):
    return [f"{l} => {o}" for l, o in zip(lines, impl_out)]


def run_oracle(fam, scripts, impl_outs):
    if not fam.oracle:
        return [None] * len(scripts)
    model_bin = os.path.join(core.LEAN, ".lake", "build", "bin", "hsmodel")
    osc = [oracle_lines(s, o) for s, o in zip(scripts, impl_outs)]
    outs, _ = core.run_driver(model_bin, fam.oracle, osc, fam.timeout)
    return outs


def run_property(prop, tier="quick", seed=0, replay=None, search_budget=None):
    t0 = time.time()
    pid = prop.pid
    rng = random.Random(seed * 1000003 + sum(map(ord, pid)))
    problems = []       # broken ties / obligations (strings)
    ev = {"property_id": pid, "tier": tier, "seed": seed, "level": prop.level}
    # which tree was checked, and when
    try:
        rc = core.run(["git", "-C", core.REPO, "rev-parse", "--short", "HEAD"]).stdout.strip()
        dirty = bool(core.run(["git", "-C", core.REPO, "status", "--porcelain"]).stdout.strip())
        ev["repo"] = {"path": core.REPO, "commit": rc, "working_tree_dirty": dirty}
    except Exception:
        ev["repo"] = {"path": core.REPO}
    ev["generated_at"] = time.strftime("%Y-%m-%dT%H:%M:%SZ", time.gmtime())
    cov = {}
    # ---- 1-3: regenerate, prove, audit, build harness (serialised across processes)
    with core.Lock():
        facts = core.run_gofacts()
        fact_bad = core.check_facts(facts, prop.facts)
        for b in fact_bad:
            problems.append("fact: " + b)
        for t in facts.get("translated", []):
            if t.get("Err"):
                log(f"[{pid}] translator: {t['Name']}: {t['Err']}")
        ok, out, dt = core.lake_build(prop.modules + ["hsmodel"])
        log(f"[{pid}] lake build {' '.join(prop.modules)} hsmodel: {'ok' if ok else 'FAILED'} ({dt:.1f}s)")
        build_log = out
        names = []
        for m in prop.modules:
            names += core.theorem_names(m)
        discharged = 0
        axioms_used = set()
        per_thm = {}
        if ok:
            res, aout = core.audit(prop.modules, pid)
            for n in names:
                ax = res.get(n)
                per_thm[n] = ax
                if ax is None:
                    problems.append(f"theorem {n}: no axiom report")
                elif not set(ax) <= core.ALLOWED_AXIOMS:
                    problems.append(f"theorem {n}: depends on {sorted(set(ax) - core.ALLOWED_AXIOMS)}")
                else:
                    discharged += 1
                    axioms_used |= set(ax)
        else:
            # which theorems failed: report the first error lines
            errs = [l for l in out.splitlines() if "error" in l][:8]
            problems.append("lake build failed: " + " | ".join(errs))
        gate = core.grep_gate()
        for g in gate:
            problems.append("grep gate: " + g)
        if tier == "thorough" and ok:
            r = core.run(["lake", "env", "leanchecker"] + prop.modules, cwd=core.LEAN)
            cov["leanchecker"] = "ok" if r.returncode == 0 else "FAILED"
            if r.returncode != 0:
                problems.append("leanchecker: " + r.stdout[-300:])
        gok, gout, gdt, impl_bin = core.build_driver()
        log(f"[{pid}] go build hsdriver ({core.REPO}): {'ok' if gok else 'FAILED'} ({gdt:.1f}s)")
        if not gok:
            log(gout)
            problems.append("harness does not build against the working tree: " + gout.strip().splitlines()[-1][:300])
        # private copies so that a concurrent ./check rebuilding the binaries cannot disturb this run
        priv = os.path.join(core.BUILD, f"run-{pid}-{os.getpid()}")
        os.makedirs(priv, exist_ok=True)
        import shutil
        model_bin = os.path.join(priv, "hsmodel")
        shutil.copy(os.path.join(core.LEAN, ".lake", "build", "bin", "hsmodel"), model_bin) if ok or os.path.exists(os.path.join(core.LEAN, ".lake", "build", "bin", "hsmodel")) else None
        if gok:
            shutil.copy(impl_bin, os.path.join(priv, "hsdriver"))
        impl_bin = os.path.join(priv, "hsdriver")
    try:
        return _run_scripts(prop, tier, seed, rng, replay, problems, ev, cov, names, discharged, axioms_used,
                            per_thm, model_bin, impl_bin, gok, t0)
    finally:
        import shutil
        shutil.rmtree(priv, ignore_errors=True)


def _run_scripts(prop, tier, seed, rng, replay, problems, ev, cov, names, discharged, axioms_used, per_thm,
                 model_bin, impl_bin, gok, t0):
    pid = prop.pid
    known = [k for k in load_known() if k.get("property") == pid and k.get("status", "known") == "known"]
    violations = []     # (family, lines, model_out, impl_out, oracle_out, note)
    known_hits = {}
    cert_choice = [0]   # scripts whose answers differ only by the choice among equivalent high QCs
    transients = []
    disagreements = []
    evaluations = 0
    nontrivial = set()
    traces = 0
    dist = {}
    samples = []
    exhaustive = True if prop.families else False
    fam_stats = {}
    for fam in prop.families:
        if not gok:
            break
        if replay:
            rfam, rlines = parse_replay(replay)
            if rfam != fam.name:
                continue
            named = [("replay", rlines)]
        else:
            named = fam.corpus() + list(fam.generate(tier, rng))
        if not named:
            continue
        if not fam.exhaustive(tier):
            exhaustive = False
        scripts = [l for _, l in named]
        f0 = time.time()
        mo, me = core.run_driver(model_bin, fam.name, scripts, fam.timeout)
        io, ie = core.run_driver(impl_bin, fam.name, scripts, fam.timeout)
        for outs, b in ((mo, model_bin), (io, impl_bin)):
            died = 0
            for k, o in enumerate(outs):
                if o is None:
                    if died >= 6:
                        # a driver that hangs or dies on script after script (a change that deadlocks the code under
                        # test): the first few are re-run alone to find the scripts at fault, the rest are not waited for
                        outs[k] = ["<process-died>"]
                        continue
                    o1, err = core.run_driver(b, fam.name, [scripts[k]], 60)
                    if o1[0] is None:
                        died += 1
                    outs[k] = o1[0] if o1[0] is not None else ["<process-died>"]
        oo = run_oracle_bin(model_bin, fam, scripts, io)
        nfam = 0
        for k, (nm, lines) in enumerate(named):
            evaluations += len(lines)
            traces += 1
            for h in fam.nontrivial_keys(lines, io[k]):
                if h not in nontrivial:
                    nontrivial.add(h)
                    nfam += 1
            for t, c in fam.tags(lines, io[k]).items():
                dist[fam.name + ":" + t] = dist.get(fam.name + ":" + t, 0) + c
            d = core.first_diff(mo[k], io[k])
            if d and core.modulo_certificate_choice(lines, mo[k], io[k]):
                d = None
                cert_choice[0] += 1
            ofail = None
            if oo[k] is not None:
                for i, o in enumerate(oo[k]):
                    if o != "pass" and o != "#":
                        ofail = (i, o)
                        break
            if ofail:
                sig = ofail[1].split()[1] if len(ofail[1].split()) > 1 else ofail[1]
                kf = next((x for x in known if x.get("signature") == sig), None)
                if kf:
                    known_hits.setdefault(sig, (kf, fam, lines, mo[k], io[k], oo[k]))
                else:
                    violations.append((fam, lines, mo[k], io[k], oo[k], f"oracle: {ofail[1]} at line {ofail[0] + 1} ({nm})"))
            if d:
                disagreements.append((fam, lines, mo[k], io[k], oo[k], f"model/impl differ at line {d[0] + 1}: model={d[1]!r} impl={d[2]!r} ({nm})"))
        # A failure must reproduce when the script is run on its own in fresh driver processes;
        # one that never does (3 attempts) is recorded as a transient, not reported as a violation:
        # a replay that does not replay helps nobody.  (Seen twice under heavy machine load with the
        # BLS scheme: an honest QC rejected once in ~600k operations; never reproduced.)
        def reproduces(lines):
            if os.environ.get('VERIF_NO_CONFIRM'):
                return True
            for _ in range(3):
                m1, _ = core.run_driver(model_bin, fam.name, [lines], 300)
                i1, _ = core.run_driver(impl_bin, fam.name, [lines], 300)
                if m1[0] is None or i1[0] is None:
                    return True
                if core.first_diff(m1[0], i1[0]) and not core.modulo_certificate_choice(lines, m1[0], i1[0]):
                    return True
                if fam.oracle:
                    o1 = run_oracle_bin(model_bin, fam, [lines], [i1[0]])[0]
                    if o1 is None or any(x != "pass" and x != "#" for x in o1):
                        return True
            return False
        # An ORACLE failure is a fact about an execution of the real code that did happen (the replay file
        # carries the implementation's answers): it stays a violation even when it does not repeat — the
        # defects behind 7d9bd97 and 28593c9 showed up in one run out of many.  Only a bare model/implementation
        # difference that never repeats is set aside as a transient.
        def oracle_alone(ent):
            # the oracle keeps part of its state by running the model on the script: its verdict is a fact about
            # the implementation only while model and implementation have agreed up to the failing line
            d = core.first_diff(ent[2], ent[3])
            m_ = re.search(r" at line (\d+) ", ent[5])
            return d is None or (m_ is not None and d[0] + 1 > int(m_.group(1)))
        for lst, sticky in ((violations, True), (disagreements, False)):
            keep = []
            for ent in lst:
                if ent[0] is fam and len([e for e in keep if e[0] is fam]) < 12 and not reproduces(ent[1]):
                    if sticky and oracle_alone(ent):
                        keep.append(ent[:5] + (ent[5] + " [observed in this run; did not repeat in 3 fresh runs of the script: schedule- or value-dependent]",))
                    else:
                        transients.append({"family": fam.name, "note": ent[5], "script": ent[1][:60]})
                else:
                    keep.append(ent)
            lst[:] = keep
        for sig in [s_ for s_, v in known_hits.items() if v[1] is fam]:
            pass
        if len(samples) < 6 and named:
            nm, lines = named[min(len(named) - 1, len(fam.corpus()))]
            samples.append({"family": fam.name, "script": nm, "ops": lines[:12], "impl": io[min(len(named) - 1, len(fam.corpus()))][:12]})
        fam_stats[fam.name] = {"scripts": len(named), "ops": sum(len(l) for l in scripts), "distinct_nontrivial": nfam,
                               "wall_s": round(time.time() - f0, 2)}
        log(f"[{pid}] family {fam.name}: {len(named)} scripts, {sum(len(l) for l in scripts)} ops, "
            f"{nfam} non-trivial, {sum(1 for x in disagreements if x[0] is fam)} disagreements ({time.time() - f0:.1f}s)")

    # ---- decide
    out_lines = []
    exit_code = 0
    for sig, (kf, fam, lines, m, i, o) in sorted(known_hits.items()):
        out_lines.append(f"KNOWN-FINDING: property={pid} {kf.get('what', sig)}")
    for tr in transients:
        out_lines.append(f"TRANSIENT property={pid} family={tr['family']} not reproduced in 3 fresh runs: {tr['note'][:300]}")
    reported = []
    if violations:
        # concrete failing inputs, shrunk
        seen = set()
        for fam, lines, m, i, o, note in violations[:50]:
            sig = note.split()[2] if len(note.split()) > 2 else note
            if sig in seen:
                continue
            seen.add(sig)
            if "did not repeat in 3 fresh runs" in note:
                # keep the answers of the run in which it happened: a fresh run would not show it
                small, sm, si, so = lines, m, i, o
            else:
                small, sm, si, so = shrink(model_bin, impl_bin, fam, lines, mode="oracle", sig=sig)
            path = write_replay(pid, fam.name, small, sm, si, so, note)
            reported.append(path)
            out_lines.append(f"VIOLATION property={pid} replay={path}")
        exit_code = 1
    elif disagreements or problems:
        # the property is no longer shown to hold; no failing input was found by the oracle on any trace
        if disagreements:
            fam, lines, m, i, o, note = disagreements[0]
            small, sm, si, so = shrink(model_bin, impl_bin, fam, lines, mode="diff")
            d = core.first_diff(sm, si)
            note2 = note if not d else f"model/impl differ at line {d[0] + 1}: model={d[1]!r} impl={d[2]!r}"
            path = write_replay(pid, fam.name, small, sm, si, so,
                                "correspondence broken (no input on which the property itself fails was found): " + note2
                                + (" ; also: " + "; ".join(problems) if problems else ""))
        else:
            os.makedirs(os.path.join(core.VERIF, "replays"), exist_ok=True)
            path = os.path.join(core.VERIF, "replays", f"{pid}-obligation-{core.script_hash(problems)}.txt")
            with open(path, "w") as f:
                f.write(f"# property={pid}\n# proof obligation / tie that no longer checks; no failing input found\n")
                for p in problems:
                    f.write(p + "\n")
        reported.append(path)
        out_lines.append(f"VIOLATION property={pid} replay={path} no-failing-input-found")
        exit_code = 1

    cov.update({
        "obligations": len(names), "discharged": discharged,
        "checker_cmd": f"cd lean/HsVerif && lake build {' '.join(prop.modules)} && lake env lean build/Audit_{pid}.lean (#print axioms per theorem)"
                       + (" && lake env leanchecker " + " ".join(prop.modules) if tier == "thorough" else ""),
        "trusted_base": ["Lean 4.33.0 kernel", "axioms used: " + (", ".join(sorted(axioms_used)) or "none")] + prop.trusted,
        "theorems": per_thm,
        "evaluations": evaluations, "distinct_nontrivial": len(nontrivial),
        "traces_validated_against_impl": traces,
        "disagreements": len(disagreements),
        "rule": "scripts = corpus + small-scope exhaustive + seeded random per family; non-trivial = reached the family-specific interesting state (see vlib/fam_*.py); distinct by script hash",
        "families": fam_stats, "distribution": dist, "samples": samples or [{"obligations": names[:5]}],
        "exhaustive": bool(exhaustive),
        "broken_ties": problems,
        "known_findings_reproduced": sorted(known_hits),
        "transients_not_reproduced": transients,
        "equal_up_to_choice_among_equivalent_high_qcs": cert_choice[0],
    })
    ev["coverage"] = cov
    ev["assumptions"] = prop.assumptions + ([f"partial: {prop.partial}"] if prop.partial else [])
    ev["wall_s"] = round(time.time() - t0, 2)
    ev["violations"] = len(reported)
    if not replay:
        # evidence/ describes /repo; a run against another tree (VERIF_REPO, seeded changes) reports elsewhere
        evdir = os.path.join(core.VERIF, "evidence") if "VERIF_REPO" not in os.environ else os.path.join(core.BUILD, "evidence-other-tree")
        os.makedirs(evdir, exist_ok=True)
        json.dump(ev, open(os.path.join(evdir, pid + ".json"), "w"), indent=1)
    for l in out_lines:
        print(l)
    if exit_code == 0:
        print(f"OK property={pid} tier={tier} seed={seed} obligations={discharged}/{len(names)} "
              f"scripts={traces} ops={evaluations} nontrivial={len(nontrivial)} wall={time.time() - t0:.1f}s")
    return exit_code


def run_oracle_bin(model_bin, fam, scripts, impl_outs):
    if not fam.oracle:
        return [None] * len(scripts)
    osc = [oracle_lines(s, o) for s, o in zip(scripts, impl_outs)]
    outs, _ = core.run_driver(model_bin, fam.oracle, osc, fam.timeout)
    return [o if o is not None else ["fail oracle-died"] for o in outs]


def shrink(model_bin, impl_bin, fam, lines, mode, sig=None):
    def outs(ls):
        m, _ = core.run_driver(model_bin, fam.name, [ls], 60)
        i, _ = core.run_driver(impl_bin, fam.name, [ls], 60)
        m0 = m[0] if m[0] is not None else ["<process-died>"]
        i0 = i[0] if i[0] is not None else ["<process-died>"]
        o0 = run_oracle_bin(model_bin, fam, [ls], [i0])[0]
        return m0, i0, o0

    if mode == "oracle" and not getattr(fam, "shrink_oracle_failures", True):
        # the oracle's verdict depends on a premise the script establishes as a whole (e.g. "everything
        # the members sent was delivered"): dropping lines would fake a failure; keep the script whole
        m0, i0, o0 = outs(lines)
        return lines, m0, i0, o0

    def pred(ls):
        m0, i0, o0 = outs(ls)
        if mode == "diff":
            return core.first_diff(m0, i0) is not None
        if o0 is None:
            return False
        return any(o not in ("pass", "#") and (sig is None or sig in o) for o in o0)

    try:
        small = core.ddmin(lines, pred, keep_prefix=fam.header, budget=120) if len(lines) > fam.header + 1 else lines
        if not pred(small):
            small = lines
    except Exception as e:  # shrinking is best-effort
        log("shrink failed:", e)
        small = lines
    m0, i0, o0 = outs(small)
    return small, m0, i0, o0
