"""Scripts for the `wire` family (C12): protocol objects through ToProto -> real protobuf -> FromProto."""
from .runner import Family
from .fam_cert import quorum

EXTREME_VIEWS = [0, 1, 2, 255, 256, 65535, 2**31 - 1, 2**31, 2**32 - 1, 2**32, 2**32 + 1, 2**53, 2**63 - 1, 2**63, 2**64 - 1]
EXTREME_TS = ["0.0", "1.0", "-1.0", "1700000000.123456789", "-5.999999999", "253402300799.999999999", "-62135596800.0",
              "9223372036.854775807", "-9223372037.0", "4102444800.1", "1.999999999",
              # outside what timestamppb calls valid (before year 1, after year 9999): still a time.Time the sender hashed
              "253402300800.0", "1099511627776.000000005", "-62135596801.0", "-62135596800.000000001"]


class WireFam(Family):
    name = "wire"
    oracle = "wire.oracle"
    header = 1
    timeout = 1500

    def script(self, rng, scheme, n, agg):
        L = [f"cfg {scheme} {n} cache={rng.choice([0, 0, 3])} agg={agg}"]
        q = quorum(n)
        R = lambda: rng.randrange(1, n + 1)
        ids = list(range(1, n + 1))
        prevb, prevqc, v = "G", "genesis", 0
        blocks = []
        qcs = ["genesis"]
        twins = []
        for k in range(1, rng.randrange(2, 5)):
            if v >= 2**64 - 1:
                break   # block views strictly increase (two certified blocks of one view never exist honestly)
            nv = rng.choice(EXTREME_VIEWS[1:]) if rng.random() < 0.35 else v + rng.choice([1, 1, 2, 7])
            v = min(nv, 2**64 - 1) if nv > v else v + 1
            b = f"B{k}"
            p = R() if rng.random() < 0.8 else rng.choice([0, 2**32 - 1, n + 1])
            L.append(f"wblock {b} parent={prevb} view={v} proposer={p} qc={prevqc} cmds={rng.choice([0, 0, 1, 2, 5])} ts={rng.choice(EXTREME_TS)}")
            blocks.append((b, p))
            rng.shuffle(ids)
            signers = ids[:rng.choice([1, q, q, n])]
            for i in signers:
                L.append(f"create-pc {i} {b} p{k}_{i}")
                L.append(f"rt pc p{k}_{i} hash={rng.choice([b, b, 'G', 'unk:x'])} at={R()}")
                if rng.random() < 0.4:
                    L.append(f"rt sig p{k}_{i} msg=blk:{b} at={R()}")
            if len(signers) >= 2:
                L.append(f"create-qc {R()} Q{k} {b} " + " ".join(f"p{k}_{i}" for i in signers))
            else:
                L.append(f"qc Q{k} sig=p{k}_{signers[0]} view={v} hash={b}")
            L.append(f"rt qc Q{k} at={R()}")
            qcs.append(f"Q{k}")
            if len(signers) >= 3 and rng.random() < 0.6:
                # a second certificate for the SAME block from other votes: two replicas may attest different QCs of one
                # block in one aggregate QC, and each must come back as it was sent (C12-r6m1)
                L.append(f"create-qc {R()} Q{k}x {b} " + " ".join(f"p{k}_{i}" for i in signers[1:]))
                L.append(f"rt qc Q{k}x at={R()}")
                qcs.append(f"Q{k}x")
                twins.append((f"Q{k}", f"Q{k}x"))
            L.append(f"rt block {b}")
            L.append(f"rt prop {b} from={p}")
            if rng.random() < 0.4:
                L.append(f"rt prop {b} from={rng.choice([x for x in range(1, n + 2)])}")
            L.append(f"fetch {R()} {b}")
            prevb, prevqc = b, f"Q{k}"
        # relabelled / mutated QCs survive the wire unchanged as well (same verdict both sides)
        L.append(f"qc QX sig={prevqc}.sig view={rng.choice(EXTREME_VIEWS)} hash={rng.choice([prevb, 'G', 'unk:h'])}" if not prevqc.startswith("genesis") and len(L) and any(l.startswith(f"create-qc") and f" {prevqc} " in l for l in L) else "qc QX sig=nil view=3 hash=unk:h")
        L.append("rt qc QX")
        L.append("rt qc genesis")
        # timeouts, TCs, AggQCs, sync infos
        tv = rng.choice(EXTREME_VIEWS[1:]) if rng.random() < 0.4 else min(v + 1, 2**64 - 1)
        rng.shuffle(ids)
        use = ids[:rng.choice([1, q, n])]
        att = {i: rng.choice(qcs) for i in use}
        if twins and len(use) >= 2:
            a, b2 = rng.choice(twins)
            att[use[0]], att[use[1]] = a, b2
        for i in use:
            L.append(f"sign {i} view:{tv} v{i}")
            L.append(f"sign {i} tmo:{i}:{tv}:{att[i]} m{i}")
            ms = f"m{i}" if rng.random() < 0.8 else "nil"
            L.append(f"timeout t{i} id={i} view={tv} viewsig=v{i} msgsig={ms} qc={att[i] if rng.random() < 0.9 else '-'}")
            L.append(f"rt tmo t{i} from={i}")
            if rng.random() < 0.3:
                L.append(f"rt tmo t{i} from={rng.randrange(0, n + 2)}")
        if len(use) >= 2:
            L.append(f"create-tc {R()} T {tv} " + " ".join(f"t{i}" for i in use))
            L.append(f"combine {R()} mm " + " ".join(f"m{i}" for i in use))
            L.append(f"agg A sig=mm view={tv} qcs=" + ",".join(f"{i}:{att[i]}" for i in use))
        else:
            L.append(f"tc T sig=v{use[0]} view={tv}")
            L.append(f"agg A sig=m{use[0]} view={tv} qcs={use[0]}:{att[use[0]]}")
        L.append(f"rt tc T at={R()}")
        L.append(f"rt agg A at={R()}")
        L.append(f"tc T0 sig=nil view=0")
        L.append(f"rt tc T0")
        for k in range(3):
            L.append(f"si S{k} qc={rng.choice(qcs + ['-'])} tc={rng.choice(['T', 'T0', '-'])} agg={rng.choice(['A', '-'])}")
            L.append(f"rt si S{k}")
        L.append(f"rt prop {blocks[-1][0]} from={blocks[-1][1]} agg=A")
        # an aggregate QC whose QC map is empty is still an aggregate QC (present, with view and signature)
        L.append(f"agg AE sig={'mm' if len(use) >= 2 else 'm%d' % use[0]} view={tv} qcs=-")
        L.append(f"rt agg AE at={R()}")
        L.append(f"rt prop {blocks[-1][0]} from={blocks[-1][1]} agg=AE")
        L.append("agg AN sig=nil view=0 qcs=-")
        L.append(f"rt prop {blocks[0][0]} from={blocks[0][1]} agg=AN")
        return L

    def generate(self, tier, rng):
        quick = tier == "quick"
        for scheme, count in (("ecdsa", 120 if quick else 4000), ("eddsa", 120 if quick else 4000), ("bls12", 50 if quick else 1500)):
            for k in range(count):
                n = rng.choice([1, 2, 3, 4, 4, 7, 7, 9, 10, 13, 16, 17])
                yield (f"wire-{scheme}-n{n}-{k}", self.script(rng, scheme, n, rng.choice([0, 1])))

    def nontrivial_keys(self, lines, impl_out):
        from . import core
        return [core.script_hash([l]) + o[:0] for l, o in zip(lines, impl_out) if l.startswith("rt ") and "|" in o] or []

    def tags(self, lines, impl_out):
        t = super().tags(lines, impl_out)
        for l, o in zip(lines, impl_out):
            if l.startswith("rt "):
                k = "rt:" + l.split()[1] + (":DIFF" if "DIFF" in o else "")
                t[k] = t.get(k, 0) + 1
        return t
