from .runner import Property
from .fam_replica import ReplicaFam
from .fam_cert import CertFam
from .fam_kauri import KauriFam
from .prop_C03 import REPLICA_TRUST

PROP = Property(
    "C10", ["HsVerif.Props.C10", "HsVerif.Props.C10Inert"], [ReplicaFam("c10"), CertFam("c10"), KauriFam()],
    facts=[
        {"func": "server/server.go:serviceImpl.Propose", "order": ["PeerIDFromContext", "GetBlock", "ProposalFromProto", "AddEvent"]},
        {"func": "server/server.go:serviceImpl.Vote", "order": ["PeerIDFromContext", "AddEvent"]},
        {"func": "server/server.go:serviceImpl.NewView", "order": ["PeerIDFromContext", "AddEvent"]},
        {"func": "server/server.go:serviceImpl.Timeout", "order": ["PeerIDFromContext", "TimeoutMsgFromProto", "AddEvent"]},
        {"func": "security/cert/auth.go:Authority.VerifyTimeoutCert", "order": ["Signature", "QuorumSize", "Verify"]},
        {"func": "security/cert/auth.go:Authority.VerifyAnyQC", "order": ["Sig", "VerifyAggregateQC"]},
        {"func": "protocol/synchronizer/timeoutrule_aggregate.go:Aggregate.VerifySyncInfo", "order": ["AggQC", "Sig", "VerifyAggregateQC"]},
        {"func": "security/cert/cache.go:Cache.Verify", "order": ["Sum256", "cacheKey"]},
        {"func": "protocol/votingmachine/votingmachine.go:VotingMachine.CollectVote", "order": ["Signature", "Len", "LocalGet"]},
    ],
    trusted=REPLICA_TRUST + ["gorums delivers a decoded message to the handler and does not recover handler panics (checked by reading gorums v0.10.0 server.go); gRPC peer identity comes from connection metadata / TLS"],
    assumptions=["the Kauri service (tree contributions) is not driven through its handler here; its message shape is a signature and a view, covered at the certificate level by C02/C09"],
    partial=None,
)

META = {
    "text": "Proof: no_panic — in the replica model no delivered event (arbitrary proposal, vote, timeout, new-view content, local timeout), in any state, leads to the model's panic; the only panicking operation left after the fix: commits is VerifyAggregateQC on an aggregate QC without signature (an existing repository test demands it) and both call sites are proved guarded. state_moves_on_evidence: every signed vote and every view change carries a verified certificate (C03, C07). inert_input_changes_nothing (Props/C10Inert): for one delivered proposal, vote, timeout or new-view in which nothing verifies — the block's QC and aggregate QC, the vote's signature (for ANY signer: the voting machine credits a vote to its signer, not to its sender — relayed_vote_counts), the timeout's view signature and every certificate of a sync info fail against the replica's signature table whatever blocks it can fetch — delivered to a replica with an empty event queue and no deferred events in a view >= 1, the protocol state (view, high QC, high TC, lock, committed block, vote history, last voted view, last timeout, last proposed view) is unchanged and NO effect is produced (nothing signed, nothing sent, no view change, no commit); inert_input_strong / inert_input_then_deferred: the same for the weaker 'the first check fails' and with deferred events present (the step then equals processing the re-queued deferred events alone). view_zero_counterexample shows why the view must be >= 1 (views start at 1). Tie (this is where the Go-level nil dereferences live): messages are converted with ToProto, optional fields are REMOVED on the protobuf message (every optional part of proposals, votes, timeouts, new-views: block, QC, signature, hash, parent, commands, timestamp, aggregate QC, sync info, TC, peer id), sent through the real proto.Marshal/Unmarshal and the REAL gorums service handlers (serviceImpl.Propose/Vote/NewView/Timeout, reached through an overlay export) of a running replica in varied states, under recover; the model predicts every answer (panic or effects + state dump), an oracle flags any panic and any state change / effect on inputs in which nothing verifies. Three schemes, cache on and off, three rulesets. BLS signatures whose bytes do not decode (cut short on the wire, trunc=) go the same way. The certificate family of C02 runs here too: certificates with mutually inconsistent fields (duplicate signers, participant counts that disagree with the QC map, unsigned genesis QC against its twin with a present-but-empty signature, nil signatures) through VerifyQuorumCert / VerifyTimeoutCert / VerifyAggregateQC / VerifyAnyQC of the real Authority.",
    "note": "Trusted: as C03; protobuf; gorums handler plumbing. Seven panics on absent fields were found this way on the original tree and fixed (three fix: commits); the model describes the repaired code.",
    "technique": "Lean 4 proof of panic-freedom of the handler model (mvcgen) + structure-directed wire fuzzing through the real handlers, differential against the model",
}
