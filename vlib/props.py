"""Registry: property id -> Property. Every vlib/prop_Cxx.py defines PROP (runner.Property) and META
(dict with text / note / technique for MANIFEST.json); they are discovered automatically."""
import importlib, os, pkgutil

PROPS = {}
META = {}
NOT_YET = {}
for m in sorted(pkgutil.iter_modules([os.path.dirname(__file__)]), key=lambda x: x.name):
    if m.name.startswith("prop_C"):
        mod = importlib.import_module("vlib." + m.name)
        PROPS[mod.PROP.pid] = mod.PROP
        META[mod.PROP.pid] = mod.META
