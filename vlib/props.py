"""Registry: property id -> Property (Lean obligations, families, fact expectations, trusted base)."""
from .runner import Property
from .fam_quorum import QuorumFam
from .fam_idset import IdsetFam

COMMON_TRUST = [
    "tie model<->code: differential correspondence hsdriver (real Go, built from /repo working tree with -overlay) vs hsmodel (Lean model compiled) on identical scripts",
    "tools/gofacts translator + fact extractor (go/ast)",
    "Go toolchain, go build -overlay",
]

QUORUM_SITES = [
    {"func": "core/replica.go:RuntimeConfig.QuorumSize", "contains": ["ReplicaCount", "QuorumSize"]},
    {"func": "security/cert/auth.go:Authority.VerifyQuorumCert", "contains": ["QuorumSize"]},
    {"func": "security/cert/auth.go:Authority.VerifyTimeoutCert", "contains": ["QuorumSize"]},
    {"func": "security/cert/auth.go:Authority.VerifyAggregateQC", "contains": ["QuorumSize"]},
    {"func": "protocol/synchronizer/timeout_collector.go:timeoutCollector.add", "contains": ["QuorumSize"]},
    {"func": "protocol/votingmachine/votingmachine.go:VotingMachine.verifyCert", "contains": ["QuorumSize"]},
    {"func": "protocol/comm/kauri.go:Kauri.mergeContribution", "contains": ["QuorumSize"]},
]

PROPS = {}


def reg(p):
    PROPS[p.pid] = p


reg(Property(
    "C20", ["HsVerif.Props.C20"], [QuorumFam()],
    facts=QUORUM_SITES,
    trusted=COMMON_TRUST + ["float64 arithmetic of math.Ceil for n+f+1 < 2^53 (translated as (E+1)/2; boundary inputs exercised)"],
    assumptions=["n = len(replicas) is a natural number; Go int does not overflow (n < 2^62)"],
))

reg(Property(
    "C19", ["HsVerif.Props.C19"], [IdsetFam()],
    facts=[
        {"func": "security/crypto/bitfield.go:Bitfield.Add", "order": ["index", "extend", "set"]},
        {"func": "security/crypto/bitfield.go:Bitfield.Contains", "order": ["index", "isSet"]},
        {"func": "security/crypto/bitfield.go:BitfieldFromBytes", "contains": ["ForEach"]},
        {"func": "security/crypto/ecdsa.go:ECDSA.Combine", "contains": ["Contains"]},
        {"func": "security/crypto/eddsa.go:EDDSA.Combine", "contains": ["Contains"]},
        {"func": "security/crypto/bls12.go:bls12Base.Combine", "contains": ["Contains", "Add"]},
    ],
    trusted=COMMON_TRUST + ["real ECDSA/EdDSA/BLS12-381 Sign used by the harness to obtain signatures whose participant sets are then compared"],
    assumptions=["ids >= 1 (id 0 panics in Go on a negative shift; outside the property, relevant to C10)",
                 "ids fit Go int; bytes are modelled as naturals"],
))

# ---- manifest texts --------------------------------------------------------------------------
META = {
    "C20": {
        "text": "Proof: intersection (2q-n >= f+1), availability (q <= n-f), minimality of q and maximality of f are Lean theorems for every n >= 1 (omega; no bound). The Go formula is regenerated into Lean by the gofacts translator on every run and bridged to the model by lemmas re-checked by lake build; additionally hotstuff.QuorumSize/NumFaulty/RuntimeConfig.QuorumSize are compared with the model and with an executable oracle of the property for every n in 1..1,000,000 and at the 2^24/2^31/2^53 float boundaries. 'Every component uses this threshold' is a syntactic fact (call to config.QuorumSize at each certificate site) re-extracted on every run.",
        "note": "Trusted: Lean kernel, propext/Quot.sound, gofacts translator (float Ceil idiom translated as (E+1)/2, exact below 2^53), Go int overflow not modelled.",
        "technique": "Lean 4 theorem (omega) + Go->Lean translation with bridging lemmas + exhaustive differential correspondence",
    },
}
META["C19"] = {
    "text": "Proof: for the bit-field model (Add/Contains/ForEach/RangeWhile/Len/BitfieldFromBytes/Bytes as coded) Lean theorems show, for every insertion sequence over ids >= 1 without upper bound and every byte string, that membership, cached size and ascending duplicate-free iteration equal the ideal set, that reconstruction keeps the bytes and yields exactly the set bits with len = popcount, and that a reachable set rebuilt from its bytes is the original. For signer lists, Combine (ECDSA/EdDSA list version and BLS bit-field version) succeeds exactly on >= 2 pairwise disjoint inputs and its result has no repeated signer, so Len counts distinct signers. index/id are regenerated from Go and bridged. The correspondence runs crypto.Bitfield and real Sign/Combine of all three schemes against the model and an ideal-set oracle: all byte strings <= 2 bytes, all insertion sequences <= 3 over a byte-boundary alphabet, random sequences over ids 1..300, all combinations of <= 3 single signatures plus nested aggregates.",
    "note": "Trusted: Lean kernel, propext/Quot.sound/Classical.choice, gofacts, correspondence harness. Wire-decoded signer lists are not produced by Sign/Combine and are covered by C02, not here.",
    "technique": "Lean 4 theorems (refinement of bit-field to ideal set; Nodup of combined signer lists) + translation of index/id + differential correspondence with ideal-set oracle",
}
NOT_YET = {}
