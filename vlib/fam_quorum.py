from .runner import Family


class QuorumFam(Family):
    name = "quorum"
    oracle = "quorum.oracle"

    def generate(self, tier, rng):
        top = 1_000_000
        yield ("exhaustive-1..%d" % top, [f"quorum {n}" for n in range(0, top + 1)])
        # float idiom boundaries: 2^24 (float32 would fail), 2^31, 2^53 region
        b = []
        for c in (2**24, 2**31, 2**32, 2**52, 2**53 - 2**51, 3 * 2**51 - 8):
            for d in range(-6, 7):
                if c + d > 0:
                    b.append(f"quorum {c + d}")
        yield ("float-boundaries", b)
        yield ("config-1..%d" % (300 if tier == "quick" else 3000),
               [f"cfgquorum {n}" for n in range(1, (300 if tier == "quick" else 3000) + 1)])
        yield ("random-large", [f"quorum {rng.randrange(1, 2**52)}" for _ in range(2000 if tier == "quick" else 200000)])

    def nontrivial_keys(self, lines, impl_out):
        # every distinct (op, n) with n >= 1 that produced a threshold is a case of its own
        return [l for l, o in zip(lines, impl_out) if (o.startswith("f=") or o.startswith("q=")) and not l.endswith(" 0")]

    def exhaustive(self, tier):
        return True
