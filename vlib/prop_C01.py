from .runner import Property
from .fam_cluster import ClusterFam
from .prop_C03 import REPLICA_TRUST

PROP = Property(
    "C01", ["HsVerif.Props.C01", "HsVerif.Props.C01Replica", "HsVerif.Props.C01Sys"], [ClusterFam("c01")],
    facts=[
        {"func": "protocol/rules/chainedhotstuff.go:ChainedHotStuff.VoteRule", "order": ["BlockHash", "QuorumCert", "Get", "BlockHash", "QuorumCert", "Get", "View", "View", "Extends"]},
        {"func": "protocol/rules/chainedhotstuff.go:ChainedHotStuff.CommitRule", "order": ["qcRef", "qcRef", "View", "View", "qcRef", "Parent", "Hash", "View", "View", "Parent", "Hash", "View", "View"]},
        {"func": "protocol/rules/simplehotstuff.go:SimpleHotStuff.VoteRule", "order": ["View", "Get", "BlockHash", "QuorumCert", "BlockHash", "QuorumCert", "Get", "View", "View"]},
        {"func": "protocol/consensus/voter.go:Voter.OnValidPropose", "order": ["TryCommit", "Vote", "Aggregate"]},
        {"func": "protocol/consensus/committer.go:Committer.commitInner", "order": ["View", "View", "Get", "Parent", "commitInner", "AddEvent", "AddEvent", "UpdateCommittedBlock"]},
    ],
    trusted=REPLICA_TRUST + [
        "cluster harness: several real replicas (each wired as twins/node.go wires a node) share one process and one crypto world; the network is the script (per-link FIFO queues pumped, dropped, or bypassed by crafted messages), block fetching is a per-replica switch plus explicit per-block fetchability",
        "script generator consults the Lean model interactively to aim Byzantine messages at the honest replicas' real state; the scripts themselves are then ordinary inputs to both drivers",
    ],
    assumptions=[
        "collision freedom of block hashes among honest votes (CF) is a hypothesis of the system-level theorems (in the model a hash is a field; a real hash determines the block)",
        "layer A (Lean): the voting discipline of honest replicas is a HYPOTHESIS of the safety theorem: one vote per view and parent certified/lower are proved of the replica model in C03 (votes_increasing, vote_wellformed); of the lock rule only 'the lock never moves to a lower view' is a Lean theorem of the replica model (lock_never_lowers); that a vote locks the grandparent and respects the current lock is checked on the implementation's own signing log by the cluster oracle (signature lock-rule) and is what the repaired VoteRule/CommitRule pair is modelled to do",
        "a certificate accepted by an honest replica implies a quorum of genuine votes (C02 soundness theorems) and honest signatures are unforgeable (symbolic crypto)",
        "at most numFaulty(n) replicas Byzantine",
    ],
    partial="Lean theorems cover chained and simplified HotStuff at the level of the abstract vote history (layer A) and the quorum arithmetic; the refinement from the replica model's state to that history (lock invariant) and from commit-rule blocks to whole commit logs (commitInner walking Parent links) is not proved in Lean but exercised by the cluster correspondence and judged by the ledger oracle; Fast-HotStuff has no Lean safety theorem (cluster correspondence + ledger oracle only)",
)

META = {
    "text": "Proof (layer A, unbounded in replicas, blocks, views, schedules): committed_blocks_on_one_branch — n >= 1 replicas, at most numFaulty(n) Byzantine, quorums of quorumSize(n) (intersection in an honest replica derived from C20's arithmetic by a counting lemma), honest replicas keeping the discipline (one vote per view; voted block's parent certified and lower; lock rule) => any two blocks meeting the commit condition b <- b' <- b'' (direct links, consecutive views, b'' certified) are on one branch; certified_extends_committed (every certified block at or above a committed block extends it); ledgers_prefix_related (two commit logs that are hash chains from genesis with increasing views and whose newest blocks meet the commit condition are prefix-related — the conclusion in the property's own terms); simple_rule_is_lock_rule (simplified HotStuff's vote condition is an instance). System level (Props/C01Sys, ECDSA/EdDSA): Model/Sys.lean composes any number of replica MODELS with one global signature table; the adversary delivers ANY event to any honest replica, sets what is fetchable, and forges signatures of Byzantine ids only; for every reachable system state honest_votes_unforgeable (a table entry of an honest id over a block message comes with that replica's vote record), honest_vote_discipline (every honest replica satisfies C03's invariant), one_certified_block_per_view (with at most numFaulty(n) Byzantine ids and collision-free hashes, two certified hashes of blocks of one view are equal), accepted_qc_certified (a QC the replica's verifier accepts is such a certified hash). Tie and search: the cluster family runs 3..7 REAL replicas in one process against the same number of model replicas, line by line, under adversarial scripts written with the model's help: partitions, per-link delay/reordering/loss, fetch failures, local timeouts, and up to f Byzantine ids whose keys sign equivocating proposals, forks from older certified blocks, votes for everything, timeouts for current and future views, certificates assembled from votes seen on the wire. Oracle on the implementation's answers: every replica's commit log is a hash chain from genesis, any two logs are prefix-related, and every vote obeys the lock rule relative to the replica's earlier votes. Found with it and repaired: a replica that could not fetch a proposal's grandparent voted without locking and later voted for a conflicting branch (n=7, 2 Byzantine: two honest replicas committed a block three others never commit; corpus/cluster/01).",
    "note": "Partial: the discipline hypotheses are proved of the replica model only in part (C03); lock invariant and log construction rest on the correspondence + oracles; no Lean safety theorem for Fast-HotStuff.",
    "technique": "Lean 4 safety theorem over abstract vote histories + quorum counting lemma; multi-replica differential correspondence (real cluster vs model cluster) under model-guided adversarial scripts; ledger and lock-rule oracle",
}
