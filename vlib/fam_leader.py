"""C16, stateless leader-rotation schemes (round-robin, fixed, tree root, factory by name)."""
from .runner import Family

EDGE_STARTS = [2**31 - 70, 2**32 - 70, 2**63 - 70, 2**64 - 140]


class LeaderFam(Family):
    name = "leader"
    oracle = "leader.oracle"

    def corpus(self):
        # comment lines document the hand-written scripts; they are not sent to the drivers
        return [(nm, [l for l in lines if not l.lstrip().startswith("#")]) for nm, lines in super().corpus()]

    def generate(self, tier, rng):
        quick = tier == "quick"
        top = 4096
        # (1) exhaustive: every view 0..4095 and windows of consecutive views around 2^31, 2^32, 2^63 and
        #     up to 2^64-1, for every cluster size 1..64; consecutive so that the oracle can check
        #     "one turn each in any n consecutive views" on every window
        for n in range(1, 65):
            lines = [f"rr {n} {v}" for v in range(top)]
            for s in EDGE_STARTS:
                lines += [f"rr {n} {v}" for v in range(s, s + 140)]
            yield (f"rr-exhaustive-n{n}", lines)
        yield ("rr-n0-outside", ["rr 0 0", "rr 0 5"])
        # (1b) one instance asked while the configuration is still being filled (k of n replicas known) and again when
        #      it is complete, against an instance built afterwards: no answer may be remembered (C16-r6m1)
        lines = []
        for n in range(1, 17 if quick else 65):
            for k in range(1, n + 1):
                for v in (0, 1, n - 1, n, 2 * n + 1, 4095):
                    lines.append(f"rrgrow {k} {n} {v % 7} {v}")
        yield ("rr-config-grows", lines)
        # (2) fixed leader, every id 0..65 (0 and 65 are not replicas of any generated cluster: the scheme
        #     returns what was configured) and the largest id
        lines = []
        for l in list(range(0, 66)) + [2**32 - 1]:
            for v in (0, 1, 2, 63, 64, 2**32, 2**64 - 1, rng.randrange(2**64)):
                lines.append(f"fixed {l} {v}")
        yield ("fixed", lines)
        # (3) tree leader without a tree, every n
        lines = []
        for n in range(1, 65):
            for v in (0, 1, n, n + 1, 2**64 - 1, rng.randrange(2**64)):
                lines.append(f"notree {n} {v}")
        yield ("notree", lines)
        # (4) tree root: identity, reversed, rotated and random position lists; all n; bf 2..5
        for n in range(1, 65):
            lines = []
            ident = list(range(1, n + 1))
            perms = [ident, ident[::-1], ident[n // 2:] + ident[:n // 2]]
            for _ in range(3 if quick else 12):
                p = ident[:]
                rng.shuffle(p)
                perms.append(p)
            for _ in range(2 if quick else 6):     # trees over a subset of the replicas
                p = rng.sample(ident, rng.randrange(1, n + 1))
                perms.append(p)
            for p in perms:
                for bf in (2, 3, 5) if quick else (2, 3, 4, 5, 8):
                    for v in (0, 1, n, 2**64 - 1, rng.randrange(2**64)):
                        lines.append("tree %d %d [%s] %d" % (n, bf, ",".join(map(str, p)), v))
            yield (f"tree-n{n}", lines)
        # small-scope exhaustive: every permutation of the positions for n <= 5 (n <= 6 thorough)
        import itertools
        lines = []
        for n in range(1, 6 if quick else 7):
            for p in itertools.permutations(range(1, n + 1)):
                for v in (0, 7):
                    lines.append("tree %d 2 [%s] %d" % (n, ",".join(map(str, p)), v))
        yield ("tree-all-permutations", lines)
        # (5) factory by name
        lines = []
        for name in ("-", "round-robin", "fixed", "tree-leader", "roundrobin", "Fixed", "nosuch"):
            for n in (1, 2, 3, 4, 7, 10, 31, 64):
                for v in (0, 1, n - 1, n, n + 1, 2**32 + 1, 2**64 - 1):
                    lines.append(f"factory {name} {n} {v}")
        yield ("factory", lines)
        # (6) random views over the whole uint64 range
        lines = []
        for _ in range(20000 if quick else 400000):
            n = rng.randrange(1, 65)
            v = rng.randrange(2**64) if rng.random() < 0.7 else rng.choice([2**k + d for k in (8, 16, 31, 32, 33, 53, 63) for d in (-1, 0, 1)])
            lines.append(f"rr {n} {v}")
        yield ("rr-random", lines)

    def nontrivial_keys(self, lines, impl_out):
        return [l for l, o in zip(lines, impl_out) if o.startswith("leaders=") or o.startswith("leader=") or o.startswith("first=")]

    def exhaustive(self, tier):
        return True
