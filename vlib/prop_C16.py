from .runner import Property
from .common import COMMON_TRUST
from .fam_leader import LeaderFam
from .fam_leadhist import LeadhistFam

LR = "protocol/leaderrotation/"

PROP = Property(
    "C16", ["HsVerif.Props.C16"], [LeaderFam(), LeadhistFam()],
    facts=[
        {"func": LR + "common.go:ChooseRoundRobin", "contains": ["ID", "View"]},
        {"func": LR + "roundrobin.go:RoundRobin.GetLeader", "order": ["ChooseRoundRobin"], "contains": ["ReplicaCount"]},
        {"func": LR + "treeleader.go:TreeBased.GetLeader", "contains": ["HasKauriTree", "Root", "Tree"]},
        {"func": LR + "factory.go:New", "contains": ["NewRoundRobin", "NewFixed", "NewTreeBased", "NewCarousel", "NewRepBased"]},
        {"func": LR + "carousel.go:Carousel.GetLeader",
         "order": ["CommittedBlock", "Signature", "ChooseRoundRobin", "View", "ChooseRoundRobin", "NumFaulty", "Proposer",
                   "Get", "Parent", "ForEach", "Participants", "Contains", "Sort", "SharedRandomSeed", "NewSource", "Int", "len"],
         "absent": ["Now", "Since", "Getenv", "Intn", "Shuffle"]},
        {"func": LR + "reputation.go:RepBased.GetLeader",
         "order": ["CommittedBlock", "View", "ReplicaCount", "Signature", "ChooseRoundRobin", "Participants", "Len",
                   "ForEach", "SortFunc", "NewChooser", "SharedRandomSeed", "NewSource", "PickSource"],
         "absent": ["Now", "Since", "Getenv", "Shuffle"]},
    ],
    trusted=COMMON_TRUST + [
        "math/rand as an oracle seed -> stream (its values are read from the real library on every run and written into the scripts; both sides must reproduce them)",
        "mroth/weightedrand v1.0.0 NewChooser/PickSource and Rand.Intn, modelled by their function for <= 12 choices (insertion-sort range of sort.Slice / slices.SortFunc); for more voters the order produced by the two library sorts is an oracle: the implementation's answer is accepted by the model iff it is a voter of weight >= 1 (or 0 when no weight is >= 1)",
        "IEEE-754 binary64 arithmetic: Lean Float and Go float64 perform the same operations in the same order (reputation.go); not reasoned about in any theorem",
        "SHA-256 injective (blocks are named by their hash); real ECDSA/EdDSA/BLS12-381 signatures are used to build the quorum certificates the rotation code reads",
    ],
    assumptions=[
        "cluster size n >= 1 (with n = 0 ChooseRoundRobin divides by zero); ids 1..n; views are uint64",
        "carousel totality/validity: the certificate embedded in the committed head has at least a quorum of pairwise distinct signers, all configured replicas (what C02's verifier must guarantee; on the unchanged tree a repeated-signer certificate verifies - DESIGN §6 defect 1 - and makes the carousel panic with a division by zero, corpus/leadhist/dup-signers-panic.ops)",
        "agreement is conditional, as in the property: same committed head, same block store along the committed chain, same seed, same query sequence",
        "a parent block that is neither stored nor fetchable ends the carousel's walk early (modelled; the oracle then only demands exclusion of the proposers the replica can know)",
    ],
    partial="reputation: determinism between independently built instances, totality (no panic), answer in {0} + voters, update-once and exact agreement with the float model for <= 12 voters are checked/proved; the float arithmetic and the library sorts for > 12 voters are not reasoned about in Lean (by design, DESIGN §5 C16)",
)

META = {
    "text": "Proof + correspondence. Lean theorems over a model that mirrors protocol/leaderrotation line by line: round-robin names a replica in 1..n for every view and n >= 1 and gives every replica exactly one turn in any n consecutive views (existence and uniqueness, no bound on n or the view); fixed and tree-root leaders are constant in the view, independent of the asking replica and members of the configuration; ChooseRoundRobin is re-translated from Go on every run and bridged. Carousel: start-up and fall-back are round-robin; an active carousel returns a signer of the committed head's embedded certificate that proposed none of the last f committed blocks (stated with an inductive 'last f committed blocks' predicate, not with the code's own walk); given >= quorum distinct signers the candidate list is non-empty (quorum > f), so no division by zero and, with configured signers, never an unknown replica; the answer reads the block store only along the committed chain; the counterexample without the distinct-signer hypothesis is proved by decide. Reputation: old views give 0, start-up is round-robin, otherwise the answer is 0 or a voter whatever order the library sorts produce; reputations are updated once per committed head; answers are a function of configuration, seed stream and the (head, view) query history. Correspondence: exhaustive views 0..4095 and windows up to 2^64-1 for every n in 1..64 (round-robin), every tree position permutation for n <= 5/6 plus random trees for all n, on two/three independently built instances; for carousel/reputation real blocks with real certificates (ECDSA, EdDSA, BLS) in real Blockchain/ViewStates objects on three independently built replica instances (two of them fed wire-decoded copies), exhaustive signer lists/orders/proposers for n=4 and signer sets/proposer pairs for n=7, random chains with forks, gaps, missing parents, extreme views and seeds, malformed certificates, long reputation histories; the math/rand stream is read from the library and fed to the model. An independent oracle re-judges every implementation answer (agreement, no panic, configured replica, signer, not a recent proposer, repeatability, one turn each).",
    "note": "Trusted: Lean kernel, propext/Quot.sound/Classical.choice, gofacts, correspondence harness, math/rand + weightedrand as oracles, IEEE doubles. Reputation is partial by design (determinism/totality/membership; floats and > 12-voter sort order not reasoned about). Carousel validity assumes C02's distinct-signer guarantee; the panic without it is reproduced on the real code (corpus/leadhist/dup-signers-panic.ops) and belongs to defect 1 (C02).",
    "technique": "Lean 4 theorems (arithmetic bijection, pigeonhole on distinct signers vs. f recent proposers, inductive recent-block spec) + translation of ChooseRoundRobin + differential correspondence on multi-instance real objects with library oracles harvested from the Go run + independent property oracle",
}
