"""Family `cmdcache` (C15): clientpb.CommandCache against Model/CmdCache.lean, ideal-queue oracle.

Vocabulary: see lean/HsVerif/HsVerif/Drv/CmdCache.lean.  Script sources
  * corpus/cmdcache/*.ops       hand-written interleavings (no comment lines: the oracle answers every line)
      01 hasFullBatch counts stale entries: token there, extraction finds one fresh command, the
         getter goes back to the select and is woken by the next Add
      02 two getters blocked, two adds in a row: the second signal is dropped (capacity 1), the
         first getter must re-signal for the second
      03 a burst fills several batches while nobody waits: one token for three batches
      04 token left by Add, everything marked afterwards: the getter eats the token, finds nothing,
         blocks with the stale entries still cached; later adds wake it each time
      05 cancelled context: token + full batch -> batch; token but no full batch -> token consumed,
         context error; no token -> context error
      06 the same (client, seq) added twice before it is marked: two accepted commands
      07 sequence number 0 is never accepted; marks out of order inside one Proposed batch; adds
         out of sequence order keep arrival order
      08 a cancelled getter does not take the token with it
      09 batch size 0 (outside the property, model still predicts the code), 2^32-1, extreme ids
      10 Proposed makes a cached command stale while a getter waits: woken, blocks again, woken again
      11 lines that are not operations
      12 concurrent producers/consumers
  * exhaustive small scopes     every word of exactly L operations over a small alphabet, for
                                batch sizes 1..3 (a word covers all its prefixes: one answer per line)
                                quick:    L=3 over 15 symbols (2 clients x 3 seq adds and marks, get, getc,
                                          cancel), L=5 over 8 symbols
                                thorough: L=4 over 15, L=5 over 8, L=6 over 8 (batch size 2) and over 6 (1, 3),
                                          L=7 over 5 (batch size 2)
  * seeded random               longer scripts, up to 4 clients, batch sizes 1..5, malformed lines
  * stress                      concurrent producers/consumers inside the Go driver
  * thorough only               the corpus, the stress lines and a sample of the random scripts are
                                also run through a `go build -race` driver (support, see META)
"""
import itertools, os
from . import core
from .runner import Family

A8 = ["add 1 1", "add 1 2", "add 2 1", "proposed 1:1", "proposed 2:1", "get", "getc", "cancel"]
A7 = ["add 1 1", "add 1 2", "add 2 1", "proposed 1:1", "get", "getc", "cancel"]
A6 = ["add 1 1", "add 1 2", "add 2 1", "proposed 1:1", "get", "cancel"]
A5 = ["add 1 1", "add 1 2", "proposed 1:1", "get", "cancel"]
A15 = ([f"add {c} {s}" for c in (1, 2) for s in (1, 2, 3)] + [f"proposed {c}:{s}" for c in (1, 2) for s in (1, 2, 3)]
       + ["get", "getc", "cancel"])
MALFORMED = ["add 1", "add x 1", "add 1 1 1", "proposed", "proposed 1", "proposed 1:1,", "get now", "cancel 0", "frob",
             "new x", "add 1_0 1", "add 4294967296 1", "add 1 18446744073709551616", "proposed 1:-1", "stress 0 1 1 1 0"]


class CmdCacheFam(Family):
    name = "cmdcache"
    oracle = "cmdcache.oracle"
    header = 1          # `new <bs>` stays when a script is shrunk
    timeout = 1500

    # ---------------------------------------------------------------- generators
    def _words(self, alpha, L, sizes):
        for bs in sizes:
            head = f"new {bs}"
            for w in itertools.product(alpha, repeat=L):
                yield ("ex-%d-%d-%d" % (len(alpha), L, bs), [head, *w, "dump"])

    def _random(self, rng, k):
        bs = rng.choice([1, 1, 2, 2, 2, 3, 3, 4, 5])
        nclients = rng.randrange(1, 5)
        nxt = {c: 1 for c in range(1, nclients + 1)}
        lines = [f"new {bs}"]
        n = rng.randrange(8, 70)
        pgetter = rng.choice([0.08, 0.2, 0.35])
        for _ in range(n):
            r = rng.random()
            c = rng.randrange(1, nclients + 1)
            if r < 0.5:
                if rng.random() < 0.72:
                    s = nxt[c]
                    nxt[c] += 1
                else:
                    s = rng.randrange(0, nxt[c] + 2)
                lines.append(f"add {c} {s}")
            elif r < 0.5 + pgetter:
                lines.append("get")
            elif r < 0.58 + pgetter:
                lines.append("getc")
            elif r < 0.66 + pgetter:
                lines.append("cancel")
            elif r < 0.80 + pgetter:
                m = rng.randrange(0, 4)
                b = ",".join(f"{rng.randrange(1, nclients + 1)}:{rng.randrange(0, max(nxt.values()) + 1)}" for _ in range(m)) or "-"
                lines.append(f"proposed {b}")
            elif r < 0.97:
                lines.append("dump")
            else:
                lines.append(rng.choice(MALFORMED))
        # drain: whatever is owed comes out, in order
        for _ in range(rng.randrange(0, 3)):
            lines.append("get")
        for j in range(rng.randrange(0, bs + 2)):
            c = rng.randrange(1, nclients + 1)
            lines.append(f"add {c} {nxt[c]}")
            nxt[c] += 1
        lines += ["get", "dump", "cancel", "cancel", "getc", "dump"]
        return ("random-%d" % k, lines)

    def _stress(self, rng, n, big):
        lines = []
        for _ in range(n):
            bs = rng.choice([1, 2, 3, 4, 7, 16])
            prod = rng.randrange(1, 9 if not big else 17)
            per = rng.randrange(1, 60 if not big else 800)
            cons = rng.randrange(1, 9 if not big else 17)
            lines.append(f"stress {bs} {prod} {per} {cons} {rng.randrange(2)}")
        return lines

    def generate(self, tier, rng):
        quick = tier == "quick"
        if quick:
            yield from self._words(A15, 3, (1, 2, 3))
            yield from self._words(A8, 5, (1, 2, 3))
            nrand, nstress = 2500, 12
        else:
            yield from self._words(A15, 4, (1, 2, 3))
            yield from self._words(A8, 5, (1, 2, 3))
            yield from self._words(A8, 6, (2,))
            yield from self._words(A6, 6, (1, 3))
            yield from self._words(A5, 7, (2,))
            nrand, nstress = 15000, 60
        rand = [self._random(rng, k) for k in range(nrand)]
        yield from rand
        stress = self._stress(rng, nstress, not quick)
        yield ("stress", stress)
        if not quick:
            yield ("race-run", [self._race_run([l for _, l in self.corpus()] + [stress] + [l for _, l in rand[:3000]])])

    # ---------------------------------------------------------------- -race support run (thorough)
    def _race_run(self, scripts):
        """Same scripts through a `go build -race` driver; compared with the model's answers.
        Returns the `racereport …` line that carries the outcome into the normal pipeline."""
        with core.Lock():
            ok, out, dt, race_bin = core.build_driver(race=True, out_name="hsdriver-race")
            if not ok:
                core.log("[C15] race build failed:\n" + out[-600:])
                return "racereport build-failed"
            priv = race_bin + ".%d" % os.getpid()
            import shutil
            shutil.copy(race_bin, priv)
        try:
            env = dict(os.environ, GORACE="halt_on_error=1 exitcode=66")
            io, err = core.run_driver(priv, self.name, scripts, self.timeout, env=env)
            model_bin = os.path.join(core.LEAN, ".lake", "build", "bin", "hsmodel")
            mo, _ = core.run_driver(model_bin, self.name, scripts, self.timeout)
            nops = sum(len(s) for s in scripts)
            if "DATA RACE" in (err or ""):
                core.log("[C15] race detector:\n" + err[:1500])
                return "racereport data-race-reported"
            for k, (a, b) in enumerate(zip(mo, io)):
                if b is None:
                    return "racereport driver-died-at-script-%d" % k
                d = core.first_diff(a, b)
                if d:
                    core.log(f"[C15] race build differs from model in script {k} line {d[0] + 1}: {d[1]!r} vs {d[2]!r}")
                    return "racereport differs-script-%d-line-%d" % (k, d[0] + 1)
            core.log(f"[C15] -race run: {len(scripts)} scripts, {nops} ops, clean")
            return "racereport clean scripts=%d ops=%d" % (len(scripts), nops)
        finally:
            try:
                os.remove(priv)
            except OSError:
                pass

    # ---------------------------------------------------------------- evidence
    def nontrivial_keys(self, lines, impl_out):
        """non-trivial = a batch came out (or a stress run completed); distinct by script"""
        if any(" out=" in o and " out=- " not in o for o in impl_out) or any(o.startswith("ok batches=") for o in impl_out):
            if lines and lines[0].startswith("stress"):
                return [l for l in lines]
            return [core.script_hash(lines)]
        return []

    def tags(self, lines, impl_out):
        t = {}

        def bump(k, n=1):
            t[k] = t.get(k, 0) + n
        prev_wait = 0
        prev_ready = 0
        marked = False
        for l, o in zip(lines, impl_out):
            w = l.split()
            if not w:
                continue
            bump("op:" + w[0])
            f = dict(x.split("=", 1) for x in o.split() if "=" in x)
            if o == "bad-op":
                bump("out:bad-op")
                continue
            if w[0] == "proposed":
                marked = True
            if w[0] == "new":
                marked = False
                bump("bs:" + w[1] if len(w) > 1 else "bs:?")
            nb = 0 if f.get("out", "-") == "-" else f["out"].count(";") + 1
            if nb:
                bump("batches", nb)
                if w[0] == "add":
                    bump("blocked-getter-woken-by-add")
                if marked:
                    bump("batch-after-marks")
            wait = int(f.get("wait", prev_wait)) if f.get("wait", "0").isdigit() else prev_wait
            if w[0] == "get" and nb == 0 and "wait" in f:
                bump("get-blocked")
                if prev_ready == 1:
                    bump("token-without-full-fresh-batch")
            if w[0] == "add" and prev_wait > 0 and nb == 0 and "len" in f and f["len"].isdigit() and f.get("ready") == "0" \
                    and int(f["len"]) >= 2 and wait == prev_wait:
                bump("add-with-getter-still-blocked")
            if w[0] == "getc":
                bump("getc:" + o.split()[0])
            if w[0] == "cancel":
                bump("cancel:" + o.split()[0])
            if w[0] == "stress":
                bump("stress:" + o.split()[0])
            prev_wait = wait
            prev_ready = 1 if f.get("ready") == "1" else 0
        return t
