"""queue family (C14): the unexported bounded ring buffer of core/eventloop/queue.go through the
overlay export, against the Lean ring-buffer model and the ideal-deque oracle."""
import itertools
from . import core
from .runner import Family


def word_script(cap, word):
    lines = [f"q.new {cap}"]
    n = 0
    for w in word:
        if w == 0:
            n += 1
            lines.append(f"q.push {n}")
        elif w == 1:
            lines.append("q.pop")
        else:
            lines.append("q.len")
    return lines


# what the hand-written scripts in corpus/queue/*.ops are for (the .ops format has no comment lines)
CORPUS_NOTES = {
    "wrap-then-overflow": "capacity 3: fill, pop one, refill so that tail wraps to index 0, overflow twice while wrapped",
    "capacity-two-report": "DESIGN 6 defect 9: a, b, then c on capacity 2 must report a (unchanged tree: b, which stays queued)",
    "head-at-last-index": "head = tail on the last slot, empty-and-refill resets to -1/-1, head wraps from last index to 0 on overflow",
    "capacity-one": "the only capacity the repository's own tests overflow",
}


class QueueFam(Family):
    name = "queue"
    oracle = "queue.oracle"
    header = 1

    def scope(self, tier):
        return (8, (1, 2, 3)) if tier == "quick" else (11, (1, 2, 3, 4))

    def generate(self, tier, rng):
        quick = tier == "quick"
        length, caps = self.scope(tier)
        # (1) exhaustive: every word over {push, pop, len} of the full length (all shorter words are prefixes)
        for cap in caps:
            for word in itertools.product((0, 1, 2), repeat=length):
                yield (f"exh-c{cap}-" + "".join("PoL"[w] for w in word), word_script(cap, word))
        # (2) seeded random long words: capacities up to 9, push-heavy phases to overflow, pop-heavy to drain/wrap
        for k in range(400 if quick else 6000):
            cap = rng.choice((1, 2, 3, 4, 5, 7, 9))
            word = []
            for _ in range(rng.randrange(2, 9)):
                bias = rng.choice((0.85, 0.6, 0.4, 0.15))
                for _ in range(rng.randrange(1, 4 * cap + 4)):
                    r = rng.random()
                    word.append(0 if r < bias else (2 if rng.random() < 0.2 else 1))
            word += [2] + [1] * (cap + 1) + [2]
            yield (f"rand-{k}-c{cap}", word_script(cap, word))
        # (3) malformed / out-of-model
        yield ("malformed", ["q.push 1", "q.pop", "q.new 0", "q.push 1", "q.new x", "q.new 2", "q.push", "q.push x", "q.pop 1",
                             "q.len 2", "q.frob", "q.push 1", "q.new 0", "q.len"])

    def nontrivial_keys(self, lines, impl_out):
        # interesting = an overflow happened, or the ring wrapped (more pushes than the capacity with pops in between)
        if any(o.startswith("dropped=") for o in impl_out):
            return [core.script_hash(lines)]
        if lines and lines[0].startswith("q.new "):
            try:
                cap = int(lines[0].split()[1])
            except ValueError:
                return []
            if sum(1 for l in lines if l.startswith("q.push")) > cap and any(l == "q.pop" for l in lines):
                return [core.script_hash(lines)]
        return []

    def exhaustive(self, tier):
        return True
