from .runner import Family


def cmd(c, q, d):
    return f"{c}/{q}/{d}"


DATA = ["61", "62", "6364", "-", "00ff10", "61" * 70]


class ClientIOFam(Family):
    name = "clientio"
    oracle = "clientio.oracle"
    header = 0
    timeout = 240       # the whole family runs in seconds; a driver that hangs (a deadlocked handler) is given up early

    def generate(self, tier, rng):
        quick = tier == "quick"
        # a replica that catches up commits many blocks in one TryCommit: three events per block go through the one
        # bounded event queue (capacities as wired in the repository: 100 in wiring/core.go and twins, 1000 in the worker)
        lines = [f"longcommit {c} {k}" for c in (100, 1000, 5) for k in (1, 3, 4, 5, 20, 34, 35, 36, 37, 40, 60, 120, 250)]
        lines += [f"longcommit {rng.choice((1, 2, 7, 10, 64, 100, 128, 1000))} {rng.randrange(1, 251)}" for _ in range(20 if quick else 400)]
        yield ("catch-up-commits", lines)
        for k in range(400 if quick else 12000):
            nclients = rng.choice([1, 2, 3])
            maxseq = rng.choice([2, 3, 6])
            datas = {}

            def mk():
                c, q = rng.randrange(1, nclients + 1), rng.randrange(0, maxseq + 1)
                if (c, q) not in datas or rng.random() < 0.05:      # same id, different payload: rare
                    datas[(c, q)] = rng.choice(DATA)
                return cmd(c, q, datas[(c, q)])

            lines = []
            pending = []       # commands submitted and not yet in a committed block
            for _ in range(rng.randrange(3, 30)):
                r = rng.random()
                if r < 0.45:
                    c = mk()
                    pending.append(c)
                    lines.append("register " + c)
                elif r < 0.85:
                    # a committed block: mostly pending commands (overlapping between "leaders":
                    # commands are not removed from pending every time), sometimes unknown ones
                    b = []
                    for _ in range(rng.randrange(0, 5)):
                        if pending and rng.random() < 0.8:
                            c = rng.choice(pending)
                            if rng.random() < 0.6:
                                pending.remove(c)
                        else:
                            c = mk()
                        b.append(c)
                    lines.append("exec " + (",".join(b) if b else "-"))
                else:
                    b = [rng.choice(pending) if pending and rng.random() < 0.8 else mk() for _ in range(rng.randrange(0, 4))]
                    lines.append("abort " + (",".join(b) if b else "-"))
            yield (f"rand-{k}", lines)

    def nontrivial_keys(self, lines, impl_out):
        from . import core
        kinds = {t for o in impl_out for t in (":ok", ":dup", ":forked") if t in o}
        return [core.script_hash(lines)] if len(kinds) >= 2 else []

    def tags(self, lines, impl_out):
        t = {}
        for l in lines:
            k = "op:" + l.split()[0]
            t[k] = t.get(k, 0) + 1
        for o in impl_out:
            for k in (":ok", ":dup", ":forked"):
                if o.count(k):
                    t["outcome" + k] = t.get("outcome" + k, 0) + o.count(k)
        return t
