from .runner import Property
from .fam_replica import ReplicaFam
from .fam_clientio import ClientIOFam
from .fam_cluster import ClusterFam
from .prop_C03 import REPLICA_TRUST

PROP = Property(
    "C06", ["HsVerif.Props.C06", "HsVerif.Props.C06Sys", "HsVerif.Props.C06Queue"], [ClientIOFam(), ReplicaFam("c06"), ClusterFam("c06")],
    facts=[
        {"func": "server/clientio.go:ClientIO.Exec", "order": ["GetCommands", "ID", "Lock", "isDuplicate", "completeCommand", "Unlock", "Write", "completeCommand", "Unlock"]},
        {"func": "server/clientio.go:ClientIO.Abort", "order": ["GetCommands", "Lock", "completeCommand", "Unlock"], "absent": ["Write"]},
        {"func": "server/clientio.go:ClientIO.ExecCommand", "order": ["ID", "Lock", "Unlock", "Add", "Release"]},
        {"func": "server/clientio.go:ClientIO.completeCommand", "contains": ["delete"]},
        # since fix 3b7dc98 execution does not depend on the queued copy of the event (the bounded queue drops its oldest entries)
        {"func": "server/clientio.go:NewClientIO", "contains": ["Register", "UnsafeRunInAddEvent", "Exec", "Abort"]},
        {"func": "protocol/consensus/committer.go:Committer.commitInner", "order": ["View", "Get", "commitInner", "AddEvent", "AddEvent"]},
        {"func": "protocol/consensus/committer.go:Committer.commit", "order": ["commitInner", "PruneToHeight", "AddEvent"]},
    ],
    trusted=REPLICA_TRUST + [
        "SHA-256 is re-implemented in Lean (Model/Sha256.lean, checked against crypto/sha256 on every digest the correspondence compares); the theorems speak about the executed command list, the digest is a function of it",
        "gorums.ServerCtx for ExecCommand is constructed by the harness with the fields gorums fills in (no exported constructor)",
    ],
    assumptions=[
        "cross-replica clause (Props/C06Sys executed_prefix_related): composed from C01's ledger theorem for the system of replica models (all three rulesets: executed_prefix_related, executed_prefix_related_fast; ECDSA / EdDSA, at most f Byzantine, content addressing) and executed_prefix; that Execute events follow Commit events block by block is read off the model (commitInner queues the two events together) and checked by the replica correspondence",
        "one_outcome: every ExecCommand call has its own reply channel (true by construction: the channel is made inside the call)",
    ],
    partial="the command cache / markProposed path is C15's subject; BLS is not covered by the system-level theorems the cross-replica clause rests on",
)

META = {
    "text": "Proof: over the model of server/clientio.go (ExecCommand registration, Exec, Abort, isDuplicate, completeCommand; digest = SHA-256 of the executed data, computed in Lean): executed_is_function_of_chain (the executed list after ANY interleaving of registrations, executions and aborts equals execStream of the concatenated committed batches — independent of clients, aborts and timing), executed_prefix (a replica whose committed stream extends another's has an executed list extending the other's, hence equal digests after equally many commands), executed_increasing and executed_nodup_ids (per client strictly increasing sequence numbers; no (client, seq) executed twice even when it appears in several blocks), one_outcome (no reply channel receives two outcomes; a success outcome only for a command in the executed list). Cross-replica (Props/C06Sys): executed_prefix_related — in the system of replica models, under any adversary of the model, the executed command sequences of any two honest replicas (the filter applied to the commands of their commit logs, block by block) are prefix-related; composed from C01's ledgers_prefix_related(_fast) and executed_prefix, for all three rulesets. Tie: the real server.ClientIO behind its real event-loop registrations, real ExecCommand calls blocked in goroutines, driven with random interleavings of submissions, committed blocks with overlapping/duplicate/stale commands and aborts; outcomes per waiter, CmdCount and Hash compared line by line with the model and re-checked by an independent oracle (count never grows by more than the number of never-seen ids, no second outcome, success only for a command executed by this batch); the order of ExecuteEvent/AbortEvent against commits is compared at replica level (commitInner ancestor-first, abort after prune) on the C03 scripts.",
    "note": "Trusted: as C03 plus the Lean SHA-256 and the harness-built gorums.ServerCtx. Cross-replica prefix relation: executed_prefix_related(_fast) (through C01's ledger theorems, all three rulesets).",
    "technique": "Lean 4 theorems over a ClientIO model (function-of-chain, no double execution, single outcome) + differential correspondence with the real ClientIO and event loop + oracle",
}
