from .runner import Property
from .fam_replica import ReplicaFam
from .prop_C03 import REPLICA_TRUST

PROP = Property(
    "C07", ["HsVerif.Props.C07", "HsVerif.Props.C07Commit", "HsVerif.Props.C07Signal"], [ReplicaFam("c07")],
    facts=[
        {"func": "protocol/synchronizer/synchronizer.go:Synchronizer.advanceView", "order": ["VerifySyncInfo", "UpdateHighQC", "View", "EnterViewAfter", "AddEvent", "GetLeader"]},
        {"func": "protocol/synchronizer/timeoutrule_simple.go:Simple.VerifySyncInfo", "order": ["TC", "VerifyTimeoutCert", "QC", "VerifyQuorumCert"]},
        {"func": "protocol/synchronizer/timeoutrule_aggregate.go:Aggregate.VerifySyncInfo", "order": ["TC", "VerifyTimeoutCert", "AggQC", "Sig", "VerifyAggregateQC"]},
        {"func": "protocol/viewstates.go:ViewStates.EnterViewAfter", "order": ["Lock", "defer Unlock"]},
        {"func": "protocol/viewstates.go:ViewStates.UpdateHighQC", "contains": ["Get", "View"]},
    ],
    trusted=REPLICA_TRUST,
    assumptions=["evidence_is_quorum assumes the store is content addressed (C13), bit-field sizes consistent (C19) and AggQC maps have distinct keys (Go map)"],
    partial=None,
)

META = {
    "text": "Proof: over the replica model and every sequence of delivered events: view_advances_by_one (name historical: since repair a284fef an advancement leaves its view for the view AFTER THE CERTIFICATE; the advancement records form a chain from view 1 to the current view — each starts where the previous one ended and ends strictly higher; current_view_is_last_entered), advance_on_evidence (each advancement was backed by a QC, TC or aggregate QC of a view >= the view left that passed the replica's verifier) and evidence_is_quorum (via C02: a quorum of distinct configured replicas really signed a block of that view, timeouts for that view, or their own timeout messages for that view); both timeout rules, all rulesets. highqc_view_monotone / highqc_view_monotone_run (the view of the high QC never decreases, along every event sequence; uses the store invariant 'block maps only grow, genesis stays stored', proved for every handler). committed_view_never_decreases (Props/C07Commit: between any two points of any run from the initial state the view of the committed block does not decrease; also across any adversary action in the system of replica models) — by a Hoare-logic chain through all handlers saying that the committer only ever moves to a block above the one committed before the call. hightc_view_never_decreases (Props/C07Signal; no side condition, also across any adversary action at the system level). View-change signalling (Props/C07Signal): step_signal — in one step the views signalled plus those still queued are what was queued before followed by exactly the views ENTERED in this step (entered: certified view + 1 of every advancement record; Climb / climb_facts: strictly increasing, above the old view, the last one is the new view, none iff the view did not change); signalled_run / signalled_sys — along any run from the initial state (internal ViewChangeEvents may not be injected from outside: signal_counterexample) the views signalled so far followed by those still queued are exactly the entered views: every entered view once, in order, the current view last (no_view_change_skipped, signalled_nodup, signalled_increasing); views jumped over on a certificate of a later view are not entered and not signalled. The oracle checks the same on every implementation trace, together with ground-truth evidence for every advancement. Tie: same replica harness as C03, with forged / relabelled (including genesis-hash) / stale / replayed / signature-less certificates in proposals, new-view and timeout messages.",
    "note": "Trusted: as C03. A genuine defect found by this check (a genesis-hash QC with an arbitrary claimed view moved the view without any signature) is fixed by 'fix: a QC for the genesis block is valid only with the genesis view'.",
    "technique": "Lean 4 invariant proof (Std.Do/mvcgen) + C02 soundness + differential correspondence with a real replica + ground-truth evidence oracle",
}
