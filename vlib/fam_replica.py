"""Scripts for the `replica` family: one real replica under test, the others are puppets whose
messages the script crafts (with their real keys).  The generator plays a mostly honest run
(round-robin leaders, quorum certificates from puppet votes, timeouts and timeout certificates)
around the replica under test and injects adversarial messages."""
from .runner import Family
from .fam_cert import quorum

RULES = ["chainedhotstuff", "simplehotstuff", "fasthotstuff"]


class Play:
    def __init__(self, rng, scheme, n, r, rules, cache, adversarial, fixed=None):
        self.rng, self.scheme, self.n, self.r, self.rules = rng, scheme, n, r, rules
        self.fixed = fixed
        self.agg = 1 if rules == "fasthotstuff" or rng.random() < 0.2 else 0
        self.adv = adversarial
        self.q = quorum(n)
        self.L = [f"cfg {scheme} {n} cache={cache} agg={self.agg}",
                  f"replica {r} rules={rules}" + (f" leader=fixed:{fixed}" if fixed else ""), "start"]
        self.cur, self.curqc, self.curview = "G", "genesis", 0   # highest certified block known to the puppets
        self.view = 1
        self.k = 0
        self.blocks = []       # (name, view, proposer, qcname)
        self.qcs = ["genesis"]
        self.pending_agg = None

    def leader(self, v):
        return self.fixed if self.fixed else v % self.n + 1

    def fresh(self, p):
        self.k += 1
        return f"{p}{self.k}"

    def puppets(self):
        return [i for i in range(1, self.n + 1) if i != self.r]

    def sigset(self, name, pairs):
        if self.scheme == "bls12":
            pts = [s for _, s in pairs]
            ids = sorted(set(str(c) for c, _ in pairs if c != 0), key=int)
            self.L.append(f"bls {name} pt={'+'.join(pts) if pts else '0'} bits={','.join(ids) if ids else '-'}")
        else:
            self.L.append(f"multi {name} " + " ".join(f"{c}:{s}" for c, s in pairs))

    # ---- honest steps -----------------------------------------------------------------------
    def votes_for(self, b, voters):
        out = []
        for i in voters:
            nm = f"v_{b}_{i}"
            self.L.append(f"create-pc {i} {b} {nm}")
            out.append((i, nm))
        return out

    def certify(self, b, bview, include_own=True):
        """puppets (and possibly the replica's own vote) certify block b; returns qc name"""
        rng = self.rng
        pv = self.votes_for(b, self.puppets())
        rng.shuffle(pv)
        names = [nm for _, nm in pv]
        need = self.q
        use = []
        if include_own and rng.random() < 0.5:
            use.append(f"own.vote.{b}")
            need -= 1
        use += names[:max(need, 0)]
        if len(names) > need and rng.random() < 0.3:
            use += names[need:need + 1]
        qn = f"Q_{b}"
        if len(use) >= 2:
            self.L.append(f"create-qc {rng.choice(self.puppets())} {qn} {b} " + " ".join(use))
        else:
            self.L.append(f"qc {qn} sig={use[0]} view={bview} hash={b}")
        self.qcs.append(qn)
        return qn, pv

    def honest_view(self):
        """one view in which the leader proposes and the block gets certified"""
        rng, v = self.rng, self.view
        ld = self.leader(v)
        nl = self.leader(v + 1)
        agg = self.pending_agg
        self.pending_agg = None
        own_ok = True
        if ld == self.r:
            b = f"P{v}"   # the replica proposed when it entered the view (if it did)
        else:
            b = f"B{v}"
            self.L.append(f"block {b} parent={self.cur} view={v} proposer={ld} qc={self.curqc}")
            if self.adv and agg and self.cur != "G" and rng.random() < 0.5:
                # the genuine aggregate QC, but the block carries a forged twin of its high QC: same view and
                # block, signatures of too few replicas — the block's own QC has to verify all the same
                tw = self.fresh("tw")
                ps = self.puppets()
                if not any(l.startswith(f"create-pc {ps[0]} {self.cur} ") for l in self.L):
                    self.L.append(f"create-pc {ps[0]} {self.cur} v_{self.cur}_{ps[0]}")
                self.L.append(f"qc {tw} sig=v_{self.cur}_{ps[0]} view={self.curview} hash={self.cur}")
                self.L.append(f"block {tw}b parent={self.cur} view={v} proposer={ld} qc={tw}")
                self.L.append(f"deliver propose {tw}b from={ld} agg={agg} expect=inert")
            if self.adv and nl != self.r and rng.random() < 0.12:
                # the vote for an equivocating leader's first block cannot be sent (next leader unknown
                # to the sender): it was signed all the same, the second block must be refused
                self.L.append("sender-fails on")
                self.inject_proposal(v, before=True, kind="equivocate")
                if rng.random() < 0.7:
                    self.L.append("sender-fails off")
                own_ok = False
            elif self.adv and rng.random() < 0.25:
                self.inject_proposal(v, before=True)
            self.L.append(f"deliver propose {b} from={ld}" + (f" agg={agg}" if agg else ""))
            if "sender-fails on" in self.L[-3:]:
                self.L.append("sender-fails off")
        self.blocks.append((b, v, ld, self.curqc))
        if nl == self.r:
            # the replica collects the votes and forms the QC itself
            pv = self.votes_for(b, self.puppets())
            rng.shuffle(pv)
            send = pv[:self.q - 1] if rng.random() < 0.8 else pv
            if self.adv and rng.random() < 0.4:
                self.inject_votes(b, v, pv)
            for i, nm in send:
                self.L.append(f"deliver vote {nm} {b} from={i}")
                if self.adv and rng.random() < 0.15:
                    self.L.append(f"deliver vote {nm} {b} from={i}")   # duplicate
            qn = f"Q_{b}"
            # the same certificate, for the puppets' later use
            self.L.append(f"create-qc {rng.choice(self.puppets())} {qn} {b} " + " ".join(nm for _, nm in pv[:max(self.q, 2)]))
            self.qcs.append(qn)
        else:
            qn, _ = self.certify(b, v, include_own=own_ok)
        self.cur, self.curqc, self.curview = b, qn, v
        self.view = v + 1

    def timeout_view(self):
        """the view's leader is silent: timeouts, timeout certificate, next view"""
        rng, v = self.rng, self.view
        ps = self.puppets()
        rng.shuffle(ps)
        senders = ps[:rng.choice([self.q - 1, self.q - 1, self.q, len(ps)])]
        if rng.random() < 0.8:
            self.L.append("local-timeout")
        names = []
        for i in senders:
            self.L.append(f"sign {i} view:{v} tv{v}_{i}")
            ms = "nil"
            if self.agg:
                self.L.append(f"sign {i} tmo:{i}:{v}:{self.curqc} tm{v}_{i}")
                ms = f"tm{v}_{i}"
            self.L.append(f"timeout T{v}_{i} id={i} view={v} viewsig=tv{v}_{i} msgsig={ms} qc={self.curqc}")
            names.append((i, f"T{v}_{i}"))
        if self.adv and rng.random() < 0.5:
            self.inject_timeouts(v)
        for i, nm in names:
            self.L.append(f"deliver timeout {nm}")
            if self.adv and rng.random() < 0.15:
                self.L.append(f"deliver timeout {nm}")
        if rng.random() < 0.08:
            self.L.append("local-timeout")
        # certificate for the puppets' use (and to move a replica that missed the quorum)
        allp = self.puppets()
        for i in allp:
            if i not in senders:
                self.L.append(f"sign {i} view:{v} tv{v}_{i}")
                if self.agg:
                    self.L.append(f"sign {i} tmo:{i}:{v}:{self.curqc} tm{v}_{i}")
                self.L.append(f"timeout T{v}_{i} id={i} view={v} viewsig=tv{v}_{i} msgsig={'tm%d_%d' % (v, i) if self.agg else 'nil'} qc={self.curqc}")
        use = allp[:max(self.q, 2)]
        if len(use) >= 2:
            self.L.append(f"create-tc {allp[0]} TC{v} {v} " + " ".join(f"T{v}_{i}" for i in use))
            if self.agg:
                self.L.append(f"create-agg {allp[0]} AG{v} {v} " + " ".join(f"T{v}_{i}" for i in use))
                self.pending_agg = f"AG{v}"
            self.L.append(f"si S{v} qc={self.curqc} tc=TC{v} agg={'AG%d' % v if self.agg else '-'}")
            if rng.random() < 0.6:
                self.L.append(f"deliver newview S{v} from={rng.choice(allp)}")
        self.view = v + 1

    # ---- adversarial injections -----------------------------------------------------------------
    def inject_proposal(self, v, before=False, kind=None):
        rng = self.rng
        kind = kind or rng.choice(["wrong-leader", "stale", "equivocate", "future", "far-future", "parent-mismatch", "view-not-above",
                           "bad-qc-dup", "bad-qc-sub", "bad-qc-relabel", "bad-qc-nil", "unknown-qc-block", "skip-view",
                           "fork", "fork", "fork-lock", "fork-lock", "fork-lock"])
        if kind == "unknown-qc-block" and self.agg:
            # a SECOND certified block in the view of the current one (more than f replicas signing both) makes
            # the high QC of later aggregate QCs a free choice between two valid certificates of one view: the
            # implementation picks by map iteration order, no property says which — such runs cannot be compared
            # line by line (DESIGN §11); the scenario stays for the plain timeout rule
            kind = "bad-qc-sub"
        nm = self.fresh("X")
        ld = self.leader(v)
        parent, qc, view, prop = self.cur, self.curqc, v, ld
        if kind == "wrong-leader":
            prop = rng.choice([i for i in range(1, self.n + 1) if i != ld])
        elif kind == "stale":
            view = max(1, v - rng.choice([1, 2]))
            prop = self.leader(view)
        elif kind == "future":
            view = v + rng.choice([1, 2, 9, 10])
            prop = self.leader(view)
        elif kind == "far-future":
            view = v + rng.choice([11, 12, 100])
            prop = self.leader(view)
        elif kind == "parent-mismatch":
            parent = rng.choice(["G"] + [b for b, _, _, _ in self.blocks[:-1]] or ["G"])
        elif kind == "view-not-above":
            view = self.curview if self.curview >= 1 else v
            prop = self.leader(view)
        elif kind.startswith("bad-qc") and self.cur != "G":
            q = self.fresh("bq")
            ps = self.puppets()
            src = [f"v_{self.cur}_{i}" for i in ps]
            have = all(any(l.startswith(f"create-pc {i} {self.cur} ") for l in self.L) for i in ps)
            if not have:
                for i in ps:
                    self.L.append(f"create-pc {i} {self.cur} v_{self.cur}_{i}")
            if kind == "bad-qc-dup":
                self.sigset(q + "s", [(ps[0], src[0])] * self.q)
                self.L.append(f"qc {q} sig={q}s view={self.curview} hash={self.cur}")
            elif kind == "bad-qc-sub":
                self.sigset(q + "s", list(zip(ps, src))[:self.q - 1])
                self.L.append(f"qc {q} sig={q}s view={self.curview} hash={self.cur}")
            elif kind == "bad-qc-relabel":
                self.sigset(q + "s", list(zip(ps, src))[:self.q])
                # a genuine quorum signature under another view: above the certified block's view, or — a
                # certificate that UNDERSTATES its view — below it
                nv = max(v - 1, self.curview + 1) if rng.random() < 0.5 or self.curview < 1 else rng.randrange(0, self.curview)
                self.L.append(f"qc {q} sig={q}s view={nv} hash={self.cur}")
                if nv < self.curview and self.curqc in self.qcs:
                    # the replica is already in the proposal's view (it has seen the genuine certificate)
                    sx = self.fresh("sl")
                    self.L.append(f"si {sx} qc={self.curqc} tc=- agg=-")
                    self.L.append(f"deliver newview {sx} from={rng.choice(ps)}")
            else:
                self.L.append(f"qc {q} sig=nil view={self.curview} hash={self.cur}")
            qc = q
        elif kind == "unknown-qc-block":
            u = self.fresh("U")
            self.L.append(f"block {u} parent={self.cur} view={max(v - 1, 1)} proposer={self.leader(max(v - 1, 1))} qc={self.curqc}")
            for i in self.puppets():
                self.L.append(f"create-pc {i} {u} v_{u}_{i}")
            ps = self.puppets()
            if len(ps) >= max(self.q, 2):
                self.L.append(f"create-qc {ps[0]} Q_{u} {u} " + " ".join(f"v_{u}_{i}" for i in ps[:max(self.q, 2)]))
                parent, qc = u, f"Q_{u}"
                if rng.random() < 0.5:
                    self.L.append(f"fetchable {u} on")
        elif kind == "skip-view":
            view = v + 1
            prop = self.leader(view)
        elif kind in ("fork", "fork-lock") and len(self.blocks) >= 2:
            # a well-formed proposal of the right leader built on an OLDER certified block (with that
            # block's certificate): exercises the lock / liveness branches of the vote rules and commit
            # rules whose target is not newer than the committed block
            cands = self.blocks[:-1]
            b = cands[-2] if kind == "fork-lock" and len(cands) >= 2 else rng.choice(cands)
            if f"Q_{b[0]}" in self.qcs:
                parent, qc = b[0], f"Q_{b[0]}"
        self.L.append(f"block {nm} parent={parent} view={view} proposer={prop} qc={qc}")
        inert = " expect=inert" if kind.startswith("bad-qc") and qc != self.curqc else ""
        att = ""
        if rng.random() < (0.1 if self.agg else 0.35):
            # an aggregate QC nobody asked for (without aggregate QCs configured the field is ignored
            # by certificate verification; every other check must be made all the same)
            if not any(l.startswith("agg EA ") for l in self.L):
                self.L.append("agg EA sig=nil view=1 qcs=-")
            att = " agg=EA"
        self.L.append(f"deliver propose {nm} from={prop}{att}{inert}")

    def inject_votes(self, b, v, pv):
        rng = self.rng
        kind = rng.choice(["wrong-block", "junk", "multi", "unknown-block", "relabel", "nil", "own-replay", "inf"])
        ps = self.puppets()
        i, nm = pv[0]
        x = self.fresh("jv")
        if kind == "wrong-block" and self.cur != "G":
            self.L.append(f"create-pc {i} {self.cur} {x}")
            self.L.append(f"deliver vote {x} {b} from={i}")
        elif kind == "junk":
            self.sigset(x, [(i, "junk%d" % rng.randrange(1, 9))])
            self.L.append(f"deliver vote {x} {b} from={i} expect=inert")
        elif kind == "multi" and len(pv) >= 2:
            self.L.append(f"combine {ps[0]} {x} {pv[0][1]} {pv[1][1]}")
            self.L.append(f"deliver vote {x} {b} from={i}")
        elif kind == "unknown-block":
            u = self.fresh("U")
            self.L.append(f"block {u} parent={self.cur} view={v} proposer={self.leader(v)} qc={self.curqc}")
            self.L.append(f"create-pc {i} {u} {x}")
            self.L.append(f"deliver vote {x} {u} from={i}")
            if rng.random() < 0.5:
                self.L.append(f"fetchable {u} on")
        elif kind == "relabel":
            j = pv[1][0] if len(pv) > 1 else i
            self.sigset(x, [(j, nm)])
            self.L.append(f"deliver vote {x} {b} from={j}")
        elif kind == "nil":
            self.L.append(f"deliver vote nil {b} from={i} expect=inert")
        elif kind == "own-replay":
            self.L.append(f"deliver vote own.vote.{b} {b} from={i}")
        elif kind == "inf" and self.scheme == "bls12":
            self.L.append(f"bls {x} pt=0 bits=-")
            self.L.append(f"deliver vote {x} {b} from={i} expect=inert")

    def inject_timeouts(self, v):
        rng = self.rng
        ps = self.puppets()
        i = rng.choice(ps)
        kind = rng.choice(["future", "far-future", "past", "copied-sig", "junk", "nil", "wrong-msgsig", "no-msgsig", "id-zero", "replay-own",
                           "multi-viewsig", "multi-viewsig", "no-qc", "no-qc"])
        x = self.fresh("jt")
        tv = v
        vs, ms = None, "nil"
        if kind == "future":
            tv = v + rng.choice([1, 2, 5])
        elif kind == "far-future":
            tv = v + 1000
        elif kind == "past":
            tv = max(1, v - 1)
        if kind == "multi-viewsig" and len(ps) >= 2:
            # the sender's genuine view signature combined with another replica's: more than one signer
            j = rng.choice([p for p in ps if p != i])
            self.L.append(f"sign {i} view:{tv} {x}a")
            self.L.append(f"sign {j} view:{tv} {x}b")
            self.L.append(f"combine {i} {x}v {x}a {x}b")
        elif kind == "copied-sig":
            j = rng.choice([p for p in ps if p != i] or [i])
            self.L.append(f"sign {j} view:{tv} {x}v")
        elif kind == "junk":
            self.sigset(x + "v", [(i, "junk3")])
        else:
            self.L.append(f"sign {i} view:{tv} {x}v")
        vs = x + "v" if kind != "nil" else "nil"
        if self.agg and kind != "no-msgsig":
            if kind == "wrong-msgsig":
                self.L.append(f"sign {i} tmo:{i}:{tv + 1}:{self.curqc} {x}m")
            else:
                self.L.append(f"sign {i} tmo:{i}:{tv}:{self.curqc} {x}m")
            ms = x + "m"
        if kind == "no-qc":
            # correctly signed by its sender, but the sync info carries no QC (aggregate rule: the
            # aggregate QC could not pair this signer with a high QC)
            self.L.append(f"sign {i} view:{tv} {x}w")
            nq_ms = "nil"
            if self.agg:
                self.L.append(f"sign {i} tmo:{i}:{tv}:- {x}n")
                nq_ms = x + "n"
            self.L.append(f"timeout {x} id={i} view={tv} viewsig={x}w msgsig={nq_ms} qc=-")
            self.L.append(f"deliver timeout {x}")
            return
        tid = 0 if kind == "id-zero" else i
        if kind == "replay-own":
            self.L.append(f"deliver timeout own.tmo.{v} from={i}")
            return
        self.L.append(f"timeout {x} id={tid} view={tv} viewsig={vs} msgsig={ms} qc={self.curqc}")
        inert = " expect=inert" if kind in ("copied-sig", "junk", "nil", "id-zero", "multi-viewsig") else ""
        self.L.append(f"deliver timeout {x}{inert}")

    def inject_newview(self, v):
        rng = self.rng
        x = self.fresh("nv")
        kind = rng.choice(["stale-qc", "forged-tc", "nil-tc", "nil-agg", "good-old", "relabel-qc", "genesis-relabel", "dup-apart-tc"])
        ps = self.puppets()
        if kind == "dup-apart-tc" and (len(ps) < 2 or self.q < 3):
            kind = "forged-tc"
        if kind == "stale-qc":
            self.L.append(f"si {x} qc={rng.choice(self.qcs)} tc=- agg=-")
        elif kind == "forged-tc":
            self.L.append(f"sign {ps[0]} view:{v + 3} {x}v")
            self.sigset(x + "s", [(p, x + "v") for p in ps[:self.q]])
            self.L.append(f"tc {x}t sig={x}s view={v + 3}")
            self.L.append(f"si {x} qc={self.curqc} tc={x}t agg=-")
        elif kind == "dup-apart-tc":
            # genuine view signatures of FEWER than a quorum of replicas, repeated with another signer in
            # between (a, b, a, …) so that no two equal signers are neighbours
            self.L.append(f"sign {ps[0]} view:{v + 3} {x}va")
            self.L.append(f"sign {ps[1]} view:{v + 3} {x}vb")
            ents = [(ps[0], x + "va") if i % 2 == 0 else (ps[1], x + "vb") for i in range(self.q)]
            self.sigset(x + "s", ents)
            self.L.append(f"tc {x}t sig={x}s view={v + 3}")
            self.L.append(f"si {x} qc={self.curqc} tc={x}t agg=-")
        elif kind == "nil-tc":
            self.L.append(f"tc {x}t sig=nil view={v + 2}")
            self.L.append(f"si {x} qc=- tc={x}t agg=-")
        elif kind == "nil-agg":
            self.L.append(f"agg {x}a sig=nil view={v} qcs={ps[0]}:{self.curqc}")
            self.L.append(f"si {x} qc=- tc=- agg={x}a")
        elif kind == "genesis-relabel":
            self.L.append(f"qc {x}q sig={rng.choice(['nil', self.curqc + '.sig' if self.cur != 'G' else 'nil'])} view={v + rng.choice([0, 1, 7])} hash=G")
            self.L.append(f"si {x} qc={x}q tc=- agg=-")
        elif kind == "relabel-qc" and self.cur != "G":
            self.L.append(f"qc {x}q sig={self.curqc}.sig view={v + 5} hash={self.cur}")
            self.L.append(f"si {x} qc={x}q tc=- agg=-")
        else:
            self.L.append(f"si {x} qc={self.curqc} tc=- agg=-")
        inert = " expect=inert" if kind in ("forged-tc", "nil-tc", "nil-agg", "dup-apart-tc") and self.q >= 2 else ""
        self.L.append(f"deliver newview {x} from={rng.choice(ps)}{inert}")

    def run(self, nviews):
        rng = self.rng
        if self.adv and rng.random() < 0.15:
            # a commit, then a well-formed proposal on an older certified block whose own chain ends BELOW
            # the committed block: the commit rule names an ancestor of what is committed already
            for _ in range(max(nviews, 5)):
                self.honest_view()
            for _ in range(rng.randrange(1, 3)):
                self.inject_proposal(self.view, before=True, kind=rng.choice(["fork-lock", "fork-lock", "fork"]))
                self.honest_view()
            self.L.append("dump")
            return self.L
        for _ in range(nviews):
            if self.adv and rng.random() < 0.3:
                self.inject_newview(self.view)
            if rng.random() < 0.25:
                self.timeout_view()
            else:
                self.honest_view()
            if self.adv and rng.random() < 0.2:
                self.inject_proposal(self.view)
            if rng.random() < 0.1:
                self.L.append("dump")
        self.L.append("dump")
        return self.L



class AsyncPlay:
    """The replica is the leader of every view (fixed leader) and runs WITHOUT synchronous vote
    verification (`verify=async`): it collects the votes for each of its own blocks while the harness
    holds vote verifications back at a gate and lets them finish in adversarially chosen orders —
    oldest last, interleaved with the arrival of the next block's votes, a stale vote for an already
    certified block finishing after the newer block's votes were stored, duplicates and votes with
    invalid signatures among the held ones.  The generator keeps a small picture of the collector (held
    verifications, stored voters, high QC) only to know which block the replica has proposed by now;
    the expected answers come from the model."""

    def __init__(self, rng, scheme, n, r, rules, cache, style):
        self.rng, self.scheme, self.n, self.r, self.style = rng, scheme, n, r, style
        self.q = quorum(n)
        agg = 1 if rules == "fasthotstuff" else 0
        self.agg = agg           # under the aggregate rule a plain QC moves the high QC but does not end the view
        self.L = [f"cfg {scheme} {n} cache={cache} agg={agg}",
                  f"replica {r} rules={rules} leader=fixed:{r} verify=async", "start"]
        self.puppets = [i for i in range(1, n + 1) if i != r]
        self.view = 1            # the replica's view; P<view> is its newest block
        self.hqc = 0
        self.closed = False
        self.held = []           # (block view, signer or None when the signature is bad)
        self.stored = {1: {r}}   # block view -> voters whose verification finished
        self.made = set()        # names of votes created so far
        self.sent = {}           # block view -> puppets whose genuine vote was delivered
        self.k = 0

    def fresh(self, p):
        self.k += 1
        return f"{p}{self.k}"

    def vote_name(self, v, i):
        nm = f"a_P{v}_{i}"
        if nm not in self.made:
            self.made.add(nm)
            self.L.append(f"create-pc {i} P{v} {nm}")
        return nm

    def hold(self, on):
        if on and not self.closed:
            self.L.append("verify-hold on")
            self.closed = True
        elif not on and self.closed:
            self.L.append("verify-hold off")
            self.closed = False
            while self.held:
                self.finish(self.held.pop(0))

    # the collector as the generator pictures it
    def finish(self, h):
        v, signer = h
        if signer is not None:
            st = self.stored.setdefault(v, set())
            if signer not in st:
                st.add(signer)
                if len(st) >= self.q:
                    del self.stored[v]
                    if v > self.hqc:
                        self.hqc = v
                        if v >= self.view and not self.agg:
                            self.view = v + 1
                            self.stored[self.view] = {self.r}
        for b in [b for b in self.stored if b <= self.hqc]:
            del self.stored[b]

    def arrive(self, v, signer):
        if v <= self.hqc or v > self.view:
            return      # block too old (or not proposed yet: the vote is deferred)
        if self.closed and signer != self.r:
            self.held.append((v, signer))
        else:
            self.finish((v, signer))

    def deliver(self, v, kind=None):
        rng = self.rng
        kind = kind or rng.choice(["good"] * 8 + ["dup", "dup", "junk", "wrong-block", "relabel", "nil", "two-signers", "future"])
        i = rng.choice(self.puppets)
        if kind == "good":
            rest = [p for p in self.puppets if p not in self.sent.get(v, set())]
            if not rest:
                kind = "dup"
            else:
                i = rng.choice(rest)
                self.sent.setdefault(v, set()).add(i)
                self.L.append(f"deliver vote {self.vote_name(v, i)} P{v} from={i}")
                self.arrive(v, i)
                return
        if kind == "dup":
            if self.sent.get(v):
                i = rng.choice(sorted(self.sent[v]))
            else:
                self.sent.setdefault(v, set()).add(i)
            self.L.append(f"deliver vote {self.vote_name(v, i)} P{v} from={rng.choice([i, i, rng.choice(self.puppets)])}")
            self.arrive(v, i)
        elif kind == "junk":
            x = self.fresh("jz")
            if self.scheme == "bls12":
                self.L.append(f"bls {x} pt=junk{rng.randrange(1, 9)} bits={i}")
            else:
                self.L.append(f"multi {x} {i}:junk{rng.randrange(1, 9)}")
            self.L.append(f"deliver vote {x} P{v} from={i}")
            self.arrive(v, None)
        elif kind == "wrong-block" and v >= 2:
            # a genuine signature of the puppet, but over the previous block
            self.L.append(f"deliver vote {self.vote_name(v - 1, i)} P{v} from={i}")
            self.arrive(v, None)
        elif kind == "relabel" and len(self.puppets) >= 2:
            j = rng.choice([p for p in self.puppets if p != i])
            x = self.fresh("rl")
            src = self.vote_name(v, i)
            if self.scheme == "bls12":
                self.L.append(f"bls {x} pt={src} bits={j}")
            else:
                self.L.append(f"multi {x} {j}:{src}")
            self.L.append(f"deliver vote {x} P{v} from={j}")
            self.arrive(v, None)
        elif kind == "nil":
            self.L.append(f"deliver vote nil P{v} from={i}")
        elif kind == "two-signers" and len(self.puppets) >= 2:
            j = rng.choice([p for p in self.puppets if p != i])
            x = self.fresh("ts")
            self.L.append(f"combine {i} {x} {self.vote_name(v, i)} {self.vote_name(v, j)}")
            self.L.append(f"deliver vote {x} P{v} from={i}")
        elif kind == "future":
            # a vote for a block nobody knows: deferred until the next proposal event
            x = self.fresh("fu")
            self.L.append(f"block U{x} parent=G view={v + 1} proposer={self.r} qc=genesis")
            self.L.append(f"create-pc {i} U{x} {x}")
            self.L.append(f"deliver vote {x} U{x} from={i}")

    def release(self, how=None):
        if not self.held:
            return
        rng = self.rng
        how = how or rng.choice(["random", "random", "newest", "newest-block", "oldest"])
        if how == "newest":
            k = len(self.held)
        elif how == "oldest":
            k = 1
        elif how == "newest-block":
            top = max(v for v, _ in self.held)
            k = rng.choice([j for j, (v, _) in enumerate(self.held) if v == top]) + 1
        else:
            k = rng.randrange(1, len(self.held) + 1)
        self.L.append(f"verify-release {k}")
        self.finish(self.held.pop(k - 1))

    def stale_last(self):
        """the scenario of the task: all votes of P<v> are held; enough finish to certify it, at least one
        valid vote stays held; votes of the next block arrive and some finish; THEN the stale one
        finishes; the next block must still get its certificate from the remaining votes"""
        rng = self.rng
        v = self.view
        self.hold(True)
        first = len(self.held)
        order = self.puppets[:]
        rng.shuffle(order)
        for i in order:
            self.deliver(v, "good")
            if rng.random() < 0.15:
                self.deliver(v, rng.choice(["dup", "junk"]))
        # the newest ones finish first; the oldest valid ones stay
        guard = 0
        while self.view == v and len(self.held) > first and guard < 40:
            self.release(rng.choice(["newest", "newest", "random"]))
            guard += 1
        if self.view == v:
            return
        w = self.view
        m = rng.randrange(1, self.q)     # votes of the next block stored before the stale vote finishes
        for _ in range(m):
            self.deliver(w, "good")
        for _ in range(m):
            if self.held and self.view == w:
                self.release("newest")
        stale = [j for j, (b, _) in enumerate(self.held) if b < w]
        for j in reversed(stale if rng.random() < 0.7 else stale[:1]):
            self.L.append(f"verify-release {j + 1}")
            self.finish(self.held.pop(j))
        guard = 0
        while self.view == w and guard < 40:
            if len(self.sent.get(w, ())) < len(self.puppets):
                self.deliver(w, "good")
            if self.held:
                self.release("random")
            guard += 1
            if not self.held and len(self.sent.get(w, ())) >= len(self.puppets):
                break

    def run(self, nviews):
        rng = self.rng
        if self.style == "stale":
            for _ in range(nviews):
                self.stale_last()
                if rng.random() < 0.3:
                    self.hold(False)
            self.hold(False)
            self.L.append("dump")
            return self.L
        steps = 0
        target = self.view + nviews
        while self.view < target and steps < 40 * nviews:
            steps += 1
            x = rng.random()
            v = self.view
            if x < 0.08:
                self.hold(not self.closed)
            elif x < 0.12 and not self.closed:
                self.hold(True)
            elif x < 0.55:
                # mostly votes of the newest block, now and then of an older one (stale on arrival)
                b = v if rng.random() < 0.85 or v == 1 else rng.randrange(max(1, v - 2), v)
                self.deliver(b)
            elif x < 0.9:
                self.release()
            elif x < 0.93:
                self.L.append("local-timeout")
            elif x < 0.96:
                self.L.append("dump")
            else:
                # a flood: every puppet's vote for the newest block, then finish them from the newest end
                self.hold(True)
                for _ in self.puppets:
                    self.deliver(v, "good")
                for _ in range(rng.randrange(1, len(self.puppets) + 1)):
                    self.release("newest")
        self.hold(False)
        self.L.append("dump")
        return self.L


DROPS = {
    "propose": ["block", "block.qc", "block.qc.sig", "block.qc.hash", "block.parent", "block.commands", "block.timestamp", "agg", "agg.sig"],
    "vote": ["sig", "hash"],
    "timeout": ["viewsig", "msgsig", "si", "qc", "qc.sig", "qc.hash", "tc", "agg"],
    "newview": ["si", "qc", "qc.sig", "qc.hash", "tc", "tc.sig", "agg", "agg.sig"],
}


TRUNCS = {
    "propose": ["block.qc.sig", "agg.sig"],
    "vote": ["sig"],
    "timeout": ["viewsig", "msgsig", "qc.sig"],
    "newview": ["qc.sig", "tc.sig", "agg.sig"],
}


def to_wire(lines, rng, p=0.6, relay=0.2):
    """send a share of the deliveries through the real gorums handlers as (possibly mutilated) wire messages"""
    ids = {}
    nrep = 0
    for l in lines[:3]:
        t = l.split()
        if len(t) > 2 and t[0] == "cfg" and t[2].isdigit():
            nrep = int(t[2])
    out = []
    blocks = []
    for l in lines:
        t = l.split()
        if t[0] == "block" and len(t) > 1:
            blocks.append(t[1])
        if blocks and rng.random() < 0.06:
            # block-fetch requests with a hash field of any length (the handler must answer, never crash)
            b = rng.choice(blocks + ["G"])
            spec = rng.choice([f"blk:{b}", f"blk:{b}/31", f"blk:{b}/3", f"blk:{b}/0", f"blk:{b}/33", f"blk:{b}/32", "nil", "empty", f"blk:{b}/64"])
            out.append("wire requestblock " + spec)
        if t[0] == "timeout" and len(t) > 2:
            for kv in t[2:]:
                if kv.startswith("id="):
                    ids[t[1]] = kv[3:]
        if t[0] == "deliver" and rng.random() < p:
            kind = t[1]
            rest = [x for x in t[2:] if not x.startswith("expect=")]
            if kind == "timeout" and not any(x.startswith("from=") for x in rest):
                rest.append("from=" + ids.get(t[2], "0"))
            if kind == "propose" and nrep and rng.random() < relay:
                # relayed by another peer: the handler attributes a proposal to the peer that delivered it, whatever
                # proposer the block names (a non-leader must not be able to speak for the leader) — C03-r6m2
                rest = [x for x in rest if not x.startswith("from=")] + [f"from={rng.randrange(1, nrep + 1)}"]
                out.append("wire " + kind + " " + " ".join(rest))
                if rng.random() < 0.5:
                    out.append(l)      # the genuine delivery follows
                continue
            r = rng.random()
            bls = any(x.startswith("cfg bls12") for x in lines[:3])
            if bls and r < 0.12:
                # a BLS signature whose bytes do not decode (cut short on the wire)
                rest.append("trunc=" + ",".join(rng.sample(TRUNCS[kind], rng.choice([1, 1, 2]) if len(TRUNCS[kind]) > 1 else 1)))
            elif r < 0.5:
                k = rng.choice([1, 1, 2, 3])
                rest.append("drop=" + ",".join(rng.sample(DROPS[kind], min(k, len(DROPS[kind])))))
            elif r < 0.6:
                rest = [x for x in rest if not x.startswith("from=")]
            out.append("wire " + kind + " " + " ".join(rest))
        else:
            out.append(l)
    return out


class ReplicaFam(Family):
    name = "replica"
    oracle = "replica.oracle"
    header = 3
    timeout = 1800

    def __init__(self, focus="all"):
        self.focus = focus

    def generate(self, tier, rng):
        quick = tier == "quick"
        count = {"ecdsa": 220 if quick else 6000, "eddsa": 120 if quick else 3000, "bls12": 40 if quick else 800}
        for scheme, cnt in count.items():
            for k in range(cnt):
                n = rng.choice([4, 4, 4, 7, 7, 5])
                r = rng.randrange(1, n + 1)
                rules = RULES[k % 3]
                adv = rng.random() < 0.7
                fixed = None
                if self.focus == "c09" and rng.random() < 0.6:
                    fixed = r if rng.random() < 0.8 else rng.randrange(1, n + 1)
                p = Play(rng, scheme, n, r, rules, rng.choice([0, 0, 10, 100]), adv, fixed)
                lines = p.run(rng.randrange(3, 9 if scheme != "bls12" else 6))
                if self.focus == "c10" and k % 4 != 0:
                    lines = to_wire(lines, rng)
                elif self.focus == "c03" and k % 3 == 1:
                    lines = to_wire(lines, rng, p=0.35, relay=0.5)
                yield (f"play-{scheme}-{rules}-n{n}-r{r}-{'adv' if adv else 'honest'}-{k}", lines)
        if self.focus in ("c09", "c10", "c03", "c07"):
            # asynchronous vote verification (the replica collects; verifications are held and released)
            acount = {"c09": {"ecdsa": 150 if quick else 4000, "eddsa": 60 if quick else 2000, "bls12": 12 if quick else 300}}.get(
                self.focus, {"ecdsa": 20 if quick else 400, "eddsa": 8 if quick else 200, "bls12": 2 if quick else 40})
            for scheme, cnt in acount.items():
                for k in range(cnt):
                    n = rng.choice([4, 4, 4, 5, 7])
                    r = rng.randrange(1, n + 1)
                    rules = RULES[k % 2] if k % 8 else RULES[2]
                    style = "stale" if (k // 2) % 2 == 0 else "walk"
                    p = AsyncPlay(rng, scheme, n, r, rules, rng.choice([0, 0, 10, 100]), style)
                    lines = p.run(rng.randrange(2, 6 if scheme != "bls12" else 4))
                    yield (f"async-{style}-{scheme}-{rules}-n{n}-r{r}-{k}", lines)

    def nontrivial_keys(self, lines, impl_out):
        from . import core
        # non-trivial: the replica signed a vote and committed or changed view by certificate
        votes = sum(1 for o in impl_out if "sign(blk:" in o)
        moved = sum(1 for o in impl_out if "vc(" in o)
        return [core.script_hash(lines)] if votes and moved else []

    def tags(self, lines, impl_out):
        t = {}
        for l, o in zip(lines, impl_out):
            if l == "sender-fails on":
                t["sender-fails"] = t.get("sender-fails", 0) + 1
            if l.startswith(("deliver", "wire", "local-timeout", "start", "verify-release", "verify-hold off")):
                k = " ".join(l.split()[:2]) if l.startswith(("deliver", "wire")) else l.split()[0]
                if "trunc=" in l:
                    for d in l.split("trunc=")[1].split()[0].split(","):
                        t["trunc:" + l.split()[1] + ":" + d] = t.get("trunc:" + l.split()[1] + ":" + d, 0) + 1
                if "drop=" in l:
                    for d in l.split("drop=")[1].split()[0].split(","):
                        t["drop:" + l.split()[1] + ":" + d] = t.get("drop:" + l.split()[1] + ":" + d, 0) + 1
                t["op:" + k] = t.get("op:" + k, 0) + 1
                for eff in ("sign(blk", "sign(view", "sign(tmo", "propose(", "vote(", "timeout(", "newview(", "vc(", "commit(", "abort(", "panic"):
                    if eff in o:
                        t["eff:" + eff.strip("(")] = t.get("eff:" + eff.strip("("), 0) + o.count(eff)
        return t
