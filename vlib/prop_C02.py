from .runner import Property
from .common import COMMON_TRUST
from .fam_cert import CertFam
from .fam_bytes import BytesFam

CRYPTO_TRUST = [
    "symbolic (Dolev-Yao) signature model: EUF-CMA of ECDSA/Ed25519/BLS12-381 with proof of possession; BLS pairing check holds iff the summed atoms equal the expected sum; SHA-256 and ToBytes encodings injective",
    "crypto libraries (crypto/ecdsa, crypto/ed25519, kilic/bls12-381) exercised for real by the harness: every symbolic signature is materialised with real keys and the real verdict compared",
]

PROP = Property(
    "C02", ["HsVerif.Props.C02", "HsVerif.Props.C02Gen"], [CertFam("c02"), BytesFam("c02")],
    facts=[
        # 28593c9: a failed pairing check is repeated in two equivalent arrangements (library Miller-loop defect)
        {"func": "security/crypto/bls12.go:bls12Base.coreVerify", "order": ["subgroupCheck", "HashToCurve", "pairingCheck"]},
        {"func": "security/crypto/bls12.go:bls12Base.coreAggregateVerify", "order": ["subgroupCheck", "HashToCurve", "pairingCheck"]},
        {"func": "security/crypto/bls12.go:pairingCheck", "order": ["NewEngine", "AddPairInv", "AddPair", "Result", "AddPairInv", "Result", "MulScalarBig", "AddPairInv", "MulScalarBig", "AddPair", "Result"]},
        {"func": "security/cert/auth.go:Authority.VerifyQuorumCert", "order": ["QuorumSize", "Get", "Verify"]},
        {"func": "security/cert/auth.go:Authority.VerifyTimeoutCert", "order": ["QuorumSize", "Verify"]},
        {"func": "security/cert/auth.go:Authority.VerifyAggregateQC", "order": ["QuorumSize", "BatchVerify", "findHighestValidQC"]},
        {"func": "security/cert/auth.go:Authority.findHighestValidQC", "contains": ["SortFunc", "VerifyQuorumCert"]},
        {"func": "security/cert/auth.go:Authority.VerifyAnyQC", "order": ["QuorumCert", "HasAggregateQC", "Sig", "VerifyAggregateQC", "View", "View", "BlockHash", "BlockHash", "VerifyQuorumCert"]},
    ],
    trusted=COMMON_TRUST + CRYPTO_TRUST,
    assumptions=["views < 2^63 (the signed comparator of the high-QC sort is not modelled beyond)",
                 "the block store is content addressed (C13) and bit-field sizes are consistent (C19): explicit hypotheses StoreOK / WF of the theorems",
                 "ids 1..n are the configured replicas"],
)

META = {
    "text": "Proof (soundness, all n, all wire-shaped certificate values incl. every structural mutation, three schemes): Lean theorems verifyQC_sound, verifyTC_sound, verifyAggQC_sound (each signer signed its own timeout message; the reported high QC verifies and has maximal view among the attested QCs that verify), verifyAnyQC_sound, plus sub-quorum and relabelled-view rejection, over a symbolic signature model of ecdsa.go/eddsa.go/bls12.go Verify/BatchVerify/Combine and of cert/auth.go. Completeness (n >= 2): create_verify_QC / create_verify_TC prove that Combine of the Sign outputs of >= quorum distinct configured replicas verifies at every replica (both list and bit-field schemes); for CreateAggregateQC completeness is proved under C08 (Props/C08Agg: agg_verifies) and exercised here by the correspondence (create-agg then verify-agg, judged by the oracle). Tie: every script is run on real cert.Authority instances with real keys (n in 1..13, cache on/off, 3 schemes) and on the model; an independent ground-truth oracle (Spec/Cert.lean: who really signed what) judges every implementation verdict.",
    "note": "Trusted: Lean kernel, symbolic-crypto assumptions (EUF-CMA, PoP, no algebraic accidents), SHA-256/encoding injectivity, the harness' materialisation of symbolic signatures, protobuf not involved here. Models the code with the fix: commits for duplicate signers, QC view, BLS empty participant set and nil signatures applied. BLS12-381 completeness was FALSE of the real code for about 1 in 10^5 pairing checks (pairing-library Miller-loop defect, upstream issue #232; private key 1 over 'msg-211589' never verified): found by tracing this framework's 'transient' BLS rejections, repaired by 28593c9, replayed by corpus/cert/11 and 12 with fixed keys.",
    "technique": "Lean 4 soundness theorems over a symbolic signature model + differential correspondence with real crypto + ground-truth oracle + Go->Lean translation of VerifyQuorumCert/VerifyTimeoutCert/VerifyPartialCert with the acceptance conditions proved on the regenerated code (Props/C02Gen)",
}
