"""Scripts for the `cert` family: symbolic certificates materialised with real keys (C02, C11, C20).

Vocabulary (both drivers):
  cfg <ecdsa|eddsa|bls12> <n> cache=<k> agg=<0|1>
  block <name> parent=<block|G> view=<v> proposer=<p> qc=<qcname|genesis> [store=none]
  sign <r> <msg> <name>              msg = blk:<block> | view:<v> | tmo:<id>:<v>:<qcname|-> | raw:<tag>
  multi <name> <claimed>:<src>[.<idx>] ...      (ECDSA/EdDSA wire-level list; src = signature | junk<N>)
  bls <name> pt=<a+b+junk<N>|0> bits=<ids|->    (BLS wire-level aggregate: point sum + claimed bit-field)
  combine <r> <out> <sig>...
  qc|tc|agg|timeout <name> k=v ...   create-pc / create-qc / create-tc / create-agg
  verify-qc|verify-tc|verify-agg <r> <name>; verify-any <r> <block> <agg|->; verify-pc <r> <sig> <block>
  verify <r> <sig|nil> <msg>; batch-verify <r> <sig|nil> <id>=<msg>,...
"""
from .runner import Family


def quorum(n):
    f = (n - 1) // 3
    return (n + f + 2) // 2


class CertFam(Family):
    name = "cert"
    oracle = "cert.oracle"
    header = 1
    timeout = 1500

    def __init__(self, focus="c02"):
        self.focus = focus

    # ---- building blocks -------------------------------------------------------------------
    def _sigset(self, L, scheme, name, pairs):
        """wire-level signature `name` whose entries are (claimed id, source signature name)"""
        if scheme == "bls12":
            pts = [s for _, s in pairs]
            ids = [str(c) for c, _ in pairs]
            # a bit-field is a set: duplicates collapse, ids must be >= 1
            ids = sorted(set(i for i in ids if i != "0"), key=int)
            L.append(f"bls {name} pt={'+'.join(pts) if pts else '0'} bits={','.join(ids) if ids else '-'}")
        else:
            L.append(f"multi {name} " + " ".join(f"{c}:{s}" for c, s in pairs))

    def script(self, rng, scheme, n, cache, agg, size):
        L = [f"cfg {scheme} {n} cache={cache} agg={agg}"]
        q = quorum(n)
        R = lambda: rng.randrange(1, n + 1)
        # a short chain with honest QCs
        nb = rng.randrange(1, 4)
        prevb, prevqc = "G", "genesis"
        honest_qcs = ["genesis"]
        views = []
        v = 0
        big = rng.random() < 0.15   # views around 2^63: the high-QC sort must not use signed differences
        for k in range(1, nb + 1):
            v += rng.choice([1, 1, 2])
            if big and k == 2:
                v = 2**63 - 1
            elif big and k == 3:
                v = 2**63 + 1
            b = f"B{k}"
            L.append(f"block {b} parent={prevb} view={v} proposer={R()} qc={prevqc}")
            views.append((b, v))
            for i in range(1, n + 1):
                if rng.random() < 0.5:
                    L.append(f"sign {i} blk:{b} s{k}_{i}")
                else:
                    L.append(f"create-pc {i} {b} s{k}_{i}")
            signers = rng.sample(range(1, n + 1), min(n, rng.choice([q, q, q + 1, n])))
            if len(signers) >= 2:
                L.append(f"create-qc {R()} Q{k} {b} " + " ".join(f"s{k}_{i}" for i in signers))
            else:
                self._sigset(L, scheme, f"Q{k}s", [(i, f"s{k}_{i}") for i in signers])
                L.append(f"qc Q{k} sig=Q{k}s view={v} hash={b}")
            L.append(f"verify-qc {R()} Q{k}")
            honest_qcs.append(f"Q{k}")
            prevb, prevqc = b, f"Q{k}"
        # an unstored block and a foreign block to take signatures from
        L.append(f"block X parent=G view={v + 1} proposer={R()} qc=genesis store=none")
        for i in range(1, n + 1):
            L.append(f"sign {i} blk:X sx_{i}")
        cnt = [0]

        def fresh(p):
            cnt[0] += 1
            return f"{p}{cnt[0]}"

        def mutated_qc():
            k = rng.randrange(1, nb + 1)
            b, bv = views[k - 1]
            kind = rng.choice(["dup", "dup-apart", "sub", "unknown", "foreign", "relabel-view", "relabel-hash", "swap", "nil", "empty",
                               "junk", "mixed", "honest", "honest", "unstored", "overq", "zero-id", "wrongscheme-free"])
            ids = list(range(1, n + 1))
            rng.shuffle(ids)
            pairs = [(i, f"s{k}_{i}") for i in ids[:q]]
            view, h = bv, b
            name = fresh("q")
            if kind == "dup":
                i = ids[0]
                m = rng.randrange(1, q + 1)
                pairs = [(i, f"s{k}_{i}")] * m + pairs[:max(0, q - m)]
            elif kind == "dup-apart" and len(pairs) >= 2:
                # a repeated signer that is NOT next to its first occurrence (sub-quorum of distinct signers)
                pairs = pairs[:max(1, q - 1)] + [pairs[0]]
                if len(pairs) >= 3 and rng.random() < 0.5:
                    pairs[1], pairs[-2] = pairs[-2], pairs[1]
            elif kind == "sub":
                pairs = pairs[:max(0, q - 1)]
            elif kind == "unknown":
                pairs = pairs[:q - 1] + [(n + rng.randrange(1, 3), f"s{k}_{ids[0]}")]
            elif kind == "foreign":
                j = rng.randrange(len(pairs))
                pairs[j] = (pairs[j][0], f"sx_{pairs[j][0]}")
            elif kind == "relabel-view":
                view = bv + rng.choice([-1, 1, 5]) if bv + 1 > 1 else bv + 1
                view = max(view, 0)
            elif kind == "relabel-hash":
                h = rng.choice(["X", "unk:zz", "G", "G"] + [x for x, _ in views if x != b] or ["X"])
            elif kind == "swap" and len(pairs) >= 2:
                (a, sa), (c, sc) = pairs[0], pairs[1]
                pairs[0], pairs[1] = (a, sc), (c, sa)
            elif kind == "junk":
                j = rng.randrange(len(pairs))
                pairs[j] = (pairs[j][0], f"junk{rng.randrange(1, 50)}")
            elif kind == "mixed" and nb >= 2:
                k2 = rng.choice([x for x in range(1, nb + 1) if x != k])
                j = rng.randrange(len(pairs))
                pairs[j] = (pairs[j][0], f"s{k2}_{pairs[j][0]}")
            elif kind == "unstored":
                h, view = "X", v + 1
                pairs = [(i, f"sx_{i}") for i in ids[:q]]
            elif kind == "overq":
                pairs = [(i, f"s{k}_{i}") for i in ids]
            elif kind == "zero-id" and scheme != "bls12":
                pairs[0] = (0, pairs[0][1])
            if kind == "nil":
                L.append(f"qc {name} sig=nil view={view} hash={h}")
            elif kind == "empty":
                self._sigset(L, scheme, name + "s", [])
                L.append(f"qc {name} sig={name}s view={view} hash={h}")
            else:
                self._sigset(L, scheme, name + "s", pairs)
                L.append(f"qc {name} sig={name}s view={view} hash={h}")
            return name

        made_qcs = []
        for _ in range(size):
            r = rng.random()
            if r < 0.45:
                name = mutated_qc()
                made_qcs.append(name)
                L.append(f"verify-qc {R()} {name}")
                if rng.random() < 0.3:
                    L.append(f"verify-qc {R()} {name}")  # replay (cache)
            elif r < 0.62:
                # timeout certificates
                tv = rng.choice([0, 1, v, v + 1, v + 2])
                ids = list(range(1, n + 1))
                rng.shuffle(ids)
                nm = fresh("t")
                kind = rng.choice(["honest", "honest", "dup", "dup-apart", "sub", "foreign", "relabel", "nil", "junk"])
                for i in ids:
                    L.append(f"sign {i} view:{tv} {nm}v{i}")
                pairs = [(i, f"{nm}v{i}") for i in ids[:q]]
                view = tv
                if kind == "dup":
                    pairs = [pairs[0]] * len(pairs)
                elif kind == "dup-apart" and len(pairs) >= 2:
                    pairs = pairs[:max(1, q - 1)] + [pairs[0]]
                elif kind == "sub":
                    pairs = pairs[:q - 1]
                elif kind == "foreign":
                    L.append(f"sign {ids[0]} view:{tv + 7} {nm}f")
                    pairs[0] = (ids[0], f"{nm}f")
                elif kind == "relabel":
                    view = tv + 1
                elif kind == "junk":
                    pairs[-1] = (pairs[-1][0], "junk3")
                if kind == "nil":
                    L.append(f"tc {nm} sig=nil view={view}")
                else:
                    self._sigset(L, scheme, nm + "s", pairs)
                    L.append(f"tc {nm} sig={nm}s view={view}")
                L.append(f"verify-tc {R()} {nm}")
            elif r < 0.85:
                # aggregate QCs: each signer attests one of the QCs made so far
                av = rng.choice([1, v + 1, v + 2])
                ids = list(range(1, n + 1))
                rng.shuffle(ids)
                nm = fresh("a")
                pool = honest_qcs + (made_qcs[-3:] if rng.random() < 0.5 else [])
                att = {i: rng.choice(pool) for i in ids}
                kind = rng.choice(["honest", "honest", "honest", "dup", "dup-apart", "sub", "swap-msg", "relabel-view", "wrong-qc", "nil", "via-create",
                                   "count-mismatch", "count-mismatch", "genesis-twins", "genesis-twins"])
                twin = None
                forged = None
                if kind == "honest" and honest_qcs and rng.random() < 0.4:
                    # everybody attests one honest QC; the proposal's block carries a forged twin of it (same
                    # view and block, too few signatures): the block's own QC has to verify all the same
                    hq = rng.choice(honest_qcs)
                    k_ = hq[1:] if hq[1:].isdigit() else None
                    if k_ is not None:
                        att = {i: hq for i in ids}
                        forged = (hq, k_)
                if kind == "genesis-twins":
                    # every signer attests the genesis QC, either the unsigned one or its twin with a
                    # present-but-empty signature; the proposal's block carries the other one
                    if "qE" not in made_qcs:
                        self._sigset(L, scheme, "eS", [])
                        L.append("qc qE sig=eS view=0 hash=G")
                        L.append(f"block BE parent=G view={v + 3} proposer={R()} qc=qE")
                        L.append(f"block BG parent=G view={v + 3} proposer={R()} qc=genesis")
                        made_qcs.append("qE")
                    twin = rng.choice(["genesis", "qE"])
                    att = {i: twin for i in ids}
                    kind = "honest"
                for i in ids:
                    L.append(f"sign {i} tmo:{i}:{av}:{att[i]} {nm}m{i}")
                use = ids[:q]
                pairs = [(i, f"{nm}m{i}") for i in use]
                qcs = {i: att[i] for i in use}
                view = av
                if kind == "dup" and len(pairs) > 1:
                    pairs = [pairs[0]] * len(pairs)
                elif kind == "dup-apart" and len(pairs) > 1:
                    pairs = pairs[:max(1, q - 1)] + [pairs[0]]
                    qcs = {i: att[i] for i, _ in pairs}
                elif kind == "sub":
                    pairs = pairs[:q - 1]
                    qcs = {i: att[i] for i, _ in pairs}
                elif kind == "swap-msg" and len(pairs) > 1:
                    pairs[0], pairs[1] = (pairs[0][0], pairs[1][1]), (pairs[1][0], pairs[0][1])
                elif kind == "relabel-view":
                    view = av + 1
                elif kind == "wrong-qc":
                    i = use[0]
                    qcs[i] = rng.choice(pool)
                if kind == "via-create":
                    for i in use:
                        L.append(f"sign {i} view:{av} {nm}vs{i}")
                        L.append(f"timeout {nm}t{i} id={i} view={av} viewsig={nm}vs{i} msgsig={nm}m{i} qc={att[i]}")
                    L.append(f"create-agg {R()} {nm} {av} " + " ".join(f"{nm}t{i}" for i in use))
                    L.append(f"create-tc {R()} {nm}tc {av} " + " ".join(f"{nm}t{i}" for i in use))
                    L.append(f"verify-tc {R()} {nm}tc")
                elif kind == "nil":
                    # VerifyAggregateQC dereferences a nil signature (an existing test demands the panic);
                    # callers guard it: only exercised through verify-any
                    L.append(f"agg {nm} sig=nil view={view} qcs=" + (",".join(f"{i}:{qcs[i]}" for i in qcs) or "-"))
                    L.append(f"verify-any {R()} B1 {nm}")
                    continue
                elif kind == "count-mismatch" and len(pairs) >= 2:
                    # the signature claims a quorum of participants, the QC map (= the batch of messages)
                    # has fewer entries, or the other way round
                    kk = rng.randrange(1, len(pairs))
                    if scheme == "bls12" and rng.random() < 0.6:
                        # few points, quorum-sized bit-field, few messages
                        L.append(f"bls {nm}s pt={'+'.join(s_ for _, s_ in pairs[:kk])} bits={','.join(str(i) for i, _ in pairs)}")
                        qcs = {i: att[i] for i, _ in pairs[:kk]}
                    elif rng.random() < 0.5:
                        self._sigset(L, scheme, nm + "s", pairs)
                        qcs = {i: att[i] for i, _ in pairs[:kk]}
                    else:
                        self._sigset(L, scheme, nm + "s", pairs[:kk])
                        qcs = {i: att[i] for i, _ in pairs}
                    L.append(f"agg {nm} sig={nm}s view={view} qcs=" + (",".join(f"{i}:{qcs[i]}" for i in qcs) or "-"))
                else:
                    self._sigset(L, scheme, nm + "s", pairs)
                    L.append(f"agg {nm} sig={nm}s view={view} qcs=" + (",".join(f"{i}:{qcs[i]}" for i in qcs) or "-"))
                L.append(f"verify-agg {R()} {nm}")
                if kind == "honest" and twin is None and rng.random() < 0.5:
                    # one signer's attested QC is replaced by a variant with the SAME signature bytes cut at
                    # another place (or attributed to other signers): not what that signer signed
                    cands = [i for i in qcs if qcs[i].startswith("Q") and qcs[i][1:].isdigit()
                             and any(l.startswith(f"create-qc ") and f" {qcs[i]} " in l for l in L)]
                    if cands:
                        i = rng.choice(cands)
                        hq = qcs[i]
                        k_ = hq[1:]
                        vw = next((vv for bb, vv in views if bb == f"B{k_}"), None)
                        vq = fresh("vq")
                        a_, b_ = sorted(rng.sample(range(1, n + 1), 2)) if n >= 2 else (1, 1)
                        if scheme == "bls12":
                            # the same point, attributed to other replicas
                            src = next(l for l in L if l.startswith("create-qc ") and f" {hq} " in l).split()[4:]
                            ids_ = sorted({(int(x.split("_")[1]) % n) + 1 for x in src})
                            L.append(f"bls {vq}s pt={hq}.sig bits={','.join(map(str, ids_))}")
                        elif rng.random() < 0.5:
                            L.append(f"multi {vq}s {a_}:cutA10@{hq}.sig {b_}:cutB10@{hq}.sig")
                        else:
                            # same parts, signers relabelled (rotated)
                            src = next(l for l in L if l.startswith("create-qc ") and f" {hq} " in l).split()[4:]
                            ids_ = [int(x.split("_")[1]) for x in src]
                            L.append(f"multi {vq}s " + " ".join(f"{ids_[(j + 1) % len(ids_)]}:{x}" for j, x in enumerate(src)))
                        if vw is not None:
                            L.append(f"qc {vq} sig={vq}s view={vw} hash=B{k_}")
                            q2 = dict(qcs)
                            q2[i] = vq
                            L.append(f"agg {nm}v sig={nm}s view={view} qcs=" + ",".join(f"{j}:{q2[j]}" for j in q2))
                            L.append(f"verify-agg {R()} {nm}v")
                if forged is not None:
                    hq, k_ = forged
                    fq = fresh("fq")
                    vw = next((vv for bb, vv in views if bb == f"B{k_}"), None)
                    if vw is not None:
                        L.append(f"qc {fq} sig=s{k_}_{ids[0]} view={vw} hash=B{k_}")
                        L.append(f"block {fq}b parent=B{k_} view={vw + 1} proposer={R()} qc={fq}")
                        L.append(f"verify-any {R()} {fq}b {nm}")
                if twin is not None:
                    L.append(f"verify-any {R()} BE {nm}")
                    L.append(f"verify-any {R()} BG {nm}")
                elif rng.random() < 0.5:
                    L.append(f"verify-any {R()} {rng.choice([b for b, _ in views])} {nm}")
            else:
                # raw crypto ops
                k = rng.randrange(1, nb + 1)
                i, j = R(), R()
                msg = rng.choice([f"blk:B{k}", "blk:X", f"view:{v}", "raw:zz"])
                src = rng.choice([f"s{k}_{i}", f"sx_{i}"])
                L.append(f"verify {R()} {src} {msg}")
                nm = fresh("w")
                self._sigset(L, scheme, nm, [(j, src)])
                L.append(f"verify {R()} {nm} {msg}")
                L.append(f"verify-pc {R()} {nm} {rng.choice(['B%d' % k, 'X', 'unk:q'])}")
                if rng.random() < 0.3:
                    L.append(f"batch-verify {R()} {src} {i}={msg}")
                    L.append(f"batch-verify {R()} {src} {j}={msg},{i}=raw:u")
        return L

    def script_c11(self, rng, scheme, n, cache):
        """replays against a warm cache: the same signature bytes with altered message, batch, view, signer labels"""
        L = [f"cfg {scheme} {n} cache={cache} agg=1"]
        q = quorum(n)
        R = lambda: rng.randrange(1, n + 1)
        L.append(f"block B1 parent=G view=1 proposer=1 qc=genesis")
        L.append(f"block B2 parent=B1 view=2 proposer=2 qc=genesis")
        for i in range(1, n + 1):
            L.append(f"create-pc {i} B1 p{i}")
            L.append(f"sign {i} tmo:{i}:3:genesis m{i}")
            L.append(f"sign {i} view:3 v{i}")
        ids = list(range(1, n + 1))
        v = R()  # the verifying replica whose cache is attacked
        k = [0]

        def nm(p):
            k[0] += 1
            return f"{p}{k[0]}"
        for _ in range(rng.randrange(6, 16)):
            rng.shuffle(ids)
            use = ids[:max(1, min(n, rng.choice([1, 1, 2, q, q])))]
            kind = rng.choice(["single", "single", "qc", "batch", "tc", "digest-clash", "batch-boundary", "create"])
            if kind == "create":
                # what CreateQuorumCert / CreateTimeoutCert / CreateAggregateQC COMBINE at the verifying replica is
                # not thereby verified: votes over another block, timeouts of another view
                a = nm("k")
                for i in use:
                    L.append(f"create-pc {i} B2 {a}w{i}")
                L.append(f"create-qc {v} {a} B1 " + " ".join(f"{a}w{i}" for i in use))     # votes are for B2
                L.append(f"verify-qc {v} {a}")
                L.append(f"verify-qc {v} {a}")
                L.append(f"create-qc {v} {a}g B1 " + " ".join(f"p{i}" for i in use))        # genuine
                L.append(f"verify-qc {v} {a}g")
                L.append(f"qc {a}x sig={a}.sig view=2 hash=B2")                              # the same bytes for the right block
                L.append(f"verify-qc {v} {a}x")
                L.append(f"verify-qc {v} {a}")
                continue
            if kind == "batch-boundary" and len(ids) >= 2:
                # two batches whose per-signer messages, written one after the other with the signer ids but
                # WITHOUT their lengths, read the same: {i: X, j: Y1|j|Y2} and {i: X|j|Y1, j: Y2}
                i, j = sorted(rng.sample(ids, 2))
                jb = "%02x%02x%02x%02x" % (j & 255, (j >> 8) & 255, 0, 0)
                x, y1, y2 = "6161", "626262", "63"
                a = nm("bb")
                L.append(f"sign {i} hex:{x} {a}i")
                L.append(f"sign {j} hex:{y1}{jb}{y2} {a}j")
                L.append(f"combine {R()} {a} {a}i {a}j")
                L.append(f"batch-verify {v} {a} {i}=hex:{x},{j}=hex:{y1}{jb}{y2}")      # warm (batch kind)
                L.append(f"batch-verify {v} {a} {i}=hex:{x}{jb}{y1},{j}=hex:{y2}")      # same bytes in a row, other messages
                L.append(f"batch-verify {v} {a} {i}=hex:{x},{j}=hex:{y1}{jb}{y2}")
                continue
            if kind == "digest-clash":
                # a signature over the very bytes the cache hashes for the one-entry batch {i: m} (id, length, m),
                # remembered as valid for that MESSAGE, is not a signature over the batch
                i = use[0]
                m = rng.choice(["blk:B1", "blk:B2", "view:3", "raw:u"])
                a = nm("e")
                L.append(f"sign {i} enc:{i}:{m} {a}")
                L.append(f"verify {v} {a} enc:{i}:{m}")                  # warm (message kind)
                L.append(f"batch-verify {v} {a} {i}={m}")                # same digest, other kind
                L.append(f"batch-verify {v} {a} {i}=enc:{i}:{m}")
                L.append(f"verify {v} {a} {m}")
            elif kind == "qc" and len(use) >= 2 and scheme != "bls12" and rng.random() < 0.35:
                # the same signature bytes, cut at another place between the first two signers, after the
                # genuine multi-signature was remembered
                a = nm("c")
                L.append(f"combine {R()} {a} p{use[0]} p{use[1]}")
                L.append(f"verify {v} {a} blk:B1")
                b = nm("r")
                lo, hi = sorted(use[:2])
                L.append(f"multi {b} {lo}:cutA10@{a} {hi}:cutB10@{a}")
                L.append(f"verify {v} {b} blk:B1")
                L.append(f"verify {v} {a} blk:B1")
            elif kind == "single":
                i = use[0]
                L.append(f"verify {v} p{i} blk:B1")                      # warm
                a = nm("x")
                j = rng.choice([x for x in range(1, n + 2) if x != i] or [i])
                self._sigset(L, scheme, a, [(j, f"p{i}")])               # other claimed signer
                L.append(f"verify {v} {a} blk:B1")
                L.append(f"verify {v} p{i} blk:B2")                      # other message
                L.append(f"verify-pc {v} {a} B1")
                b = nm("x")
                self._sigset(L, scheme, b, [(i, f"p{i}"), (j, f"p{i}")] if scheme != "bls12" else [(i, f"p{i}"), (j, "junk0")][:1] + [(j, f"p{i}")][:0])
                L.append(f"verify {v} {b} blk:B1")
                L.append(f"batch-verify {v} p{i} {i}=blk:B1")
                L.append(f"batch-verify {v} p{i} {j}=blk:B1")
                L.append(f"batch-verify {v} p{i} {i}=blk:B2")
            elif kind == "qc" and len(use) >= 2:
                a = nm("c")
                L.append(f"combine {R()} {a} " + " ".join(f"p{i}" for i in use))
                L.append(f"verify {v} {a} blk:B1")
                L.append(f"qc {a}q sig={a} view=1 hash=B1")
                L.append(f"verify-qc {v} {a}q")
                # same bytes, relabelled signer set (shifted ids / superset / subset)
                b = nm("c")
                shifted = [(ids[(ids.index(i) + 1) % n], f"p{i}") for i in use]
                if scheme == "bls12":
                    L.append(f"bls {b} pt={a} bits=" + ",".join(str(c) for c, _ in shifted))
                    sup = sorted(set(use) | set(ids[:q]))
                    L.append(f"bls {b}s pt={a} bits=" + ",".join(map(str, sup)))
                    L.append(f"qc {b}sq sig={b}s view=1 hash=B1")
                    L.append(f"verify-qc {v} {b}sq")
                else:
                    self._sigset(L, scheme, b, shifted)
                L.append(f"verify {v} {b} blk:B1")
                L.append(f"qc {b}q sig={b} view=1 hash=B1")
                L.append(f"verify-qc {v} {b}q")
                L.append(f"qc {b}r sig={a} view=2 hash=B2")
                L.append(f"verify-qc {v} {b}r")
            elif kind == "batch" and len(use) >= 2:
                a = nm("g")
                L.append(f"combine {R()} {a} " + " ".join(f"m{i}" for i in use))
                good = ",".join(f"{i}=tmo:{i}:3:genesis" for i in use)
                L.append(f"batch-verify {v} {a} {good}")
                L.append(f"batch-verify {v} {a} {good}")
                L.append(f"batch-verify {v} {a} " + ",".join(f"{i}=tmo:{i}:4:genesis" for i in use))      # other view
                L.append(f"batch-verify {v} {a} " + ",".join(f"{ids[(ids.index(i) + 1) % n]}=tmo:{i}:3:genesis" for i in use))  # other ids
                L.append(f"batch-verify {v} {a} " + ",".join(f"{i}=tmo:{i}:3:genesis" for i in use[:-1]))  # sub-batch
                L.append(f"agg {a}g sig={a} view=3 qcs=" + ",".join(f"{i}:genesis" for i in use))
                L.append(f"verify-agg {v} {a}g")
                L.append(f"agg {a}h sig={a} view=4 qcs=" + ",".join(f"{i}:genesis" for i in use))
                L.append(f"verify-agg {v} {a}h")
                L.append(f"verify {v} {a} tmo:{use[0]}:3:genesis")
            elif kind == "tc" and len(use) >= 2:
                a = nm("t")
                L.append(f"combine {R()} {a} " + " ".join(f"v{i}" for i in use))
                L.append(f"tc {a}c sig={a} view=3")
                L.append(f"verify-tc {v} {a}c")
                L.append(f"tc {a}d sig={a} view=4")
                L.append(f"verify-tc {v} {a}d")
                L.append(f"verify-tc {v} {a}c")
            # churn the LRU so that eviction happens
            if rng.random() < 0.5:
                for _ in range(rng.randrange(1, cache + 2)):
                    i = R()
                    L.append(f"verify {v} v{i} view:3")
        return L

    def script_pop(self, rng, n, cache, agg):
        """BLS: some replicas' proofs of possession, as the others hold them, do not check out (not a curve
        point, missing, somebody else's proof).  Every signature naming such a replica must be rejected by every
        OTHER replica, the first time and every later time; the replica itself does not check its own proof."""
        ids = list(range(1, n + 1))
        bad = rng.sample(ids, 1 if n < 4 or rng.random() < 0.7 else 2)
        kinds = []
        for b in bad:
            k = rng.choice(["bad", "none", "swap"])
            if k == "swap":
                others = [i for i in ids if i != b]
                k = f"swap{rng.choice(others)}" if others else "bad"
            kinds.append(f"{b}:{k}")
        L = [f"cfg bls12 {n} cache={cache} agg={agg} pop={','.join(kinds)}",
             "block B1 parent=G view=1 proposer=1 qc=genesis"]
        for i in ids:
            L.append(f"create-pc {i} B1 p{i}")
            L.append(f"sign {i} view:2 s{i}")
        q = quorum(n)
        L.append("create-qc 1 qall B1 " + " ".join(f"p{i}" for i in ids))
        good = [i for i in ids if i not in bad]
        if len(good) >= q:
            L.append("create-qc 1 qgood B1 " + " ".join(f"p{i}" for i in rng.sample(good, q)))
        mixed = (bad + rng.sample(good, min(len(good), max(0, q - len(bad)))))
        L.append("create-qc 1 qmix B1 " + " ".join(f"p{i}" for i in mixed))
        L.append("combine 1 tall " + " ".join(f"s{i}" for i in ids))
        L.append("tc tcall sig=tall view=2")
        verifiers = rng.sample(ids, min(n, 3)) + [bad[0]]
        for v in verifiers:
            for _ in range(rng.choice([2, 3])):
                L.append(f"verify-qc {v} qall")
                L.append(f"verify {v} p{bad[0]} blk:B1")
            L.append(f"verify-pc {v} p{bad[0]} B1")
            L.append(f"verify-qc {v} qmix")
            if len(good) >= q:
                L.append(f"verify-qc {v} qgood")
            L.append(f"verify-tc {v} tcall")
            L.append(f"verify {v} s{bad[-1]} view:2")
            L.append(f"verify-qc {v} qall")
            L.append(f"batch-verify {v} tall " + ",".join(f"{i}=view:2" for i in ids))
            g = rng.choice(good) if good else bad[0]
            L.append(f"verify {v} p{g} blk:B1")
        return L

    def generate(self, tier, rng):
        quick = tier == "quick"
        if self.focus != "c11":
            for k in range(24 if quick else 300):
                n = rng.choice([2, 3, 4, 4, 5, 7])
                yield (f"pop-n{n}-{k}", self.script_pop(rng, n, rng.choice([0, 0, 5, 50]), rng.choice([0, 1])))
        if self.focus == "c11":
            for scheme, count in (("ecdsa", 120 if quick else 3000), ("eddsa", 120 if quick else 3000), ("bls12", 40 if quick else 800)):
                for k in range(count):
                    n = rng.choice([1, 2, 3, 4, 4, 5, 7, 7, 10])
                    cache = rng.choice([1, 1, 2, 3, 4, 8, 50])
                    yield (f"c11-{scheme}-n{n}-c{cache}-{k}", self.script_c11(rng, scheme, n, cache))
        plan = []
        ns_all = [1, 2, 3, 4, 5, 6, 7, 8, 9, 10, 11, 12, 13]
        for scheme, count in (("ecdsa", 200 if quick else 4000), ("eddsa", 200 if quick else 4000), ("bls12", 60 if quick else 1200)):
            for k in range(count):
                n = ns_all[k % len(ns_all)] if k < 2 * len(ns_all) else rng.choice([4, 7, 4, 7, 10, 13, 2, 3])
                cache = rng.choice([0, 0, 1, 2, 5, 10]) if self.focus == "c02" else rng.choice([1, 1, 2, 3, 5, 10])
                plan.append((scheme, n, cache, rng.choice([0, 1])))
        for k, (scheme, n, cache, agg) in enumerate(plan):
            size = rng.randrange(4, 10) if scheme != "bls12" else rng.randrange(3, 7)
            yield (f"gen-{scheme}-n{n}-c{cache}-a{agg}-{k}", self.script(rng, scheme, n, cache, agg, size))

    def nontrivial_keys(self, lines, impl_out):
        # distinct (script, verdict op) pairs whose verdict was computed; a script counts when it saw both verdicts
        from . import core
        oks = sum(1 for l, o in zip(lines, impl_out) if l.startswith("verify") and o.startswith("ok"))
        rej = sum(1 for l, o in zip(lines, impl_out) if l.startswith("verify") and o.startswith("reject"))
        return [core.script_hash(lines)] if oks and rej else []

    def tags(self, lines, impl_out):
        t = super().tags(lines, impl_out)
        for l, o in zip(lines, impl_out):
            if l.startswith("verify"):
                k = "verdict:" + l.split()[0] + ":" + (o.split()[0] if o else "")
                t[k] = t.get(k, 0) + 1
        return t
