from .runner import Property
from .common import COMMON_TRUST
from .fam_cert import CertFam
from .prop_C02 import CRYPTO_TRUST

PROP = Property(
    "C11", ["HsVerif.Props.C11"], [CertFam("c11")],
    facts=[
        {"func": "security/cert/cache.go:Cache.Verify", "order": ["Sum256", "cacheKey", "check", "Verify", "insert"]},
        {"func": "security/cert/cache.go:Cache.BatchVerify", "order": ["Sorted", "Sum", "cacheKey", "check", "BatchVerify", "insert"]},
        {"func": "security/cert/cache.go:Cache.Sign", "order": ["Sign", "Sum256", "cacheKey"]},
        {"func": "security/cert/cache.go:cacheKey", "contains": ["Fprintf", "Participants", "ForEach", "ToBytes"]},
        {"func": "security/cert/cache.go:Cache.Combine", "contains": ["Combine"], "absent": ["insert", "check"]},
        {"func": "security/cert/cache.go:Cache.insert", "order": ["Lock", "defer Unlock"]},
        {"func": "security/cert/cache.go:Cache.check", "order": ["Lock", "defer Unlock"]},
        {"func": "security/cert/auth.go:NewAuthority", "contains": ["CacheSize"]},
    ],
    trusted=COMMON_TRUST + CRYPTO_TRUST + ["SHA-256 collision resistance (the digest stands for the message / the id-sorted length-prefixed batch)",
                                          "insert/check are atomic (mutex; lock discipline re-checked as a syntactic fact)"],
    assumptions=["signature values are well formed (bit-field size = number of set bits: true of every decoded or created signature, C19)",
                 "own Sign returns a signature the base accepts (own id is configured)"],
)

META = {
    "text": "Proof: cache_transparent — for every capacity, scheme, ground truth and every sequence of sign/verify/batch-verify/combine operations with arbitrary (replayed, relabelled) signature values the cached authority returns exactly the uncached verdicts; via the invariant 'every remembered key belongs to a pair the base accepts' and key injectivity (key = kind, concrete type, message or batch, claimed participants, signature bytes determines the base verdict), plus the LRU invariant (at most capacity keys, no duplicates, eviction only forgets). Tie: real cert.Authority instances with caches of capacity 1..50 (three schemes, real keys) are driven with replay/relabel scripts (same bytes with other message, batch, view, signer labels; LRU churn) and compared with the model, whose verdicts are the uncached ones; an independent ground-truth oracle judges each verdict. The LRU bookkeeping itself is tied only through verdicts and the syntactic facts (call order in Verify/BatchVerify/Sign, lock discipline).",
    "note": "Trusted: Lean kernel, SHA-256 collision resistance, injective encodings (DER / fixed-length signature bytes, id and length prefixes), sync.Mutex. Models the code with the fix: commits for the cache key (type + participants) and the batch digest applied.",
    "technique": "Lean 4 theorem (invariant + key injectivity) over LRU/key model + differential correspondence on replay/relabel scripts with real crypto",
}
