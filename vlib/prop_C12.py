from .runner import Property
from .common import COMMON_TRUST
from .fam_wire import WireFam
from .fam_chain import ChainFam
from .fam_bytes import BytesFam
from .prop_C02 import CRYPTO_TRUST

PROP = Property(
    "C12", ["HsVerif.Props.C12", "HsVerif.Props.C12Bytes"], [WireFam(), ChainFam("fetch"), BytesFam()],
    facts=[
        {"func": "internal/proto/hotstuffpb/convert.go:BlockFromProto", "order": ["NewBlock", "QuorumCertFromProto", "SetTimestamp"]},
        {"func": "internal/proto/hotstuffpb/convert.go:QuorumCertFromProto", "contains": ["NewQuorumCert", "QuorumSignatureFromProto", "GetView", "GetHash"]},
        {"func": "internal/proto/hotstuffpb/convert.go:AggregateQCFromProto", "contains": ["NewAggregateQC", "QuorumCertFromProto", "QuorumSignatureFromProto", "GetView"]},
        {"func": "server/server.go:serviceImpl.Timeout", "contains": ["PeerIDFromContext", "TimeoutMsgFromProto"]},
        {"func": "server/server.go:serviceImpl.Propose", "contains": ["PeerIDFromContext", "ProposalFromProto"]},
        {"func": "network/sender.go:qspec.RequestBlockQF", "contains": ["BlockFromProto", "Hash"]},
    ],
    trusted=COMMON_TRUST + CRYPTO_TRUST + ["google.golang.org/protobuf Marshal/Unmarshal and timestamppb (identity on message shapes; run for real by the harness)",
                                          "BLS point compression round-trips (kilic/bls12-381)"],
    assumptions=["objects are what honest constructors produce: a Go type exists for the scheme, ids < 2^32, views < 2^64, bit-field size consistent (explicit WF predicates of the theorems; blsSign_ok shows Sign satisfies them)",
                 "the sender id of timeouts/proposals/votes is taken from the connection, not from the wire"],
)

META = {
    "text": "Proof: for every well-formed protocol object the model of convert.go satisfies FromProto(ToProto x) = x (signature for three schemes, partial cert with recomputed signer, QC, TC, AggQC, SyncInfo, TimeoutMsg with id := peer, block content, proposal with proposer := peer), so hash, bytes-to-sign, participants and every verification verdict coincide (derived_equal); fetched_block_has_hash for the RequestBlock reply filter. Tie: generated objects (every optional part present/absent, empty and non-empty batches, 1..n signers, three schemes, extreme views 2^31..2^64-1, ids 0 / 2^32-1, timestamps before 1970 / after 2262 / nanosecond edges) go through ToProto, the real proto.Marshal/Unmarshal and FromProto in Go; the canonical description of the decoded object is compared with the model's and an oracle requires hash/bytes/participants/verdict to be unchanged. Also: aggregate QCs with an empty QC map (present with view and signature, must stay present), timestamps outside timestamppb's valid range (still the time the sender hashed), and for the clause 'a block fetched by hash is the block that hash names' the block-store scripts in which blocks come from peers through the real quorum function (honest, silent and lying replies in every order). BYTES THAT ARE HASHED AND SIGNED (Model/Bytes.lean, Props/C12Bytes): Multi.ToBytes, QuorumCert.ToBytes, PartialCert.ToBytes, TimeoutMsg.ToBytes and Block.ToBytes (with the protobuf form of the command batch) are modelled byte for byte and run against the real methods on objects given field by field (the bytes family: random objects with extreme ids/views/lengths, and for every place where two variable-length fields meet the pairs of objects that read the same when the boundary is not written); the oracle requires different objects to have different bytes, a different block a different hash. Writing that model found that a block's hash did not determine the block (repair 6e1f39b). Theorems (Props/C12Bytes): le_injective, multiBytes_injective, qcBytes_injective (within one signature scheme), tmoBytes_injective, varint_append_injective, cmdBytes_injective, batchBytes_injective, blockBytes_injective and block_hash_determines_block (well-formed blocks, given no SHA-256 collision on the two byte strings): the content-addressing hypothesis of C01/C06 reduced to collision resistance; the old layouts' ambiguities kept as witnesses.",
    "note": "Trusted: Lean kernel, protobuf library, timestamppb, point compression, SHA-256; symbolic naming of signature bytes and hashes. The serviceImpl handlers themselves (peer id from gRPC metadata) are exercised under C10; here their id assignment is modelled.",
    "technique": "Lean 4 round-trip theorems over a model of the proto shapes + differential correspondence through real protobuf",
}
