"""Liveness scripts for the cluster (C05): an adversarial prefix (partitions, loss, Byzantine
messages, crashes), then a SYNCHRONOUS SUFFIX among a quorum of live honest replicas: everything
they send each other is delivered, their timers fire only when nothing is left to deliver, and the
suffix views are led by members (fixed member leader when somebody is faulty, round-robin when all
replicas are live).  Phase markers tell the oracle what to demand.  Also fault-free synchronous
runs from the start (second clause of C05).  Scripts are written with the model's help, like the
safety scripts."""
import os

from .runner import Family
from .fam_cluster import Model, ClusterPlay, RULES
from . import core

CHAIN = {"chainedhotstuff": 3, "simplehotstuff": 3, "fasthotstuff": 2}


class Done(Exception):
    pass


def sync_suffix(p, members, maxrounds, extra=2):
    """returns True when every member committed something new"""
    start = dict(p.committed)
    p.say("mark sync members=" + ",".join(map(str, members)) + f" chain={CHAIN[p.rules]}")
    done_at = None
    for r in range(maxrounds):
        before = dict(p.view)
        p.settle(members, rounds=12)
        if all(p.view[i] == before[i] for i in members):
            p.timeouts(members)
            p.settle(members, rounds=12)
        if done_at is None and all(p.committed[i] != start[i] for i in members):
            done_at = r
        if done_at is not None and r >= done_at + extra:
            break
    p.say("mark end")
    return done_at is not None


def live_play(m, rng, scheme, rules, k):
    n = rng.choice([4, 4, 7])
    f = (n - 1) // 3
    nb = rng.choice([0, f])
    m.ask("reset")
    if nb == 0 and rng.random() < 0.5:
        p = ClusterPlay(m, rng, scheme, n, rules, 0)
        members = list(p.nodes)
    else:
        st = rng.getstate()
        ids = list(range(1, n + 1))
        rng.shuffle(ids)
        nodes = sorted(ids[nb:])
        ld = rng.choice(nodes)
        rng.setstate(st)          # the constructor repeats the same shuffle
        p = ClusterPlay(m, rng, scheme, n, rules, nb, leader=ld)
        crash = rng.randrange(0, f - nb + 1)
        others = [i for i in p.nodes if i != ld]
        rng.shuffle(others)
        members = sorted([ld] + others[crash:])
    p.settle()
    for _ in range(rng.randrange(4, 22)):
        r = rng.random()
        if r < 0.4:
            p.pump_round(p=rng.choice([1.0, 0.7, 0.4]), maxk=rng.choice([None, 1, 2]))
        elif r < 0.55:
            g = [i for i in p.nodes if rng.random() < 0.6]
            if len(g) >= 2:
                p.pump_round(g)
        elif r < 0.7:
            p.timeouts([i for i in p.nodes if rng.random() < 0.6])
        elif r < 0.8 and len(p.nodes) >= 2:
            a, b = rng.sample(p.nodes, 2)
            p.say(f"drop {a} {b} max={rng.choice([1, 2, 1000])}")
        else:
            p.byz_act()
    for i in members:
        p.say(f"fetch {i} on")
    sync_suffix(p, members, maxrounds=6 if rules != "fasthotstuff" else 4)
    for i in members:
        p.say(f"@{i} dump")
    return p.L


def lag_play(m, rng, scheme, rules, k):
    """one member hears nothing and is not heard for several views (everything to and from it is LOST) while a
    quorum with the fixed leader goes on; then the synchronous suffix among ALL of them: the member that fell
    behind must catch up and commit like everybody else"""
    n = rng.choice([4, 4, 5, 7])
    m.ask("reset")
    st = rng.getstate()
    ids = list(range(1, n + 1))
    rng.shuffle(ids)
    ld = rng.choice(sorted(ids))
    rng.setstate(st)
    rot = n >= 5 and rng.random() < 0.5     # rotating leaders: the member that fell behind leads views of the suffix
    p = ClusterPlay(m, rng, scheme, n, rules, 0, leader=None if rot else ld)
    for i in p.nodes:
        p.say(f"fetch {i} on")
    p.settle(rounds=rng.randrange(2, 8))
    lag = rng.choice([i for i in p.nodes if rot or i != ld])
    rest = [i for i in p.nodes if i != lag]
    for _ in range(rng.randrange(3, 12)):
        before = dict(p.view)
        p.settle(rest, rounds=4)
        if all(p.view[i] == before[i] for i in rest):
            p.timeouts(rest)
            p.settle(rest, rounds=4)
        for a in rest:
            p.say(f"drop {a} {lag}")
            p.say(f"drop {lag} {a}")
    if rot and rng.random() < 0.7:
        # the member that fell behind leads the FIRST view after the partition heals and learns the high QC from
        # the others' timeout messages only: as proposer it has to fetch the blocks it missed
        for _ in range(n + 1):
            if p.leader(max(p.view[i] for i in rest) + 1) == lag:
                break
            before = dict(p.view)
            p.settle(rest, rounds=4)
            if all(p.view[i] == before[i] for i in rest):
                p.timeouts(rest)
                p.settle(rest, rounds=4)
            for a in rest:
                p.say(f"drop {a} {lag}")
                p.say(f"drop {lag} {a}")
        p.timeouts(rest)
    sync_suffix(p, list(p.nodes), maxrounds=6 if rules != "fasthotstuff" else 4)
    for i in p.nodes:
        p.say(f"@{i} dump")
    return p.L


def fault_free_play(m, rng, scheme, rules, k):
    n = rng.choice([4, 4, 5, 7])
    m.ask("reset")
    p = ClusterPlay.__new__(ClusterPlay)
    # all replicas live, fetch on, nothing adversarial
    ClusterPlay.__init__(p, m, rng, scheme, n, rules, 0, leader=rng.choice([None, None, rng.randrange(1, n + 1)]))
    p.L.insert(len(p.L) - len(p.nodes), f"mark fault-free chain={CHAIN[rules]}")   # before the start lines
    m.ask(f"mark fault-free chain={CHAIN[rules]}")
    # fault-free includes block fetching: a replica that gets a proposal before the block its QC certifies
    # (messages of different senders are not ordered) asks its peers for that block
    for i in p.nodes:
        p.say(f"fetch {i} on")
    for _ in range(rng.randrange(3, 9)):
        p.settle(rounds=12)
    p.say("mark end")
    for i in p.nodes:
        p.say(f"@{i} dump")
    return p.L


class ClusterLiveFam(Family):
    name = "cluster"
    oracle = "clusterlive.oracle"
    header = 0
    timeout = 3000
    shrink_oracle_failures = False      # the liveness verdicts presuppose that the script delivered everything

    def corpus(self):
        d = os.path.join(core.VERIF, "corpus", "clusterlive")
        out = []
        if os.path.isdir(d):
            for f in sorted(os.listdir(d)):
                if f.endswith(".ops"):
                    out.append(("corpus/clusterlive/" + f, [l.rstrip("\n") for l in open(os.path.join(d, f)) if l.strip()]))
        return out

    def generate(self, tier, rng):
        quick = tier == "quick"
        m = Model()
        try:
            for k in range(90 if quick else 3000):
                scheme = rng.choice(["ecdsa", "eddsa", "eddsa"] + (["bls12"] if k % 15 == 0 else []))
                rules = RULES[k % 3]
                if k % 5 == 4:
                    yield (f"ff-{scheme}-{rules}-{k}", fault_free_play(m, rng, scheme, rules, k))
                elif k % 5 == 2:
                    yield (f"lag-{scheme}-{rules}-{k}", lag_play(m, rng, scheme, rules, k))
                else:
                    yield (f"live-{scheme}-{rules}-{k}", live_play(m, rng, scheme, rules, k))
        finally:
            m.close()

    def nontrivial_keys(self, lines, impl_out):
        commits = sum(o.count("commit(") for o in impl_out)
        return [core.script_hash(lines)] if commits >= 2 else []

    def tags(self, lines, impl_out):
        t = {}
        for l in lines:
            w = l.split()
            k = w[0] if not w[0].startswith("@") else "@" + w[1]
            if w[0] == "mark":
                k = "mark:" + w[1]
            t["op:" + k] = t.get("op:" + k, 0) + 1
        for o in impl_out:
            for key in ("commit(", "vc(", ",timeout)"):
                c = o.count(key)
                if c:
                    t["eff:" + key.strip("(,)")] = t.get("eff:" + key.strip("(,)"), 0) + c
        return t
