"""Family `rules` (C04): real protocol/rules rulesets over a real security/blockchain store.

A script builds a block forest (`block` lines; parents and certificate pointers refer to blocks
created earlier, to genesis or to the zero hash) and presents the blocks to one ruleset in some
order the way consensus does (vote rule, store, commit rule), possibly never storing one block
(missing block), then asks every question again in the final state.

Scopes
  exhaustive-3 : all forests of 3 blocks: parents in {genesis, earlier}, certificate pointers in
                 {zero, genesis, earlier}, all views in 1..V (V = 4), certificate view = view of the
                 certified block; all 6 presentation orders x {no block / one block missing}
                 (thorough: all 24 variants for V = 3 and 6 sampled variants for V = 4;
                 quick: one sampled variant).
  exhaustive-4 : certificate chain b4 -> b3 -> b2 -> b1 -> genesis, all 24 parent assignments, all
                 views in 1..5 (thorough; quick: a seeded sample), creation order and one sampled order.
  fhs-plain    : all (view, certificate view, current view) in 0..5 for Fast-HotStuff's plain rule.
  random       : forests of 6..30 blocks, chain-biased with forks, view gaps, equal views, view
                 inversions, certificate != parent, stale certificate views, zero/missing pointers.
"""
import itertools
from .runner import Family

KINDS = ["chainedhotstuff", "fasthotstuff", "simplehotstuff"]


def block_line(name, view, parent, qc, qcview):
    return f"block {name} {view} {parent} {qc} {qcview}"


def vote_lines(kind, name, view, rng=None):
    if kind == "chainedhotstuff":
        # the view argument is ignored by the rule; vary it anyway
        return [f"vote {view} {name}"]
    if kind == "simplehotstuff":
        return [f"vote {view} {name}", f"vote {view + 1} {name}"]
    return [f"vote {view} {name}", f"vote {view + 1} {name}", f"vote {view} {name} agg"]


def present(kind, blocks, order, missing=None, requery=True):
    """blocks: list of (name, view, parent, qc, qcview) in creation order."""
    views = {b[0]: b[1] for b in blocks}
    lines = [f"ruleset {kind}", "defer"] + [block_line(*b) for b in blocks]
    for n in order:
        lines += vote_lines(kind, n, views[n])
        if n != missing:
            lines.append(f"store {n}")
        lines.append(f"commit {n}")
    if requery:
        for n in order:
            lines += vote_lines(kind, n, views[n])[:1] + ([f"vote {views[n]} {n} agg"] if kind == "fasthotstuff" else [])
            lines.append(f"commit {n}")
    lines += ["lock", "done"]
    return lines


def forests3(V, with_zero=True):
    names = ["a", "b", "c"]
    prefs = [["genesis"], ["genesis", "a"], ["genesis", "a", "b"]]
    qrefs = [(["zero"] if with_zero else []) + p for p in prefs]
    for parents in itertools.product(*prefs):
        for qcs in itertools.product(*qrefs):
            for views in itertools.product(range(1, V + 1), repeat=3):
                vw = {"zero": 0, "genesis": 0}
                blocks = []
                for i, n in enumerate(names):
                    vw[n] = views[i]
                    blocks.append((n, views[i], parents[i], qcs[i], vw[qcs[i]]))
                yield blocks


def forests4(V):
    names = ["a", "b", "c", "d"]
    prefs = [["genesis"], ["genesis", "a"], ["genesis", "a", "b"], ["genesis", "a", "b", "c"]]
    qcs = ["genesis", "a", "b", "c"]
    for parents in itertools.product(*prefs):
        for views in itertools.product(range(1, V + 1), repeat=4):
            vw = {"genesis": 0}
            blocks = []
            for i, n in enumerate(names):
                vw[n] = views[i]
                blocks.append((n, views[i], parents[i], qcs[i], vw[qcs[i]]))
            yield blocks


VARIANTS3 = [(o, m) for o in itertools.permutations(["a", "b", "c"]) for m in (None, "a", "b", "c")]


def random_forest(rng, n):
    """chain-biased random forest; returns blocks in creation order"""
    blocks = []
    vw = {"zero": 0, "genesis": 0}
    names = []
    tip = "genesis"
    style = rng.random()
    for i in range(n):
        name = f"b{i}"
        pool = ["genesis"] + names
        r = rng.random()
        if r < 0.62:
            parent = tip
        elif r < 0.92:
            parent = rng.choice(pool[-4:]) if rng.random() < 0.7 else rng.choice(pool)
        elif r < 0.96:
            parent = "zero"
        else:
            parent = rng.choice(pool)
        r = rng.random()
        if r < 0.72:
            qc = parent if parent != "zero" else "genesis"
        elif r < 0.93:
            qc = rng.choice(pool[-4:]) if rng.random() < 0.7 else rng.choice(pool)
        elif r < 0.97:
            qc = "zero"
        else:
            qc = rng.choice(pool)
        base = vw[parent]
        r = rng.random()
        if r < 0.62:
            view = base + 1
        elif r < 0.80:
            view = base + rng.randrange(2, 4)
        elif r < 0.88:
            view = max(0, base)                       # equal to the parent's view
        elif r < 0.94:
            view = max(0, base - rng.randrange(1, 3))  # view inversion
        else:
            view = rng.randrange(0, 3 + (i if style < 0.5 else 6))
        qcview = vw[qc]
        if rng.random() < 0.06:
            qcview = max(0, qcview + rng.choice([-1, 1, 2]))  # certificate view field differs from its block's view
        if rng.random() < 0.03:
            view = qcview + 1
        vw[name] = view
        blocks.append((name, view, parent, qc, qcview))
        names.append(name)
        if rng.random() < 0.8:
            tip = name
    return blocks


def random_script(rng, kind, n):
    blocks = random_forest(rng, n)
    names = [b[0] for b in blocks]
    views = {b[0]: b[1] for b in blocks}
    r = rng.random()
    order = list(names)
    if r < 0.35:
        pass                                  # creation order: what an honest run looks like
    elif r < 0.7:
        # local shuffles: neighbours swapped
        for i in range(len(order) - 1):
            if rng.random() < 0.3:
                order[i], order[i + 1] = order[i + 1], order[i]
    else:
        rng.shuffle(order)
    missing = set(rng.sample(names, rng.choice([0, 0, 1, 1, 2]))) if len(names) > 2 else set()
    lines = [f"ruleset {kind}", "defer"] + [block_line(*b) for b in blocks]
    late = []
    for nme in order:
        v = views[nme]
        cur = v if rng.random() < 0.6 else max(0, v + rng.choice([-2, -1, 1, 2]))
        agg = " agg" if kind == "fasthotstuff" and rng.random() < 0.5 else ""
        lines.append(f"vote {cur} {nme}{agg}")
        if nme in missing:
            if rng.random() < 0.4:
                late.append(nme)
        else:
            lines.append(f"store {nme}")
            if rng.random() < 0.05:
                lines.append(f"store {nme}")
        lines.append(f"commit {nme}")
        if rng.random() < 0.15:
            lines.append("lock")
        if late and rng.random() < 0.2:
            lines.append(f"store {late.pop()}")
    # final state: ask again
    for nme in rng.sample(names, min(len(names), 8)):
        v = views[nme]
        lines.append(f"vote {v} {nme}")
        if kind == "fasthotstuff":
            lines.append(f"vote {v} {nme} agg")
        lines.append(f"commit {nme}")
    lines += ["lock", "done"]
    return lines


MALFORMED = [
    ["vote 1 a"],                                       # before any ruleset
    ["ruleset nosuchrules"],
    ["ruleset chainedhotstuff", "ruleset chainedhotstuff"],
    ["ruleset chainedhotstuff", "block a 1 genesis genesis", "block a 1 genesis later 0", "block genesis 1 genesis genesis 0",
     "block a x genesis genesis 0", "block a 1 genesis genesis 0", "block a 2 genesis genesis 0", "store nosuch", "vote 1 nosuch",
     "commit nosuch", "vote x a", "vote 1 a aggr", "store a", "store a", "commit a", "lock now", "lock",
     "block z 4294967296 genesis genesis 0", "block z 4294967295 genesis genesis 4294967295", "vote 4294967295 z", "commit z"],
]


class RulesFam(Family):
    name = "rules"
    oracle = "rules.oracle"
    header = 2
    timeout = 1500

    def exhaustive(self, tier):
        return True

    def corpus(self):
        # comment lines document the hand-written scripts; the oracle family has no answer for them
        return [(n, [l for l in ls if not l.lstrip().startswith("#")]) for n, ls in super().corpus()]

    def generate(self, tier, rng):
        quick = tier == "quick"
        for i, m in enumerate(MALFORMED):
            yield (f"malformed-{i}", m)
        # Fast-HotStuff plain rule: every (view, qc view, current view) in 0..5
        lines = ["ruleset fasthotstuff", "defer"]
        k = 0
        for v in range(6):
            for qv in range(6):
                lines.append(block_line(f"p{k}", v, "genesis", "genesis", qv))
                for cur in range(6):
                    lines.append(f"vote {cur} p{k}")
                k += 1
        lines.append("done")
        yield ("fhs-plain-exhaustive", lines)
        # all 3-block forests
        for V, nvar in ((3, 1 if quick else 24), (4, 1 if quick else 6)):
            for fi, blocks in enumerate(forests3(V)):
                if V == 4 and max(b[1] for b in blocks) < 4:
                    continue   # already covered by V = 3
                variants = VARIANTS3 if nvar == 24 else rng.sample(VARIANTS3, nvar)
                for kind in KINDS:
                    for vi, (order, missing) in enumerate(variants):
                        yield (f"ex3-V{V}-{fi}-{kind[:2]}-{vi}", present(kind, blocks, list(order), missing))
        # certificate chains of 4 blocks
        for fi, blocks in enumerate(forests4(5)):
            if quick and rng.random() >= 0.08:
                continue
            names = [b[0] for b in blocks]
            order2 = list(names)
            rng.shuffle(order2)
            miss = rng.choice([None, None, "a", "b", "c"])
            for kind in KINDS:
                yield (f"ex4-{fi}-{kind[:2]}-0", present(kind, blocks, names))
                if not quick:
                    yield (f"ex4-{fi}-{kind[:2]}-1", present(kind, blocks, order2, miss))
        # random forests
        for k in range(900 if quick else 30000):
            kind = KINDS[k % 3]
            yield (f"random-{k}", random_script(rng, kind, rng.randrange(6, 31)))

    def nontrivial_keys(self, lines, impl_out):
        from . import core
        commits = sum(1 for o in impl_out if o.startswith("commit=") and not o.startswith("commit=none"))
        moved = any(o.startswith("commit=") and not (o.endswith("lock=genesis") or o.endswith("lock=-")) for o in impl_out)
        votes = {o for l, o in zip(lines, impl_out) if l.startswith("vote ")}
        if commits or moved or votes == {"true", "false"}:
            return [core.script_hash(lines)]
        return []

    def tags(self, lines, impl_out):
        t = super().tags(lines, impl_out)
        kind = lines[0].split()[1][:7] if lines and lines[0].startswith("ruleset ") and len(lines[0].split()) > 1 else "?"
        for l, o in zip(lines, impl_out):
            if l.startswith("vote "):
                k = f"{kind}:vote-{o}" + ("-agg" if l.endswith(" agg") else "")
                t[k] = t.get(k, 0) + 1
            elif l.startswith("commit "):
                k = f"{kind}:commit-" + ("none" if o.startswith("commit=none") else "some")
                t[k] = t.get(k, 0) + 1
        return t
