"""Orchestrator core for /verif (DESIGN.md §1, §3, §4).

A *property* (C01..C20) names: Lean property module(s) whose theorems are the proof obligations,
gofacts expectations, and one or more *families*.  A family names a line-protocol vocabulary that
both drivers speak (hsdriver = real Go code from /repo's working tree, hsmodel = the Lean model),
produces scripts (corpus, exhaustive small scope, seeded random), and optionally an oracle that
decides the property on the implementation's trace.
"""
import fcntl, hashlib, json, os, random, re, shutil, subprocess, sys, time

VERIF = os.path.dirname(os.path.dirname(os.path.abspath(__file__)))
REPO = os.environ.get("VERIF_REPO", "/repo")
LEAN = os.path.join(VERIF, "lean", "HsVerif")
BUILD = os.path.join(VERIF, "build")
BIN = os.path.join(VERIF, "bin")
ALLOWED_AXIOMS = {"propext", "Classical.choice", "Quot.sound"}
GOENV = dict(os.environ, GOFLAGS="-mod=mod", GOPROXY="off", CGO_ENABLED=os.environ.get("CGO_ENABLED", "1"))
GOENV.pop("GOSUMDB", None)  # GOSUMDB=off breaks the offline toolchain switch to the cached go1.25.6


def log(*a):
    print(*a, file=sys.stderr, flush=True)


def run(cmd, **kw):
    kw.setdefault("stdout", subprocess.PIPE)
    kw.setdefault("stderr", subprocess.STDOUT)
    kw.setdefault("text", True)
    return subprocess.run(cmd, **kw)


class Lock:
    """Build steps rewrite Gen/*.lean and binaries; serialise concurrent ./check invocations."""

    def __enter__(self):
        os.makedirs(BUILD, exist_ok=True)
        self.f = open(os.path.join(BUILD, ".lock"), "w")
        fcntl.flock(self.f, fcntl.LOCK_EX)
        return self

    def __exit__(self, *a):
        fcntl.flock(self.f, fcntl.LOCK_UN)
        self.f.close()


# ------------------------------------------------------------------------------------------
# build steps


def build_gofacts():
    src = os.path.join(VERIF, "tools", "gofacts")
    out = os.path.join(BIN, "gofacts")
    os.makedirs(BIN, exist_ok=True)
    r = run(["go", "build", "-o", out, "."], cwd=src, env=GOENV)
    if r.returncode != 0:
        raise SystemExit("gofacts build failed:\n" + r.stdout)


def run_gofacts():
    """Regenerate Gen/*.lean and facts.json from the repo's current source."""
    build_gofacts()
    gen = os.path.join(LEAN, "HsVerif", "Gen")
    os.makedirs(gen, exist_ok=True)
    facts = os.path.join(BUILD, "facts.json")
    if os.path.exists(facts):
        os.remove(facts)
    # gofacts removes stale Gen/*.lean itself; write to temp dir and only replace changed files so
    # that lake does not rebuild needlessly
    tmp = os.path.join(BUILD, "gen.tmp")
    shutil.rmtree(tmp, ignore_errors=True)
    os.makedirs(tmp)
    r = run([os.path.join(BIN, "gofacts"), "-repo", REPO, "-out", tmp, "-facts", facts])
    if r.returncode != 0:
        raise SystemExit("gofacts failed:\n" + r.stdout)
    new = set(os.listdir(tmp))
    for f in os.listdir(gen):
        if f.endswith(".lean") and f not in new:
            os.remove(os.path.join(gen, f))
    for f in new:
        a, b = os.path.join(tmp, f), os.path.join(gen, f)
        if not os.path.exists(b) or open(a).read() != open(b).read():
            shutil.copy(a, b)
    shutil.rmtree(tmp)
    return json.load(open(facts))


def check_facts(facts, expectations):
    """expectations: list of dict(func=..., contains=[...], order=[...], absent=[...]).
    Returns list of human-readable mismatches (a broken tie, never by itself a violation)."""
    bad = []
    F = facts["facts"]
    for e in expectations:
        calls = F.get(e["func"])
        if calls is None:
            bad.append(f"{e['func']}: function no longer present")
            continue
        for c in e.get("contains", []):
            if c not in calls:
                bad.append(f"{e['func']}: expected a call to {c}")
        for c in e.get("absent", []):
            if c in calls:
                bad.append(f"{e['func']}: unexpected call to {c}")
        if "exact" in e and sorted(calls) != sorted(e["exact"]):
            bad.append(f"{e['func']}: expected exactly {sorted(e['exact'])}, got {sorted(calls)}")
        order = e.get("order")
        if order:
            i = 0
            for c in calls:
                if i < len(order) and c == order[i]:
                    i += 1
            if i < len(order):
                bad.append(f"{e['func']}: expected calls in order {order}, got {calls}")
    return bad


GREP_GATE = re.compile(r"\bsorry\b|\badmit\b|^axiom |native_decide|bv_decide|implemented_by|unsafe |maxHeartbeats 0")


def strip_comments(src):
    # remove /- ... -/ (nested not needed here) and -- line comments
    src = re.sub(r"/-.*?-/", "", src, flags=re.S)
    return "\n".join(l.split("--")[0] for l in src.splitlines())


def grep_gate():
    hits = []
    for root, _, files in os.walk(os.path.join(LEAN, "HsVerif")):
        for f in files:
            if f.endswith(".lean"):
                p = os.path.join(root, f)
                for i, l in enumerate(strip_comments(open(p).read()).splitlines(), 1):
                    if GREP_GATE.search(l):
                        hits.append(f"{p}:{i}: {l.strip()}")
    return hits


def theorem_names(module):
    """Theorems declared in a Props module, with their namespace (counted from source)."""
    path = os.path.join(LEAN, *module.split(".")) + ".lean"
    src = strip_comments(open(path).read())
    ns = []
    out = []
    for l in src.splitlines():
        m = re.match(r"\s*namespace\s+(\S+)", l)
        if m:
            ns.append(m.group(1))
            continue
        m = re.match(r"\s*end\s+(\S+)", l)
        if m and ns and ns[-1] == m.group(1):
            ns.pop()
            continue
        m = re.match(r"\s*(?:@\[[^\]]*\]\s*)?(?:private\s+|protected\s+)?theorem\s+(\S+)", l)
        if m:
            out.append(".".join(ns + [m.group(1)]))
    return out


def lake_build(targets):
    t0 = time.time()
    r = run(["lake", "build"] + targets, cwd=LEAN)
    return r.returncode == 0, r.stdout, time.time() - t0


def audit(modules, tag):
    """#print axioms for every theorem of the given Props modules. Returns dict name -> axioms or None."""
    names = []
    for m in modules:
        names += theorem_names(m)
    src = "".join(f"import {m}\n" for m in modules) + "".join(f"#print axioms {n}\n" for n in names)
    path = os.path.join(BUILD, f"Audit_{tag}.lean")
    open(path, "w").write(src)
    r = run(["lake", "env", "lean", path], cwd=LEAN)
    res = {n: None for n in names}
    out = r.stdout
    # "'Name' depends on axioms: [a, b]" possibly wrapped over lines, or "'Name' does not depend on any axioms"
    for m in re.finditer(r"'(\S+)' depends on axioms: \[([^\]]*)\]", out, flags=re.S):
        res[m.group(1)] = [a.strip() for a in m.group(2).replace("\n", " ").split(",") if a.strip()]
    for m in re.finditer(r"'(\S+)' does not depend on any axioms", out):
        res[m.group(1)] = []
    return res, out


def build_driver(extra_tags=(), race=False, out_name="hsdriver"):
    """go build the harness against REPO's working tree with -overlay (no file is written in REPO)."""
    rep = {}
    drv = os.path.join(VERIF, "harness", "driver")
    for f in sorted(os.listdir(drv)):
        if f.endswith(".go"):
            rep[os.path.join(REPO, "internal", "verifharness", f)] = os.path.join(drv, f)
    exp = os.path.join(VERIF, "harness", "export")
    for root, _, files in os.walk(exp):
        for f in files:
            if f.endswith(".go"):
                rel = os.path.relpath(os.path.join(root, f), exp)
                rep[os.path.join(REPO, rel)] = os.path.join(root, f)
    ov = os.path.join(BUILD, f"overlay-{hashlib.sha1(REPO.encode()).hexdigest()[:8]}.json")
    json.dump({"Replace": rep}, open(ov, "w"), indent=1)
    # built under a per-process name (a concurrent run against another tree must not hand us its
    # binary), then published as bin/<out_name> for the tools when this is the tree under /repo
    final = os.path.join(BIN, out_name)
    out = os.path.join(BIN, f".{out_name}-{os.getpid()}")
    cmd = ["go", "build", "-tags", ",".join(("verif",) + tuple(extra_tags)), "-overlay", ov]
    if race:
        cmd.append("-race")
    cmd += ["-o", out, "./internal/verifharness"]
    t0 = time.time()
    r = run(cmd, cwd=REPO, env=GOENV)
    ok = r.returncode == 0
    if ok and "VERIF_REPO" not in os.environ:
        import shutil
        tmp = final + f".tmp{os.getpid()}"
        shutil.copy(out, tmp)
        os.replace(tmp, final)
    import atexit
    atexit.register(lambda o=out: os.path.exists(o) and os.remove(o))
    return ok, r.stdout, time.time() - t0, out


# ------------------------------------------------------------------------------------------
# running scripts through both drivers


def run_driver(binary, family, scripts, timeout=600, env=None):
    """scripts: list of list-of-lines. Returns list of list-of-output-lines (None for a script whose
    output is missing because the process died)."""
    data = []
    for s in scripts:
        data.append("reset")
        data.extend(s)
    inp = "\n".join(data) + "\n"
    try:
        r = subprocess.run([binary, family], input=inp, stdout=subprocess.PIPE, stderr=subprocess.PIPE,
                           text=True, timeout=timeout, env=env)
        out = r.stdout.split("\n")
        if out and out[-1] == "":
            out.pop()
        stderr = r.stderr
    except subprocess.TimeoutExpired as e:
        out = (e.stdout.decode() if isinstance(e.stdout, bytes) else (e.stdout or "")).split("\n")
        stderr = "timeout"
    res = []
    i = 0
    for s in scripts:
        n = len(s) + 1
        chunk = out[i:i + n]
        i += n
        if len(chunk) < n:
            res.append(None)
        else:
            res.append(chunk[1:])
    return res, stderr


def run_both(family, scripts, model_bin=None, impl_bin=None, timeout=900):
    model_bin = model_bin or os.path.join(LEAN, ".lake", "build", "bin", "hsmodel")
    impl_bin = impl_bin or os.path.join(BIN, "hsdriver")
    mo, me = run_driver(model_bin, family, scripts, timeout)
    io, ie = run_driver(impl_bin, family, scripts, timeout)
    # isolate crashes: rerun scripts with missing output individually
    for outs, b in ((mo, model_bin), (io, impl_bin)):
        for k, o in enumerate(outs):
            if o is None:
                o1, err = run_driver(b, family, [scripts[k]], min(timeout, 120))
                if o1[0] is None:
                    outs[k] = ["<process-died> " + (err or "").strip().splitlines()[-1][:200] if err and err.strip() else "<process-died>"] * 1
                else:
                    outs[k] = o1[0]
    return mo, io


def first_diff(a, b):
    for i in range(max(len(a), len(b))):
        x = a[i] if i < len(a) else "<missing>"
        y = b[i] if i < len(b) else "<missing>"
        if x != y and not (" || " in x and y in x.split(" || ")):
            # "A || B" in the model's answer lists the alternatives an implementation may choose
            # between (map iteration order, unstable sort)
            return i, x, y
    return None


_SIG_RE = re.compile(r"sig=(?:ecdsa|eddsa)\[[^\]]*\]|sig=bls\([^)]*\)|\(\d+,#\d+\)|#\d+")


def modulo_certificate_choice(lines, model_out, impl_out):
    """With aggregate QCs configured the implementation picks an ARBITRARY one of the highest-view valid QCs
    an aggregate QC attests (map iteration order, unstable sort in findHighestValidQC); the QCs it may pick
    certify the same block in the same view and differ only in which quorum of votes they were assembled
    from.  The model picks the first.  Returns True when the two answer streams are equal once the contents
    of signatures are blanked, i.e. when they differ only by that choice."""
    if not lines or " agg=1" not in lines[0]:
        return False
    norm = lambda out: [_SIG_RE.sub("*", l) for l in out]
    return first_diff(norm(model_out), norm(impl_out)) is None


def ddmin(lines, pred, keep_prefix=0, budget=200):
    """Delta-debug a script (list of lines) so that pred(lines) stays true. keep_prefix lines are fixed."""
    head, cur = lines[:keep_prefix], lines[keep_prefix:]
    n = 2
    calls = 0
    while len(cur) >= 2 and calls < budget:
        chunk = max(1, len(cur) // n)
        reduced = False
        for i in range(0, len(cur), chunk):
            cand = cur[:i] + cur[i + chunk:]
            calls += 1
            if cand and pred(head + cand):
                cur = cand
                n = max(n - 1, 2)
                reduced = True
                break
            if calls >= budget:
                break
        if not reduced:
            if chunk == 1:
                break
            n = min(len(cur), n * 2)
    return head + cur


def script_hash(lines):
    return hashlib.sha1("\n".join(lines).encode()).hexdigest()[:12]
