from .runner import Property
from .fam_replica import ReplicaFam
from .fam_collector import CollectorFam
from .prop_C03 import REPLICA_TRUST

PROP = Property(
    "C08", ["HsVerif.Props.C08", "HsVerif.Props.C08Agg", "HsVerif.Props.C08Gen", "HsVerif.Props.C08GenCor"], [CollectorFam(), ReplicaFam("c08")],
    facts=[
        # the collector's only field is written by the translated methods only (Props/C08Gen); the extraction goes by field
        # NAME: `New` is the Synchronizer's own field `timeouts` (the collector object) in its composite literal
        {"func": "pkg:protocol/synchronizer#writers.timeoutCollector.timeouts", "exact": ["New", "timeoutCollector.add", "timeoutCollector.deleteOldViews"]},
        {"func": "protocol/synchronizer/timeout_collector.go:timeoutCollector.add", "order": ["ContainsFunc", "append", "QuorumSize", "DeleteFunc"]},
        {"func": "protocol/synchronizer/synchronizer.go:Synchronizer.OnRemoteTimeout", "order": ["View", "signedBy", "Verify", "advanceView", "add", "RemoteTimeoutRule", "SetQC", "advanceView"]},
        {"func": "protocol/synchronizer/timeoutrule_aggregate.go:Aggregate.RemoteTimeoutRule", "order": ["CreateTimeoutCert", "CreateAggregateQC", "SetAggQC"]},
        {"func": "protocol/synchronizer/timeoutrule_simple.go:Simple.RemoteTimeoutRule", "contains": ["CreateTimeoutCert"]},
    ],
    trusted=REPLICA_TRUST,
    assumptions=["n >= 2 for the certificate-verifies clause (Combine needs two signatures)"],
    partial="the pairwise distinctness of the signed timeout messages is a stated hypothesis (DistinctMsgs), proved for the key shape the model and the driver use (sender id is part of the bytes)",
)

META = {
    "text": "Proof: for the collector as coded (timeoutCollector.add / deleteOldViews) and every held list, message and quorum size: collector_exact (a fresh message of view v reports a quorum iff, with it, at least quorum messages OF VIEW v are held; exactly those are returned and removed; otherwise it is kept), add_duplicate (same view and sender: ignored), other_views_untouched (messages of other views neither count nor are removed), add_keyed (one message per view and sender, always); tc_verifies: the view signatures of >= quorum accepted messages (sender-signed, single, verified — what OnRemoteTimeout admits) of pairwise different senders combine and the TC passes VerifyTimeoutCert at every replica with the configuration (uses the general completeness theorem combine_single_verifies over all three schemes). tc_accepted / tc_moves: a verifying TC for a view >= the replica's view is accepted by both timeout rules and makes advanceView end in the next view. Aggregate QC (Props/C08Agg): agg_batch_verifies (the message signatures of any >= 2 accepted timeout messages of one view from distinct senders combine and batch-verify, all three schemes), agg_verifies (with a quorum of them and at least one verifying carried QC the assembled aggregate QC passes VerifyAggregateQC and reports a verifying carried QC of maximal view), agg_rejected_of_qcless / agg_verifies_counterexample (as found: one accepted QC-less timeout made the assembled aggregate QC unverifiable — repaired). Tie: (a) the unexported collector through an overlay export: all sequences of <= 5 messages over 3 views x 4 senders (thorough; <= 4 quick) plus random sequences with far-future views and clean-ups, against the model and an ideal per-view-set oracle; (b) the real replica driven with interleaved timeouts of several views from honest and Byzantine senders (future views, duplicates, junk / absent / copied signatures, wrong or missing message signature, id 0), both timeout rules, n in {4,5,7}, replica at, behind and ahead of the timed-out view.",
    "note": "Trusted: as C03. Three genuine defects found here are fixed (per-view counting; sender must be the signer, message signature checked; aggregate QC built for the timed-out view).",
    "technique": "Lean 4 theorems on the collector function and certificate completeness + Go->Lean translation of timeoutCollector.add/deleteOldViews with bridging theorems (Props/C08Gen) + exhaustive small-scope and replica-level differential correspondence",
}
