from .runner import Property
from .common import COMMON_TRUST
from .fam_chain import ChainFam

PROP = Property(
    "C13", ["HsVerif.Props.C13"], [ChainFam()],
    facts=[
        # lock discipline assumed by the atomic-operation model
        {"func": "security/blockchain/blockchain.go:Blockchain.Store", "order": ["Lock", "defer Unlock", "Hash", "View"]},
        {"func": "security/blockchain/blockchain.go:Blockchain.LocalGet", "order": ["Lock", "defer Unlock"]},
        # Get releases the lock exactly around the network call
        {"func": "security/blockchain/blockchain.go:Blockchain.Get", "order": ["Lock", "Unlock", "RequestBlock", "Lock", "Unlock"]},
        {"func": "security/blockchain/blockchain.go:Blockchain.Extends", "order": ["View", "View", "Get", "Parent", "Hash", "Hash"]},
        {"func": "security/blockchain/blockchain.go:Blockchain.PruneToHeight", "order": ["Lock", "defer Unlock", "Parent", "View", "delete"]},
        # the reply filter recomputes the hash of every reply; the sender converts what the filter let through
        {"func": "network/sender.go:qspec.RequestBlockQF", "order": ["GetHash", "BlockFromProto", "Hash"]},
        {"func": "network/sender.go:GorumsSender.RequestBlock", "order": ["RequestBlock", "BlockFromProto"]},
        # committer: store, rule, commit; commit = commitInner, then prune with the committed block, then aborts
        {"func": "protocol/consensus/committer.go:Committer.TryCommit", "order": ["Store", "CommitRule", "commit"]},
        {"func": "protocol/consensus/committer.go:Committer.commit", "order": ["commitInner", "PruneToHeight", "AddEvent"]},
        {"func": "protocol/consensus/committer.go:Committer.commitInner", "order": ["View", "View", "Get", "Parent", "commitInner", "AddEvent", "UpdateCommittedBlock"]},
    ],
    trusted=COMMON_TRUST + [
        "SHA-256 collision resistance (hashes are names in the model; used only as the explicit hypotheses hinj / RaceInj)",
        "gorums delivers exactly what RequestBlockQF accepted (the harness calls the real quorum function after each scripted reply and the real proto conversion, not the gorums transport)",
        "sync.Mutex: Store/LocalGet/PruneToHeight and the two locked halves of Get are atomic",
    ],
    assumptions=[
        "views strictly grow along parent links (ViewsGrow) for completeness of Extends and for pruning; without it Extends can answer false for an ancestor (extends_inversion_counterexample)",
        "a core.Sender other than the gorums one must itself return only blocks of the requested hash (get_unfiltered_counterexample: Get stores the reply under the requested hash unchecked)",
        "committed chain in prune_reports_only_forks = the parent chain as far as it is stored; through the Committer all ancestors down to the last committed block are fetched first, so for commit sequences that each extend the previous committed block the oracle checks true ancestry",
        "Extends/commit theorems with fetching are for senders without concurrent arrivals; the run-level invariants (content addressing, report-once) also cover a block stored by another goroutine while Get has released the lock",
    ],
)

META = {
    "text": "Proof: Lean model of Blockchain.Store/LocalGet/Get (lock released around the fetch, concurrent arrival, recheck, reply written under the requested hash), Extends (view-guarded parent walk through Get), PruneToHeight as repaired by fixes/C13-prune-forks.diff (committed branch collected by hash, one block per view swept), qspec.RequestBlockQF and Committer.TryCommit/commit/commitInner. Theorems, all unbounded: every store reachable by any sequence of store/get/extends/prune/commit operations with QF-filtered replies is content-addressed, so whatever Get or LocalGet returns for h has hash h (get_has_hash, reachable_content_addressed, get_has_hash_reachable; requestBlockQF_filters/_finds/qf_net_honest for arbitrary lying, missing or duplicated replies); Store of a present hash is the identity (store_idempotent, store_existing_noop); Extends(b,t) is true exactly when t is b or on b's parent chain for every store+sender in which views grow along parent links, for every fuel above b's view (extends_exact, extends_sound without any view assumption, extends_complete, extends_exact_local), with a counterexample when views do not grow; PruneToHeight never reports the committed block or a block on its stored parent chain (prune_reports_only_forks), reports only stored blocks of the pruned views (prune_reports_stored), over any operation sequence no hash is reported twice (prune_reports_once), and Committer.commit never aborts a block on the new committed block's chain (commit_aborts_only_forks). prune_unrepaired_counterexample proves that the unrepaired PruneToHeight reports a committed block on the 5-block equivocation forest. Correspondence: real blockchain.Blockchain + real Committer + scripted core.Sender that routes every scripted reply through the real RequestBlockQF and proto conversion, against the model and against a name-based reference-forest oracle: all forests of <= 4 blocks (views = parent + 1 or + 2: equal views on different branches, two children of one parent in one view) x every subset stored (gaps) x 2-3 store orders (quick: one order for 4 blocks) x repeated stores x the full Extends matrix x every stored block as prune target followed by the later ones; sampled forests of 5-6 blocks; every fetch behaviour (honest, lying, silent, other block, arrival while fetching, cancelled) for the missing blocks of all forests <= 2 (quick) / <= 3 (thorough) blocks; generated commit histories through the real Committer with equivocating blocks stored before/between/after commits and fetched ancestors; random sequences over forests up to 40 blocks, including forests whose views do not grow (ancestry queries only). The commit theorems also give commit_executes_chain and commit_never_aborts_executed.",
    "note": "Partial where stated: Extends/commit theorems with fetching assume no concurrent arrival during the walk; 'committed chain' for a direct PruneToHeight call is the stored parent chain (a chain stops at a missing block). Defect confirmed on the unrepaired tree (committed block reported as forked after an equivocating block is stored) and repaired by fixes/C13-prune-forks.diff; the model is of the repaired code. Abandoned blocks displaced from the one-block-per-view map are never reported at all (not required by the property). Trusted: Lean kernel, propext/Quot.sound/Classical.choice, gofacts, correspondence harness, SHA-256, gorums transport.",
    "technique": "Lean 4 theorems (store invariants over arbitrary operation sequences; ancestry exactness by induction on fuel bounded by views; prune soundness via marked-chain completeness) + differential correspondence with a reference-forest oracle; small-scope exhaustive forests + seeded random",
}
