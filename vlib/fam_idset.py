import itertools
from .runner import Family

BOUNDARY = [1, 2, 7, 8, 9, 15, 16, 17, 24, 25, 63, 64, 65, 127, 128, 129, 255, 256, 257, 299, 300]


class IdsetFam(Family):
    name = "idset"
    oracle = "idset.oracle"

    def _seq(self, rng, n):
        lines = []
        pool = BOUNDARY + [rng.randrange(1, 301) for _ in range(6)]
        for _ in range(n):
            r = rng.random()
            i = rng.choice(pool) if rng.random() < 0.8 else rng.randrange(1, 301)
            if r < 0.45:
                lines.append(f"bf.add {i}")
            elif r < 0.70:
                lines.append(f"bf.contains {i}")
            elif r < 0.80:
                lines.append("bf.ids")
            elif r < 0.87:
                lines.append("bf.len")
            elif r < 0.92:
                lines.append("bf.first")
            elif r < 0.96:
                lines.append("bf.bytes")
            else:
                b = bytes(rng.randrange(256) for _ in range(rng.randrange(0, 5)))
                lines.append("bf.frombytes " + (b.hex() or "-"))
        lines += ["bf.ids", "bf.len", "bf.bytes"]
        return lines

    def generate(self, tier, rng):
        quick = tier == "quick"
        # exhaustive reconstruction: every byte string of length <= 2
        ex = ["bf.frombytes -"]
        for a in range(256):
            ex.append(f"bf.frombytes {a:02x}")
        for a in range(256):
            for b in range(256):
                ex.append(f"bf.frombytes {a:02x}{b:02x}")
        yield ("frombytes-exhaustive-le2", ex)
        rb = []
        for _ in range(300 if quick else 20000):
            b = bytes(rng.randrange(256) if rng.random() < 0.7 else rng.choice([0, 255, 1, 128]) for _ in range(rng.randrange(3, 41)))
            rb += ["bf.frombytes " + b.hex(), "bf.contains %d" % rng.randrange(1, 8 * len(b) + 10), "bf.first",
                   "bf.add %d" % rng.randrange(1, 8 * len(b) + 20), "bf.ids", "bf.bytes"]
        yield ("frombytes-random", rb)
        # exhaustive: all insertion sequences of length <= 3 over a boundary alphabet, all queries after
        alpha = [1, 8, 9, 16, 17]
        for k in range(0, 4):
            for seq in itertools.product(alpha, repeat=k):
                lines = [f"bf.add {i}" for i in seq] + [f"bf.contains {i}" for i in alpha] + ["bf.ids", "bf.len", "bf.first", "bf.bytes"]
                yield ("adds-exhaustive-%s" % "-".join(map(str, seq)), lines)
        for k in range(3000 if quick else 40000):
            yield (f"random-{k}", self._seq(rng, rng.randrange(5, 60)))
        # id 0 is outside the property; the model still has to predict the panic
        yield ("id-zero", ["bf.contains 0", "bf.add 0", "bf.add 3", "bf.contains 0"])
        # signer lists from real Sign / Combine, three schemes
        for scheme in ("ecdsa", "eddsa", "bls12"):
            for n in (4, 7):
                lines = [f"scheme {scheme} {n}"] + [f"ms.sign {r} s{r}" for r in range(1, n + 1)]
                names = [f"s{r}" for r in range(1, n + 1)]
                # all combinations (with order) of <= 3 single signatures, incl. repeats and singletons
                k = 0
                for m in (1, 2, 3):
                    for combo in itertools.product(names[:4], repeat=m):
                        lines.append(f"ms.combine c{k} " + " ".join(combo))
                        k += 1
                # the same replica signing a second time: a different signature object (and, for ECDSA,
                # different bytes) with the same signer must still count as an overlap
                lines += ["ms.sign 1 s1b", "ms.sign 2 s2b", "ms.combine d0 s1 s1b", "ms.combine d1 s1 s2 s1b", "ms.combine d2 s1b s2 s1",
                          "ms.combine d3 s2 s2b s3", "ms.combine d4 s1b s2b", "ms.contains d4 1"]
                # nested: combine aggregates
                lines += ["ms.combine a12 s1 s2", "ms.combine a34 s3 s4", "ms.combine a1234 a12 a34", "ms.combine bad a12 a1234",
                          "ms.combine bad2 a12 s2", "ms.combine bad3 a12 s1b", "ms.combine bad4 s2b a1234", "ms.contains a1234 3", "ms.contains a12 3", "ms.combine all " + " ".join(names)]
                for _ in range(30 if quick else 600):
                    pick = [rng.choice(names + ["a12", "a34", "a1234", "all"]) for _ in range(rng.randrange(1, 5))]
                    lines.append(f"ms.combine r{k} " + " ".join(pick))
                    lines.append(f"ms.contains {pick[0]} {rng.randrange(1, n + 2)}")
                    k += 1
                yield (f"multi-{scheme}-{n}", lines)

    def nontrivial_keys(self, lines, impl_out):
        # a script is non-trivial when it changed a set and queried it
        if any(l.startswith(("bf.add", "bf.frombytes", "ms.combine")) for l in lines):
            from . import core
            if lines and lines[0].startswith("bf.frombytes") and len(lines) > 1000:
                return lines  # exhaustive reconstruction: every byte string is its own case
            return [core.script_hash(lines)]
        return []
