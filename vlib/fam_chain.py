"""chain family (C13): block store, ancestry queries, pruning, committer.

Scripts (see harness/driver/fam_chain.go for the vocabulary) are built from *forests*: a list of
(name, parent name, view).  Three sources, in this order after corpus/chain/*.ops:

1. exhaustive small scope: every forest of up to N blocks (parent = any earlier block or genesis,
   view = parent's view + 1 or + 2, so equal views on different branches and two children of one
   parent in one view -- equivocation -- all occur), every subset of blocks left unstored (gaps),
   both store orders, the full extends matrix, every block as prune target followed by the
   later ones; plus the same forests with every fetch behaviour for the missing blocks;
2. commits through the real Committer over generated forests (equivocating blocks stored before,
   between and after commits; missing ancestors fetched, unfetchable, lied about);
3. seeded random operation sequences over forests of up to 40 blocks, including forests whose
   views do not grow (ancestry queries only there: the property does not cover them and the
   unrepaired PruneToHeight need not terminate on them).
"""
import itertools
from .runner import Family
from . import core


def forests(n, deltas=(1, 2)):
    """all forests with n non-genesis blocks b1..bn"""
    names = ["g"] + [f"b{i}" for i in range(1, n + 1)]
    for parents in itertools.product(*[range(i) for i in range(1, n + 1)]):
        for ds in itertools.product(deltas, repeat=n):
            views = [0]
            ok = True
            for i in range(n):
                v = views[parents[i]] + ds[i]
                views.append(v)
            yield [(names[i + 1], names[parents[i]], views[i + 1]) for i in range(n)]


def decl(forest):
    return [f"new {n} {p} {v}" for n, p, v in forest]


def ancestors(forest, n):
    par = {x: p for x, p, _ in forest}
    out = [n]
    while n in par:
        n = par[n]
        out.append(n)
    return out


class ChainFam(Family):
    name = "chain"
    oracle = "chain.oracle"
    timeout = 1500

    # ---- building blocks
    def _queries(self, forest, extra_names=()):
        names = ["g"] + [n for n, _, _ in forest] + list(extra_names)
        lines = [f"extends {b} {t}" for b in names for t in names]
        lines += [f"localget {n}" for n in names]
        return lines

    def _prunes(self, forest, stored, first):
        view = {n: v for n, _, v in forest}
        view["g"] = 0
        lines = [f"prune {first} {view[first]}"]
        for n in sorted(stored, key=lambda x: (view[x], x)):
            if view[n] > view[first]:
                lines.append(f"prune {n} {view[n]}")
        lines.append("dump")
        return lines

    def _store_script(self, forest, stored, order, target):
        seq = [n for n, _, _ in forest if n in stored]
        if order == 1:
            seq.reverse()
        elif order == 2:
            seq = seq[1:] + seq[:1]
        lines = decl(forest) + [f"store {n}" for n in seq] + ["dump"]
        if seq:
            lines += [f"store {seq[0]}", f"store {seq[-1]}", "dump"]   # repeated store changes nothing
        lines += self._queries(forest)
        if target is not None:
            lines += self._prunes(forest, stored, target)
        return lines

    def _exhaustive(self, n, both_orders=True):
        for fi, forest in enumerate(forests(n)):
            names = [x for x, _, _ in forest]
            for mask in range(1 << n):
                stored = [names[i] for i in range(n) if mask >> i & 1]
                for order in ((0, 1, 2) if both_orders and len(stored) > 2 else (0, 1) if both_orders else ((fi + mask) % 2,)):
                    for target in (stored or [None]):
                        yield (f"ex{n}-f{fi}-m{mask}-o{order}-t{target}", self._store_script(forest, stored, order, target))

    def _sampled(self, n, count, rng):
        for k in range(count):
            names = ["g"] + [f"b{i}" for i in range(1, n + 1)]
            views = [0]
            forest = []
            for i in range(n):
                p = rng.randrange(i + 1)
                views.append(views[p] + rng.choice((1, 2)))
                forest.append((names[i + 1], names[p], views[-1]))
            mask = rng.randrange(1, 1 << n)
            stored = [names[i + 1] for i in range(n) if mask >> i & 1]
            yield (f"ex{n}-sample-{k}", self._store_script(forest, stored, rng.randrange(2), rng.choice(stored)))

    def _fetch_variants(self, n):
        """forests with unstored blocks and a fetch behaviour for each of them"""
        kinds = ["{x}", "lying", "lying none {x}", "{sib}", "none", "{x} arrive={x}", "none arrive={x}", "lying arrive={sib}"]
        for fi, forest in enumerate(forests(n)):
            names = [x for x, _, _ in forest]
            for mask in range(1 << n):
                if mask == (1 << n) - 1:
                    continue
                stored = [names[i] for i in range(n) if mask >> i & 1]
                missing = [x for x in names if x not in stored]
                for ki, kind in enumerate(kinds):
                    lines = decl(forest) + [f"store {x}" for x in stored]
                    for j, x in enumerate(missing):
                        sib = names[(names.index(x) + 1) % n]
                        k = kinds[(ki + j) % len(kinds)] if j else kind
                        lines.append(f"fetch-answer {x} " + k.format(x=x, sib=sib))
                    lines += [f"get {x}" for x in missing[:1]] + ["dump"]
                    lines += self._queries(forest)
                    lines += [f"get {x}" for x in names] + ["dump"]
                    top = max(forest, key=lambda e: (e[2], e[0]))
                    lines += [f"trycommit {top[0]} {top[0]}", "dump"]
                    yield (f"fetch{n}-f{fi}-m{mask}-k{ki}", lines)
                    if "arrive={x}" in kind:
                        # the same with a second Get of the same hash overlapping the fetch: the block that arrives
                        # meanwhile cancels nobody's fetch, and must be found all the same (C13-r6m1)
                        ov = []
                        for l in lines:
                            ov.append(l)
                            if l.startswith("fetch-answer "):
                                ov.append(f"fetch-overlap {l.split()[1]} on")
                        yield (f"fetch{n}-f{fi}-m{mask}-k{ki}-overlap", ov)

    def _commit_script(self, rng, nblocks):
        """a main chain that is committed step by step while forks and equivocating blocks arrive"""
        forest = []
        view = {"g": 0}
        main = ["g"]
        k = 0
        lines = []
        pending = []          # declared, not yet stored
        fetchable = rng.random() < 0.6
        committed = "g"

        def new(parent, delta=None):
            nonlocal k
            k += 1
            n = f"b{k}"
            v = view[parent] + (delta or rng.choice((1, 1, 1, 2, 3)))
            view[n] = v
            forest.append((n, parent, v))
            lines.append(f"new {n} {parent} {v}")
            return n

        while k < nblocks:
            r = rng.random()
            if r < 0.45:
                b = new(main[-1])
                main.append(b)
                mode = rng.random()
                if mode < 0.6:
                    lines.append(f"store {b}")
                elif mode < 0.85 and fetchable:
                    lines.append(f"fetch-answer {b} " + rng.choice([b, f"lying {b}", f"none {b} lying", f"{b} arrive={b}"]))
                else:
                    lines.append(f"fetch-answer {b} " + rng.choice(["lying", "none", "g"]))
                    pending.append(b)
            elif r < 0.75:
                # fork or equivocation: a sibling of a main-chain block, maybe in the very same view
                i = rng.randrange(1, len(main)) if len(main) > 1 else 0
                if i == 0:
                    continue
                parent = main[i - 1]
                same_view = view[main[i]] - view[parent]
                b = new(parent, same_view if rng.random() < 0.6 else None)
                if rng.random() < 0.9:
                    lines.append(f"store {b}")
                if rng.random() < 0.5 and k < nblocks:
                    # a child of the fork, in the view of the next main-chain block when possible
                    nxt = view[main[min(i + 1, len(main) - 1)]]
                    c = new(b, nxt - view[b] if rng.random() < 0.5 and nxt > view[b] else None)
                    lines.append(f"store {c}")
            elif r < 0.95 and len(main) > 1:
                tip = main[-1]
                j = rng.randrange(max(1, len(main) - 4), len(main))
                target = main[j]
                if rng.random() < 0.07:
                    target = rng.choice([n for n, _, _ in forest])     # not necessarily on the chain
                lines.append(f"trycommit {tip} {target}")
                if rng.random() < 0.3:
                    lines.append("dump")
            else:
                lines.append(rng.choice(["dump", f"trycommit {main[-1]} nil", f"extends {main[-1]} {rng.choice(main)}"]))
        lines.append(f"trycommit {main[-1]} {main[-1]}")
        lines.append("dump")
        names = ["g"] + [n for n, _, _ in forest]
        for _ in range(6):
            lines.append(f"extends {rng.choice(names)} {rng.choice(names)}")
        return lines

    def _random_script(self, rng, nblocks, grow):
        forest = []
        view = {"g": 0}
        names = ["g"]
        lines = []
        stored = {"g"}
        for i in range(1, nblocks + 1):
            n = f"b{i}"
            p = rng.choice(names[-6:]) if rng.random() < 0.7 else rng.choice(names)
            if rng.random() < 0.02:
                p = "z"
            base = view.get(p, 0)
            v = base + rng.choice((1, 1, 1, 2, 3)) if grow else rng.randrange(0, 6)
            view[n] = v
            forest.append((n, p, v))
            names.append(n)
            lines.append(f"new {n} {p} {v}")
            # interleave operations with declarations
            for _ in range(rng.randrange(0, 4)):
                r = rng.random()
                x = rng.choice(names)
                y = rng.choice(names[-8:])
                if r < 0.30:
                    lines.append(f"store {y}")
                    stored.add(y)
                elif r < 0.38:
                    lines.append(f"store {rng.choice(sorted(stored))}")
                elif r < 0.58:
                    lines.append(f"extends {y} {x}" if rng.random() < 0.7 else f"extends {x} {y}")
                elif r < 0.66:
                    lines.append(f"localget {x}")
                elif r < 0.74:
                    lines.append(f"get {x}")
                elif r < 0.84:
                    kind = rng.choice(["{x}", "lying", "lying {x}", "none", "{y}", "{x} arrive={x}", "none arrive={y}", "{y} {x} lying"])
                    lines.append(f"fetch-answer {x} " + kind.format(x=x, y=y))
                    if rng.random() < 0.3:
                        lines.append(f"fetch-overlap {x} " + rng.choice(("on", "on", "off")))
                elif r < 0.90:
                    lines.append("dump")
                elif grow and r < 0.96:
                    c = rng.choice(sorted(stored))
                    lines.append(f"prune {c} {max(0, view[c] + rng.choice((0, 0, 0, 0, 1, 2, -1)))}")
                elif grow:
                    t = rng.choice(ancestors(forest, y)) if rng.random() < 0.8 else x
                    lines.append(f"trycommit {y} {t}")
                    stored.add(y)
        lines.append("dump")
        return lines

    # ---- Family interface
    def __init__(self, focus="all"):
        self.focus = focus

    def generate(self, tier, rng):
        quick = tier == "quick"
        if self.focus == "fetch":
            # C12's clause "a block fetched by hash is the block that hash names": only the scripts in which
            # blocks come from peers (honest, silent and lying replies, in every order)
            for n in ((1, 2) if quick else (1, 2, 3)):
                yield from self._fetch_variants(n)
            for k in range(150 if quick else 4000):
                yield (f"random-{k}", self._random_script(rng, rng.randrange(3, 16 if quick else 41), True))
            return
        for n in (1, 2, 3):
            yield from self._exhaustive(n)
        yield from self._exhaustive(4, both_orders=not quick)
        yield from self._sampled(5, 300 if quick else 12000, rng)
        if not quick:
            yield from self._sampled(6, 8000, rng)
        for n in ((1, 2) if quick else (1, 2, 3)):
            yield from self._fetch_variants(n)
        for k in range(600 if quick else 20000):
            yield (f"commit-{k}", self._commit_script(rng, rng.randrange(4, 14 if quick else 30)))
        for k in range(500 if quick else 15000):
            yield (f"random-{k}", self._random_script(rng, rng.randrange(3, 16 if quick else 41), True))
        for k in range(150 if quick else 4000):
            yield (f"random-nogrow-{k}", self._random_script(rng, rng.randrange(3, 12 if quick else 25), False))

    def exhaustive(self, tier):
        return False     # the random part is not exhaustive

    def nontrivial_keys(self, lines, impl_out):
        stored = set()
        hit = False
        for l, o in zip(lines, impl_out):
            t = l.split()
            if not t:
                continue
            if t[0] == "store":
                stored.add(t[1])
            elif t[0] == "extends" and o == "true" and t[1] != t[2]:
                hit = True
            elif t[0] == "prune" and o not in ("forked=[]", "bad-op"):
                hit = True
            elif t[0] == "trycommit" and o.startswith("ok") and "exec=[]" not in o:
                hit = True
            elif t[0] == "get" and o.startswith("some") and t[1] not in stored:
                hit = True
        return [core.script_hash(lines)] if hit else []

    def tags(self, lines, impl_out):
        t = {}

        def inc(k):
            t[k] = t.get(k, 0) + 1
        stored = set()
        views = {}
        for l, o in zip(lines, impl_out):
            a = l.split()
            if not a:
                continue
            inc("op:" + a[0])
            if a[0] == "new" and len(a) == 4:
                key = (a[2], a[3])
                views[key] = views.get(key, 0) + 1
                if views[key] == 2:
                    inc("case:equivocation(same parent, same view)")
            elif a[0] == "store":
                inc("store:repeat" if a[1] in stored else "store:new")
                stored.add(a[1])
            elif a[0] == "extends":
                inc("extends:" + o)
            elif a[0] == "prune":
                inc("prune:" + ("none-forked" if o == "forked=[]" else "forked"))
            elif a[0] == "trycommit":
                k = o.split()[0] if o else "?"
                inc("commit:" + k)
                if "abort=[" in o and "abort=[]" not in o:
                    inc("commit:with-abort")
            elif a[0] == "get":
                inc("get:" + ("none" if o == "none" else ("local" if a[1] in stored else "fetched")))
                if o.startswith("some"):
                    stored.add(a[1])
            elif a[0] == "fetch-answer":
                inc("fetch-answer:" + ("lying" if "lying" in a[2:] else "plain") + ("+arrive" if any(x.startswith("arrive=") for x in a) else ""))
            if o in ("bad-op", "panic"):
                inc("out:" + o)
        return t
