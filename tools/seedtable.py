#!/usr/bin/env python3
"""Write seeded/README.md and refresh Section 12 of DESIGN.md from seeded/*/meta.json."""
import json, os, re
V = os.path.dirname(os.path.dirname(os.path.abspath(__file__)))
rows = []
for d in sorted(os.listdir(os.path.join(V, "seeded"))):
    mp = os.path.join(V, "seeded", d, "meta.json")
    if not os.path.exists(mp):
        continue
    m = json.load(open(mp))
    checks = m.get("checks", {})
    caught = m.get("caught_by", [])
    own = m["property"]
    how = []
    for c in caught:
        r = checks[c]
        kinds = set()
        for rp in r.get("replays", []):
            head = " ".join(rp.get("head", []))
            if rp.get("no_failing_input"):
                kinds.add("obligation/fact (no failing input)")
            elif "oracle:" in head:
                mm = re.search(r"oracle: fail (\S+)", head)
                kinds.add("oracle " + (mm.group(1) if mm else ""))
            else:
                kinds.add("model/impl disagreement")
        how.append(f"{c}: " + ", ".join(sorted(kinds)) if kinds else c)
    rows.append((d, own, m.get("summary", "").replace("|", "/"), ", ".join(m.get("files") or []), caught, "; ".join(how), m.get("first_missed_by", "")))
lines = ["| Change | Written for | What was changed | Caught by | How it shows |", "|---|---|---|---|---|"]
for d, own, summ, files, caught, how, missed in rows:
    c = ", ".join(caught) if caught else "**missed**"
    if missed:
        c += f" (first missed by {missed}; check strengthened)"
    lines.append(f"| {d} | {own} | {summ[:230]} ({files}) | {c} | {how[:260]} |")
table = "\n".join(lines)
n = len(rows)
ncaught = sum(1 for r in rows if r[4])
own_caught = sum(1 for r in rows if r[1] in r[4])
text = f"""## 12. Seeded changes: which checks catch which realistic breakage

Fresh sub-agents were given ONLY the text of one property and a private scratch worktree of /repo
(nothing from /verif) and asked for up to three realistic changes that still compile, pass the
whole existing test-suite and break the property, each with a demonstration test. Every delivered
change was confirmed here in a scratch worktree (`tools/seedtest.py confirm`): the patch applies,
builds, the full suite passes, the demonstration fails on the changed tree and passes on the clean
one; only then was it kept under `seeded/<id>-m<k>/` (patch.diff, demo/, meta.json with the
outcome of the checks). The checks were run with `VERIF_REPO=<scratch worktree>` (equivalent to
`git -C /repo apply` + run + `git -C /repo checkout -- .`, without disturbing concurrent runs);
re-run any of them with `python3 tools/seedtest.py run <name> [check ids]`.

{n} confirmed changes; {ncaught} are reported as a VIOLATION by at least one quick-tier check,
{own_caught} by the check of the property they were written against. Where a change was first
missed, the generator or oracle was strengthened (never the other way round) and the change re-run:

* C07-m2 (committed block recorded once after the recursion) was missed by C07's quick run and
  caught by C06's: the replica generator got well-formed *fork* proposals on older certified
  blocks (the commit rule then targets a block below the committed one); now caught by C07 too.
* C08-m2 (`signedBy` accepts multi-signer view signatures) was missed: the timeout injection got
  a `multi-viewsig` kind (the sender's genuine signature combined with another replica's).
* C10-m3 (the RequestBlock handler converts the hash field with a slice-to-array conversion that
  panics on short hashes) was missed: the wire-level delivery only covered the four consensus
  handlers; `wire requestblock` now sends hash fields of 0..64 bytes and absent requests through
  the real handler.
* C18-m3 (the JSON scenario source decodes into a reused buffer) was missed: files were written
  with one scenario only; `jsonfilelit` now sends two different scenarios through one file.
* C19-m3 (EdDSA `Combine` compares signature pointers instead of signer ids) was missed: every
  replica signed once; now replicas sign a second time and both objects are combined.

{table}
"""
open(os.path.join(V, "seeded", "README.md"), "w").write(text)
dp = os.path.join(V, "DESIGN.md")
s = open(dp).read()
if "@@SECTION12@@" in s:
    s = s.replace("@@SECTION12@@", "<!-- SECTION12-BEGIN -->\n" + text + "<!-- SECTION12-END -->")
else:
    s = re.sub(r"<!-- SECTION12-BEGIN -->.*<!-- SECTION12-END -->", lambda m: "<!-- SECTION12-BEGIN -->\n" + text + "<!-- SECTION12-END -->", s, flags=re.S)
open(dp, "w").write(s)
print(n, "changes,", ncaught, "caught,", own_caught, "by own check")
