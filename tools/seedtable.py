#!/usr/bin/env python3
"""Write seeded/README.md and refresh Section 12 of DESIGN.md from seeded/*/meta.json."""
import json, os, re
V = os.path.dirname(os.path.dirname(os.path.abspath(__file__)))
rows = []
for d in sorted(os.listdir(os.path.join(V, "seeded"))):
    mp = os.path.join(V, "seeded", d, "meta.json")
    if not os.path.exists(mp):
        continue
    m = json.load(open(mp))
    checks = m.get("checks", {})
    caught = m.get("caught_by", [])
    own = m["property"]
    how = []
    for c in caught:
        r = checks[c]
        kinds = set()
        for rp in r.get("replays", []):
            head = " ".join(rp.get("head", []))
            if rp.get("no_failing_input"):
                kinds.add("obligation/fact (no failing input)")
            elif "oracle:" in head:
                mm = re.search(r"oracle: fail (\S+)", head)
                kinds.add("oracle " + (mm.group(1) if mm else ""))
            else:
                kinds.add("model/impl disagreement")
        how.append(f"{c}: " + ", ".join(sorted(kinds)) if kinds else c)
    rows.append((d, own, m.get("summary", "").replace("|", "/"), ", ".join(m.get("files") or []), caught, "; ".join(how), m.get("first_missed_by", "")))
lines = ["| Change | Written for | What was changed | Caught by | How it shows |", "|---|---|---|---|---|"]
for d, own, summ, files, caught, how, missed in rows:
    c = ", ".join(caught) if caught else "**missed**"
    if missed:
        c += f" (first missed by {missed}; check strengthened)"
    lines.append(f"| {d} | {own} | {summ[:230]} ({files}) | {c} | {how[:260]} |")
table = "\n".join(lines)
n = len(rows)
ncaught = sum(1 for r in rows if r[4])
own_caught = sum(1 for r in rows if r[1] in r[4])
text = f"""## 12. Seeded changes: which checks catch which realistic breakage

Fresh sub-agents were given ONLY the text of one property and a private scratch worktree of /repo
(nothing from /verif) and asked for up to three realistic changes that still compile, pass the
whole existing test-suite and break the property, each with a demonstration test. Every delivered
change was confirmed here in a scratch worktree (`tools/seedtest.py confirm`): the patch applies,
builds, the full suite passes, the demonstration fails on the changed tree and passes on the clean
one; only then was it kept under `seeded/<id>-m<k>/` (patch.diff, demo/, meta.json with the
outcome of the checks). The checks were run with `VERIF_REPO=<scratch worktree>` (equivalent to
`git -C /repo apply` + run + `git -C /repo checkout -- .`, without disturbing concurrent runs);
re-run any of them with `python3 tools/seedtest.py run <name> [check ids]`.

{n} confirmed changes; {ncaught} are reported as a VIOLATION by at least one quick-tier check,
{own_caught} by the check of the property they were written against. Where a change was first
missed, the generator or oracle was strengthened (never the other way round) and the change re-run —
so these totals are in-sample; the figures to quote are the FIRST-PASS ones, before any strengthening: round 4
22 of 24, round 5 15 of 18, round 6 32 of 40 reported (rounds 1–3: every first-pass miss is listed below; about nine in ten were
reported at once). About one in five of the reported changes is reported through a broken tie or call-order fact
only (`no-failing-input-found`), not with an input on which the oracle sees the property fail:

A bookkeeping accident of the first round is part of the record: for a while the Lean build was
broken by a merge in progress, every check failed with "lake build failed", and the evaluation
counted that as "caught". `seedtest.py` now sets infrastructure failures apart, and ALL changes
were re-evaluated from scratch against the repaired tree (twice, the second time after the five
repository repairs of the second day); a few changes no longer apply because a repair touched the
same lines, they keep their last honest result.

* C07-m2 / C01-r3m1 (committed block recorded once after the recursion, also when nothing was
  committed) was caught only now and then: the replica generator got a dedicated scenario — a
  commit, then a well-formed proposal on an older certified block whose own chain ends BELOW the
  committed block — and more weight on such forks; caught by C07 at every seed tried.
* C01-r2m2 / C01-m3 / C06-r3m3 (commitInner goes on when an ancestor cannot be fetched) were caught
  by C13 only: the cluster generator got `gap` runs (a replica hears nothing for several views, then
  everything, but can fetch only the newest blocks; fixed leader so that the others keep committing).
* C01-r2m3 (the parent = certified-block check is skipped when an aggregate QC is attached): injected
  proposals now carry unsolicited aggregate QCs in every configuration.
* C03-r2m3 (lastVotedView rolled back when the vote cannot be sent): the replica family got
  `sender-fails on|off` and an equivocating second proposal after a vote that could not be sent.
* C10-m1 / C10-r2m1 (the error of restoring a BLS signature is ignored: typed nil): wire deliveries
  got `trunc=` (signature bytes cut short). C10-r2m3 (nil guard of `QuorumCert.Equals`): the
  certificate family got the genesis QC against its twin with a present-but-empty signature through
  VerifyAnyQC — until repair 7d9bd97 stopped using `Equals` there; the change is now without effect
  on any production path and is the one entry nothing reports.
* C02-r2m1/m3, C02-m2 (duplicate signers far apart; participant count against QC map): new
  certificate mutation kinds `dup-apart`, `count-mismatch`.
* C11-r2m3 (BatchVerify builds its cache key with the message kind): `enc:<id>:<msg>` messages — a
  signature over the very bytes the cache hashes for a one-entry batch.
* C12-r2m1/m2/m3 (aggregate QC with an empty QC map dropped by ProposalFromProto; the fetch quorum
  function returns a non-matching reply; out-of-range timestamps not restored): empty aggregate QCs
  and timestamps outside timestamppb's range in the wire family, and the peer-fetch scripts of the
  block-store family run under C12 as well.
* C17-r2m3 (a childless Kauri node of height 2 takes the inner-node branch): the Kauri node is run
  in every position of every tree shape with n <= 13 under C17.
* Round 3 (after the repairs of the second day; 27 changes): C03-r3m2 (VerifyAnyQC returns after the
  view/hash comparison, skipping the verification of the block's own QC — a change that only became
  possible with repair 7d9bd97): proposals whose block carries a forged twin of the aggregate QC's
  high QC, in the certificate and the replica family. C06-r3m3 (commitInner goes on without an
  ancestor, written against C06 this time): the lagging-replica cluster runs also run under C06.
  C09-r3m1 (the voting machine's clean-up compares the vote being processed instead of the stored
  entries — different only when verification is ASYNCHRONOUS): the replica harness verified
  synchronously only; see §10/C09 for the asynchronous mode added for it.
  C11-r3m2 (cache key without part boundaries) led to repair 529e39b and the `cutA/cutB` parts of the
  certificate family. C18-r3m3 (Shuffle treats seed 0 as "no seed given" and seeds from the clock) was
  missed: the twins family now repeats a shuffle with the seeds 0, 1, -1 and the int64 extremes.
* Round 4 (third day, after the byte-form repairs; 24 changes, eight properties, the builders asked to stay away
  from what earlier rounds had touched): all reported. Two needed new scenarios first. C02-r4m1 (a BLS proof of
  possession that was REJECTED is remembered and treated as valid at the next look-up, so a rogue-key aggregate
  passes the second time): nothing configured a replica whose proof does not check out; the certificate family
  got `cfg … pop=<id>:bad|none|swap<j>` and scripts that verify every kind of object naming such a replica twice
  at every kind of verifier. C11-r4m1 (CreateQuorumCert stores the freshly combined signature in the cache as
  valid): the cache scripts now let the verifying replica itself combine votes for ANOTHER block and verify the
  result. Caught at once by the families added on the third day: C12-r4m1 (no length prefix for an empty batch)
  and C02-r4m3 / C13-r4m3 (view and timestamp truncated in the signed bytes) by the `bytes` family; C09-r4m1
  (Kauri `begin` keeps the senders of the last view) and C17-r4m3 (`IsSubSet` arguments swapped) by the whole-tree
  `ktree` family as well as the node family. C11-r4m3 (the key is inserted before the verification and removed
  on failure — sequentially equivalent) is reported through the call-order facts, not through a failing input.
* Round 5 (after repair a284fef and the change of the view-change oracle rules; 18 changes against C01, C03, C05,
  C07, C10, C15): 15 reported at once, three after new scenarios. C03-r5m3 (VerifyQuorumCert accepts a certificate
  that UNDERSTATES its view): relabelled certificates only went upwards, and a replica still waiting for the genuine
  certificate defers the proposal anyway; the replica is now moved into the proposal's view first. C07-r5m3
  (`hasDuplicateSigners` compares neighbours only): timeout certificates with signers (a, b, a, …) in new-view
  messages. C05-r5m2 (the proposer's walk over earlier blocks uses LocalGet, so a leader that fell behind cannot
  propose): lag runs with ROTATING leaders in which the member that fell behind leads the first view after the
  partition heals and knows the high QC from timeout messages only (corpus/clusterlive/03). C05-r5m1 (the timer is
  restarted before the new view is entered, so it never fires there) is reported through the call-order facts only:
  real timers are outside what the harness runs.
* Round 6 (fourth day, /repo at a284fef resp. 3b7dc98; 40 changes, two per property, every builder told which
  functions earlier rounds had touched and to stay away from them): 40 confirmed; at first pass 32 were reported by
  some quick-tier check, seven were reported by none and led to new scenarios, and one (C06-r6m2: `ExecCommand`
  answers at once for a command below the executed mark — and returns WITHOUT releasing the server lock) made the
  `clientio` harness wait for ever for that release; the harness now releases the lock itself when the handler has
  returned (as gorums does), a driver that hangs is given up after 240 s and only its first six scripts are re-run
  alone. After that all 40 are reported.
  C03-r6m2 (`serviceImpl.Propose` attributes a proposal to the proposer named IN the block instead of the peer that
  delivered it, so a non-leader can speak for the leader): wire deliveries always came from the block's proposer; a
  share of the wire proposals is now relayed by another peer, also in C03's runs. C16-r6m1 (round-robin remembers the
  replica count of its first use): every query built a fresh object; `rrgrow` asks ONE object while the configuration
  has k of n replicas and again when it is complete. C14-r6m1 (`AddEvent` puts an evicted ticker start event back and
  hides the eviction): tickers were outside the event-loop scripts; `ticker` now queues `AddTicker`'s start event
  (shown as `T<id>`; the model treats it as an event nobody is registered for). C13-r6m1 (`Get` re-reads the store
  after a failed fetch only when the fetch was CANCELLED — different only when a second `Get` of the same hash
  overlaps the fetch and takes the cancel function with it): `fetch-overlap` runs a complete second `Get` inside the
  scripted fetch (the store lock is not held there). C17-r6m1 (`heightOf` by a floating-point logarithm: one level
  off at the first position of a level, from bf = 10 with 112 replicas on): whole configurations at the level starts
  for bf 7..16 up to 320 replicas. C19-r6m1 (`extend` re-slices into spare capacity instead of appending zero bytes):
  the driver hands `BitfieldFromBytes` a prefix of a larger buffer whose other bytes are 0xff. C12-r6m1
  (`AggregateQCFromProto` decodes one QC per (view, hash) and reuses it): two different certificates for ONE block,
  attested by two replicas of one aggregate QC. Reported by other checks than their own only: C01-r6m1, C07-r6m1/m2,
  C08-r6m1, C11-r6m1, C20-r6m1/m2 (signature-cache and quorum-size changes: C02 / C11 / C08 / C20), C13-r6m2,
  C16-r6m2, C10-r6m1 (a Kauri contribution before the first proposal dereferences a nil block: the `kauri` family,
  which now also runs under C10). One builder's side remark became repair 3b7dc98 (§6).
* C08-m2 (`signedBy` accepts multi-signer view signatures) was missed: the timeout injection got
  a `multi-viewsig` kind (the sender's genuine signature combined with another replica's).
* C10-m3 (the RequestBlock handler converts the hash field with a slice-to-array conversion that
  panics on short hashes) was missed: the wire-level delivery only covered the four consensus
  handlers; `wire requestblock` now sends hash fields of 0..64 bytes and absent requests through
  the real handler.
* C18-m3 (the JSON scenario source decodes into a reused buffer) was missed: files were written
  with one scenario only; `jsonfilelit` now sends two different scenarios through one file.
* C19-m3 (EdDSA `Combine` compares signature pointers instead of signer ids) was missed: every
  replica signed once; now replicas sign a second time and both objects are combined.

{table}
"""
open(os.path.join(V, "seeded", "README.md"), "w").write(text)
dp = os.path.join(V, "DESIGN.md")
s = open(dp).read()
if "@@SECTION12@@" in s:
    s = s.replace("@@SECTION12@@", "<!-- SECTION12-BEGIN -->\n" + text + "<!-- SECTION12-END -->")
else:
    s = re.sub(r"<!-- SECTION12-BEGIN -->.*<!-- SECTION12-END -->", lambda m: "<!-- SECTION12-BEGIN -->\n" + text + "<!-- SECTION12-END -->", s, flags=re.S)
open(dp, "w").write(s)
print(n, "changes,", ncaught, "caught,", own_caught, "by own check")
