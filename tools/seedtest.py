#!/usr/bin/env python3
"""Confirm and evaluate seeded changes (property-breaking mutants written by sub-agents that saw
only the property text).

  tools/seedtest.py confirm <src-dir> <id> <k>   # src-dir/<id>/m<k>/{patch.diff,zz_demo_test.go,DEMO.txt,meta.json}
      -> in a scratch worktree of /repo HEAD: patch applies, builds, full existing suite passes,
         demo fails on the mutant and passes on the clean tree; then the checks listed for the
         property are run against the mutated worktree (VERIF_REPO) and the outcome is written to
         /verif/seeded/<id>-m<k>/{patch.diff,demo/,meta.json}
  tools/seedtest.py run <id>-m<k> [check ids...]  # re-run checks against a kept change
"""
import json, os, re, shutil, subprocess, sys, time

VERIF = os.path.dirname(os.path.dirname(os.path.abspath(__file__)))
REPO = "/repo"
ENV = dict(os.environ, GOFLAGS="-mod=mod", GOPROXY="off")
ENV.pop("GOTOOLCHAIN", None)


def sh(cmd, cwd=None, env=None, timeout=3600):
    r = subprocess.run(cmd, shell=True, cwd=cwd, env=env or ENV, stdout=subprocess.PIPE, stderr=subprocess.STDOUT, text=True, timeout=timeout)
    return r.returncode, r.stdout


def worktree(path):
    sh(f"git -C {REPO} worktree remove --force {path}")
    shutil.rmtree(path, ignore_errors=True)
    rc, out = sh(f"git -C {REPO} worktree add -f --detach {path} HEAD")
    assert rc == 0, out


def drop(path):
    sh(f"git -C {REPO} worktree remove --force {path}")
    shutil.rmtree(path, ignore_errors=True)
    sh(f"git -C {REPO} worktree prune")


def demo_info(d):
    meta = json.load(open(os.path.join(d, "meta.json")))
    txt = open(os.path.join(d, "DEMO.txt")).read() if os.path.exists(os.path.join(d, "DEMO.txt")) else ""
    path = meta.get("demo_test_path")
    if not path:
        m = re.search(r"([\w/.\-]+/zz_demo_test\.go)", txt)
        path = m.group(1) if m else None
    run = meta.get("demo_run")
    if not run:
        m = re.search(r"(go test [^\n]*)", txt)
        run = m.group(1) if m else None
    # builders sometimes write the paths of their own scratch worktree
    if path:
        path = re.sub(r"^/tmp/sm\d*-C\d+/", "", path)
    if run:
        run = re.sub(r"/tmp/sm\d*-C\d+/", "", run)
        run = re.sub(r"cd /tmp/sm\d*-C\d+\s*&&\s*", "", run)
    return meta, path, run


def run_checks(wt, ids, tier="quick"):
    res = {}
    for cid in ids:
        t0 = time.time()
        env = dict(ENV, VERIF_REPO=wt)
        rc, out = sh(f"./check {cid} --tier {tier}", cwd=VERIF, env=env, timeout=7200)
        viol = [l for l in out.splitlines() if l.startswith("VIOLATION")]
        replays = []
        for l in viol:
            m = re.search(r"replay=(\S+)", l)
            if m and os.path.exists(m.group(1)):
                head = open(m.group(1)).read().splitlines()[:3]
                replays.append({"file": os.path.basename(m.group(1)), "head": head, "no_failing_input": "no-failing-input-found" in l})
        infra = any("lake build failed" in " ".join(r["head"]) or "go build" in " ".join(r["head"]) and "FAILED" in " ".join(r["head"]) for r in replays)
        res[cid] = {"exit": rc, "caught": rc != 0 and bool(viol) and not infra, "infrastructure_failure": infra, "violations": len(viol), "replays": replays[:4], "wall_s": round(time.time() - t0, 1),
                    "tail": out.splitlines()[-3:]}
    return res


def confirm(src, pid, k, checks):
    d = os.path.join(src, pid, f"m{k}")
    meta, dpath, drun = demo_info(d)
    wt = f"/tmp/wt-seed-{pid}-{os.environ.get('SEED_TAG', '')}m{k}"
    out = {"property": pid, "mutant": f"m{k}", "summary": meta.get("summary"), "breaks": meta.get("breaks"), "needs": meta.get("needs"), "files": meta.get("files"),
           "functions": meta.get("functions"), "base_commit": sh(f"git -C {REPO} rev-parse --short HEAD")[1].strip()}
    worktree(wt)
    try:
        # demo on the clean tree
        if dpath and drun:
            os.makedirs(os.path.dirname(os.path.join(wt, dpath)), exist_ok=True)
            shutil.copy(os.path.join(d, "zz_demo_test.go"), os.path.join(wt, dpath))
            rc, o = sh(drun, cwd=wt, timeout=1800)
            out["demo_clean_exit"] = rc
            os.remove(os.path.join(wt, dpath))
        rc, o = sh(f"git apply {os.path.join(d, 'patch.diff')}", cwd=wt)
        out["applies"] = rc == 0
        if rc != 0:
            out["error"] = o[-500:]
            return out
        rc, o = sh("go build ./... && go vet ./... >/dev/null 2>&1; go test -vet=off -count=1 -run '^$' ./... 2>&1 | tail -3", cwd=wt)
        out["builds"] = rc == 0
        rc, o = sh("go test -vet=off -count=1 -timeout 25m ./... 2>&1 | grep -v '^ok\\|no test files' | tail -15", cwd=wt, timeout=3000)
        failed = [l for l in o.splitlines() if l.startswith("FAIL") or l.startswith("--- FAIL") or "panic:" in l]
        if failed:   # timing-sensitive tests: one retry of the failing packages
            pk = sorted({l.split()[1] for l in o.splitlines() if l.startswith("FAIL") and len(l.split()) > 1 and "/" in l.split()[1]})
            still = []
            for p in pk:
                rc2, o2 = sh(f"go test -vet=off -count=1 -timeout 25m {p} 2>&1 | tail -5", cwd=wt, timeout=3000)
                if "FAIL" in o2:
                    still.append(p)
            failed = still
        out["suite_passes"] = not failed
        out["suite_failures"] = failed
        if dpath and drun:
            shutil.copy(os.path.join(d, "zz_demo_test.go"), os.path.join(wt, dpath))
            rc, o = sh(drun, cwd=wt, timeout=1800)
            out["demo_mutant_exit"] = rc
            out["demo_mutant_tail"] = o.splitlines()[-6:]
            os.remove(os.path.join(wt, dpath))
        out["confirmed"] = bool(out.get("applies") and out.get("builds") and out.get("suite_passes") and out.get("demo_mutant_exit", 0) != 0
                                and out.get("demo_clean_exit", 1) == 0)
        out["checks"] = run_checks(wt, checks)
        out["caught_by"] = sorted(c for c, r in out["checks"].items() if r["caught"])
    finally:
        drop(wt)
    if out.get("confirmed"):
        dst = os.path.join(VERIF, "seeded", f"{pid}-{os.environ.get('SEED_TAG', '')}m{k}")
        os.makedirs(os.path.join(dst, "demo"), exist_ok=True)
        shutil.copy(os.path.join(d, "patch.diff"), dst)
        for f in ("zz_demo_test.go", "DEMO.txt"):
            if os.path.exists(os.path.join(d, f)):
                shutil.copy(os.path.join(d, f), os.path.join(dst, "demo"))
        json.dump(out, open(os.path.join(dst, "meta.json"), "w"), indent=1)
    return out


def rerun(name, checks, tier="quick"):
    dst = os.path.join(VERIF, "seeded", name)
    meta = json.load(open(os.path.join(dst, "meta.json")))
    wt = f"/tmp/wt-seed-{name}"
    worktree(wt)
    try:
        rc, o = sh(f"git apply {os.path.join(dst, 'patch.diff')}", cwd=wt)
        if rc != 0:
            print("patch no longer applies:", o)
            return
        res = run_checks(wt, checks or sorted(meta.get("checks", {})) or [meta["property"]], tier)
    finally:
        drop(wt)
    meta.setdefault("checks", {}).update(res)
    meta["caught_by"] = sorted(c for c, r in meta["checks"].items() if r["caught"])
    json.dump(meta, open(os.path.join(dst, "meta.json"), "w"), indent=1)
    print(name, "caught by", meta["caught_by"])


if __name__ == "__main__":
    if sys.argv[1] == "confirm":
        src, pid, k = sys.argv[2], sys.argv[3], int(sys.argv[4])
        checks = sys.argv[5:] or [pid]
        r = confirm(src, pid, k, checks)
        print(json.dumps({x: r.get(x) for x in ("property", "mutant", "summary", "applies", "builds", "suite_passes", "suite_failures", "demo_clean_exit", "demo_mutant_exit", "confirmed", "caught_by")}, indent=1))
    elif sys.argv[1] == "run":
        tier = "quick"
        args = sys.argv[3:]
        if args and args[0].startswith("--tier="):
            tier = args[0][7:]
            args = args[1:]
        rerun(sys.argv[2], args, tier)
