#!/usr/bin/env python3
"""Regenerate /verif/MANIFEST.json from the registry in vlib/props.py and validate it."""
import json, os, sys
ROOT = os.path.dirname(os.path.dirname(os.path.abspath(__file__)))
sys.path.insert(0, ROOT)
from vlib import props

ALL = ["C%02d" % i for i in range(1, 21)]
checks = []
for pid in ALL:
    p = props.PROPS.get(pid)
    if not p or props.META[pid].get("text") == "placeholder":
        continue   # not (yet) claimed
    m = props.META[pid]
    checks.append({
        "property_id": pid,
        "quick_cmd": f"./check {pid} --tier quick",
        "thorough_cmd": f"./check {pid} --tier thorough",
        "evidence_file": f"/verif/evidence/{pid}.json",
        "replay_cmd_template": f"./check {pid} --replay {{path}}",
        "engine": "lean-model+go-harness",
        "level_claimed": {"category": p.level, "text": m["text"], "design_ref": m.get("design_ref", "DESIGN.md §5 " + pid)},
        "level_note": m["note"],
        "technique": m.get("technique", "Lean 4 theorems over an executable model + differential correspondence with the Go code"),
    })
na = [{"property_id": pid, "reason": props.NOT_YET.get(pid, "not built yet in this session; see DESIGN.md §5 for the planned Lean model and tie")}
      for pid in ALL if pid not in props.PROPS or props.META[pid].get("text") == "placeholder"]
man = {
    "version": 1,
    "setup_cmd": "./setup.sh",
    "hooks": {
        "guard": "verif",
        "enable": "go build -tags verif -overlay build/overlay-*.json ./internal/verifharness (harness sources live in /verif/harness and are injected with -overlay; /repo is not modified)",
        "baseline_off_cmd": "cd /repo && GOFLAGS=-mod=mod go test -vet=off -count=1 -timeout 25m ./...",
        "source_commits": [],
        "add_only": True,
    },
    "engines": [
        {"name": "lean-model", "path": "/verif/lean/HsVerif", "serves_properties": sorted(props.PROPS), "kind_free_text": "Lean 4 executable model, property theorems (Props/), compiled model driver hsmodel"},
        {"name": "go-harness", "path": "/verif/harness", "serves_properties": sorted(props.PROPS), "kind_free_text": "Go driver calling the real code in-process, injected into /repo's module with go build -overlay"},
        {"name": "gofacts", "path": "/verif/tools/gofacts", "serves_properties": sorted(props.PROPS), "kind_free_text": "go/ast translator (Go -> Lean for straight-line integer functions) and syntactic fact extractor, re-run on every check"},
        {"name": "check", "path": "/verif/check", "serves_properties": sorted(props.PROPS), "kind_free_text": "orchestrator: regenerate, lake build + axiom audit, go build, correspondence, oracle, known findings, evidence"},
    ],
    "checks": checks,
    "not_applicable": na,
    "notes": "Technique: machine-checked proof in Lean 4 (model + theorems) tied to the code by a correspondence check and a small translator, both run on every check. See DESIGN.md.",
}
json.dump(man, open(os.path.join(ROOT, "MANIFEST.json"), "w"), indent=1)
try:
    import jsonschema
    jsonschema.validate(man, json.load(open("/root/.vp/MANIFEST.schema.json")))
    print("MANIFEST.json valid;", len(checks), "checks,", len(na), "not_applicable")
except ImportError:
    print("MANIFEST.json written (jsonschema not available to validate);", len(checks), "checks")
